"""Runs the repository's pinned test command and compares with /root/.vp/BASELINE.json (stable_pass)."""
import json, subprocess, sys, tempfile, os
import xml.etree.ElementTree as ET
base = json.load(open('/root/.vp/BASELINE.json'))
out = tempfile.mktemp(suffix='.xml')
cmd = base['cmd'].replace('<file>', out)
subprocess.run(cmd, shell=True, stdout=subprocess.DEVNULL, stderr=subprocess.DEVNULL)
passed = set()
for tc in ET.parse(out).getroot().iter('testcase'):
    if not any(ch.tag in ('failure', 'error', 'skipped') for ch in tc):
        passed.add(f"{tc.get('classname')}::{tc.get('name')}")
os.remove(out)
stable = set(base['stable_pass'])
missing = sorted(stable - passed)
print(f'stable_pass={len(stable)} now_passing={len(passed)} missing={len(missing)} extra={len(passed - stable)}')
for m in missing[:40]:
    print('MISSING', m)
sys.exit(1 if missing else 0)
