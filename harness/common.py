"""Shared machinery of the checks: seeded case generation, correspondence bookkeeping, verdict logic,
evidence and replay files.  See DESIGN.md §2.4.

Vocabulary
* disagreement  — model and implementation behave differently on a case (the correspondence broke)
* oracle failure — the property's own predicate, evaluated on the real implementation, is false on a
                  concrete input (a violation with a replay)
* obligation     — a Lean theorem of the property (or a table theorem re-checked against generated tables)
"""
from __future__ import annotations

import hashlib
import zlib
import json
import os
import random
import sys
import time
import traceback

HERE = os.path.dirname(os.path.abspath(__file__))
VERIF = os.path.dirname(HERE)
# evaluation runs on a deliberately broken tree (harness/seeded_eval.py) write their evidence elsewhere, so that the
# committed evidence always comes from runs of the registered commands on /repo as it is
EVIDENCE_DIR = os.environ.get('VERIF_EVIDENCE_DIR') or os.path.join(VERIF, 'evidence')
REPLAY_DIR = os.path.join(VERIF, 'replays')
KNOWN = os.path.join(VERIF, 'known_findings.json')


def load_known() -> list[dict]:
    if not os.path.exists(KNOWN):
        return []
    with open(KNOWN) as f:
        data = json.load(f)
    return [e for e in data.get('findings', []) if e.get('status', 'open') == 'open']


class Ctx:
    """Per-run context handed to a property module."""

    def __init__(self, prop: str, tier: str, seed: int, model, replay: dict | None = None,
                 shard: tuple[int, int] = (0, 1)) -> None:
        self.shard = shard
        self.prop = prop
        self.tier = tier
        self.seed = seed
        self.model = model
        self.replay = replay
        self.evaluations = 0
        self.nontrivial: set[str] = set()
        self.samples: list = []
        self.max_samples = 6
        self.disagreements: list[dict] = []
        self.failures: list[dict] = []   # oracle failures on the real implementation
        self.skipped = 0                 # cases outside the modelled fragment
        self.stats: dict[str, int] = {}
        self.notes: list[str] = []
        self.t0 = time.time()

    # -- randomness -----------------------------------------------------------------------
    def rng(self, stream: str, index: int) -> random.Random:
        """Every case derives its randomness from (seed, property, stream, index) only."""
        return random.Random(f'{self.seed}:{self.prop}:{stream}:{index}')

    def want(self, stream: str, index: int) -> bool:
        """When replaying, only the recorded case is regenerated."""
        if self.replay is not None:
            hit = self.replay.get('stream') == stream and self.replay.get('index') == index
            if hit:
                self.current = (stream, index)
            return hit
        k, n = self.shard
        # cases are dealt to the workers by a hash of (stream, index), not by `index % n`: the streams that walk a
        # deterministic grid (class = index % 6, …) would otherwise put every case of one kind on workers of one parity,
        # i.e. — for the properties whose workers alternate between the two 64-bit modes — in ONE mode only
        mine = zlib.crc32(f'{stream}:{index}'.encode()) % n == k
        if mine:
            self.current = (stream, index)       # the case being evaluated (used when it does not terminate)
            pf = getattr(self, 'progress_file', None)
            if pf:
                with open(pf, 'w') as f:
                    f.write(f'{stream}\t{index}')
        return mine

    # -- bookkeeping ----------------------------------------------------------------------
    def count(self, key: str, n: int = 1) -> None:
        self.stats[key] = self.stats.get(key, 0) + n

    def case(self, canonical: str, nontrivial: bool, sample=None) -> None:
        self.evaluations += 1
        if nontrivial:
            self.nontrivial.add(hashlib.sha1(canonical.encode()).hexdigest())
        if sample is not None and len(self.samples) < self.max_samples:
            self.samples.append(sample)

    def disagree(self, stream: str, index: int, what: str, detail: dict) -> None:
        self.disagreements.append({'stream': stream, 'index': index, 'seed': self.seed, 'what': what, 'detail': detail})

    def in_domain(self, stream: str, index: int, esx, detail: dict, cmd: str = 'valid', allow=()) -> bool:
        """Is the (encoded, real) operator inside the domain the closed theorems quantify over?  The driver decides
        `WTExpr … listLeafOK` (FuraxModel/Valid.lean; `Valid.validb_iff`: sound AND complete, up to the invertibility of
        the operands of lazy inverses).  An operator the library built that lies outside it means the theorems say
        nothing about that operator: a broken tie, reported as a disagreement with the failing clause."""
        rep = self.model.ask([cmd, esx])
        if rep[0] == 'unsupported':
            self.count(f'{cmd}:unsupported')
            return True
        if rep[0] != 'ok':
            self.disagree(stream, index, f'{cmd}: model replied {str(rep)[:120]}', detail)
            return False
        if rep[1] == 'T':
            self.count(f'{cmd}:in-domain')
            return True
        reason = rep[2] if len(rep) > 2 else '?'
        self.count(f'{cmd}:outside:{reason}')
        if not any(reason.startswith(a) for a in allow):
            self.disagree(stream, index, f'the library built an operator outside the domain of the closed theorems '
                          f'({cmd}: {reason})', detail)
        return False

    def dump(self) -> dict:
        return {'evaluations': self.evaluations, 'nontrivial': sorted(self.nontrivial),
                'samples': self.samples, 'disagreements': self.disagreements, 'failures': self.failures,
                'skipped': self.skipped, 'stats': self.stats, 'notes': self.notes}

    def merge(self, d: dict) -> None:
        self.evaluations += d['evaluations']
        self.nontrivial |= set(d['nontrivial'])
        for x in d['samples']:
            if len(self.samples) < self.max_samples:
                self.samples.append(x)
        self.disagreements += d['disagreements']
        self.failures += d['failures']
        self.skipped += d['skipped']
        for k, v in d['stats'].items():
            self.stats[k] = self.stats.get(k, 0) + v
        for n in d['notes']:
            if n not in self.notes:
                self.notes.append(n)

    def fail(self, stream: str, index: int, signature: str, what: str, detail: dict) -> None:
        """The property predicate is false on the real implementation for this case."""
        self.failures.append({'stream': stream, 'index': index, 'seed': self.seed, 'signature': signature,
                              'what': what, 'detail': detail})


def _short(obj, limit=2000):
    s = json.dumps(obj, default=str)
    return s if len(s) <= limit else s[:limit] + '…'


def write_replay(prop: str, seed: int, tier: str, kind: str, payload: dict) -> str:
    os.makedirs(REPLAY_DIR, exist_ok=True)
    body = {'property': prop, 'seed': seed, 'tier': tier, 'kind': kind, **payload}
    h = hashlib.sha1(json.dumps(body, sort_keys=True, default=str).encode()).hexdigest()[:12]
    path = os.path.join(REPLAY_DIR, f'{prop}-{h}.json')
    with open(path, 'w') as f:
        json.dump(body, f, indent=1, default=str)
    return path


def verdict(ctx: Ctx, proof: dict, meta: dict) -> int:
    """Prints KNOWN-FINDING / VIOLATION lines, writes evidence, returns the exit code.

    `proof` = {'obligations': n, 'discharged': m, 'axioms': {...}, 'broken': [names], 'checker_cmd': str,
               'build_ok': bool, 'log': str}
    """
    known = load_known()
    exit_code = 0
    violations = 0
    seen_known: set[str] = set()
    reported: set[str] = set()

    for f in ctx.failures:
        k = next((e for e in known if e['property'] == ctx.prop and e['match'] == f['signature']), None)
        if k is not None:
            if k['match'] not in seen_known:
                seen_known.add(k['match'])
                print(f"KNOWN-FINDING: property={ctx.prop} {k['what']}")
            continue
        if f['signature'] in reported:
            continue
        reported.add(f['signature'])
        path = write_replay(ctx.prop, f.get('seed', ctx.seed), ctx.tier, 'failing-input', f)
        print(f'VIOLATION property={ctx.prop} replay={path}')
        print(f"  failing input on the implementation: {f['what']}", file=sys.stderr)
        violations += 1
        exit_code = 1

    # a broken correspondence or proof obligation without a failing input
    explained = violations > 0   # an unlisted failing input was exhibited (known findings explain nothing)
    if ctx.disagreements and not explained:
        d = ctx.disagreements[0]
        path = write_replay(ctx.prop, d.get('seed', ctx.seed), ctx.tier, 'correspondence-broken',
                            {'correspondence': f'{ctx.prop.lower()} model/implementation comparison',
                             'first': d, 'count': len(ctx.disagreements)})
        print(f'VIOLATION property={ctx.prop} replay={path} no-failing-input-found')
        print(f"  correspondence broke: {d['what']}", file=sys.stderr)
        violations += 1
        exit_code = 1
    if proof.get('broken') and not explained:
        path = write_replay(ctx.prop, ctx.seed, ctx.tier, 'proof-broken',
                            {'theorems': proof['broken'], 'log': proof.get('log', '')[-4000:]})
        print(f'VIOLATION property={ctx.prop} replay={path} no-failing-input-found')
        print(f"  proof obligations no longer check: {proof['broken']}", file=sys.stderr)
        violations += 1
        exit_code = 1

    write_evidence(ctx, proof, meta, violations)
    return exit_code


def write_evidence(ctx: Ctx, proof: dict, meta: dict, violations: int) -> None:
    os.makedirs(EVIDENCE_DIR, exist_ok=True)
    coverage = {
        'obligations': proof.get('obligations', 0),
        'discharged': proof.get('discharged', 0),
        'checker_cmd': proof.get('checker_cmd', ''),
        'trusted_base': meta.get('trusted_base', []),
        'theorems': proof.get('theorems', []),
        'axioms_used': proof.get('axioms', []),
        'evaluations': ctx.evaluations,
        'distinct_nontrivial': len(ctx.nontrivial),
        'traces_validated_against_impl': ctx.evaluations - ctx.skipped,
        'rule': meta.get('rule', ''),
        'samples': ctx.samples if ctx.samples else [meta.get('sample_fallback', 'no case generated')],
        'distribution': ctx.stats,
        'disagreements': len(ctx.disagreements),
        'oracle_failures': len(ctx.failures),
        'skipped_outside_model': ctx.skipped,
        'exhaustive': bool(meta.get('exhaustive', False)),
        'seeds_explored': [ctx.seed + 1000 * r for r in range(getattr(ctx, 'rounds', 1))],
        'independent_recheck': proof.get('leanchecker', 'not run in this tier'),
        'notes': ctx.notes,
    }
    ev = {
        'property_id': ctx.prop,
        'tier': ctx.tier,
        'seed': ctx.seed,
        'level': 'proof',
        'coverage': coverage,
        'assumptions': meta.get('assumptions', []),
        'wall_s': round(time.time() - ctx.t0, 2),
        'violations': violations,
    }
    with open(os.path.join(EVIDENCE_DIR, f'{ctx.prop}.json'), 'w') as f:
        json.dump(ev, f, indent=1, default=str)


def safe(fn, *a, **k):
    """Runs fn, mapping exceptions to a small enum as the model does."""
    try:
        return 'ok', fn(*a, **k)
    except ValueError as e:
        return 'ValueError', e
    except TypeError as e:
        return 'TypeError', e
    except NotImplementedError as e:
        return 'NotImplementedError', e
    except ZeroDivisionError as e:
        return 'ZeroDivisionError', e
    except IndexError as e:
        return 'IndexError', e
    except AttributeError as e:
        return 'AttributeError', e
    except AssertionError as e:
        return 'AssertionError', e
    except Exception as e:  # noqa: BLE001
        return type(e).__name__, e
