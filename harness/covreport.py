"""Diagnostic (not a registered check): which lines / branches of the files a property is anchored in does the
property's correspondence run execute?  A line no case executes cannot be the place where a breaking change is
detected, so the unexecuted lines are a to-do list for the generators.

usage: covreport.py C01 [C02 ...] [--tier quick]   ->  coverage/<prop>.txt (missing lines with their source text)
"""
from __future__ import annotations

import glob
import json
import os
import shutil
import subprocess
import sys
import tempfile

VERIF = os.path.dirname(os.path.dirname(os.path.abspath(__file__)))


def main() -> int:
    import coverage
    props = [a for a in sys.argv[1:] if not a.startswith('--')]
    tier = 'quick'
    if '--tier' in sys.argv:
        tier = sys.argv[sys.argv.index('--tier') + 1]
    anchors = {}
    for line in open(os.path.join(VERIF, 'properties.jsonl')):
        p = json.loads(line)
        anchors[p['id']] = p['anchors'].get('files', [])
    os.makedirs(os.path.join(VERIF, 'coverage'), exist_ok=True)
    for prop in props:
        tmp = tempfile.mkdtemp(prefix='furax-cov-')
        env = dict(os.environ, VERIF_COVERAGE=tmp)
        r = subprocess.run([os.path.join(VERIF, 'check'), prop, '--tier', tier], env=env, text=True,
                           capture_output=True)
        files = glob.glob(os.path.join(tmp, '*.cov'))
        cov = coverage.Coverage(data_file=os.path.join(tmp, 'merged'), branch=True, include=['/repo/src/furax/*'])
        cov.combine(files, keep=True)
        out = [f'# {prop} tier={tier} exit={r.returncode}  {r.stdout.strip().splitlines()[-1] if r.stdout.strip() else ""}']
        for rel in anchors[prop]:
            path = os.path.join('/repo', rel)
            try:
                _, stmts, excl, missing, _ = cov.analysis2(path)
            except Exception as e:  # noqa: BLE001
                out.append(f'## {rel}: no data ({e})')
                continue
            src = open(path).read().split('\n')
            an = cov._analyze(path)
            mb = an.missing_branch_arcs()
            out.append(f'## {rel}: {len(stmts) - len(missing)}/{len(stmts)} statements, '
                       f'{sum(len(v) for v in mb.values())} missing branch arcs')
            for ln in missing:
                out.append(f'  L{ln}: {src[ln - 1].rstrip()}')
            for ln, dests in sorted(mb.items()):
                if ln in missing:
                    continue
                out.append(f'  B{ln}->{",".join(str(d) for d in dests)}: {src[ln - 1].strip()}')
        open(os.path.join(VERIF, 'coverage', f'{prop}.txt'), 'w').write('\n'.join(out) + '\n')
        print(out[0])
        shutil.rmtree(tmp, ignore_errors=True)
    return 0


if __name__ == '__main__':
    sys.exit(main())
