"""Developer helper: run a property module without build/audit and print what it found."""
import importlib, os, sys, time
HERE = os.path.dirname(os.path.abspath(__file__))
sys.path.insert(0, HERE); sys.path.insert(0, os.path.join(HERE, 'props'))
os.environ.setdefault('JAX_PLATFORMS', 'cpu')
from common import Ctx
from model import Model
prop = sys.argv[1].upper(); tier = sys.argv[2] if len(sys.argv) > 2 else 'quick'
seed = int(os.environ.get('VERIF_SEED', '0'))
mod = importlib.import_module(prop.lower())
m = Model(); ctx = Ctx(prop, tier, seed, m)
t = time.time()
mod.run(ctx)
print(f'{prop} cases={ctx.evaluations} nontrivial={len(ctx.nontrivial)} skipped={ctx.skipped} wall={time.time()-t:.1f}')
print({k: v for k, v in sorted(ctx.stats.items())})
for d in ctx.disagreements[:int(os.environ.get('SHOW', '6'))]:
    print('DISAGREE', d['stream'], d['index'], d['what'][:600])
for f in ctx.failures[:int(os.environ.get('SHOW', '10'))]:
    print('FAIL', f['stream'], f['index'], f['signature'], '|', f['what'][:300], '|', str(f.get('detail', {}).get('planted', ''))[:100])
