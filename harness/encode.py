"""Encoding of live furax objects into the S-expressions understood by the Lean model driver.

The encoder is part of the trusted tie between model and code: it decides what the model is told.
It reads every field by introspection of the real object (nothing is recomputed), uses ``id()`` so that
Python object identity is visible to the model, and keeps every encoded object alive so that ids are
never reused within a case.
"""
from __future__ import annotations

from fractions import Fraction
from types import EllipsisType

import jax
import numpy as np

from furax._base.core import AbstractLinearOperator

_REG = jax.tree_util.default_registry


# ----------------------------------------------------------------------------------------------
# S-expressions (Python side): nested lists of str
# ----------------------------------------------------------------------------------------------
def sx(e) -> str:
    if isinstance(e, str):
        return e
    return '(' + ' '.join(sx(x) for x in e) + ')'


def parse_sx(s: str):
    toks = s.replace('(', ' ( ').replace(')', ' ) ').split()
    pos = 0

    def rec():
        nonlocal pos
        t = toks[pos]
        pos += 1
        if t == '(':
            out = []
            while toks[pos] != ')':
                out.append(rec())
            pos += 1
            return out
        return t

    e = rec()
    if pos != len(toks):
        raise ValueError('trailing tokens')
    return e


def first_diff(a, b, path=()):
    """Path and values of the first difference between two parsed S-expressions (or None)."""
    if isinstance(a, str) or isinstance(b, str):
        if a == b:
            return None
        if isinstance(a, str) and isinstance(b, str) and '/' in a + b:
            # a float32 value against the model's exact rational (e.g. 1/3): equal up to rounding
            try:
                fa, fb = float(Fraction(a)), float(Fraction(b))
                if abs(fa - fb) <= 1e-6 * max(1.0, abs(fa), abs(fb)):
                    return None
            except (ValueError, ZeroDivisionError):
                pass
        return (path, a, b)
    if len(a) != len(b):
        return (path, f'len {len(a)}: {sx(a)[:200]}', f'len {len(b)}: {sx(b)[:200]}')
    for i, (x, y) in enumerate(zip(a, b)):
        d = first_diff(x, y, path + (i,))
        if d is not None:
            return d
    return None


# ----------------------------------------------------------------------------------------------
# numbers
# ----------------------------------------------------------------------------------------------
def rat(v) -> str:
    f = Fraction(float(v))
    return str(f.numerator) if f.denominator == 1 else f'{f.numerator}/{f.denominator}'


def frac_str(f: Fraction) -> str:
    return str(f.numerator) if f.denominator == 1 else f'{f.numerator}/{f.denominator}'


def tensor(arr) -> list:
    a = np.asarray(arr)
    return ['V', [str(d) for d in a.shape], [rat(v) for v in a.ravel().tolist()]]


EMPTY_TENSOR = ['V', [], []]


# ----------------------------------------------------------------------------------------------
# pytrees
# ----------------------------------------------------------------------------------------------
def _tag(obj, aux) -> str:
    name = type(obj).__name__
    if isinstance(obj, dict):
        return 'dict:' + ','.join(str(k) for k in sorted(obj))
    if isinstance(obj, list):
        return 'list'
    if isinstance(obj, tuple) and type(obj) is tuple:
        return 'tuple'
    if obj is None:
        return 'none'
    stokes = getattr(type(obj), 'stokes', None)
    if isinstance(stokes, str) and name.startswith('Stokes'):
        return 'stokes:' + stokes
    return 'node:' + name


def flatten_tokens(tree, is_leaf=None):
    """(tokens, leaves) of a pytree in prefix order, consistent with jax.tree.flatten."""
    toks: list = []
    leaves: list = []

    def rec(x):
        if is_leaf is not None and is_leaf(x):
            toks.append('L')
            leaves.append(x)
            return
        one = _REG.flatten_one_level(x)
        if one is None:
            toks.append('L')
            leaves.append(x)
            return
        children, aux = one
        children = list(children)
        toks.append(['N', _tag(x, aux), str(len(children))])
        for c in children:
            rec(c)

    rec(tree)
    return toks, leaves


def dtype_name(dt) -> str:
    return np.dtype(dt).name


def struct(s) -> list:
    toks, leaves = flatten_tokens(s, is_leaf=lambda x: isinstance(x, jax.ShapeDtypeStruct))
    return ['S', toks, [[[str(d) for d in l.shape], dtype_name(l.dtype)] for l in leaves]]


def structure_of_value(v) -> list:
    toks, leaves = flatten_tokens(v)
    return ['S', toks, [[[str(d) for d in np.shape(l)], dtype_name(l.dtype)] for l in leaves]]


def value(v) -> list:
    """A pytree of arrays: (PV tokens (tensor...))"""
    toks, leaves = flatten_tokens(v)
    return ['PV', toks, [tensor(l) for l in leaves]]


# ----------------------------------------------------------------------------------------------
# operators
# ----------------------------------------------------------------------------------------------
def _opt(i) -> str:
    return 'N' if i is None else str(int(i))


def idx_entry(e) -> object:
    if e is Ellipsis or isinstance(e, EllipsisType):
        return 'E'
    if isinstance(e, slice):
        return ['s', _opt(e.start), _opt(e.stop), _opt(e.step)]
    if isinstance(e, (int, np.integer)) and not isinstance(e, (bool, np.bool_)):
        return ['i', str(int(e))]
    a = np.asarray(e)
    if a.dtype == bool:
        return ['ba', [str(d) for d in a.shape], ['T' if v else 'F' for v in a.ravel().tolist()]]
    return ['ia', [str(d) for d in a.shape], [str(int(v)) for v in a.ravel().tolist()]]


WRAPS = {
    'TransposeOperator', 'InverseOperator', 'ReshapeTransposeOperator',
    'QURotationTransposeOperator', 'DiagonalInverseOperator',
    'ToastObservationMatrixTransposeOperator',
}
CONTS = {
    'AdditionOperator': 'operands', 'BlockRowOperator': 'blocks',
    'BlockDiagonalOperator': 'blocks', 'BlockColumnOperator': 'blocks',
}
LEAVES = {
    'IdentityOperator', 'HomothetyOperator', 'DiagonalOperator', 'BroadcastDiagonalOperator',
    'IndexOperator', 'PackOperator', 'MoveAxisOperator', 'RavelOperator', 'ReshapeOperator',
    'QURotationOperator', 'HWPOperator', 'LinearPolarizerOperator', 'DenseBlockDiagonalOperator',
    'SymmetricBandToeplitzOperator', 'ToastObservationMatrixOperator',
}


def is_op(x) -> bool:
    return isinstance(x, AbstractLinearOperator)


class Encoder:
    """Encodes operators; remembers the objects it has seen so that ids stay meaningful."""

    def __init__(self) -> None:
        self.ids: dict[int, int] = {}
        self.keep: list = []
        self.frozen = False

    def uid(self, obj) -> str:
        k = id(obj)
        if k in self.ids:
            return str(self.ids[k])
        if self.frozen:
            return '0'
        self.ids[k] = len(self.ids) + 1
        self.keep.append(obj)
        return str(self.ids[k])

    def freeze(self) -> None:
        """After the inputs are encoded: objects not seen so far are 'new' (uid 0)."""
        self.frozen = True

    def params(self, op, vals=EMPTY_TENSOR, ints=(), idx=(), flag=False, s='_') -> list:
        return ['P', struct(op.in_structure()), struct(op.out_structure()), vals,
                [[str(int(i)) for i in l] for l in ints], list(idx), 'T' if flag else 'F', s or '_']

    def op(self, o) -> list:
        name = type(o).__name__
        if name == 'CompositionOperator':
            u = self.uid(o)
            return ['comp', u] + [self.op(x) for x in o.operands]
        if name in CONTS:
            u = self.uid(o)
            toks, leaves = flatten_tokens(getattr(o, CONTS[name]), is_leaf=is_op)
            return ['cont', u, name, toks] + [self.op(x) for x in leaves]
        if name in WRAPS:
            u = self.uid(o)
            return ['wrap', u, name, self.op(o.operator)]
        u = self.uid(o)
        if name == 'IdentityOperator' or name in ('HWPOperator', 'LinearPolarizerOperator'):
            p = self.params(o)
        elif name == 'HomothetyOperator':
            p = self.params(o, vals=tensor(o.value))
        elif name in ('DiagonalOperator', 'BroadcastDiagonalOperator'):
            p = self.params(o, vals=tensor(o._diagonal), ints=[o.axis_destination])
        elif name == 'IndexOperator':
            p = self.params(o, idx=[idx_entry(e) for e in o.indices], flag=bool(o.unique_indices))
        elif name == 'PackOperator':
            p = self.params(o, idx=[idx_entry(o.mask)])
        elif name == 'MoveAxisOperator':
            p = self.params(o, ints=[o.source, o.destination])
        elif name == 'RavelOperator':
            p = self.params(o, ints=[[o.first_axis, o.last_axis]])
        elif name == 'ReshapeOperator':
            p = self.params(o, ints=[o.shape])
        elif name == 'QURotationOperator':
            p = self.params(o, vals=tensor(o.angles))
        elif name == 'DenseBlockDiagonalOperator':
            blocks = o.blocks
            v = tensor(blocks) if hasattr(blocks, 'shape') else EMPTY_TENSOR
            p = self.params(o, vals=v, s=o.subscripts)
        elif name == 'SymmetricBandToeplitzOperator':
            p = self.params(o, vals=tensor(o.band_values),
                            ints=[[-1 if o.fft_size is None else int(o.fft_size)]], s=o.method)
        elif name == 'ToastObservationMatrixOperator':
            p = self.params(o)
        else:
            p = self.params(o, s=name)
            name = 'Opaque'
        return ['leaf', u, name, p]
