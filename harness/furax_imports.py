"""Imports every furax module in one fixed order.

The order in which modules are imported determines the order of BINARY_RULE_REGISTRY (rules register
themselves when their class body is executed), so the translator and every correspondence harness import
furax through this module.  The order below is the one obtained by `import furax; import furax.operators;
…` as a user following the README would do.
"""
import furax  # noqa: F401  (tree, _base.axes, _base.config)
import furax.operators  # noqa: F401  (_base.core, _base.linear)
import furax._base.blocks  # noqa: F401
import furax._base.indices  # noqa: F401
import furax._base.dense  # noqa: F401
import furax._base.diagonal  # noqa: F401
import furax.operators.qu_rotations  # noqa: F401
import furax.operators.hwp  # noqa: F401
import furax.operators.polarizers  # noqa: F401
import furax.operators.toeplitz  # noqa: F401
import furax.landscapes  # noqa: F401
import furax.projections  # noqa: F401
import furax.instruments.sat  # noqa: F401
import furax.toast.obs_matrix  # noqa: F401
