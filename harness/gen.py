"""Type-directed generators of furax operators and expressions (DESIGN.md Appendix D).

All randomness comes from the `random.Random` handed in.  All numeric parameters are small integers
or dyadic rationals so that float32 arithmetic on them is exact and results can be compared exactly
with the model's rationals.
"""
from __future__ import annotations

import random

import furax_imports  # noqa: F401
import jax
import jax.numpy as jnp
import numpy as np
from furax._base.axes import MoveAxisOperator, RavelOperator, ReshapeOperator
from furax._base.blocks import BlockColumnOperator, BlockDiagonalOperator, BlockRowOperator
from furax._base.core import (
    AdditionOperator,
    CompositionOperator,
    HomothetyOperator,
    IdentityOperator,
    InverseOperator,
)
from furax._base.dense import DenseBlockDiagonalOperator
from furax._base.diagonal import BroadcastDiagonalOperator, DiagonalOperator
from furax._base.indices import IndexOperator
from furax._base.linear import PackOperator
from furax.landscapes import StokesPyTree
from furax.operators.hwp import HWPOperator
from furax.operators.polarizers import LinearPolarizerOperator
from furax.operators.qu_rotations import QURotationOperator
from furax.operators.toeplitz import SymmetricBandToeplitzOperator

F32 = jnp.float32
SCALARS = [2.0, -1.0, 0.5, 4.0, -2.0, 3.0, 0.25]
DIAGVALS = [1.0, 2.0, -1.0, 4.0, 0.5, -2.0, 3.0]
ANGLES = [0.0, 0.5, -0.5, 0.25, 1.0, -1.5, 2.0, 0.125]


def S(*shape, dtype=F32):
    return jax.ShapeDtypeStruct(tuple(shape), dtype)


def leaves_of(s):
    return jax.tree.leaves(s)


def is_stokes(s) -> bool:
    return isinstance(s, StokesPyTree)


def is_single_array(s) -> bool:
    return isinstance(s, jax.ShapeDtypeStruct)


def random_structure(rng: random.Random, dtype=F32):
    k = rng.random()
    if k < 0.30:
        return S(rng.choice([2, 3, 4, 5]), dtype=dtype)
    if k < 0.45:
        return S(*rng.choice([(2, 3), (3, 2), (2, 2), (1, 3)]), dtype=dtype)
    if k < 0.50:
        n = rng.choice([2, 3])
        return [S(n, dtype=dtype), S(n, dtype=dtype)]
    if k < 0.55:
        return [S(2, 3, dtype=dtype), S(2, 3, dtype=dtype)]
    if k < 0.63:
        n = rng.choice([2, 3])
        if rng.random() < 0.5:
            # leaves of different rank, the one an axis operator leaves alone FIRST in flatten order
            return {'a': S(n, dtype=dtype), 'b': S(n, 2, dtype=dtype)}
        return {'b': S(n, dtype=dtype), 'a': S(n, 2, dtype=dtype)}
    if k < 0.70:
        return (S(2, dtype=dtype), [S(2, dtype=dtype), S(2, dtype=dtype)])
    kind = rng.choice(['I', 'QU', 'IQU', 'IQUV'])
    shape = rng.choice([(2,), (3,), (2, 2)])
    return StokesPyTree.class_for(kind).structure_for(shape, dtype)


def arr(vals, dtype=F32):
    return jnp.asarray(np.asarray(vals, dtype=np.float64), dtype=dtype)


# ------------------------------------------------------------------------------------------------
# leaf operators with a prescribed input structure
# ------------------------------------------------------------------------------------------------
def common_last_dim(s):
    dims = {l.shape[-1] for l in leaves_of(s) if len(l.shape) >= 1}
    if len(dims) == 1 and all(len(l.shape) >= 1 for l in leaves_of(s)):
        return dims.pop()
    return None


def common_first_dim(s):
    dims = {l.shape[0] for l in leaves_of(s) if len(l.shape) >= 1}
    if len(dims) == 1 and all(len(l.shape) >= 1 for l in leaves_of(s)):
        return dims.pop()
    return None


def dtype_of(s):
    """dtype for operator parameters: the narrowest leaf dtype (parameters no wider than the data)"""
    dts = [np.dtype(l.dtype) for l in leaves_of(s)]
    return min(dts, key=lambda d: d.itemsize).type


def mk_identity(rng, s):
    return IdentityOperator(s)


def mk_homothety(rng, s):
    """a scalar operator: the scale is a strongly typed 0-d array of the data dtype, or — as users write `2 * A`,
    `A / 3`, `-A` — a weakly typed Python float / int, or an integer-typed 0-d array"""
    k = rng.random()
    if k < 0.5:
        return HomothetyOperator(jnp.asarray(rng.choice(SCALARS), dtype=dtype_of(s)), s)
    if k < 0.7:
        return HomothetyOperator(float(rng.choice(SCALARS)), s)
    if k < 0.9:
        return HomothetyOperator(int(rng.choice([2, 3, -1, -2, 4])), s)
    return HomothetyOperator(jnp.asarray(rng.choice([2, 3, -1, 4]), dtype=jnp.int32), s)


def mk_diagonal(rng, s, allow_zero=False):
    d = common_last_dim(s)
    if d is None:
        return None
    pool = DIAGVALS + ([0.0, 0.0] if allow_zero else [])
    vals = [rng.choice(pool) for _ in range(d)]
    return DiagonalOperator(maybe_numpy(rng, arr(vals, dtype_of(s))), axis_destination=-1, in_structure=s)


def mk_diagonal_first(rng, s):
    d = common_first_dim(s)
    if d is None:
        return None
    vals = [rng.choice(DIAGVALS) for _ in range(d)]
    return DiagonalOperator(arr(vals, dtype_of(s)), axis_destination=0, in_structure=s)


def index_out_structure(s, indices):
    return jax.tree.map(
        lambda l: jax.ShapeDtypeStruct(np.empty(l.shape, np.int8)[indices].shape, l.dtype), s)


def mk_index_multi(rng, s):
    """index tuples touching two axes (or one axis through an ellipsis): integers, partial slices, an integer
    array next to a partial slice — duplicate-free unless the array repeats a value"""
    shapes = {l.shape for l in leaves_of(s)}
    if len(shapes) != 1:
        return None
    shape = shapes.pop()
    if len(shape) < 2:
        return None
    n0, n1, nl = shape[0], shape[1], shape[-1]

    def part(n):
        a = rng.randint(0, n - 1)
        return slice(a, rng.randint(a + 1, n))
    form = rng.choice(['int-slice', 'slice-int', 'slice-slice', 'slice-ellipsis-int', 'ellipsis-slice', 'arr-slice',
                       'int-int'])
    uflag = None
    if form == 'int-slice':
        indices = (rng.randint(-n0, n0 - 1), part(n1))
    elif form == 'slice-int':
        indices = (part(n0), rng.randint(-n1, n1 - 1))
    elif form == 'slice-slice':
        indices = (part(n0), part(n1))
    elif form == 'slice-ellipsis-int':
        indices = (part(n0), Ellipsis, rng.randint(-nl, nl - 1))
    elif form == 'ellipsis-slice':
        indices = (Ellipsis, part(nl))
    elif form == 'int-int':
        indices = (rng.randint(-n0, n0 - 1), rng.randint(-n1, n1 - 1))
    else:
        vals = [rng.randint(-n0, n0 - 1) for _ in range(rng.randint(1, n0 + 1))]
        norm = [v + n0 if v < 0 else v for v in vals]
        if len(set(norm)) == len(norm) and rng.random() < 0.6:
            uflag = True
        indices = (np.asarray(vals, dtype=np.int32), part(n1))
    out = index_out_structure(s, indices)
    if any(len(l.shape) == 0 or 0 in l.shape for l in leaves_of(out)):
        return None        # the other generators assume leaves with at least one non-empty axis
    jind = tuple(jnp.asarray(e) if isinstance(e, np.ndarray) else e for e in indices)
    return IndexOperator(jind, in_structure=s, out_structure=out, unique_indices=uflag)


def mk_index(rng, s, force_unique=None, negative=True):
    n = common_first_dim(s)
    if n is None:
        return None
    if force_unique is None and rng.random() < 0.2:
        o = mk_index_multi(rng, s)
        if o is not None:
            return o
    k = rng.random()
    if k < 0.70:
        m = rng.randint(1, 2 * n)
        lo = -n if negative else 0
        idx = [rng.randint(lo, n - 1) for _ in range(m)]
        if not force_unique and negative and n >= 2 and rng.random() < 0.4:
            # negative aliases without any literally repeated value: k and k - n select the same element
            k0 = rng.randrange(n)
            others = [p for p in rng.sample(range(n), rng.randint(0, n - 1)) if p != k0]
            idx = [k0, k0 - n] + others
            rng.shuffle(idx)
        if force_unique is None and n >= 3 and rng.random() < 0.2:
            # the values of a contiguous range a..b, but NOT in order (a permutation keeping the end points, or a repeat)
            a = rng.randint(0, n - 3)
            b = rng.randint(a + 2, n - 1)
            mid = list(range(a + 1, b))
            rng.shuffle(mid)
            if rng.random() < 0.5 and mid:
                mid[rng.randrange(len(mid))] = rng.choice([a, b] + mid)
            idx = [a] + mid + [b]
        if force_unique is True:
            m = rng.randint(1, n)
            pos = rng.sample(range(n), m)
            idx = [p - n if (negative and rng.random() < 0.4) else p for p in pos]
        npidx = np.asarray(idx, dtype=np.int32)
        indices = (jnp.asarray(npidx),)
        norm = [i + n if i < 0 else i for i in idx]
        is_unique = len(set(norm)) == len(norm)
        uflag = None
        if is_unique and (force_unique or rng.random() < 0.5):
            uflag = True
        out = index_out_structure(s, (npidx,))
        return IndexOperator(indices, in_structure=s, out_structure=out, unique_indices=uflag)
    if k < 0.85:
        a = rng.randint(0, n - 1)
        b = rng.randint(a + 1, n)
        indices = (slice(a, b),)
        return IndexOperator(indices, in_structure=s, out_structure=index_out_structure(s, indices))
    if k < 0.93:
        indices = (slice(None),)
        return IndexOperator(indices, in_structure=s, out_structure=index_out_structure(s, indices))
    mask = np.array([rng.random() < 0.6 for _ in range(n)])
    if not mask.any():
        mask[0] = True
    return IndexOperator((jnp.asarray(mask),), in_structure=s,
                         out_structure=index_out_structure(s, (mask,)))


def mk_moveaxis(rng, s):
    ranks = {len(l.shape) for l in leaves_of(s)}
    if min(ranks) < 2:
        return None
    if rng.random() < 0.5:
        src, dst = rng.choice([(0, 1), (1, 0), (0, -1), (-1, 0), (-2, -1), ((0, 1), (1, 0))])
        return MoveAxisOperator(src, dst, in_structure=s)
    # any legal specification: several axes at once, pairs left in place (which pin the axis while the others
    # move around it), either sign — a negative axis is resolved leaf by leaf
    r = min(ranks)
    k = rng.randint(1, min(3, r))
    src = rng.sample(range(r), k)
    dst = rng.sample(range(r), k)
    if k >= 2 and rng.random() < 0.5:
        j = rng.randrange(k)
        if src[j] not in dst or dst.index(src[j]) == j:
            dst[j] = src[j]
    if len(set(dst)) != len(dst):
        dst = rng.sample(range(r), k)
    if len(ranks) == 1:
        src = [a - r if rng.random() < 0.3 else a for a in src]
        dst = [a - r if rng.random() < 0.3 else a for a in dst]
    return MoveAxisOperator(tuple(src), tuple(dst), in_structure=s)


def mk_ravel(rng, s):
    if all(len(l.shape) >= 1 for l in leaves_of(s)):
        args = rng.choice([(0, -1), (0, -1), (-2, -1), (0, 0)])
        if args == (-2, -1) and min(len(l.shape) for l in leaves_of(s)) < 2:
            args = (0, -1)
        return RavelOperator(*args, in_structure=s)
    return None


def mk_reshape(rng, s):
    sizes = {int(np.prod(l.shape)) for l in leaves_of(s)}
    if len(sizes) != 1:
        return None
    n = sizes.pop()
    options = [(-1,), (n,), (1, n), (n, 1)]
    if n % 2 == 0:
        options += [(2, n // 2), (-1, 2)]
    if n % 3 == 0:
        options += [(3, -1)]
    return ReshapeOperator(rng.choice(options), in_structure=s)


def mk_pack(rng, s):
    if is_single_array(s):
        shape = s.shape[:1]
    elif is_stokes(s):
        shape = leaves_of(s)[0].shape
    else:
        return None
    if len(shape) == 0:
        return None
    mask = np.array([rng.random() < 0.6 for _ in range(int(np.prod(shape)))]).reshape(shape)
    if not mask.any():
        mask.flat[0] = True
    return PackOperator(jnp.asarray(mask), s)


def maybe_numpy(rng, a):
    """a quarter of the parameter arrays are handed over as the caller's own (mutable) NumPy array"""
    return np.array(a) if rng.random() < 0.25 else a


def mk_qurot(rng, s):
    if not is_stokes(s):
        return None
    shape = leaves_of(s)[0].shape
    if rng.random() < 0.5:
        angles = arr([rng.choice(ANGLES) for _ in range(shape[-1])], dtype_of(s))
    else:
        angles = arr([rng.choice(ANGLES) for _ in range(int(np.prod(shape)))], dtype_of(s)).reshape(shape)
    return QURotationOperator(maybe_numpy(rng, angles), s)


def mk_hwp(rng, s):
    return HWPOperator(s) if is_stokes(s) else None


def mk_polarizer(rng, s):
    return LinearPolarizerOperator(s) if is_stokes(s) else None


def mk_dense(rng, s, square=False):
    if not is_single_array(s) or len(s.shape) < 1:
        return None
    n = s.shape[0]
    m = n if square else rng.choice([1, 2, 3])
    blocks = arr([[rng.randint(-2, 3) for _ in range(n)] for _ in range(m)], s.dtype)
    return DenseBlockDiagonalOperator(blocks, s, 'ij...,j...->i...')


def mk_toeplitz(rng, s, spd=False):
    if not is_single_array(s) or len(s.shape) != 1:
        return None
    k = rng.randint(1, min(3, s.shape[0]))
    vals = [rng.choice([4.0, 1.0, -1.0, 0.5, 2.0]) for _ in range(k)]
    if spd:
        # strictly diagonally dominant with a positive diagonal: symmetric positive definite
        vals = [8.0] + [rng.choice([1.0, -1.0, 0.5, 2.0]) for _ in range(k - 1)]
    band = arr(vals, s.dtype)
    method = rng.choice(['dense', 'dense', 'direct', 'fft', 'overlap_save', 'overlap_save'])
    if method == 'overlap_save' and rng.random() < 0.6:
        # an explicit transform size: the smallest legal one (2K-1, odd), or a little above it (odd and even)
        fft_size = max(1, 2 * k - 1) + rng.choice([0, 0, 1, 2, 3, 4, 6])
        return SymmetricBandToeplitzOperator(band, s, method=method, fft_size=fft_size)
    return SymmetricBandToeplitzOperator(band, s, method=method)


def toeplitz_grid(i: int, rng):
    """the i-th operator of a deterministic grid over (length 1..9, bands 1..5, method, transform size) with a seeded
    choice of band batch, dtype and leading axes: data shorter than the kernel, a single band, explicit minimal / odd /
    default transform sizes, one band row per detector — coverage that does not depend on the draw"""
    n = 1 + i % 9
    K = 1 + (i // 9) % 5
    method, fft = [('overlap_save', None), ('overlap_save', 'min'), ('dense', None), ('direct', None), ('fft', None),
                   ('overlap_save', 'odd'), ('overlap_save', None)][(i // 45 + i) % 7]
    batch = rng.choice([(), (), (2,), (1,)])
    dt = rng.choice([jnp.float32, jnp.float32, jnp.float64 if jax.config.jax_enable_x64 else jnp.float32])
    band = np.array([rng.choice([4.0, 1.0, -1.0, 0.5, 2.0]) for _ in range(int(np.prod(batch + (K,))))]).reshape(batch + (K,))
    kw = {}
    if fft == 'min':
        kw['fft_size'] = 2 * K - 1
    elif fft == 'odd':
        kw['fft_size'] = 2 * K - 1 + rng.choice([2, 4, 1, 3])
    s = jax.ShapeDtypeStruct(((2,) if batch else rng.choice([(), (3,)])) + (n,), dt)
    return SymmetricBandToeplitzOperator(jnp.asarray(band, dtype=dt), s, method=method, **kw), f'{method}:{fft}'


def mk_broadcast_diag(rng, s):
    if not is_single_array(s) or len(s.shape) != 1:
        return None
    n = s.shape[0]
    vals = arr([[rng.choice(DIAGVALS) for _ in range(n)] for _ in range(2)], s.dtype)
    return BroadcastDiagonalOperator(vals, axis_destination=-1, in_structure=s)


def mk_obs_matrix(rng, s):
    """a Toast observation matrix: the class loads a SciPy CSR matrix from an .npz file (written here to a temporary
    file that is removed as soon as the operator is built); square, NOT symmetric, some empty rows"""
    if not is_single_array(s) or len(s.shape) != 1 or np.dtype(s.dtype).kind != 'f':
        return None
    import os
    import tempfile
    from furax.toast.obs_matrix import ToastObservationMatrixOperator
    n = s.shape[0]
    dense_m = np.array([[rng.choice([0, 0, 0, 1, -1, 2, 3, -2]) for _ in range(n)] for _ in range(n)], dtype=np.dtype(s.dtype))
    if n > 1 and rng.random() < 0.3:
        dense_m[rng.randrange(n), :] = 0
    data, indices, indptr = [], [], [0]
    for r in range(n):
        for c in range(n):
            if dense_m[r, c] != 0:
                data.append(dense_m[r, c])
                indices.append(c)
        indptr.append(len(data))
    fd, path = tempfile.mkstemp(suffix='.npz', prefix='furax-verif-obs-')
    os.close(fd)
    try:
        fmt = rng.choice(['str', 'bytes'])
        np.savez(path, format=np.array('csr' if fmt == 'str' else b'csr'), data=np.asarray(data, dtype=np.dtype(s.dtype)),
                 indices=np.asarray(indices, dtype=np.int32), indptr=np.asarray(indptr, dtype=np.int32),
                 shape=np.asarray([n, n]))
        return ToastObservationMatrixOperator(path)
    finally:
        os.remove(path)


ENDO = [mk_identity, mk_homothety, mk_diagonal, mk_diagonal_first, mk_qurot, mk_hwp, mk_toeplitz, mk_obs_matrix]
CHANGERS = [mk_index, mk_moveaxis, mk_ravel, mk_reshape, mk_pack, mk_polarizer, mk_dense,
            mk_broadcast_diag]


def sub_structures(s):
    """For list / dict / tuple structures: the container and the per-slot structures."""
    if isinstance(s, list):
        return s
    if isinstance(s, tuple) and not is_stokes(s):
        return list(s)
    if isinstance(s, dict):
        return [s[k] for k in s]
    return None


def rebuild_container(s, items):
    if isinstance(s, list):
        return list(items)
    if isinstance(s, tuple):
        return tuple(items)
    if isinstance(s, dict):
        return {k: v for k, v in zip(s.keys(), items)}
    raise TypeError


def gen_endo(rng: random.Random, s, depth: int):
    """An operator s → s."""
    subs = sub_structures(s)
    k = rng.random()
    if subs is not None and k < 0.35:
        return BlockDiagonalOperator(rebuild_container(s, [gen_endo(rng, x, depth - 1) for x in subs]))
    if depth > 0 and k < 0.50:
        a, b = gen_endo(rng, s, depth - 1), gen_endo(rng, s, depth - 1)
        return AdditionOperator([a, b])
    if depth > 0 and k < 0.62:
        a, b = gen_endo(rng, s, depth - 1), gen_endo(rng, s, depth - 1)
        return CompositionOperator([a, b])
    if depth > 0 and k < 0.70:
        return rng.choice(SCALARS) * gen_endo(rng, s, depth - 1)
    if k < 0.78:
        d = mk_diagonal(rng, s)
        if d is not None:
            return d.I
    for _ in range(8):
        o = rng.choice(ENDO)(rng, s)
        if o is not None:
            return o
    return IdentityOperator(s)


def gen_step(rng: random.Random, s, depth: int):
    """Any operator with input structure s."""
    k = rng.random()
    if k < 0.45:
        return gen_endo(rng, s, depth)
    if k < 0.52:
        a, b = gen_endo(rng, s, depth - 1), gen_step(rng, s, 0)
        return BlockColumnOperator([a, b] if rng.random() < 0.5 else {'y': a, 'x': b})
    subs = sub_structures(s)
    if subs is not None and k < 0.62:
        # block row: every block maps its slot to a common structure
        target = subs[0]
        if all(jax.tree.structure(x) == jax.tree.structure(target) and
               [(l.shape, l.dtype) for l in leaves_of(x)] == [(l.shape, l.dtype) for l in leaves_of(target)] for x in subs):
            return BlockRowOperator(rebuild_container(s, [gen_endo(rng, x, depth - 1) for x in subs]))
    for _ in range(8):
        o = rng.choice(CHANGERS)(rng, s)
        if o is not None:
            return o
    return gen_endo(rng, s, depth)


# ------------------------------------------------------------------------------------------------
# documented patterns (C07), planted with input structure s; each returns a list of operators in
# application order (first applied first) that maps s to some structure
# ------------------------------------------------------------------------------------------------
def pat_inverse_pair(rng, s):
    x = None
    for _ in range(6):
        c = rng.choice([mk_diagonal, mk_qurot, mk_diagonal_first])(rng, s)
        if c is not None:
            x = c
            break
    if x is None:
        return None
    return [x, x.I] if rng.random() < 0.5 else [x.I, x]


def pat_rotation_inverse_pair(rng, s):
    """a rotation next to its own transpose object, which is also its lazy INVERSE (orthogonal operator): two rules
    match the pair — the inverse rule, registered first, makes it vanish.  One variant puts a rotation·rotation merge
    earlier in the scan of the same chain (operand order = reversed application order)"""
    r = mk_qurot(rng, s)
    if r is None:
        return None
    pair = [r, r.T] if rng.random() < 0.5 else [r.T, r]
    if rng.random() < 0.5:
        d = mk_diagonal(rng, s)
        r1, r2 = mk_qurot(rng, s), mk_qurot(rng, s)
        if d is not None:
            return pair + [d, r1, r2]
    return pair


def pat_many_commutations(rng, s):
    """a chain whose reduction needs MORE rewrites than it has operands: a rotation has to commute through several
    half-wave plates (a rewrite that does not shorten the chain) before the polariser absorbs them"""
    if not is_stokes(s) or len(leaves_of(s)) < 2:
        return None
    k = rng.choice([5, 6, 7])        # k commutations + k absorptions against k + 2 operands (+ the context)
    r = mk_qurot(rng, s)
    hw = [HWPOperator(s) for _ in range(k)]
    tail = [LinearPolarizerOperator(s)]
    # application order: the plates first, then the rotation, then the polariser (operands: [pol, R, H, …, H])
    return hw + [r] + tail


def pat_lazy_inverse_pair(rng, s):
    x = mk_toeplitz(rng, s, spd=True)
    if x is None:
        return None
    xi = InverseOperator(x)
    return [x, xi] if rng.random() < 0.5 else [xi, x]


def pat_rotations(rng, s):
    a, b = mk_qurot(rng, s), mk_qurot(rng, s)
    if a is None:
        return None
    a = a.T if rng.random() < 0.4 else a
    b = b.T if rng.random() < 0.4 else b
    return [a, b]


def pat_rot_hwp(rng, s):
    r = mk_qurot(rng, s)
    if r is None:
        return None
    r = r.T if rng.random() < 0.4 else r
    return [HWPOperator(s), r]


def pat_pol_hwp(rng, s):
    if not is_stokes(s):
        return None
    return [HWPOperator(s), LinearPolarizerOperator(s)]


def pat_index(rng, s):
    p = None
    if rng.random() < 0.3:
        p = mk_index_multi(rng, s)          # two indexed axes: P @ P.T is the identity whenever nothing repeats
    if p is None:
        p = mk_index(rng, s, force_unique=rng.random() < 0.4)
    if p is None:
        return None
    return [p, p.T, p] if rng.random() < 0.5 else [p, p.T]


def pat_index_multi(rng, s):
    """ALWAYS an index tuple touching two axes (or one through an ellipsis) next to its transpose: duplicate-free, so
    P @ P.T must become the identity"""
    for _ in range(6):
        p = mk_index_multi(rng, s)
        if p is not None and p.unique_indices:
            return [p, p.T, p]         # application order: P, then P.T, then P — contains P @ P.T
    return None


def pat_index_unique(rng, s):
    """ALWAYS a duplicate-free single-axis index array (flag given) next to its transpose"""
    p = mk_index(rng, s, force_unique=True)
    if p is None:
        return None
    return [p, p.T, p]


def pat_index_repeats(rng, s):
    """ALWAYS P.T @ P for a single indexed axis whose array repeats values: the multiplicity diagonal"""
    p = mk_index(rng, s, force_unique=False)
    if p is None:
        return None
    return [p, p.T]                # application order: P, then P.T — the operator P.T @ P


def pat_pack(rng, s):
    p = mk_pack(rng, s)
    if p is None:
        return None
    return [p, p.T, p]


def pat_reshape(rng, s):
    r = rng.choice([mk_ravel, mk_reshape])(rng, s)
    if r is None:
        return None
    return rng.choice([[r, r.T], [r, r.T, r]])


def pat_moveaxis(rng, s):
    m = mk_moveaxis(rng, s)
    if m is None:
        return None
    return [m, m.T]


def pat_block_diag_diag(rng, s):
    subs = sub_structures(s)
    if subs is None:
        return None
    a = BlockDiagonalOperator(rebuild_container(s, [gen_endo(rng, x, 0) for x in subs]))
    b = BlockDiagonalOperator(rebuild_container(s, [gen_endo(rng, x, 0) for x in subs]))
    return [a, b]


def pat_block_col_diag(rng, s):
    blocks = [gen_endo(rng, s, 0), gen_endo(rng, s, 0)]
    col = BlockColumnOperator(list(blocks))
    diag = BlockDiagonalOperator([gen_endo(rng, s, 0), gen_endo(rng, s, 0)])
    if rng.random() < 0.5:
        return [col, diag]
    row = BlockRowOperator([gen_endo(rng, s, 0), gen_endo(rng, s, 0)])
    return [col, diag, row] if rng.random() < 0.5 else [col, row]


def pat_block_single(rng, s):
    """containers with a single block (arity 1)"""
    a, b = gen_endo(rng, s, 0), gen_endo(rng, s, 0)
    k = rng.random()
    if k < 0.35:
        return [BlockColumnOperator([a]), BlockRowOperator([b])]
    if k < 0.7:
        return [BlockColumnOperator([a]), BlockDiagonalOperator([b]), BlockRowOperator([gen_endo(rng, s, 0)])]
    return [BlockColumnOperator({'k': a}), BlockDiagonalOperator({'k': b})]


def pat_block_nested(rng, s):
    """equal structures, differently nested containers: [[a, a]] as one nested row vs a 1x2 container"""
    a, b, c, d = (gen_endo(rng, s, 0) for _ in range(4))
    col = BlockColumnOperator([[a, b]])                       # s -> [[s, s]]
    if rng.random() < 0.5:
        row = BlockRowOperator([BlockRowOperator([c, d])])    # [[s, s]] -> s, container [.]
        return [col, row]
    diag = BlockDiagonalOperator([BlockDiagonalOperator([c, d])])   # container [.] of a block on [s, s]
    return [col, diag]


def pat_sandwich(rng, s):
    """a pair that cancels, wrapped around block operators whose product is the identity:
    [M, BlockDiag(D_i), BlockDiag(D_i⁻¹), Mᵀ] — the inner rewrite *creates* an identity mid-chain"""
    if sub_structures(s) is None:
        return None
    outer = None
    for _ in range(6):
        outer = rng.choice([pat_moveaxis, pat_reshape])(rng, s)
        if outer is not None and len(outer) == 2:
            break
        outer = None
    if outer is None:
        return None
    mid = outer[0].out_structure()
    subs = sub_structures(mid)
    if subs is None:
        return None
    ds = []
    for x in subs:
        d = mk_diagonal(rng, x) or mk_diagonal_first(rng, x)
        if d is None:
            return None
        ds.append(d)
    a = BlockDiagonalOperator(rebuild_container(mid, ds))
    b = BlockDiagonalOperator(rebuild_container(mid, [d.I for d in ds]))
    inner = [a, b] if rng.random() < 0.5 else [b, a]
    return [outer[0]] + inner + [outer[1]]


def pat_identity(rng, s):
    return [IdentityOperator(s)]


def pat_scalars(rng, s):
    return [mk_homothety(rng, s), gen_endo(rng, s, 0), mk_homothety(rng, s)]


def pat_scalars_mixed_types(rng, s):
    """ALWAYS two or three scalar operators of DIFFERENT numeric types around a non-scalar operator — an integer-typed
    scale (Python int, int32 array) with a fractional one (`2 * (A / 3)`, `-(A / 2)`), in either order: the merged scale is
    the product in the promoted type, never in the type of whichever factor comes first"""
    ints = [HomothetyOperator(int(rng.choice([2, 3, -1, -2])), s), HomothetyOperator(jnp.asarray(rng.choice([2, 3, -1]), dtype=jnp.int32), s)]
    fracs = [HomothetyOperator(float(rng.choice([0.5, 0.25, 1.5])), s),
             HomothetyOperator(jnp.asarray(1.0 / rng.choice([3, 2, 4]), dtype=dtype_of(s)), s)]
    a, b = rng.choice(ints), rng.choice(fracs)
    mid = gen_endo(rng, s, 0)
    chain = [a, mid, b] if rng.random() < 0.5 else [b, mid, a]
    if rng.random() < 0.4:
        chain.append(rng.choice(ints + fracs))
    return chain


def pat_block_rule_identities(rng, s):
    """two block-diagonal operators whose block-wise products become identities only THROUGH A RULE (a relabelling
    followed by its transpose), never through the eager shortcuts of `@`: the merged block diagonal of identities
    must itself disappear"""
    subs = sub_structures(s)
    if subs is None:
        return None
    firsts, seconds = [], []
    for x in subs:
        pair = None
        for _ in range(6):
            pair = rng.choice([pat_reshape, pat_moveaxis])(rng, x)
            if pair is not None and len(pair) == 2 and same_structure(pair[1].out_structure(), x):
                break
            pair = None
        if pair is None:
            return None
        firsts.append(pair[0])
        seconds.append(pair[1])
    return [BlockDiagonalOperator(rebuild_container(s, firsts)), BlockDiagonalOperator(rebuild_container(s, seconds))]


PATTERNS = [pat_inverse_pair, pat_rotation_inverse_pair, pat_many_commutations, pat_lazy_inverse_pair, pat_rotations, pat_rot_hwp, pat_pol_hwp,
            pat_index, pat_index_multi, pat_index_unique, pat_index_repeats, pat_pack, pat_reshape, pat_moveaxis, pat_block_diag_diag, pat_block_col_diag,
            pat_block_single, pat_block_nested, pat_sandwich, pat_identity, pat_scalars, pat_scalars_mixed_types, pat_block_rule_identities]


def gen_chain(rng: random.Random, s, length: int, depth: int, p_pattern: float = 0.5, force_pattern=None):
    """A well-typed chain in *application order* starting from structure s, with planted patterns.
    Returns (operators in application order, names of planted patterns).  `force_pattern` (a pattern function)
    is planted once at a random position, if it applies to the structure reached there."""
    ops: list = []
    planted: list[str] = []
    cur = s
    force_at = rng.randint(0, max(0, length - 1)) if force_pattern is not None else -1
    while len(ops) < length or (force_pattern is not None and force_pattern.__name__ not in planted and len(ops) < length + 4):
        if force_pattern is not None and len(ops) >= force_at and force_pattern.__name__ not in planted:
            got = force_pattern(rng, cur)
            if got is not None:
                ops.extend(got)
                planted.append(force_pattern.__name__)
                cur = got[-1].out_structure()
                continue
        if rng.random() < p_pattern:
            pat = rng.choice(PATTERNS)
            got = pat(rng, cur)
            if got is not None:
                ops.extend(got)
                planted.append(pat.__name__)
                cur = got[-1].out_structure()
                continue
        o = gen_step(rng, cur, depth)
        ops.append(o)
        cur = o.out_structure()
    return ops, planted


PATTERN_STRUCTURES = {
    'pat_rotations': 'stokes', 'pat_rot_hwp': 'stokes', 'pat_pol_hwp': 'stokes', 'pat_moveaxis': 'mat',
    'pat_sandwich': 'matlist', 'pat_lazy_inverse_pair': 'vec', 'pat_block_diag_diag': 'container',
    'pat_block_rule_identities': 'matlist', 'pat_index_multi': 'mat', 'pat_rotation_inverse_pair': 'stokes', 'pat_many_commutations': 'stokes',
}


def structure_for_pattern(rng: random.Random, pattern):
    """a structure on which the pattern can be planted"""
    kind = PATTERN_STRUCTURES.get(pattern.__name__)
    if kind == 'stokes':
        k = rng.choice(['I', 'QU', 'IQU', 'IQUV'])
        return StokesPyTree.class_for(k).structure_for(rng.choice([(2,), (3,), (2, 2)]), F32)
    if kind == 'mat':
        return S(*rng.choice([(2, 3), (3, 2), (2, 2)]))
    if kind == 'matlist':
        return [S(2, 3), S(2, 3)]
    if kind == 'vec':
        return S(rng.choice([3, 4, 5]))
    if kind == 'container':
        n = rng.choice([2, 3])
        return rng.choice([[S(n), S(n)], {'b': S(n), 'a': S(n, 2)}])
    for _ in range(20):
        s = random_structure(rng)
        if pattern(random.Random(rng.random()), s) is not None:
            return s
    return random_structure(rng)


def gen_expression(rng: random.Random, max_len: int = 6, depth: int = 2, force_pattern=None):
    """A composite expression; returns (operator, info dict)."""
    s = random_structure(rng) if force_pattern is None else structure_for_pattern(rng, force_pattern)
    length = rng.randint(1, max_len)
    ops, planted = gen_chain(rng, s, length, depth, force_pattern=force_pattern)
    chain = list(reversed(ops))   # CompositionOperator lists the last-applied operator first
    if len(chain) == 1:
        expr = chain[0]
    elif rng.random() < 0.75:
        expr = CompositionOperator(chain)
    else:
        expr = chain[0]
        for o in chain[1:]:
            expr = expr @ o
    # wrap
    k = rng.random()
    if k < 0.10:
        expr = AdditionOperator([expr, rng.choice(SCALARS) * expr])
    elif k < 0.18:
        expr = BlockColumnOperator([expr, expr])
    elif k < 0.24:
        expr = BlockDiagonalOperator({'p': expr, 'q': gen_endo(rng, s, 1)})
    return expr, {'planted': planted, 'length': len(chain)}


# ------------------------------------------------------------------------------------------------
# evaluation helpers on the real implementation
# ------------------------------------------------------------------------------------------------
def basis_inputs(structure):
    """Yields the pytrees e_j of the canonical basis of the flattened input."""
    leaves, treedef = jax.tree.flatten(structure)
    sizes = [int(np.prod(l.shape)) for l in leaves]
    total = sum(sizes)
    for j in range(total):
        vals = []
        off = 0
        for l, n in zip(leaves, sizes):
            a = np.zeros(n, dtype=np.float64)
            if off <= j < off + n:
                a[j - off] = 1.0
            vals.append(jnp.asarray(a.reshape(l.shape), dtype=l.dtype))
            off += n
        yield jax.tree.unflatten(treedef, vals)


def flatten_value(v) -> np.ndarray:
    leaves = jax.tree.leaves(v)
    if not leaves:
        return np.zeros(0)
    wide = np.complex128 if any(np.iscomplexobj(np.asarray(l)) for l in leaves) else np.float64
    return np.concatenate([np.asarray(l).astype(wide).ravel() for l in leaves])


def dense(op) -> np.ndarray:
    """Dense matrix of an operator, column by column, by eager application (no jit)."""
    cols = [flatten_value(op.mv(e)) for e in basis_inputs(op.in_structure())]
    if not cols:
        return np.zeros((op.out_size(), 0))
    return np.stack(cols, axis=1)


def random_input(rng: random.Random, structure, lo=-3, hi=4):
    leaves, treedef = jax.tree.flatten(structure)
    vals = []
    for l in leaves:
        a = np.array([rng.randint(lo, hi) for _ in range(int(np.prod(l.shape)))], dtype=np.float64).reshape(l.shape)
        if np.dtype(l.dtype).kind == 'c':
            a = a + 1j * np.array([rng.randint(lo, hi) for _ in range(int(np.prod(l.shape)))], dtype=np.float64).reshape(l.shape)
        vals.append(jnp.asarray(a, dtype=l.dtype))
    return jax.tree.unflatten(treedef, vals)


def complex_candidates(rng: random.Random):
    """(label, operator) on complex64 leaves with parameters that have a NON-ZERO IMAGINARY PART: transposition is not
    conjugation, and every dense form has to agree with the columns op(e_j) in complex arithmetic"""
    C64 = jnp.complex64
    n = rng.choice([2, 3])
    s = S(n, dtype=C64)

    def cvals(shape):
        k = int(np.prod(shape))
        re = np.array([rng.choice([1, 2, -1, 3, -2]) for _ in range(k)], dtype=np.float64)
        im = np.array([rng.choice([1, -1, 2, -3, 0.5]) for _ in range(k)], dtype=np.float64)
        return jnp.asarray((re + 1j * im).reshape(shape), dtype=C64)
    d = DiagonalOperator(cvals((n,)), in_structure=s)
    h = HomothetyOperator(jnp.asarray(complex(rng.choice([2, -1]), rng.choice([1, -3])), dtype=C64), s)
    dn = DenseBlockDiagonalOperator(cvals((n, n)), s, 'ij...,j...->i...')
    rect = DenseBlockDiagonalOperator(cvals((2, n)), s, 'ij...,j...->i...')
    bd = BroadcastDiagonalOperator(cvals((2, n)), axis_destination=-1, in_structure=s)
    from furax._base.core import TransposeOperator
    out = [
        ('complex-diagonal', d), ('complex-diagonal-inverse', d.I), ('complex-scalar', h), ('complex-scalar-times', (2 + 1j) * d),
        ('complex-dense', dn), ('complex-dense-T', dn.T), ('complex-dense-rect-T', rect.T),
        ('complex-broadcast-diagonal', bd), ('complex-broadcast-diagonal-T', bd.T),
        ('complex-lazy-transpose', TransposeOperator(dn)), ('complex-lazy-transpose-T', TransposeOperator(dn).T),
        ('complex-sum', d + dn), ('complex-sum-T', (d + dn).T), ('complex-sum-lazy-T', d + TransposeOperator(dn)),
        ('complex-composition', d @ dn @ h), ('complex-composition-T', (d @ dn).T),
        ('complex-composition-lazy-T', CompositionOperator([bd.T, bd])),
        ('complex-block-diag', BlockDiagonalOperator([d, bd.T @ bd])), ('complex-block-row', BlockRowOperator([d, TransposeOperator(dn)])),
        ('complex-block-col', BlockColumnOperator({'y': dn, 'x': bd})), ('complex-block-col-T', BlockColumnOperator({'y': dn, 'x': bd}).T),
    ]
    return out


def close(a: np.ndarray, b: np.ndarray, tol=1e-4) -> bool:
    if a.shape != b.shape:
        return False
    return bool(np.allclose(a, b, rtol=tol, atol=tol))


def same_structure(a, b) -> bool:
    return jax.tree.structure(a) == jax.tree.structure(b) and all(
        x.shape == y.shape and x.dtype == y.dtype for x, y in zip(jax.tree.leaves(a), jax.tree.leaves(b)))


def is_op_leaf(x) -> bool:
    from furax._base.core import AbstractLinearOperator
    return isinstance(x, AbstractLinearOperator)
