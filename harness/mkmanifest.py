"""Writes MANIFEST.json from the table below (kept in one place so that it stays valid)."""
import json
import os

VERIF = os.path.dirname(os.path.dirname(os.path.abspath(__file__)))

CLAIMED = {
    'C01': {
        'text': ('Lean theorems: reduce() of the model (compositions with the 13 registered binary rules incl. the '
                 'block rules\' recursive reduce, sums, block containers, the reduce() overrides of index/ravel/reshape, '
                 'lazy wrappers) returns, for every well-formed expression of any size and depth and every fuel, a '
                 'well-formed expression with the same structures and the same denotation (reduce_sound, by induction '
                 'on the fuel over the scan soundness: any chain length, index, firing order); per-rule soundness is '
                 'proved from named leaf laws (RuleLaws/ContainerLaws), whose joint satisfiability is witnessed; the '
                 'unrelativised rule soundness is proved false (non-square o with DiagonalInverseOperator). Rule '
                 'registry and check/apply resolution re-checked by the kernel against tables regenerated from the '
                 'source; the executable model of reduce() (the same functions the theorems speak about) is compared '
                 'with the real reduce() on seeded well-typed expressions and the dense-matrix oracle is evaluated on '
                 'the implementation.'
                 ' CLOSED: in the faithful list denotation (operators as maps on flat real vectors assembled from the executable kernels the driver runs) all leaf laws are theorems, so reduce_sound_closed has no semantic hypothesis left.'
                 ' DOMAIN CHECK: Valid.validb (FuraxModel/Valid.lean, compiled into the driver) decides the hypothesis of reduce_sound_closed — validb_iff: WTExpr inv listLeafOK o <-> validb o = true and the operands of lazy inverses satisfy inv (sound and complete) — and every expression the library builds in a run is asked to be inside it (Ctx.in_domain), so the closed theorem is about the real objects, not only about terms of the model.'
                 " TERMINATION (Props/C01Terminates.lean): the while loop of AlgebraicReductionRule.apply terminates for EVERY chain and every inner reduce — an abstract theorem (a firing measure that strictly decreases, a restart measure) instantiated for the registered rules with inversions(rotation before half-wave plate) + n(n-1)/2: at most 4n^2 - n + 1 iterations, so the model's fuel is never the reason for an answer (scanFuel_enough; the fuel branch of algebraicReduction is dead code); the recursion fuel of reduce() through block products is characterised (a fuel error can only come from a recursive call) but its sufficiency for every expression is open (depth can grow under reduce; kernel-checked witnesses)."),
        'note': ('Trusted: Lean kernel + propext/Classical.choice/Quot.sound; harness encoder/translator; JAX '
                 'primitives (A1, A2), exact lazy inverse (A4, part of WTExpr: A.invertible).  The leaf laws of '
                 'RuleLaws/ContainerLaws are hypotheses of the abstract reduce_sound and THEOREMS in the list denotation '
                 '(reduce_sound_closed); what ties the list denotation to furax is that it is assembled from the kernels '
                 'the correspondence checks of C11/C12/C13/C15 compare with the implementation. Real arithmetic, not '
                 'floating point.'),
        'technique': 'Lean 4 proof (induction on fuel/chain) + differential correspondence of the executable model',
        'design_ref': '§5 C01',
    },
    'C07': {
        'text': ('Lean theorems: whatever AlgebraicReductionRule.apply returns (any chain length, any operands, any '
                 'context) has no adjacent pair on which a registered rule still fires (loop invariant of the scan: '
                 'step-back-by-one, restart-at-0, advance) and at most one scalar operator; the documented patterns '
                 'are proved not irreducible, so they cannot survive anywhere.  The form of reduce() is compared with '
                 'the executable model for every pattern planted at every position of random contexts, and the '
                 'normal-form predicate (incl. scalar side and idempotence) is evaluated on the implementation.  '
                 'SIDE OF THE SCALAR (Props/C07Side.lean): HomothetyRule.apply alone puts the single merged scalar at the head when '
                 'first.out_size <= last.in_size and at the end otherwise, keeping the order of the other operands (no '
                 'hypothesis); for the whole AlgebraicReductionRule.apply the invariant "at most one scalar, on the side '
                 'prescribed by the outer sizes of the chain" is carried through the scan for every fuel and firing '
                 'order (scalar_side, scalar_side_positions), closed in the faithful list denotation (scalar_side_closed); '
                 'the typing hypotheses are shown necessary by kernel-checked witnesses.'),
        'note': ('Trusted: Lean kernel + standard axioms; encoder/translator; registry order pinned by a kernel-checked '
                 'table theorem.  The scalar-side theorem is about chains whose adjacent structures match (what `@` '
                 'enforces; CompositionOperator([...]) built by hand does not validate them).'),
        'technique': 'Lean 4 proof (loop invariant by induction on fuel) + differential correspondence of reduce() form',
        'design_ref': '§5 C07',
    },
    'C02': {
        'text': ('Lean theorems: for every operand kind (plain, composition, sum, identity, scalar, lazy inverse, block) '
                 'A@B, A+B, k*A, A*k, A/k, -A, +A denote the product, sum and scalar multiples of the operands\' maps with '
                 'the structures of the result, including every construction-time shortcut (flattening on either side, '
                 'identity absorption, scalar merging, A.I@A and A@A.I); incompatible structures are rejected. Which '
                 'function each dunder resolves to for each class, and the class hierarchy the model tests, are '
                 're-checked by the kernel against tables regenerated from the source.  Each step of random expression '
                 'trees is compared between executable model and implementation; dense-matrix oracle on the implementation.'
                 ' CLOSED corollaries in the list denotation: matmul/add/rmul/truediv_den_closed.'),
        'note': ('Trusted: Lean kernel + standard axioms; encoder/translator; ArithSem laws (composition denotes the '
                 'composite, sums add, a lazy inverse of an invertible operand inverts — F13 is the failure of this law for '
                 'singular diagonals and is a listed known finding of C01).'),
        'technique': 'Lean 4 proof (case analysis over the dunder dispatch) + kernel-checked source tables + differential correspondence',
        'design_ref': '§5 C02',
    },
    'C15': {
        'text': ('Lean theorems over any commutative ring with c²+s²=1 and over ℝ with c=cos 2a, s=sin 2a: the HWP, rotation, '
                 'transpose-rotation and polariser kernels are their Mueller matrices on I/QU/IQU/IQUV (absent components are '
                 'never read), R(a)R(b)=R(a+b) and the three mixed cases, Rᵀ=R(−a), RᵀR=I, R·HWP=HWP·R(−a), P·HWP=P, the '
                 'factory identities — for all angles, pointwise for angle arrays.  The executable kernels are compared with '
                 'the implementation sample by sample; operators, rule outputs and factories are compared before and after '
                 'reduce() with independently built Mueller matrices.'
                 ' CLOSED (Props/C15Closed.lean): in the list denotation, component c of sample t of HWP / rotation / polariser leaves is the Mueller row applied to the Stokes vector of that sample, the rotation angle being the NumPy-broadcast entry of the angle array; the transposed rotation is the rotation by -a; the chain laws as den of compositions (R(a)R(b) = R(a+b), R H = H R(-a), P H = P, R^T R = 1, H H = 1); the chain HWPOperator.create builds is sample-wise R(a)^T HWP R(a) before reduction, and reduceTop returns exactly [HWP, R(2a)] denoting the same map.'),
        'note': ('Trusted: Lean kernel + Mathlib real trigonometry + standard axioms; float32 cos/sin/rounding not modelled '
                 '(A8, tolerance 2e-4 on this channel).'),
        'technique': 'Lean 4 proof (ring / linear_combination / Real.cos_add) + differential correspondence of the kernels',
        'design_ref': '§5 C15',
    },
    'C09': {
        'text': ('Lean theorems (Finset sums, all n ≥ 1, K ≥ 1 incl. K > n, all inputs): the direct, single-FFT and '
                 'overlap-save kernels equal the specification Σ_j [|i−j|<K] band[|i−j|] x[j]; overlap-save for every FFT '
                 'size F ≥ 2K−1 (no wrap-around inside a block, the ⌈(n+2h)/step⌉ blocks cover every output); T symmetric; '
                 'the default FFT size is admissible; whatever the constructor accepts satisfies the hypothesis of the '
                 'overlap-save theorem.  The executable kernels, the constructor and the dense scatter are compared with '
                 'the implementation over (n, K, fft_size, batch shapes, dtype, 64-bit mode on/off) × four methods.  Closed '
                 'form (Props/C09Closed.lean): in the list denotation used by C01–C06 a Toeplitz leaf with an un-batched band '
                 'IS the banded product along the last axis of every leaf; the method and FFT size do not enter it; all four '
                 'evaluation functions and every accepted configuration compute it; it is self-adjoint.'
                 ' BATCHED band arrays (one band row per detector, any broadcastable batch shape) are interpreted by the same denotation: row b uses the band row NumPy broadcasting assigns to it (band_row_is_broadcast, band_row_one_per_row), all four methods and every accepted configuration compute it row by row, it is self-adjoint, and the un-batched statements are kept as the special case (…_unbatched, unbatched_valid_iff).'),
        'note': ('Trusted: Lean kernel + Mathlib + standard axioms; A3 (FFT = exact circular convolution; FFT accuracy is '
                 'runtime, tolerance 1e-3 relative on those channels); the dense scatter is a theorem (dense_entry_correct) and is '
                 'also compared entry-wise on every run; batch '
                 'broadcasting reproduced by the harness.'),
        'technique': 'Lean 4 proof (Finset.sum reindexing, omega) + differential correspondence of the executable kernels',
        'design_ref': '§5 C09',
    },
    'C13': {
        'text': ('Lean theorems about the executable model of numpy.moveaxis\' algorithm, of ravel\'s axis normalisation and '
                 'slicing and of reshape\'s -1 inference: accepted ravels and reshapes preserve every leaf\'s size, the '
                 'constructor guards reject exactly the stated arguments (first axis after last for equal or mixed signs, '
                 'sizes below -1, a second -1, a target of a different size); the permutation theorems for move-axis '
                 '(order is a permutation, moved axes land at their destinations, swapping source and destination inverts) '
                 'are proved in FuraxProofs/Lemmas/MoveAxisPerm.lean when present.  Model and implementation are compared on '
                 'leaves of pairwise distinct sizes filled with distinct integers (shape + element order), and NumPy itself '
                 'is the oracle on the implementation, together with transpose = inverse and reduce() → identity iff no-op.'
                 " CLOSED (Props/C13Closed.lean): in the list denotation, a move-axis leaf sends leaf k to the data of numpy.moveaxis' result, entry by entry through the permutation the algorithm computes; ravel and reshape are the identity on the flat data with equal sizes; the form .T builds denotes the two-sided inverse for all three; reduce() turns a ravel/reshape leaf into the identity exactly when the structure is unchanged and NEVER a move-axis leaf (kernel-checked witness: a move-axis on a square leaf keeps the structure and is not the identity map)."),
        'note': ('Trusted: Lean kernel + standard axioms; A1 (jnp.moveaxis/reshape behave as NumPy, re-checked on every case). '
                 'In the model ravel/reshape leave the row-major data untouched by construction.'),
        'technique': 'Lean 4 proof (list/arith lemmas) + differential correspondence against the model and NumPy',
        'design_ref': '§5 C13',
    },
    'C16': {
        'text': ('PARTIAL.  Lean theorems: the rotation matrix of the source is the Z-Y-Z Euler rotation Rz(phi)·Ry(theta)·Rz(psi) '
                 '(polynomial identity, all angles) and maps unit vectors to unit vectors; for an ARBITRARY pixel function the '
                 'projection returns the sky Stokes vector at the pointed pixel with (Q,U) rotated by 2 psi; the SAT chain '
                 'polariser∘HWP∘projection returns (I + Q cos 2psi − U sin 2psi)/2 (I/2, (Q cos − U sin)/2 for the other kinds), '
                 'identically before and after reduction; PᵀP is the diagonal of hit counts because the rotations cancel and '
                 'indexᵀ∘index is the multiplicity diagonal.  The rotation matrix and per-sample acquisition are compared with '
                 'the model; an independent NumPy pointing model (Euler rotation, healpy.vec2pix, QU rotation) is the oracle for '
                 'create_projection_operator, create_acquisition (reduced and unreduced) and PᵀP, in both 64-bit modes.  Closed '
                 'form (Props/C16Closed.lean): the chains the two factories build, interpreted in the list denotation of '
                 'C01–C06, satisfy the same four statements (projection, acquisition, reduced acquisition via '
                 'C01.reduceTop_sound_closed, PᵀP = hit counts) with the pixel hit as a parameter.'),
        'note': ('PARTIAL: arccos, arctan2 and the HEALPix lookup (A5, A8) are not modelled — the map from the rotated direction '
                 'to the pixel is validated differentially against healpy only (samples within 1e-4 rad of a pixel boundary are '
                 'skipped). Trusted: Lean kernel + Mathlib + standard axioms.'),
        'technique': 'Lean 4 proof (ring identities, C12/C15 corollaries) + differential check against an independent pointing model',
        'design_ref': '§5 C16',
    },
    'C17': {
        'text': ('Lean theorems: rounding is to the nearest integer (|round p − p| ≤ 1/2, ties to even, integers fixed); '
                 'for any number of dimensions in-map integer coordinates are in bijection with 0..N−1 through the '
                 'first-coordinate-fastest mixed-radix formula the code accumulates, any out-of-map coordinate gives −1, '
                 'int32 is chosen only when N−1 fits; the coverage is the histogram of hits and sums to the number of '
                 'samples.  The executable model is compared with pixel2index / get_coverage on dyadic coordinates incl. '
                 'exact ties and out-of-map values; NumPy (ravel_multi_index, bincount) and healpy are the oracles on the '
                 'implementation; small maps are enumerated exhaustively.'),
        'note': ('PARTIAL: the HEALPix lookup (jax_healpy.ang2pix, A5) is outside the model; agreement with healpy in ring '
                 'ordering is differential only (all sampled pixel centres, random directions in 64-bit mode). Trusted: Lean '
                 'kernel + standard axioms; jnp.round / unique / scatter-add as documented (A1). Known finding F11: maps with '
                 'more than 2**31 pixels cannot be indexed with 64-bit mode off.'),
        'technique': 'Lean 4 proof (mixed-radix induction, Rat.floor) + differential correspondence; healpy differential for A5',
        'design_ref': '§5 C17',
    },
    'C19': {
        'text': ('Lean theorems about the executable state machine of the context variable: over properly nested histories '
                 'of any depth, leaving a block (normally or by exception) restores exactly the previous configuration and '
                 'token stack, a program ends with the defaults, the active configuration is the fold of the open blocks\' '
                 'settings over the defaults (named settings override, others inherited), a lazy inverse keeps the '
                 'configuration captured at creation whatever happens later, and for every interleaving of several contexts '
                 'each context evolves as if run alone.  Real `with Config(...)` statements (real exceptions) are executed '
                 'in real threads under a seeded scheduler and every observation is compared with the state machine; real '
                 'solves show which settings a lazy inverse uses.'
                 ' The state machine also covers Config objects built ahead of time and entered later, and a jit trace cache keyed on the captured configuration (jit_uses_creation_config).'),
        'note': ('PARTIAL with respect to OS scheduling: the theorem covers all interleavings of the abstract events; real '
                 'threads are sampled. Trusted: Lean kernel + standard axioms; A6 (contextvars semantics).'),
        'technique': 'Lean 4 proof (induction over well-nested histories / interleavings) + differential correspondence in real threads',
        'design_ref': '§5 C19',
    },
    'C12': {
        'text': ('Lean theorems valid for every position list (hence for whatever an index expression selects): scatter-add '
                 'is the exact adjoint of gather; gather∘scatter-add is the identity when no position is repeated (and a '
                 'kernel-checked witness that it is not otherwise); scatter-add∘gather is the diagonal of multiplicities; the '
                 'diagonal computed by TransposeIndexRule (normalise, unique(size=n, fill=-1), scatter-add) equals the '
                 'multiplicities for every in-bounds integer array with negative and repeated entries (and a kernel-checked '
                 'counterexample for the pre-repair code); the unique_indices flag logic and the constructor guards.  The '
                 'model of NumPy indexing (ints, slices incl. negative steps, ellipsis, integer arrays of any rank, boolean '
                 'masks, adjacency rule) is compared element-position by element-position with the implementation, with NumPy '
                 'as the oracle, including construction with and without output structure, transposes and both rules.'
                 " BASIC and MASK indexing (Props/C12Basic.lean): the model of Python slicing equals CPython's PySlice_AdjustIndices and yields strictly monotone, in-bounds positions (error iff step = 0); for every tuple of integers, slices, an ellipsis and boolean masks — exactly the tuples for which the constructor infers unique_indices — the position list is duplicate-free, in bounds and as long as the output, so P @ P.T = identity is sound wherever the flag is inferred (inferred_flag_sound, index_pair_inferred), with a kernel-checked witness that integer arrays (negative aliases included) break it."),
        'note': ('Trusted: Lean kernel + standard axioms; A1 (JAX indexing = NumPy for in-bounds indices), A2 (linear_transpose '
                 'of a gather is the scatter-add; compared with the model on every case).  The position map of NumPy indexing '
                 'is a theorem for basic and mask indexing (injective, in bounds: C12Basic); its agreement with NumPy is differential. '
                 'A 0-d boolean mask (x[jnp.array(True)] adds an axis) is a no-op in the model and is never generated.'),
        'technique': 'Lean 4 proof (list sums, induction) + differential correspondence of the NumPy indexing model',
        'design_ref': '§5 C12',
    },
    'C14': {
        'text': ('Lean theorems about the subscript rewriting the driver executes (generic in the alphabet): a successful '
                 'rewriting has a single contracted and a single free block letter and swaps every occurrence of the two; with '
                 'Phi d B x y L R O = Σ_σ B[σL]·x[σR]·y[σO] (the bilinear form of the einsum) the rewritten subscripts give the '
                 'exact adjoint for every letter order, repeated letters, ellipsis placement, sizes and data; the only failure '
                 'mode is ValueError and it occurs exactly when no such rewriting exists.  The string functions are compared '
                 'with the implementation on all 2-operand strings over a 3-letter alphabet with ellipsis placements (seeded '
                 'sample in quick, exhaustive in thorough); dense(op.T) = dense(op).T and op.mv = numpy.einsum are the oracles.'
                 ' EXECUTABLE KERNEL (FuraxModel/EinsumEval.lean, Props/C14Eval.lean): einsum2 is a total two-operand einsum compiled into the driver; its pairing with a cotangent is the form Phi (einsum2_pairing), so the rewritten subscripts give the adjoint of the EXECUTABLE kernel for all fitting data, letters only and with an ellipsis (terms_adjoint, terms_adjoint_ellipsis), it is linear for every string, and every rejection is ValueError; op.mv is compared with the kernel (JAX dialect) entry by entry on every evaluated string, and the operator is exercised on pytrees (shared blocks / one block array per leaf).'
                 ' CLOSED (Props/C14Closed.lean): the dense leaf with one shared block array is part of the list denotation of C01-C06 (denseLeaf = the kernel on every leaf); under denseOK (decided by the driver, denseCheck_iff) lengths are honest, the leaf transposeOp builds denotes the adjoint map (denseLeaf_adjoint, dense_transposeOp), transposing twice gives back the map, the matrix of the transpose is the transposed matrix; the read-back of the rewritten string is proved (parseSubscripts_readback). Known finding F20: a letter repeated in the block term on axes of sizes 1 and n (jnp.einsum stretches, numpy.einsum refuses) is transposed wrongly.'),
        'note': ('Trusted: Lean kernel + Mathlib Finset sums + standard axioms; A1 (jnp.einsum = numpy.einsum, re-checked); the '
                 'identification of jnp.einsum with the bilinear form Phi (an ellipsis is a block of further letters).'),
        'technique': 'Lean 4 proof (assignment bijection under a letter swap) + differential correspondence of the string rewriting',
        'design_ref': '§5 C14',
    },
    'C20': {
        'text': ('Lean theorems about the executable model of the Stokes dunders and helpers: same-kind arithmetic is '
                 'component-wise, reflected forms keep the operand order, other kinds and foreign objects are refused, class_for '
                 'accepts exactly the four kinds, from_stokes / from_iquv select as documented, the dot product of real pytrees is '
                 'symmetric; on the jnp.result_type table regenerated from the environment in both 64-bit modes, promotion is '
                 'total, idempotent up to canonicalisation, commutative, associative and an upper bound (kernel-decided over the '
                 'whole table).  The model is compared with the implementation over kinds × shapes × operations × operand types '
                 '× forward/reflected, and NumPy component-wise evaluation, structure/shape/dtype of factories and *_like '
                 'helpers, the Hermitian dot and as_promoted_dtype are checked on the implementation.'
                 ' HERMITIAN DOT over complex leaves (FuraxModel/ComplexDot.lean, Props/C20Complex.lean): treeDot over Gaussian rationals is conjugate-symmetric, linear in the second and conjugate-linear in the first argument, real and non-negative on (x, x) and zero only for x = 0, and reduces to the real dot on real data; the variant that conjugates only when the SECOND operand is complex is proved wrong (and invisible to real/real, complex/complex and real/complex tests); tree.dot and the container @ are compared with the model exactly on integer complex data; the *_like helpers, as_structure and as_promoted_dtype are checked leaf by leaf on general pytrees with mixed shapes and dtypes.'),
        'note': ('Trusted: Lean kernel + standard axioms; A1/A8 (jnp arithmetic, rounding: division and power compared to 1e-5). '
                 'Many statements are close to the definitions; the assurance is mostly the correspondence. NumPy-array operands '
                 'are outside the claim (NumPy dispatches first).'),
        'technique': 'Lean 4 proof + kernel-decided promotion table regenerated from the source environment + differential correspondence',
        'design_ref': '§5 C20',
    },
    'C08': {
        'text': ('Exhaustive and kernel-checked: the table of every (operator class, lineax tag) that dispatches to True and of '
                 'the decorator wiring (transpose is self, inverse = transpose, out_structure = in_structure) is regenerated from '
                 'the source on every run, and Lean theorems state that every declared tag is one for which a theorem about the '
                 'class\'s kernel exists (HWP / identity / scalar / diagonal: diagonal and symmetric; Toeplitz: symmetric; QU '
                 'rotation: orthogonal with the transpose as adjoint), that nothing is tagged triangular, tridiagonal or '
                 'semidefinite, that composites are never tagged, and that the wiring is exactly the expected one.  The standing '
                 'search builds random instances of every concrete class and composites and tests every tag query and '
                 'decorator against the dense matrix.'
                 ' CLOSED (Props/C08Closed.lean): in the list denotation of C01-C06, for EVERY row of the regenerated class table and every tag the row declares, every well-formed operator of that class satisfies the tag semantically for all parameter values (tags_truthful_closed): symmetric = denT is den, <Ax,y> = <x,Ay>, the Mathlib matrix IsSymm and A.T is A; diagonal = pointwise multiplication by a vector, off-diagonal entries of the matrix vanish; orthogonal = both round trips are the identity, Gram matrices are 1, A.I is the form A.T; square = equal structures; the summary fails to compile when the source gains a tag or decorator wiring without a semantic lemma (provedTags_sound, orthogonal_table, square_table, declared_classes_modelled); kernel-checked witnesses that a rotation is not symmetric and an index operator not diagonal. The search also probes COMPOSITES as a user writes them (sandwiches X.I S X / X.T S X around a symmetric centre, arithmetic on symmetric operands, random expressions and their reductions) and requires a symmetric matrix whenever A.T is A.'),
        'note': ('Trusted: Lean kernel + Mathlib + standard axioms; the translator (tags are read with lx.is_*.dispatch(cls)); '
                 'the diagonal-operator fact relies on C11.'),
        'technique': 'Lean 4 proof over a finite table regenerated from the source (decide) + kernel theorems per tagged class',
        'design_ref': '§5 C08',
    },
    'C11': {
        'text': ('Lean theorems about the executable per-leaf model (constructor normalisation of axis_destination, '
                 '_normalize_axes, left/right broadcast padding, the move-axis of the reshaped values, NumPy broadcasting, '
                 'strict shape check): for values of any rank laid along pairwise distinct destination axes given in any '
                 'order and sign, every output element is values[idx restricted to the axes]·x[idx] and the shape is the '
                 'leaf\'s; unit dimensions broadcast; the general characterisation incl. axes beyond the leaf rank '
                 '(FuraxProofs/Lemmas/DiagonalSpec.lean); scalar forms of the axis argument; the strict variant never changes a '
                 'shape; scalar values, duplicated and incompatible axes raise ValueError and nothing else is raised; the '
                 'pseudo-inverse satisfies the Moore-Penrose identities without dividing by zero.  Model and implementation '
                 'are compared on leaves with pairwise distinct sizes; an independent NumPy construction is the oracle.'
                 " CLOSED (Props/C11Closed.lean): in the list denotation of C01-C06, entry q of leaf k of a diagonal operator's result is values[the multi-index of q restricted to the destination axes, NumPy-broadcast] times the input entry, for pytrees with leaves of different rank (diagonal_entry_closed; needs as many destination axes as value dimensions, shown necessary by a kernel-checked witness); the operator is pointwise multiplication by one vector; the DiagonalInverseOperator multiplies by where(d != 0, 1/d, 0) and the four Moore-Penrose identities hold between the denotations, for arbitrary values; the broadcasting variant with its validity predicate."),
        'note': ('Trusted: Lean kernel + standard axioms; A1 (jnp.moveaxis/reshape/broadcasting as NumPy).'),
        'technique': 'Lean 4 proof (index arithmetic over row-major tensors) + differential correspondence',
        'design_ref': '§5 C11',
    },
    'C18': {
        'text': ('PARTIAL.  Kernel-checked table theorems regenerated from the source: every landscape class flattens to '
                 'metadata whose keys are exactly constructor keyword arguments covering the required ones (so the '
                 'constructor-calling unflatten round-trips), every operator class is a field-wise pytree with disjoint '
                 'dynamic/static fields, the configuration flattens to its dataclass fields; a small model of the '
                 'constructor-calling protocol shows the round trip is the identity under that condition and fails otherwise '
                 '(finding F8).  Tracing is outside the model: every generated operator is applied eagerly, under jit over a '
                 'closure, under filter_jit as an argument and after flatten/unflatten, in both 64-bit modes, and values, '
                 'shapes and dtypes are compared; every landscape class is round-tripped.'),
        'note': ('PARTIAL: JAX tracing / jit semantics are not modelled (A7); jit-vs-eager agreement is differential only. '
                 'Trusted: Lean kernel + standard axioms; translator.'),
        'technique': 'Lean 4 proof over tables regenerated from the source + differential execution in four modes',
        'design_ref': '§5 C18',
    },
    'C03': {
        'text': ('Lean theorems: which function `transpose` resolves to for every class is re-checked against the source table; '
                 'the form model transposeOp swaps input and output structures for every expression (mutual induction over '
                 'compositions of any length, sums, block containers, wrappers, every leaf class); A.T.T returns the very operand '
                 'for wrapper classes and symmetric classes return themselves; adjointness lifts from leaves and wrappers to '
                 'compositions and sums nested to any depth (AdjCore induction, inhabited); and the adjointness of each '
                 'hand-written transpose is a theorem about its kernel: QU rotation, gather/scatter-add, einsum subscript '
                 'rewriting, move-axis permutation inverse, Toeplitz self-adjointness, block row/column/diagonal.  The form of '
                 '.T is compared with the implementation on random expressions and per-class operators; dense(A.T) = dense(A)ᵀ, '
                 '<Ax,y> = <x,A.T y>, swapped structures and A.T.T are checked on the implementation.'
                 ' CLOSED: transpose_is_adjoint_closed — <Ax,y> = <x,A.T y> in the list denotation for every valid expression incl. lazy inverses and block containers, A.T being the form transposeOp builds.'
                 ' DOMAIN CHECK: Valid.validTb decides the hypotheses of transpose_is_adjoint_closed (validTb_iff) on every real operator of a run; complex operators (transpose is not conjugation), observation matrices and the deterministic Toeplitz grid are part of the streams.'),
        'note': ('Trusted: Lean kernel + Mathlib + standard axioms; A2 (jax.linear_transpose is the exact adjoint) for the '
                 'generic TransposeOperator — it enters as part of the hypothesis LeafAdjoint and is re-checked by the '
                 'dense-matrix oracle. Transposes of the solver-based inverse are excluded, as the property says.'),
        'technique': 'Lean 4 proof (mutual structural induction; kernel adjoint theorems) + differential correspondence of forms',
        'design_ref': '§5 C03',
    },
    'C04': {
        'text': ('Lean theorems (Mathlib LinearMap.toMatrix\', whose definition is the generic as_matrix recipe: column j = op '
                 'applied to basis vector j): op(x) = as_matrix()·flatten(x) for every x, faithfulness, and the formula of every '
                 'override (identity, scalar, sum, composition, diagonal, ravel/reshape = eye, inverse = matrix inverse); which '
                 'classes override as_matrix, and with which function, is re-checked against the source table; chains of '
                 'homogeneous operators are homogeneous.  On the implementation the specialised as_matrix, the generic as_matrix '
                 'and the column-by-column matrix are compared for every overriding class and composites, together with '
                 'linearity and op(x) = M·flatten(x) on integer data; the diagonal and Toeplitz overrides are also compared '
                 'with the model kernels.'
                 ' CLOSED (Props/C04Closed.lean): application is additive and homogeneous for every operator expression, op(x) = as_matrix()·x through Mathlib linear maps, faithfulness, matrices of compositions, sums and lazy inverses.'),
        'note': ('Trusted: Lean kernel + Mathlib + standard axioms; the identification of an operator on flattened pytrees '
                 '(leaves in pytree order, row-major) with a linear map (Fin n → R) → (Fin m → R); per-class linearity is the '
                 'law `homogeneous` of OpSem plus additivity, checked on the implementation.'),
        'technique': 'Lean 4 proof (Mathlib linear algebra) + kernel-checked source table + three-way dense comparison on the implementation',
        'design_ref': '§5 C04',
    },
    'C05': {
        'text': ('Lean theorems: where out_structure comes from for every class (square family = in_structure, duals, '
                 'composites, stored, abstract evaluation) is re-checked against the source table; the Level-A structure '
                 'functions the driver executes give composition = last.in/first.out, sums and block row/column/diagonal the '
                 'nested structures of their parts, duals the swapped ones, sizes additive over blocks; products built by the '
                 'dunders and chains rewritten by reduce() keep their typing; kernel output shapes (ravel/reshape sizes, '
                 'move-axis permutation) and the promotion join are theorems of C13/C20.  The model\'s structures and sizes are '
                 'compared with the real ones on random expressions over float32/float64/mixed pytrees in both 64-bit modes; '
                 'jax.eval_shape(mv) = out_structure(), sizes, promoted dtypes, transposes and reduced operators are checked on '
                 'the implementation.'
                 ' CLOSED: reduce_keeps_structures_closed, declared_sizes_honest (every structurally well-formed operator returns as many entries as out_structure() declares, whatever the input).'
                 ' Stream params: operators whose parameter arrays have more or other dimensions than the leaves (rotation angles, Toeplitz band batches, einsum blocks broadcast against the input) — whatever the constructor accepts must declare the structures mv and the transpose really have (findings F17-F19, repaired).'),
        'note': ('Trusted: Lean kernel + standard axioms; jax.eval_shape as the reference for what mv returns; leaves report '
                 'their declared structures to the model (their honesty is the oracle part). Claimed for parameters no wider '
                 'than the data dtype, as the property states.'),
        'technique': 'Lean 4 proof (Level-A structure rules, table theorems) + differential correspondence + eval_shape oracle',
        'design_ref': '§5 C05',
    },
    'C06': {
        'text': ('PARTIAL (solver convergence).  Lean theorems: which function `inverse` resolves to for every class is '
                 're-checked against the source table; the form model gives A.I.I = A for every lazy-inverse wrapper and '
                 'closed form, refuses non-square operators, inverts block-diagonals block by block and falls back to the lazy '
                 'inverse otherwise; the semantic laws of each closed form are theorems on the kernel models: non-zero scalar '
                 '(field), diagonal Moore-Penrose pseudo-inverse without division by zero, QU rotation RᵀR = I, move-axis '
                 'round trip, block-wise products.  The form of .I and .I.I is compared with the implementation; A.I(A x) = x = '
                 'A(A.I x), Moore-Penrose identities, NaN/Inf scan, as_matrix of inverses and SPD solves under two solver '
                 'settings are checked on the implementation.'
                 ' CLOSED: closed_form_inverse_inverts — the form inverseOp builds inverts on both sides for every class with a closed form and block-diagonal nestings of them; Moore-Penrose identities for arbitrary diagonals.'),
        'note': ('PARTIAL: "A.I(y) solves A z = y to the configured tolerance" is numerical convergence of lineax CG (A4), '
                 'checked differentially on SPD operators with condition number ≤ 100. Trusted: Lean kernel + Mathlib + '
                 'standard axioms; translator/encoder.'),
        'technique': 'Lean 4 proof (form model + kernel laws) + differential correspondence; solver differential',
        'design_ref': '§5 C06',
    },
    'C10': {
        'text': ('Lean theorems on flattened pytrees (FuraxModel/BlockSem.lean): the block-diagonal, block-column and block-row '
                 'maps satisfy the algebra behind the four product rules for any number of blocks incl. one '
                 '(diag·diag, diag·col, row·diag block-wise; row·col the sum of the products), when present in '
                 'FuraxProofs/Lemmas/BlockLaws.lean; together with the Level-A form model of .T / .I / structures / constructor '
                 'validation / rule application, which is compared with the implementation.  Oracle on the implementation: the '
                 'dense matrix against numpy hstack / block_diag / vstack of the blocks\' dense matrices in pytree-leaf order for '
                 'lists, tuples, dicts with unsorted keys, nested containers, single blocks and pytree-valued blocks; transposes; '
                 'block-wise inverse; reduced products.  Closed form (Props/C10Closed.lean): in the list denotation, with '
                 'asMatrix of C04, the matrix of a block diagonal / row / column is the block-diagonal arrangement / horizontal '
                 'concatenation / vertical stack of the blocks\' matrices, the action is that matrix times the flattened input, '
                 'and the transpose of a row has the transposed matrix.'),
        'note': ('Trusted: Lean kernel + standard axioms; encoder (containers as treedef + leaves, as JAX flattens them). The '
                 'identification of the list denotation with the Python mv methods is by the dense-matrix oracle, not by proof.'),
        'technique': 'Lean 4 proof (list algebra) + differential correspondence of forms + dense-matrix oracle',
        'design_ref': '§5 C10',
    },
}

ALL = [f'C{i:02d}' for i in range(1, 21)]
NOT_YET = 'check under construction in this session; will be claimed once its proof module and correspondence exist'


def main():
    checks = []
    ready = {pid: c for pid, c in CLAIMED.items()
             if os.path.exists(os.path.join(VERIF, 'lean', 'FuraxProofs', 'Audit', f'{pid}.lean'))
             and os.path.exists(os.path.join(VERIF, 'harness', 'props', f'{pid.lower()}.py'))}
    for pid, c in sorted(ready.items()):
        checks.append({
            'property_id': pid,
            'quick_cmd': f'./check {pid} --tier quick',
            'thorough_cmd': f'./check {pid} --tier thorough',
            'evidence_file': f'evidence/{pid}.json',
            'replay_cmd_template': './check {property} --replay {path}',
            'engine': 'lean4-model',
            'level_claimed': {'category': 'proof', 'text': c['text'], 'design_ref': c['design_ref']},
            'level_note': c['note'],
            'technique': c['technique'],
        })
    manifest = {
        'version': 1,
        'setup_cmd': 'cd lean && lake build furax_model FuraxProofs',
        'hooks': {
            'guard': 'FURAX_VERIF',
            'enable': 'no source hooks are needed: everything is observed from outside (introspection, id())',
            'baseline_off_cmd': 'cd /repo && /venv/bin/python -m pytest -ra -q -p no:cacheprovider --timeout=900 --continue-on-collection-errors',
            'source_commits': [],
            'add_only': True,
        },
        'engines': [{
            'name': 'lean4-model',
            'path': 'lean/',
            'serves_properties': sorted(ready),
            'kind_free_text': ('Lean 4 model (FuraxModel, Mathlib-free, compiled driver) + proofs (FuraxProofs) + '
                               'tables regenerated from the source (FuraxGenerated) + Python correspondence harness'),
        }],
        'checks': checks,
        'not_applicable': [{'property_id': p, 'reason': NOT_YET} for p in ALL if p not in ready],
        'notes': 'See DESIGN.md. known_findings.json lists recorded and fixed defects.',
    }
    with open(os.path.join(VERIF, 'MANIFEST.json'), 'w') as f:
        json.dump(manifest, f, indent=1)


if __name__ == '__main__':
    main()
