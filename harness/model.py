"""Process wrapper around the compiled Lean model driver (lean/.lake/build/bin/furax_model)."""
from __future__ import annotations

import os
import subprocess

from encode import parse_sx, sx

HERE = os.path.dirname(os.path.abspath(__file__))
EXE = os.path.join(HERE, '..', 'lean', '.lake', 'build', 'bin', 'furax_model')


class Model:
    def __init__(self) -> None:
        if not os.path.exists(EXE):
            raise RuntimeError(f'model driver not built: {EXE}')
        self.proc = subprocess.Popen([EXE], stdin=subprocess.PIPE, stdout=subprocess.PIPE,
                                     text=True, bufsize=1)
        self.requests = 0

    def ask_raw(self, line: str) -> str:
        assert '\n' not in line
        self.proc.stdin.write(line + '\n')
        self.proc.stdin.flush()
        self.requests += 1
        out = self.proc.stdout.readline()
        if not out:
            raise RuntimeError('model driver died on: ' + line[:500])
        return out.strip()

    def ask(self, req) -> list:
        return parse_sx(self.ask_raw(sx(req)))

    def close(self) -> None:
        try:
            self.proc.stdin.close()
            self.proc.wait(timeout=5)
        except Exception:
            self.proc.kill()
