"""C01 — reducing an operator never changes the linear map it denotes.

Correspondence: `reduce()` of the real expression against the model's `reduce` (class tree and
parameters of the result).  Oracle on the implementation: `reduce()` does not raise, structures are
preserved and the dense matrix (column by column) is unchanged.
"""
from __future__ import annotations

import numpy as np

import gen
from common import Ctx, safe
from encode import Encoder, first_diff, sx

META = {
    'rule': ('well-typed operator expressions are generated bottom-up from a pool of structures with the '
             'documented simplification patterns planted at random positions; a case is non-trivial when '
             'reduce() changed the expression (model reply differs from the input) and distinct by the SHA-1 '
             'of its canonical S-expression'),
    'trusted_base': [
        "Lean 4.33 kernel; axioms propext, Classical.choice, Quot.sound only (see axioms_used)",
        'harness/encode.py (what the model is told about an object) and harness/translate.py',
        'A1 JAX primitives behave as NumPy documents; A2 jax.linear_transpose is the exact adjoint',
        'A4 the lazy InverseOperator denotes the exact inverse (solver convergence is runtime)',
        'rule soundness is proved per rule against the kernel models (FuraxProofs/Props/C01.lean lists '
        'which rule laws are discharged and which remain hypotheses of reduce_sound_partial)',
    ],
    'assumptions': ['IEEE rounding not modelled: equality means equality in exact arithmetic'],
}


def classify(expr_sx: str, e) -> str:
    """Signature of a failing input, specific enough that a different failure is still reported."""
    import jax
    from furax._base.diagonal import DiagonalInverseOperator
    sing = False

    def walk(o):
        nonlocal sing
        if isinstance(o, DiagonalInverseOperator):
            if bool((np.asarray(o._diagonal) == 0).any()):
                sing = True
        for name in ('operands', 'blocks'):
            if hasattr(o, name):
                for x in jax.tree.leaves(getattr(o, name), is_leaf=gen.is_op_leaf):
                    walk(x)
        if hasattr(o, 'operator'):
            walk(o.operator)

    walk(e)
    if sing:
        return 'singular-diagonal-pseudo-inverse-cancelled-as-inverse'
    return 'reduce-changes-map'


def one_case(ctx: Ctx, stream: str, i: int, max_len: int, depth: int) -> None:
    rng = ctx.rng(stream, i)
    e, info = gen.gen_expression(rng, max_len=max_len, depth=depth)
    enc = Encoder()
    try:
        esx = enc.op(e)
    except Exception as ex:  # noqa: BLE001  (an operator the encoder cannot describe)
        ctx.skipped += 1
        ctx.count('skipped:' + type(ex).__name__)
        return
    enc.freeze()
    reply = ctx.model.ask(['reduce', esx])
    status, red = safe(e.reduce)
    for p in info['planted']:
        ctx.count('planted:' + p)
    ctx.count('len:%d' % min(info['length'], 12))

    # ---- oracle on the implementation ------------------------------------------------------
    if status != 'ok':
        ctx.fail(stream, i, 'reduce-raises-' + status, f'reduce() raised {status}: {red}',
                 {'expr': sx(esx)[:3000], 'planted': info['planted']})
    else:
        ok_struct = gen.same_structure(red.in_structure(), e.in_structure()) and \
            gen.same_structure(red.out_structure(), e.out_structure())
        if not ok_struct:
            ctx.fail(stream, i, 'reduce-changes-structure', 'reduce() changed in/out structure',
                     {'expr': sx(esx)[:3000]})
        else:
            m0, m1 = gen.dense(e), gen.dense(red)
            if not gen.close(m0, m1):
                ctx.fail(stream, i, classify(sx(esx), e),
                         'dense matrix of reduce(e) differs from dense matrix of e',
                         {'expr': sx(esx)[:3000], 'planted': info['planted'],
                          'max_abs_diff': float(np.max(np.abs(m0 - m1))) if m0.shape == m1.shape else 'shape'})

    # ---- correspondence ----------------------------------------------------------------------
    if reply[0] == 'unsupported' or (reply[0] == 'error' and reply[1] in ('FUEL', 'UNSUPPORTED')):
        ctx.skipped += 1
        ctx.count('model-unsupported')
    elif status != 'ok':
        if not (reply[0] == 'error' and reply[1] == status):
            ctx.disagree(stream, i, f'implementation raised {status}, model replied {sx(reply)[:200]}',
                         {'expr': sx(esx)[:3000]})
    else:
        real = enc.op(red)
        if reply[0] != 'ok':
            ctx.disagree(stream, i, f'model replied {sx(reply)[:200]}, implementation reduced fine',
                         {'expr': sx(esx)[:3000]})
        else:
            d = first_diff(reply[1], real)
            if d is not None:
                ctx.disagree(stream, i, f'reduce() result differs at {d[0]}: model {d[1]!r:.200} impl {d[2]!r:.200}',
                             {'expr': sx(esx)[:3000], 'model': sx(reply[1])[:2000], 'impl': sx(real)[:2000]})
    changed = reply[0] == 'ok' and first_diff(reply[1], esx) is not None
    ctx.case(sx(esx), changed,
             sample={'planted': info['planted'], 'expr': sx(esx)[:600], 'reduced': sx(reply)[:300]})
    if changed:
        ctx.count('reduced')


def run(ctx: Ctx) -> None:
    n = 250 if ctx.tier == 'quick' else 4000
    max_len, depth = (6, 2) if ctx.tier == 'quick' else (10, 3)
    for i in range(n):
        if ctx.want('expr', i):
            one_case(ctx, 'expr', i, max_len, depth)
