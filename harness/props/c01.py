"""C01 — reducing an operator never changes the linear map it denotes.

Correspondence: `reduce()` of the real expression against the model's `reduce` (class tree and
parameters of the result).  Oracle on the implementation: `reduce()` does not raise, structures are
preserved and the dense matrix (column by column) is unchanged.
"""
from __future__ import annotations

import numpy as np

import gen
from common import Ctx, safe
from encode import Encoder, first_diff, sx

META = {
    'rule': ('well-typed operator expressions are generated bottom-up from a pool of structures with the '
             'documented simplification patterns planted at random positions; a case is non-trivial when '
             'reduce() changed the expression (model reply differs from the input) and distinct by the SHA-1 '
             'of its canonical S-expression'),
    'trusted_base': [
        "Lean 4.33 kernel; axioms propext, Classical.choice, Quot.sound only (see axioms_used)",
        'harness/encode.py (what the model is told about an object) and harness/translate.py',
        'A1 JAX primitives behave as NumPy documents; A2 jax.linear_transpose is the exact adjoint',
        'A4 the lazy InverseOperator denotes the exact inverse (solver convergence is runtime)',
        'rule soundness is proved per rule against the kernel models (FuraxProofs/Props/C01.lean lists '
        'which rule laws are discharged and which remain hypotheses of reduce_sound_partial)',
    ],
    'assumptions': ['IEEE rounding not modelled: equality means equality in exact arithmetic'],
}


def classify(expr_sx: str, e) -> str:
    """Signature of a failing input, specific enough that a different failure is still reported."""
    return 'reduce-changes-map'


def pinv_case(ctx: Ctx, stream: str, i: int) -> None:
    """Finding F13: a diagonal operator with zero entries has a pseudo-inverse D⁺ that is a lazy *inverse*
    object, so `D⁺ @ D` is cancelled although it denotes a projector.  The failure is attributed to F13
    only when the very same chain with the zeros replaced by ones passes the oracle."""
    import jax.numpy as jnp
    from furax._base.core import CompositionOperator
    from furax._base.diagonal import DiagonalOperator
    rng = ctx.rng(stream, i)
    n = rng.choice([2, 3, 4])
    s = gen.S(n) if rng.random() < 0.6 else [gen.S(n), gen.S(n)]
    vals = [rng.choice(gen.DIAGVALS) for _ in range(n)]
    for z in rng.sample(range(n), rng.randint(1, n - 1)):
        vals[z] = 0.0
    left, _ = gen.gen_chain(rng, s, rng.randint(0, 2), 1, p_pattern=0.0)
    right = [gen.gen_endo(rng, s, 1) for _ in range(rng.randint(0, 2))]
    order = rng.random() < 0.5

    def build(v):
        d = DiagonalOperator(gen.arr(v), axis_destination=-1, in_structure=s)
        pair = [d.I, d] if order else [d, d.I]
        return CompositionOperator(list(reversed(left)) + pair + right)

    e0 = build(vals)
    e1 = build([1.0 if v == 0 else v for v in vals])
    enc = Encoder()
    esx = enc.op(e0)

    def holds(e):
        st, red = safe(e.reduce)
        if st != 'ok':
            return False
        return gen.close(gen.dense(e), gen.dense(red))

    ok0, ok1 = holds(e0), holds(e1)
    if not ok0:
        sig = 'singular-diagonal-pseudo-inverse-cancelled-as-inverse' if ok1 else 'reduce-changes-map'
        ctx.fail(stream, i, sig, 'D⁺ @ D (D diagonal with zero entries) is reduced to the identity: dense matrix '
                 'of reduce(e) differs from dense matrix of e', {'expr': sx(esx)[:3000], 'diag': vals})
    ctx.count('pinv:' + ('holds' if ok0 else 'fails'))
    ctx.case(sx(esx), True, sample=None)


def moveaxis_expr(rng):
    """chains around two adjacent move-axis operators over pytrees whose leaves may have DIFFERENT ranks: the second
    is the literal inverse of the first, the inverse re-spelt with the other sign relative to the rank of one of the
    leaves (an inverse on the leaves of that rank only), or unrelated"""
    import jax
    import jax.numpy as jnp
    from furax._base.axes import MoveAxisOperator
    from furax._base.core import CompositionOperator
    nleaf = rng.choice([1, 2, 2, 3])
    ranks = [rng.choice([2, 3, 3, 4]) for _ in range(nleaf)]
    if rng.random() < 0.5:
        ranks.sort()
    leaves = [jax.ShapeDtypeStruct(tuple(rng.choice([2, 3]) for _ in range(r)), jnp.float32) for r in ranks]
    s = leaves[0] if nleaf == 1 and rng.random() < 0.5 else (leaves if rng.random() < 0.6 else
                                                              {chr(97 + k): l for k, l in enumerate(leaves)})
    rmin = min(ranks)
    k = rng.randint(1, min(2, rmin))
    def spell(a, r):
        return a
    src = rng.sample(range(rmin), k)
    dst = rng.sample(range(rmin), k)
    # spell some axes negatively (same meaning on every leaf only for axes counted from the end: choose per axis)
    def resign(axes, r):
        return tuple((a - r) if a >= 0 else (a + r) for a in axes)
    if rng.random() < 0.4:
        src = [a - rmin if rng.random() < 0.5 else a for a in src]
        dst = [a - rmin if rng.random() < 0.5 else a for a in dst]
    m2 = MoveAxisOperator(tuple(src), tuple(dst), in_structure=s)
    mode = rng.choice(['literal', 'respelt', 'respelt', 'other', 'one-side-shared', 'one-side-shared'])
    if mode == 'literal':
        s1, d1 = tuple(dst), tuple(src)
    elif mode == 'respelt':
        r = rng.choice(ranks)
        flip = [rng.random() < 0.6 for _ in range(2 * k)]
        if not any(flip):
            flip[0] = True
        s1 = tuple((a - r if a >= 0 else a + r) if f else a for a, f in zip(dst, flip[:k]))
        d1 = tuple((a - r if a >= 0 else a + r) if f else a for a, f in zip(src, flip[k:]))
    elif mode == 'one-side-shared':
        # a relay: the second move starts where the first one arrived (or arrives where it started) without undoing it
        if rng.random() < 0.5:
            s1 = tuple(dst)
            d1 = tuple(rng.sample(range(rmin), k))
            if d1 == tuple(src):
                d1 = tuple((a + 1) % rmin for a in d1)
        else:
            d1 = tuple(src)
            s1 = tuple(rng.sample(range(rmin), k))
            if s1 == tuple(dst):
                s1 = tuple((a + 1) % rmin for a in s1)
        if len(set(a % rmin for a in s1)) != k or len(set(a % rmin for a in d1)) != k:
            s1, d1 = tuple(rng.sample(range(rmin), k)), tuple(rng.sample(range(rmin), k))
    else:
        s1 = tuple(rng.sample(range(rmin), k))
        d1 = tuple(rng.sample(range(rmin), k))
    m1 = MoveAxisOperator(s1, d1, in_structure=m2.out_structure())
    ops = [m1, m2]
    if rng.random() < 0.4:
        ops.append(gen.mk_homothety(rng, s))
    if rng.random() < 0.3:
        ops.insert(0, gen.mk_homothety(rng, m1.out_structure()))
    return CompositionOperator(ops), {'planted': ['moveaxis:' + mode], 'length': len(ops)}


def one_case(ctx: Ctx, stream: str, i: int, max_len: int, depth: int, force_pattern=None) -> None:
    rng = ctx.rng(stream, i)
    if stream == 'moveaxis':
        st_, built = safe(moveaxis_expr, rng)
        if st_ != 'ok':
            ctx.count('moveaxis:construction-' + st_)
            return
        e, info = built
    else:
        e, info = gen.gen_expression(rng, max_len=max_len, depth=depth, force_pattern=force_pattern)
    enc = Encoder()
    try:
        esx = enc.op(e)
    except Exception as ex:  # noqa: BLE001  (an operator the encoder cannot describe)
        ctx.skipped += 1
        ctx.count('skipped:' + type(ex).__name__)
        return
    enc.freeze()
    # the expression the library built satisfies the hypothesis of reduce_sound_closed (decided by the driver)
    ctx.in_domain(stream, i, esx, {'expr': sx(esx)[:3000]})
    reply = ctx.model.ask(['reduce', esx])
    status, red = safe(e.reduce)
    # reduce() is a function of the expression: the operand (and the caller's arrays inside it) is left as it was
    after = enc.op(e)
    dmut = first_diff(esx, after)
    if dmut is not None:
        ctx.fail(stream, i, 'reduce-modifies-operand', f'the expression differs after reduce() at {dmut[0]}: '
                 f'{dmut[1]!r:.120} became {dmut[2]!r:.120}', {'expr': sx(esx)[:3000], 'planted': info['planted']})
    for p in info['planted']:
        ctx.count('planted:' + p)
    ctx.count('len:%d' % min(info['length'], 12))

    # ---- oracle on the implementation ------------------------------------------------------
    if status != 'ok':
        ctx.fail(stream, i, 'reduce-raises-' + status, f'reduce() raised {status}: {red}',
                 {'expr': sx(esx)[:3000], 'planted': info['planted']})
    else:
        ok_struct = gen.same_structure(red.in_structure(), e.in_structure()) and \
            gen.same_structure(red.out_structure(), e.out_structure())
        if not ok_struct:
            ctx.fail(stream, i, 'reduce-changes-structure', 'reduce() changed in/out structure',
                     {'expr': sx(esx)[:3000]})
        else:
            st0, m0 = safe(gen.dense, e)
            st1, m1 = safe(gen.dense, red)
            if st0 != 'ok' or st1 != 'ok':
                which = 'unreduced' if st0 != 'ok' else 'reduced'
                ctx.fail(stream, i, f'apply-raises-{which}-{st0 if st0 != "ok" else st1}',
                         f'applying the {which} expression to a basis vector raised: {m0 if st0 != "ok" else m1}',
                         {'expr': sx(esx)[:3000], 'planted': info['planted']})
            elif not gen.close(m0, m1):
                ctx.fail(stream, i, classify(sx(esx), e),
                         'dense matrix of reduce(e) differs from dense matrix of e',
                         {'expr': sx(esx)[:3000], 'planted': info['planted'],
                          'max_abs_diff': float(np.max(np.abs(m0 - m1))) if m0.shape == m1.shape else 'shape'})

    # ---- correspondence ----------------------------------------------------------------------
    if reply[0] == 'unsupported' or (reply[0] == 'error' and reply[1] in ('FUEL', 'UNSUPPORTED')):
        ctx.skipped += 1
        ctx.count('model-unsupported')
    elif status != 'ok':
        if not (reply[0] == 'error' and reply[1] == status):
            ctx.disagree(stream, i, f'implementation raised {status}, model replied {sx(reply)[:200]}',
                         {'expr': sx(esx)[:3000]})
    else:
        real = enc.op(red)
        if reply[0] != 'ok':
            ctx.disagree(stream, i, f'model replied {sx(reply)[:200]}, implementation reduced fine',
                         {'expr': sx(esx)[:3000]})
        else:
            d = first_diff(reply[1], real)
            if d is not None:
                ctx.disagree(stream, i, f'reduce() result differs at {d[0]}: model {d[1]!r:.200} impl {d[2]!r:.200}',
                             {'expr': sx(esx)[:3000], 'model': sx(reply[1])[:2000], 'impl': sx(real)[:2000]})
    changed = reply[0] == 'ok' and first_diff(reply[1], esx) is not None
    ctx.case(sx(esx), changed,
             sample={'planted': info['planted'], 'expr': sx(esx)[:600], 'reduced': sx(reply)[:300]})
    if changed:
        ctx.count('reduced')


def run(ctx: Ctx) -> None:
    n = 160 if ctx.tier == 'quick' else 3000
    max_len, depth = (6, 2) if ctx.tier == 'quick' else (10, 3)
    for i in range(n):
        if ctx.want('expr', i):
            one_case(ctx, 'expr', i, max_len, depth)
    # every documented pattern, planted at a random position of a random context, several times each
    per = 8 if ctx.tier == 'quick' else 120
    for i in range(per * len(gen.PATTERNS)):
        if ctx.want('pattern', i):
            one_case(ctx, 'pattern', i, 5, 1, force_pattern=gen.PATTERNS[i % len(gen.PATTERNS)])
    for i in range(64 if ctx.tier == 'quick' else 1500):
        if ctx.want('moveaxis', i):
            one_case(ctx, 'moveaxis', i, 4, 0)
    for i in range(8 if ctx.tier == 'quick' else 100):
        if ctx.want('pinv', i):
            pinv_case(ctx, 'pinv', i)
