"""C02 — operator arithmetic is matrix arithmetic, whatever the grouping.

Every step of a random expression tree over {@, +, -, neg, pos, k*, *k, /k} is evaluated on the real operands
and on the model (fed the encoded real operands); class tree, operand lists and error kinds are compared.
Oracle on the implementation: dense matrices (M(A@B) = M(A)·M(B), …) and "incompatible operands must be
rejected".
"""
from __future__ import annotations

import jax
import jax.numpy as jnp
import numpy as np

import gen
from common import Ctx, safe
from encode import Encoder, first_diff, frac_str, sx
from fractions import Fraction

META = {
    'rule': ('random expression trees (3..k steps) over the arithmetic dunders applied to operand kinds {plain, '
             'composition, sum, identity, scalar, closed-form and lazy inverse of another operand, block}; scalars '
             'from {int, float, NumPy scalar, 0-d JAX array} plus non-scalar "scalars"; ~20% structurally '
             'incompatible operands.  Every step is one case; non-trivial = a shortcut or flattening branch was '
             'taken or an error branch hit (model result is not the plain two-operand composite)'),
    'trusted_base': [
        'Lean 4.33 kernel; axioms propext, Classical.choice, Quot.sound only',
        'harness/encode.py, harness/translate.py (dunder resolution per class is pinned by a table theorem)',
        'A4: a lazy InverseOperator denotes the exact inverse',
    ],
    'assumptions': ['NumPy ndarray * operator dispatches to NumPy (finding F12, outside the claim)'],
}

SCALAR_MAKERS = [
    ('int', lambda v: int(v) if float(v).is_integer() else float(v)),
    ('float', lambda v: float(v)),
    ('np.float32', lambda v: np.float32(v)),
    ('np.float64', lambda v: np.float64(v)),
    ('jnp0d', lambda v: jnp.asarray(v, dtype=jnp.float32)),
]
NONSCALARS = [('jnp1d', lambda: jnp.ones(2)), ('list', lambda: [1.0, 2.0]), ('jnp2d', lambda: jnp.ones((1, 1)))]


def operand_pool(rng, s):
    """operators s → s of different kinds, some sharing sub-objects"""
    from furax._base.core import CompositionOperator, AdditionOperator, IdentityOperator, InverseOperator
    pool = []
    base = [gen.gen_endo(rng, s, 0) for _ in range(3)]
    pool += base
    pool.append(IdentityOperator(s))
    pool.append(gen.mk_homothety(rng, s))
    pool.append(gen.mk_homothety(rng, s))
    pool.append(CompositionOperator([base[0], base[1]]))
    pool.append(AdditionOperator([base[1], base[2]]))
    d = gen.mk_diagonal(rng, s) or gen.mk_diagonal_first(rng, s)
    if d is not None:
        pool += [d, d.I]
    t = gen.mk_toeplitz(rng, s, spd=True)
    if t is not None:
        pool += [t, InverseOperator(t)]
    r = gen.mk_qurot(rng, s)
    if r is not None:
        pool += [r, r.T]
    return pool


def one_case(ctx: Ctx, stream: str, i: int, steps: int) -> None:
    rng = ctx.rng(stream, i)
    s = gen.random_structure(rng)
    pool = operand_pool(rng, s)
    other_s = gen.random_structure(rng)
    alien = operand_pool(rng, other_s)[:5]
    for step in range(steps):
        op = rng.choice(['@', '@', '@', '+', '+', '-', 'neg', 'pos', 'rmul', 'mul', 'div'])
        a = rng.choice(pool)
        incompatible = rng.random() < 0.2
        b = rng.choice(alien) if incompatible else rng.choice(pool)
        enc = Encoder()
        req = None
        scalar_kind = ''
        if op in ('@', '+', '-'):
            ea, eb = enc.op(a), enc.op(b)
            enc.freeze()
            req = [{'@': 'matmul', '+': 'add', '-': 'sub'}[op], ea, eb]
            f = {'@': lambda: a @ b, '+': lambda: a + b, '-': lambda: a - b}[op]
        elif op in ('neg', 'pos'):
            ea = enc.op(a)
            enc.freeze()
            req = [op, ea]
            f = (lambda: -a) if op == 'neg' else (lambda: +a)
        else:
            v = rng.choice([2.0, -1.0, 0.5, 4.0, -2.0, 3.0]) if op != 'div' else rng.choice([2.0, -1.0, 0.5, 4.0, -2.0])
            nonscalar = rng.random() < 0.15
            if nonscalar:
                scalar_kind, mk = rng.choice(NONSCALARS)
                k = mk()
            else:
                scalar_kind, mk = rng.choice(SCALAR_MAKERS)
                k = mk(v)
            ea = enc.op(a)
            enc.freeze()
            if nonscalar:
                req = None   # the model's commands take a scalar; the rejection clause is checked directly
            elif op == 'div':
                req = ['truediv', ea, frac_str(Fraction(v))]
            else:
                req = ['rmul', frac_str(Fraction(v)), ea]
            f = {'rmul': lambda: k * a, 'mul': lambda: a * k, 'div': lambda: a / k}[op]
            b = None
        status, res = safe(f)
        ctx.count('op:' + op)
        desc = {'op': op, 'a': type(a).__name__, 'b': type(b).__name__ if b is not None else scalar_kind}
        # arithmetic builds a NEW operator: the operands (which the caller keeps and may use again — the pool of this
        # very case does) must still be what they were, whatever lists or containers the result shares with them
        for nm, o, before in (('left', a, ea), ('right', b, eb if op in ('@', '+', '-') else None)):
            if before is not None and enc.op(o) != before:
                ctx.fail(stream, i, f'operand-modified-by-arithmetic:{op}:{nm}',
                         f'the {nm} operand of {op} ({type(o).__name__}) no longer encodes to what it did before the '
                         f'operation was evaluated', {**desc, 'before': sx(before)[:1500], 'after': sx(enc.op(o))[:1500]})

        # ---------------- oracle on the implementation ------------------------------------------
        if op in ('rmul', 'mul', 'div') and req is None:
            if status != 'ValueError':
                ctx.fail(stream, i, f'nonscalar-accepted-{op}-{scalar_kind}',
                         f'a non-scalar ({scalar_kind}) was accepted by {op}: {status}', desc)
            ctx.case(f'{i}:{step}:{op}:{scalar_kind}', True, sample=None)
            ctx.count('nonscalar-rejected')
            continue
        compatible = True
        if op == '@':
            compatible = gen.same_structure(a.in_structure(), b.out_structure())
        elif op in ('+', '-'):
            compatible = gen.same_structure(a.in_structure(), b.in_structure()) and \
                gen.same_structure(a.out_structure(), b.out_structure())
        if not compatible:
            ctx.count('incompatible')
            if status == 'ok':
                ctx.fail(stream, i, f'incompatible-accepted:{type(a).__name__}{op}{type(b).__name__}',
                         f'{type(a).__name__} {op} {type(b).__name__} with mismatching structures yielded a '
                         f'{type(res).__name__} instead of raising', {**desc, 'expr': sx(req)[:2000]})
            elif status != 'ValueError':
                ctx.fail(stream, i, f'incompatible-raises-{status}', f'expected ValueError, got {status}', desc)
        elif status != 'ok':
            ctx.fail(stream, i, f'arith-raises-{status}:{op}', f'{op} on compatible operands raised {status}: {res}',
                     {**desc, 'expr': sx(req)[:2000]})
        else:
            ma = gen.dense(a)
            if op == '@':
                expect = ma @ gen.dense(b)
            elif op == '+':
                expect = ma + gen.dense(b)
            elif op == '-':
                expect = ma - gen.dense(b)
            elif op == 'neg':
                expect = -ma
            elif op == 'pos':
                expect = ma
            elif op in ('rmul', 'mul'):
                expect = v * ma
            else:
                expect = ma / v
            st, got = safe(gen.dense, res)
            if st != 'ok' or not gen.close(got, expect):
                ctx.fail(stream, i, f'arith-changes-map:{op}:{type(a).__name__}:{desc["b"]}',
                         f'dense matrix of the result of {op} is not the {op} of the dense matrices',
                         {**desc, 'expr': sx(req)[:2000]})

        # ---------------- correspondence -----------------------------------------------------------
        reply = ctx.model.ask(req)
        if reply[0] == 'unsupported':
            ctx.skipped += 1
        elif status != 'ok':
            if not (reply[0] == 'error' and reply[1] == status):
                ctx.disagree(stream, i, f'{op}: implementation raised {status}, model replied {sx(reply)[:150]}',
                             {**desc, 'expr': sx(req)[:2000]})
        elif reply[0] != 'ok':
            ctx.disagree(stream, i, f'{op}: model replied {sx(reply)[:150]}, implementation returned '
                         f'{type(res).__name__}', {**desc, 'expr': sx(req)[:2000]})
        else:
            real = enc.op(res)
            ctx.in_domain(stream, i, real, {**desc, 'expr': sx(req)[:2000]})
            d = first_diff(reply[1], real)
            if d is not None:
                ctx.disagree(stream, i, f'{op}: result differs at {d[0]}: model {d[1]!r:.150} impl {d[2]!r:.150}',
                             {**desc, 'expr': sx(req)[:2000]})
        plain = status == 'ok' and type(res).__name__ in ('CompositionOperator', 'AdditionOperator') and \
            len(getattr(res, 'operands', [])) == 2 and op in ('@', '+')
        ctx.case(sx(req), not plain, sample={**desc, 'status': status,
                                             'result': type(res).__name__ if status == 'ok' else status})
        if status == 'ok' and rng.random() < 0.7:
            if gen.same_structure(res.in_structure(), s) and gen.same_structure(res.out_structure(), s):
                pool.append(res)


def grouping_case(ctx: Ctx, stream: str, i: int) -> None:
    """every parenthesisation of products of three or four factors containing an operator X, its inverse X.I (closed
    form or lazy) and non-commuting neighbours: the denoted matrix must not depend on the grouping"""
    from furax._base.core import InverseOperator
    rng = ctx.rng(stream, i)
    n = rng.choice([2, 3])
    s = gen.S(n)
    kind = rng.choice(['diag', 'toeplitz', 'dense'])
    if kind == 'diag':
        x = gen.mk_diagonal(rng, s)
        xi = x.I
    elif kind == 'toeplitz':
        x = gen.mk_toeplitz(rng, s, spd=True)
        xi = InverseOperator(x)
    else:
        # a symmetric positive definite dense operator (the lazy inverse uses conjugate gradients: A4)
        from furax._base.dense import DenseBlockDiagonalOperator
        g = np.array([[rng.randint(-1, 2) for _ in range(n)] for _ in range(n)], dtype=np.float64)
        spd = g @ g.T + 4 * np.eye(n)
        x = DenseBlockDiagonalOperator(gen.arr(spd), s, 'ij...,j...->i...')
        xi = InverseOperator(x)
    b = gen.mk_dense(rng, s, square=True)       # does not commute with x in general
    c = gen.mk_toeplitz(rng, s)
    pos = rng.choice([0, 1, 2])
    seqs = [[xi, b, x], [x, b, xi], [xi, x, b], [b, x, xi], [x, xi, b], [b, xi, x], [xi, b, c, x], [x, c, xi, b]]
    seq = rng.choice(seqs)
    mats = [np.linalg.inv(gen.dense(x)) if o is xi else gen.dense(o) for o in seq]
    want = mats[0]
    for mm in mats[1:]:
        want = want @ mm

    def groupings(ops):
        if len(ops) == 1:
            yield ops[0], type(ops[0]).__name__
            return
        for k in range(1, len(ops)):
            for l, ln in groupings(ops[:k]):
                for r, rn in groupings(ops[k:]):
                    yield (lambda l=l, r=r: l @ r), f'({ln} @ {rn})'

    def build(g):
        return g() if callable(g) and not hasattr(g, 'mv') else g

    def materialise(ops):
        # all binary bracketings, built bottom-up with the real `@`
        if len(ops) == 1:
            return [(ops[0], 'X' if ops[0] is x else 'X.I' if ops[0] is xi else type(ops[0]).__name__[0])]
        out = []
        for k in range(1, len(ops)):
            for l, ln in materialise(ops[:k]):
                for r, rn in materialise(ops[k:]):
                    st, v = safe(lambda: l @ r)
                    if st == 'ok':
                        out.append((v, f'({ln}@{rn})'))
                    else:
                        ctx.fail(stream, i, f'grouping-raises:{st}', f'{ln} @ {rn} raised {st}', {'kind': kind})
        return out
    tol = 2e-3 if kind != 'diag' else 1e-4
    for op, label in materialise(seq):
        st, m = safe(gen.dense, op)
        if st != 'ok' or not gen.close(m, want, tol):
            ctx.fail(stream, i, f'grouping-changes-map:{kind}', f'{label} does not denote the product of the matrices '
                     f'(it depends on the parenthesisation)', {'kind': kind, 'grouping': label})
        ctx.case(f'grouping:{kind}:{label}:{i}', True, sample={'kind': kind, 'grouping': label})
    ctx.count('grouping:' + kind)


def half_case(ctx: Ctx, stream: str, i: int) -> None:
    """Operands that share exactly ONE of the two structures: `a : s → s` of every kind (plain, sum, composition,
    identity, scalar, lazy inverse, …) against `c : s → t` and `c.T : t → s` with `t ≠ s`.  Sums and differences in
    either order must be refused (one of the two structure comparisons alone decides), `a @ c` must be refused,
    `c @ a` and `c.T @ c`-style products are legal and must denote the matrix product."""
    from furax._base.core import AdditionOperator, CompositionOperator
    rng = ctx.rng(stream, i)
    s = gen.random_structure(rng)
    pool = operand_pool(rng, s)
    c = None
    for _ in range(12):
        cand = rng.choice(gen.CHANGERS)(rng, s)
        if cand is not None and not gen.same_structure(cand.out_structure(), s):
            c = cand
            break
    if c is None:
        ctx.count('half:no-changer')
        return
    st_t, ct = safe(lambda: c.T)
    rights = [('c', c)] + ([('cT', ct)] if st_t == 'ok' else [])
    kinds = {}
    for a in pool:
        kinds.setdefault(type(a).__name__, a)
    lefts = list(kinds.values())
    # composite left operands of both container kinds, whatever the pool drew
    lefts.append(AdditionOperator([pool[0], pool[1]]))
    lefts.append(CompositionOperator([pool[1], pool[0]]))
    for a in lefts:
        for rname, r in rights:
            for op in ('+', '-', 'r+', 'r-', '@', 'r@'):
                x, y = (a, r) if not op.startswith('r') else (r, a)
                sym = op[-1]
                enc = Encoder()
                ex, ey = enc.op(x), enc.op(y)
                enc.freeze()
                req = [{'@': 'matmul', '+': 'add', '-': 'sub'}[sym], ex, ey]
                f = {'@': lambda: x @ y, '+': lambda: x + y, '-': lambda: x - y}[sym]
                status, res = safe(f)
                if sym == '@':
                    compatible = gen.same_structure(x.in_structure(), y.out_structure())
                else:
                    compatible = gen.same_structure(x.in_structure(), y.in_structure()) and \
                        gen.same_structure(x.out_structure(), y.out_structure())
                desc = {'op': sym, 'left': type(x).__name__, 'right': type(y).__name__, 'which': rname,
                        'expr': sx(req)[:2000]}
                if not compatible:
                    if status == 'ok':
                        ctx.fail(stream, i, f'incompatible-accepted:{type(x).__name__}{sym}{type(y).__name__}',
                                 f'{type(x).__name__} {sym} {type(y).__name__} sharing only one structure yielded a '
                                 f'{type(res).__name__} instead of raising', desc)
                    elif status != 'ValueError':
                        ctx.fail(stream, i, f'incompatible-raises-{status}', f'expected ValueError, got {status}', desc)
                elif status != 'ok':
                    ctx.fail(stream, i, f'arith-raises-{status}:{sym}', f'{sym} on compatible operands raised {status}: '
                             f'{res}', desc)
                else:
                    st, got = safe(gen.dense, res)
                    expect = gen.dense(x) @ gen.dense(y)
                    if st != 'ok' or not gen.close(got, expect):
                        ctx.fail(stream, i, f'arith-changes-map:{sym}:{type(x).__name__}:{type(y).__name__}',
                                 'dense matrix of the product is not the product of the dense matrices', desc)
                reply = ctx.model.ask(req)
                if reply[0] == 'unsupported':
                    ctx.skipped += 1
                elif status != 'ok':
                    if not (reply[0] == 'error' and reply[1] == status):
                        ctx.disagree(stream, i, f'{sym}: implementation raised {status}, model replied '
                                     f'{sx(reply)[:150]}', desc)
                elif reply[0] != 'ok':
                    ctx.disagree(stream, i, f'{sym}: model replied {sx(reply)[:150]}, implementation returned '
                                 f'{type(res).__name__}', desc)
                else:
                    d = first_diff(reply[1], enc.op(res))
                    if d is not None:
                        ctx.disagree(stream, i, f'{sym}: result differs at {d[0]}: model {d[1]!r:.150} impl {d[2]!r:.150}', desc)
                ctx.count('half:' + ('refused' if status != 'ok' else 'built'))
                ctx.case(sx(req), True, sample=None)


def twin_case(ctx: Ctx, stream: str, i: int) -> None:
    """`X.I @ Y` and `Y @ X.I` collapse to the identity only when `Y` IS `X`.  Twins: operators of the same class that
    hold the very same array objects but differ in their static data (axes, nesting), or that hold no arrays at all."""
    from furax._base.core import CompositionOperator, InverseOperator
    from furax._base.diagonal import DiagonalOperator
    from furax._base.axes import MoveAxisOperator
    rng = ctx.rng(stream, i)
    n = rng.choice([2, 3])
    s = jax.ShapeDtypeStruct((n, n), jnp.float32)
    w = gen.arr([rng.choice([1.0, 2.0, 4.0, 0.5, -1.0, 3.0]) for _ in range(n)], jnp.float32)
    kind = rng.choice(['diagonal-axes', 'diagonal-axes', 'composition', 'lazy-inverse-of-composition'])
    d0 = DiagonalOperator(w, axis_destination=0, in_structure=s)
    d1 = DiagonalOperator(w, axis_destination=1, in_structure=s)     # same array object, other axis
    if kind == 'diagonal-axes':
        x, y = (d0, d1) if rng.random() < 0.5 else (d1, d0)
        xi = x.I
    elif kind == 'composition':
        m = MoveAxisOperator(0, 1, in_structure=s)
        x, y = CompositionOperator([d0, m]), CompositionOperator([d1, m])
        xi = InverseOperator(x)
    else:
        sq = gen.mk_diagonal(rng, s)
        x, y = CompositionOperator([d0, sq]), CompositionOperator([d1, sq])
        xi = InverseOperator(x)
    for label, f, a, b in (('X.I@Y', lambda: xi @ y, xi, y), ('Y@X.I', lambda: y @ xi, y, xi),
                           ('X.I@X', lambda: xi @ x, xi, x), ('X@X.I', lambda: x @ xi, x, xi)):
        enc = Encoder()
        ea, eb = enc.op(a), enc.op(b)
        enc.freeze()
        req = ['matmul', ea, eb]
        status, res = safe(f)
        desc = {'kind': kind, 'product': label, 'expr': sx(req)[:2000]}
        if status != 'ok':
            ctx.fail(stream, i, f'arith-raises-{status}:@', f'{label} raised {status}: {res}', desc)
            continue
        if kind == 'diagonal-axes':
            # (the solver-based lazy inverse of a composition — not symmetric positive definite here — is compared
            # through the form of the product only)
            st, got = safe(gen.dense, res)
            expect = gen.dense(a) @ gen.dense(b)
            if st != 'ok' or not gen.close(got, expect, 1e-3):
                ctx.fail(stream, i, f'arith-changes-map:@:twin:{kind}', f'{label}: the product of an inverse with a '
                         f'DIFFERENT operator sharing its arrays does not denote the matrix product', desc)
        reply = ctx.model.ask(req)
        if reply[0] != 'ok':
            ctx.disagree(stream, i, f'{label}: model replied {sx(reply)[:150]}', desc)
        else:
            d = first_diff(reply[1], enc.op(res))
            if d is not None:
                ctx.disagree(stream, i, f'{label}: result differs at {d[0]}: model {d[1]!r:.150} impl {d[2]!r:.150}', desc)
        ctx.case(sx(req), True, sample=None)
    ctx.count('twin:' + kind)


def run(ctx: Ctx) -> None:
    for i in range(40 if ctx.tier == 'quick' else 800):
        if ctx.want('grouping', i):
            grouping_case(ctx, 'grouping', i)
    for i in range(24 if ctx.tier == 'quick' else 400):
        if ctx.want('twin', i):
            twin_case(ctx, 'twin', i)
    for i in range(10 if ctx.tier == 'quick' else 200):
        if ctx.want('half', i):
            half_case(ctx, 'half', i)
    n = 60 if ctx.tier == 'quick' else 1200
    steps = 7 if ctx.tier == 'quick' else 10
    for i in range(n):
        if ctx.want('tree', i):
            one_case(ctx, 'tree', i, steps)
