"""C03 — transpose is the exact adjoint of every operator.

Correspondence: the *form* of `op.T` (which class, which parameters, which operand objects) against the model's
`transposeOp`, for random expressions and per-class parameter sweeps.  Oracle on the implementation: the dense
matrix of `A.T` is the transposed dense matrix of `A`, ⟨A x, y⟩ = ⟨x, A.T y⟩ on integer vectors, input and output
structures are swapped, `A.T.T` denotes `A`.  Transposes of the iterative-solver inverse are excluded, as the
property says.
"""
from __future__ import annotations

import jax
import numpy as np

import gen
from common import Ctx, safe
from encode import Encoder, first_diff, sx

META = {
    'rule': ('random expressions (generator of C01: compositions, sums, block containers, wrappers, all leaf classes) and '
             'per-class operators with random parameters; non-trivial = the operator is not symmetric (its transpose is a '
             'different object); distinct by the canonical S-expression'),
    'trusted_base': [
        'Lean 4.33 kernel + Mathlib + standard axioms',
        'A2: jax.linear_transpose returns the exact adjoint of a linear function (generic TransposeOperator); the dense-'
        'matrix oracle re-checks it on every case',
    ],
    'assumptions': ['index arrays in bounds; no transpose of the solver-based inverse'],
}


def contains_lazy_inverse(op) -> bool:
    from furax._base.core import InverseOperator
    found = False

    def walk(o):
        nonlocal found
        if isinstance(o, InverseOperator):
            found = True
        for name in ('operands', 'blocks'):
            if hasattr(o, name):
                for x in jax.tree.leaves(getattr(o, name), is_leaf=gen.is_op_leaf):
                    walk(x)
        if hasattr(o, 'operator'):
            walk(o.operator)
    walk(op)
    return found


def check(ctx: Ctx, stream: str, i: int, op, label: str) -> None:
    import furax as fx
    enc = Encoder()
    st, esx = safe(enc.op, op)
    if st != 'ok':
        ctx.skipped += 1
        return
    enc.freeze()
    cfg = {'label': label, 'expr': sx(esx)[:1500]}
    if contains_lazy_inverse(op):
        ctx.count('excluded:lazy-inverse')
        ctx.case(sx(esx), False)
        return
    # the hypotheses of transpose_is_adjoint_closed, decided by the driver (dense einsum and broadcasting diagonal
    # leaves are the theorem's two documented exclusions: their own kernel theorems cover them)
    ctx.in_domain(stream, i, esx, cfg, cmd='valid-T', allow=('adjoint:',))
    st, t = safe(lambda: op.T)
    rep = ctx.model.ask(['T', esx])
    if st != 'ok':
        ctx.fail(stream, i, f'transpose-raises:{type(op).__name__}:{st}', str(t)[:150], cfg)
        if rep[0] == 'ok':
            ctx.disagree(stream, i, f'.T: implementation raised {st}, model ok', cfg)
        return
    if rep[0] == 'ok':
        d = first_diff(rep[1], enc.op(t))
        if d is not None:
            ctx.disagree(stream, i, f'.T form differs at {d[0]}: model {d[1]!r:.120} impl {d[2]!r:.120}', cfg)
    elif rep[0] != 'unsupported':
        ctx.disagree(stream, i, f'.T: model {sx(rep)[:100]}, implementation {type(t).__name__}', cfg)
    # structures swapped
    if not (gen.same_structure(t.in_structure(), op.out_structure()) and gen.same_structure(t.out_structure(), op.in_structure())):
        ctx.fail(stream, i, f'transpose-structures:{type(op).__name__}', 'in/out structures of A.T are not those of A swapped', cfg)
        return
    st1, m = safe(gen.dense, op)
    st2, mt = safe(gen.dense, t)
    if st1 != 'ok' or st2 != 'ok':
        ctx.fail(stream, i, f'transpose-apply-raises:{type(op).__name__}', f'{st1} / {st2}: {str(mt)[:120]}', cfg)
        return
    if not gen.close(mt, m.T):
        ctx.fail(stream, i, f'transpose-not-adjoint:{type(op).__name__}', 'dense(A.T) is not dense(A) transposed', cfg)
    rng = ctx.rng(stream + ':vec', i)
    x, y = gen.random_input(rng, op.in_structure()), gen.random_input(rng, op.out_structure())
    lhs, rhs = float(fx.tree.dot(op.mv(x), y)), float(fx.tree.dot(x, t.mv(y)))
    if abs(lhs - rhs) > 1e-3 * max(1.0, abs(lhs)):
        ctx.fail(stream, i, f'transpose-dot:{type(op).__name__}', f'<Ax,y> = {lhs} but <x,A.T y> = {rhs}', cfg)
    st3, tt = safe(lambda: t.T)
    if st3 != 'ok' or not gen.close(gen.dense(tt), m):
        ctx.fail(stream, i, f'transpose-transpose:{type(op).__name__}', 'A.T.T does not denote A', cfg)
    ctx.count('class:' + type(op).__name__)
    ctx.case(sx(esx), t is not op, sample={'label': label, 'class': type(op).__name__, 'T_class': type(t).__name__})


def complex_case(ctx: Ctx, stream: str, i: int) -> None:
    """complex operators: the dense matrix of A.T is the TRANSPOSE (not the conjugate transpose) of the dense matrix of A,
    structures are swapped and A.T.T denotes A — compared in complex arithmetic"""
    rng = ctx.rng(stream, i)
    st0, cands = safe(gen.complex_candidates, rng)
    if st0 != 'ok':
        ctx.fail(stream, i, f'complex-construction-raises:{st0}', str(cands)[:200], {})
        return
    for label, op in cands:
        cfg = {'label': label, 'class': type(op).__name__}
        st, t = safe(lambda: op.T)
        if st != 'ok':
            ctx.fail(stream, i, f'transpose-raises:{label}:{st}', str(t)[:150], cfg)
            continue
        if not (gen.same_structure(t.in_structure(), op.out_structure()) and gen.same_structure(t.out_structure(), op.in_structure())):
            ctx.fail(stream, i, f'transpose-structures:{label}', 'in/out structures of A.T are not those of A swapped', cfg)
            continue
        st1, m = safe(gen.dense, op)
        st2, mt = safe(gen.dense, t)
        if st1 != 'ok' or st2 != 'ok':
            ctx.fail(stream, i, f'transpose-apply-raises:{label}', f'{st1} / {st2}: {str(mt)[:120]}', cfg)
            continue
        if not gen.close(mt, m.T):
            ctx.fail(stream, i, f'transpose-not-adjoint:{label}', 'dense(A.T) is not dense(A) transposed (complex entries)', cfg)
        st3, tt = safe(lambda: t.T)
        if st3 != 'ok' or not gen.close(gen.dense(tt), m):
            ctx.fail(stream, i, f'transpose-transpose:{label}', 'A.T.T does not denote A', cfg)
        # the bilinear pairing sum_k (A x)_k y_k = sum_k x_k (A.T y)_k
        x, y = gen.random_input(rng, op.in_structure()), gen.random_input(rng, op.out_structure())
        lhs = complex(np.sum(gen.flatten_value(op.mv(x)) * gen.flatten_value(y)))
        rhs = complex(np.sum(gen.flatten_value(x) * gen.flatten_value(t.mv(y))))
        if abs(lhs - rhs) > 1e-3 * max(1.0, abs(lhs)):
            ctx.fail(stream, i, f'transpose-dot:{label}', f'sum (Ax)·y = {lhs} but sum x·(A.T y) = {rhs}', cfg)
        ctx.count('complex:' + label)
        ctx.case(f'{label}:{i}', True, sample={'label': label})


def run(ctx: Ctx) -> None:
    q = ctx.tier == 'quick'
    for i in range(8 if q else 60):
        if ctx.want('complex', i):
            complex_case(ctx, 'complex', i)
    for i in range(63 if q else 630):
        if ctx.want('toeplitz', i):
            # the deterministic Toeplitz grid (every method, data shorter than the kernel, explicit odd / minimal sizes)
            rng = ctx.rng('toeplitz', i)
            op, label = gen.toeplitz_grid(i, rng)
            if rng.random() < 0.3:
                op = 2.0 * op
            check(ctx, 'toeplitz', i, op, 'toeplitz:' + label)
    for i in range(150 if q else 3000):
        if ctx.want('expr', i):
            rng = ctx.rng('expr', i)
            e, _ = gen.gen_expression(rng, max_len=4 if q else 6, depth=2)
            check(ctx, 'expr', i, e, 'expression')
    # every legal move-axis specification of a rank-3 leaf (81 source/destination pairs: one, two or three axes,
    # pairs left in place included), on a leaf with three different and one with three equal axis lengths
    import itertools
    import jax
    import jax.numpy as jnp
    from furax._base.axes import MoveAxisOperator
    specs = [(src, dst) for k in (1, 2, 3) for src in itertools.permutations(range(3), k)
             for dst in itertools.permutations(range(3), k)]
    shapes = [(2, 3, 4), (3, 3, 3)] if q else [(2, 3, 4), (3, 3, 3), (2, 2, 3), (1, 2, 3)]
    for i, ((src, dst), shape) in enumerate(itertools.product(specs, shapes)):
        if ctx.want('moveaxis', i):
            rng = ctx.rng('moveaxis', i)
            sg = tuple(a - 3 if rng.random() < 0.3 else a for a in src)
            dg = tuple(a - 3 if rng.random() < 0.3 else a for a in dst)
            st_, o = safe(lambda: MoveAxisOperator(sg, dg, in_structure=jax.ShapeDtypeStruct(shape, jnp.float32)))
            if st_ != 'ok':
                ctx.fail('moveaxis', i, f'moveaxis-ctor-raises:{st_}', f'legal specification {sg} -> {dg} refused: {o}',
                         {'src': sg, 'dst': dg, 'shape': shape})
                continue
            check(ctx, 'moveaxis', i, o, 'operator')
    for i in range(120 if q else 2500):
        if ctx.want('leaf', i):
            rng = ctx.rng('leaf', i)
            s = gen.random_structure(rng)
            o = gen.gen_step(rng, s, 1)
            check(ctx, 'leaf', i, o, 'operator')
