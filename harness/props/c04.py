"""C04 — application is linear and as_matrix() is its faithful dense form.

On the implementation, for every class overriding as_matrix (identity, scalar, diagonal and its inverse, sums,
block row / diagonal / column, ravel / reshape, Toeplitz, lazy inverses) and for composites: the specialised
`op.as_matrix()`, the generic `AbstractLinearOperator.as_matrix(op)` and the matrix built column by column from
`op` applied to the basis vectors of the flattened input must coincide; `op(a x + b y) = a op(x) + b op(y)` and
`op(x) = as_matrix() @ flatten(x)` on integer data.  The diagonal and Toeplitz overrides are also compared with
the model kernels.  Which classes override as_matrix is a kernel-checked table theorem.
"""
from __future__ import annotations

from fractions import Fraction

import jax
import jax.numpy as jnp
import numpy as np

import gen
from common import Ctx, safe
from encode import Encoder, frac_str, sx

META = {
    'rule': ('one operator per class overriding as_matrix plus random composites, dict containers with unsorted insertion '
             'order, nested blocks, batch axes; integer inputs and scalar coefficients; non-trivial = the class overrides '
             'as_matrix or the operator is composite; distinct by the canonical S-expression'),
    'trusted_base': [
        'Lean 4.33 kernel + Mathlib (LinearMap.toMatrix\') + standard axioms',
        'the identification of an operator on flattened pytrees with a linear map (Fin n → R) → (Fin m → R)',
    ],
    'assumptions': [],
}


def candidates(rng):
    from furax._base.blocks import BlockColumnOperator, BlockDiagonalOperator, BlockRowOperator
    from furax._base.core import AdditionOperator, CompositionOperator, IdentityOperator, InverseOperator
    from furax.landscapes import StokesPyTree
    n = rng.choice([2, 3, 4])
    s = gen.S(n)
    s2 = gen.S(2, 3)
    tree = {'z': gen.S(n), 'a': gen.S(n, 2)}
    st = StokesPyTree.class_for(rng.choice(['QU', 'IQU'])).structure_for((2,), jnp.float32)
    d, t = gen.mk_diagonal(rng, s, allow_zero=rng.random() < 0.3), gen.mk_toeplitz(rng, s, spd=True)
    dt = gen.mk_diagonal_first(rng, tree)
    r = gen.mk_qurot(rng, st)
    from furax.operators.toeplitz import SymmetricBandToeplitzOperator
    tb = SymmetricBandToeplitzOperator(gen.arr([[4, 1], [3, -1]]), gen.S(2, n if n > 1 else 2), method='dense')
    e, _ = gen.gen_expression(rng, 4, 2)
    # multi-dimensional diagonal values laid along permuted axes of a leaf whose shape the permutation preserves
    from furax._base.diagonal import DiagonalOperator
    pshape, paxes = rng.choice([((3, 3), (1, 0)), ((2, 2), (-1, -2)), ((2, 3, 2), (2, 1, 0)), ((2, 2, 3), (1, 0, 2)),
                                ((3, 2), (0, 1)), ((2, 3), (1, 0))])
    vshape = tuple(pshape[a] for a in paxes)
    pvals = gen.arr(np.arange(1, int(np.prod(vshape)) + 1, dtype=np.float64).reshape(vshape))
    dperm = DiagonalOperator(pvals, axis_destination=paxes, in_structure=gen.S(*pshape))
    return [
        ('diagonal-permuted-axes', dperm), ('diagonal-permuted-axes-inverse', dperm.I),
        ('identity', IdentityOperator(tree)), ('homothety', gen.mk_homothety(rng, tree)), ('diagonal', d),
        ('diagonal-pytree', dt), ('diagonal-inverse', d.I), ('sum', AdditionOperator([d, t, gen.mk_homothety(rng, s)])),
        # the same object several times in one sum (A + A, the symmetrisation S + S.T of a symmetric S, A + B + A)
        ('sum-repeated-operand', d + d), ('sum-symmetrised', t + t.T), ('sum-repeated-apart', AdditionOperator([d, t, d])),
        ('block-row', BlockRowOperator({'y': d, 'x': t})), ('block-diag', BlockDiagonalOperator([d, [t, dt]])),
        ('block-col', BlockColumnOperator((d, t))), ('ravel', gen.mk_ravel(rng, s2)), ('reshape', gen.mk_reshape(rng, s2)),
        ('toeplitz', t), ('toeplitz-batched', tb), ('lazy-inverse', InverseOperator(t)), ('qurot-transpose', r.T),
        ('composition', CompositionOperator([d, t, d])), ('expression', e),
    ]


def lazy_inverse_matrix_case(ctx: Ctx, stream: str, i: int) -> None:
    """`as_matrix()` of a lazy inverse against the matrix inverse computed independently (float64 NumPy): operands that
    are symmetric or not, well or ill conditioned (cond ≈ 4·10⁵, invertible in the arithmetic of the data)"""
    from furax._base.core import InverseOperator
    from furax._base.dense import DenseBlockDiagonalOperator
    rng = ctx.rng(stream, i)
    n = 3
    dt = jnp.float64 if jax.config.jax_enable_x64 else jnp.float32
    kind = ['spd', 'non-symmetric', 'ill-conditioned-diagonal', 'ill-conditioned-rotated'][i % 4]
    q, _ = np.linalg.qr(np.array([[rng.uniform(-1, 1) for _ in range(n)] for _ in range(n)]))
    if kind == 'spd':
        mat = (q * np.array([4.0, 2.0, 1.0])) @ q.T
    elif kind == 'non-symmetric':
        mat = np.diag([3.0, 4.0, 5.0]) + np.array([[0, 1.0, 2.0], [0, 0, 1.0], [rng.choice([1.0, -2.0]), 0, 0]])
    elif kind == 'ill-conditioned-diagonal':
        mat = np.diag([3.0, 1.0, 2.0 ** -17])
    else:
        mat = (q * np.array([3.0, 1.0, 2.0 ** -17])) @ q.T
    op = InverseOperator(DenseBlockDiagonalOperator(jnp.asarray(mat, dtype=dt), gen.S(n, dtype=dt)))
    want = np.linalg.inv(mat)
    tol = 0.2 if kind.startswith('ill') else 1e-3
    st, am = safe(lambda: np.asarray(op.as_matrix(), dtype=np.float64))
    cfg = {'kind': kind, 'matrix': mat.tolist()}
    if st != 'ok' or am.shape != want.shape or not np.all(np.isfinite(am)) or \
            not np.allclose(am, want, rtol=tol, atol=tol * np.abs(want).max()):
        ctx.fail(stream, i, f'as_matrix-override-wrong:lazy-inverse:{kind}', f'InverseOperator.as_matrix() of a {kind} operand is '
                 f'not the matrix inverse ({st})', cfg)
    ctx.count('lazy-inverse-matrix:' + kind)
    ctx.case(f'lazyinv:{kind}:{mat.tolist()}', True, sample={'lazy_inverse_matrix': kind})


def one_case(ctx: Ctx, stream: str, i: int) -> None:
    from furax._base.core import AbstractLinearOperator
    rng = ctx.rng(stream, i)
    grid = [(f'toeplitz-grid:{gen.toeplitz_grid(3 * i + k, rng)[1]}', gen.toeplitz_grid(3 * i + k, rng)[0]) for k in range(3)]
    for label, op in candidates(rng) + grid:
        if op is None:
            continue
        enc = Encoder()
        st, esx = safe(enc.op, op)
        key = sx(esx) if st == 'ok' else f'{label}:{i}'
        cfg = {'label': label, 'class': type(op).__name__, 'expr': key[:1200]}
        if st == 'ok':
            ctx.in_domain(stream, i, esx, cfg)
        st, cols = safe(gen.dense, op)
        if st != 'ok':
            ctx.fail(stream, i, f'apply-raises:{label}:{st}', str(cols)[:150], cfg)
            continue
        tol = 1e-3 if label == 'lazy-inverse' or 'Inverse' in key else 1e-5
        st, spec = safe(lambda: np.asarray(op.as_matrix(), dtype=np.float64))
        if st != 'ok':
            ctx.fail(stream, i, f'as_matrix-raises:{label}:{st}', str(spec)[:150], cfg)
        elif spec.shape != cols.shape or not gen.close(spec, cols, tol):
            ctx.fail(stream, i, f'as_matrix-override-wrong:{label}', f'{type(op).__name__}.as_matrix() differs from the matrix of '
                     f'columns op(e_j)', cfg)
        if cols.shape[1] <= 24:
            st, genm = safe(lambda: np.asarray(AbstractLinearOperator.as_matrix(op), dtype=np.float64))
            if st != 'ok':
                ctx.fail(stream, i, f'generic-as_matrix-raises:{label}:{st}', str(genm)[:150], cfg)
            elif not gen.close(genm, cols, tol):
                ctx.fail(stream, i, f'generic-as_matrix-wrong:{label}', 'the generic as_matrix differs from the columns op(e_j)', cfg)
        # linearity and op(x) = M @ flatten(x)
        x, y = gen.random_input(rng, op.in_structure()), gen.random_input(rng, op.in_structure())
        a, b = rng.choice([2, -1, 3]), rng.choice([1, -2, 4])
        comb = jax.tree.map(lambda u, v: a * u + b * v, x, y)
        lhs = gen.flatten_value(op.mv(comb))
        rhs = a * gen.flatten_value(op.mv(x)) + b * gen.flatten_value(op.mv(y))
        if not gen.close(lhs, rhs, max(tol, 1e-4)):
            ctx.fail(stream, i, f'not-linear:{label}', 'op(a x + b y) != a op(x) + b op(y)', cfg)
        if not gen.close(gen.flatten_value(op.mv(x)), cols @ gen.flatten_value(x), max(tol, 1e-4)):
            ctx.fail(stream, i, f'mv-vs-matrix:{label}', 'op(x) != as_matrix @ flatten(x)', cfg)
        # model kernels behind two overrides
        if label == 'diagonal' and st == 'ok':
            vals = np.asarray(op._diagonal, dtype=np.float64)
            xs = op.in_structure().shape
            rep = ctx.model.ask(['diagonal', 'T', [str(v) for v in vals.shape], [frac_str(Fraction(v)) for v in vals.ravel().tolist()],
                                 ['seq'] + [str(a_) for a_ in op.axis_destination], [str(v) for v in xs], ['1'] * int(np.prod(xs))])
            if rep[0] != 'ok' or not gen.close(np.array([float(Fraction(v)) for v in rep[2]]), np.diag(spec)):
                ctx.disagree(stream, i, 'diagonal as_matrix: model kernel differs', cfg)
        if label == 'toeplitz' and st == 'ok':
            band = np.asarray(op.band_values, dtype=np.float64)
            nn = op.in_structure().shape[-1]
            rep = ctx.model.ask(['toeplitz-dense', str(nn), [frac_str(Fraction(v)) for v in band.tolist()]])
            if rep[0] != 'ok' or not gen.close(np.array([float(Fraction(v)) for v in rep[1]]).reshape(nn, nn), spec):
                ctx.disagree(stream, i, 'toeplitz as_matrix: model kernel differs', cfg)
        ctx.count('label:' + label)
        ctx.case(key, True, sample={'label': label, 'class': type(op).__name__, 'shape': list(cols.shape)})


def complex_case(ctx: Ctx, stream: str, i: int) -> None:
    """complex64 leaves and parameters with a non-zero imaginary part: every specialised as_matrix(), the generic one and
    the columns op(e_j) agree IN COMPLEX ARITHMETIC (a real-only comparison cannot tell a transpose from an adjoint), and
    application is complex-linear"""
    from furax._base.core import AbstractLinearOperator
    rng = ctx.rng(stream, i)
    st0, cands = safe(gen.complex_candidates, rng)
    if st0 != 'ok':
        ctx.fail(stream, i, f'complex-construction-raises:{st0}', str(cands)[:200], {})
        return
    for label, op in cands:
        cfg = {'label': label, 'class': type(op).__name__}
        st, cols = safe(gen.dense, op)
        if st != 'ok':
            ctx.fail(stream, i, f'apply-raises:{label}:{st}', str(cols)[:150], cfg)
            continue
        st, spec = safe(lambda: np.asarray(op.as_matrix()).astype(np.complex128))
        if st != 'ok':
            ctx.fail(stream, i, f'as_matrix-raises:{label}:{st}', str(spec)[:150], cfg)
        elif spec.shape != cols.shape or not gen.close(spec, cols, 1e-4):
            ctx.fail(stream, i, f'as_matrix-override-wrong:{label}', f'{type(op).__name__}.as_matrix() differs from the matrix of '
                     f'columns op(e_j) (complex entries)', cfg)
        st, genm = safe(lambda: np.asarray(AbstractLinearOperator.as_matrix(op)).astype(np.complex128))
        if st != 'ok':
            ctx.fail(stream, i, f'generic-as_matrix-raises:{label}:{st}', str(genm)[:150], cfg)
        elif not gen.close(genm, cols, 1e-4):
            ctx.fail(stream, i, f'generic-as_matrix-wrong:{label}', 'the generic as_matrix differs from the columns op(e_j)', cfg)
        x, y = gen.random_input(rng, op.in_structure()), gen.random_input(rng, op.in_structure())
        a, b = complex(rng.choice([2, -1]), rng.choice([1, -2])), complex(rng.choice([1, 3]), rng.choice([-1, 2]))
        comb = jax.tree.map(lambda u, v: a * u + b * v, x, y)
        lhs = gen.flatten_value(op.mv(comb))
        rhs = a * gen.flatten_value(op.mv(x)) + b * gen.flatten_value(op.mv(y))
        if not gen.close(lhs, rhs, 1e-3):
            ctx.fail(stream, i, f'not-linear:{label}', 'op(a x + b y) != a op(x) + b op(y) for complex a, b', cfg)
        if not gen.close(gen.flatten_value(op.mv(x)), cols @ gen.flatten_value(x), 1e-3):
            ctx.fail(stream, i, f'mv-vs-matrix:{label}', 'op(x) != as_matrix @ flatten(x)', cfg)
        ctx.count('complex:' + label)
        ctx.case(f'{label}:{i}', True, sample={'label': label})


def run(ctx: Ctx) -> None:
    for i in range(8 if ctx.tier == 'quick' else 60):
        if ctx.want('complex', i):
            complex_case(ctx, 'complex', i)
    for i in range(14 if ctx.tier == 'quick' else 200):
        if ctx.want('op', i):
            one_case(ctx, 'op', i)
    for i in range(16 if ctx.tier == 'quick' else 400):
        if ctx.want('lazyinv', i):
            lazy_inverse_matrix_case(ctx, 'lazyinv', i)
