"""C05 — declared input/output structures are honest.

Correspondence: in/out structures and sizes of composite expressions as computed by the model's Level-A rules
(`structs`) against `in_structure()` / `out_structure()` / `in_size()` / `out_size()` of the real object.
Oracle on the implementation: `jax.eval_shape(op.mv, op.in_structure())` equals `op.out_structure()` (pytree
shape, leaf shapes, leaf dtypes), composites report the structures implied by their parts, transposes swap them,
reduced operators keep them, sizes are the sums of leaf sizes, promoted dtypes are `jnp.result_type` of the
leaves — over float32 / float64 / mixed-dtype pytrees, 64-bit mode off and on.
"""
from __future__ import annotations

import jax
import jax.numpy as jnp
import numpy as np

import gen
from common import Ctx, safe
from encode import Encoder, first_diff, struct, sx

ENV_VARIANTS = [{'JAX_ENABLE_X64': '0'}, {'JAX_ENABLE_X64': '1'}]
META = {
    'rule': ('random operators and expressions (generator of C01) over structures whose leaves are float32, float64 or '
             'mixed (64-bit mode on), parameters no wider than the data; non-trivial = a composite or shape-changing '
             'operator; distinct by the canonical S-expression'),
    'trusted_base': [
        'Lean 4.33 kernel + standard axioms',
        'jax.eval_shape as the reference for what mv returns (abstract evaluation of the real mv)',
    ],
    'assumptions': ['operator parameters are no wider than the data dtype (as the property states)'],
}


def rand_structure(rng):
    x64 = bool(jax.config.jax_enable_x64)
    k = rng.random()
    if not x64 or k < 0.4:
        return gen.random_structure(rng, jnp.float32)
    if k < 0.7:
        return gen.random_structure(rng, jnp.float64)
    n = rng.choice([2, 3])
    return rng.choice([{'a': gen.S(n, dtype=jnp.float32), 'b': gen.S(n, dtype=jnp.float64)},
                       [gen.S(n, dtype=jnp.float64), gen.S(n, dtype=jnp.float32)]])


def check(ctx: Ctx, stream: str, i: int, op, label: str) -> None:
    from furax._base.core import AdditionOperator, CompositionOperator
    enc = Encoder()
    st, esx = safe(enc.op, op)
    if st != 'ok':
        ctx.skipped += 1
        return
    name = type(op).__name__
    cfg = {'label': label, 'class': name, 'x64': bool(jax.config.jax_enable_x64), 'expr': sx(esx)[:1500]}
    ins, outs = op.in_structure(), op.out_structure()
    # what mv really returns
    st, real = safe(jax.eval_shape, op.mv, ins)
    if st != 'ok':
        ctx.fail(stream, i, f'mv-abstract-eval-raises:{name}:{st}', str(real)[:150], cfg)
        return
    if not gen.same_structure(real, outs):
        ctx.fail(stream, i, f'out-structure-dishonest:{name}', f'out_structure() = {outs} but mv returns {real}', cfg)
    # sizes and promoted dtypes
    isz = sum(int(np.prod(l.shape)) for l in jax.tree.leaves(ins))
    osz = sum(int(np.prod(l.shape)) for l in jax.tree.leaves(real))
    if op.in_size() != isz or op.out_size() != osz:
        ctx.fail(stream, i, f'size:{name}', f'in_size/out_size = {op.in_size()}/{op.out_size()}, expected {isz}/{osz}', cfg)
    if op.in_promoted_dtype != jnp.result_type(*jax.tree.leaves(ins)) or \
            op.out_promoted_dtype != jnp.result_type(*jax.tree.leaves(real)):
        ctx.fail(stream, i, f'promoted-dtype:{name}', 'in/out_promoted_dtype disagree with the leaves', cfg)
    # composites report what their parts imply
    if isinstance(op, CompositionOperator):
        if not (gen.same_structure(ins, op.operands[-1].in_structure()) and gen.same_structure(outs, op.operands[0].out_structure())):
            ctx.fail(stream, i, 'composition-structures', 'composition structures are not last.in / first.out', cfg)
        for a, b in zip(op.operands, op.operands[1:]):
            if not gen.same_structure(a.in_structure(), b.out_structure()):
                ctx.fail(stream, i, 'composition-chain', 'adjacent operands of a composition do not match', cfg)
    if isinstance(op, AdditionOperator):
        for o in op.operand_leaves:
            if not (gen.same_structure(o.in_structure(), ins) and gen.same_structure(o.out_structure(), outs)):
                ctx.fail(stream, i, 'sum-structures', 'a summand has other structures than the sum', cfg)
    # transposes swap, reduced operators keep
    from c03 import contains_lazy_inverse
    if not contains_lazy_inverse(op):
        st, t = safe(lambda: op.T)
        if st == 'ok' and not (gen.same_structure(t.in_structure(), outs) and gen.same_structure(t.out_structure(), ins)):
            ctx.fail(stream, i, f'transpose-structures:{name}', 'A.T does not swap the structures', cfg)
    st, red = safe(op.reduce)
    if st == 'ok' and not (gen.same_structure(red.in_structure(), ins) and gen.same_structure(red.out_structure(), outs)):
        ctx.fail(stream, i, f'reduce-structures:{name}', 'reduce() changes the structures', cfg)
    elif st == 'ok':
        st2, real_red = safe(jax.eval_shape, red.mv, ins)
        if st2 != 'ok' or not gen.same_structure(real_red, red.out_structure()):
            ctx.fail(stream, i, f'reduced-out-structure-dishonest:{type(red).__name__}',
                     f'the reduced operator declares {red.out_structure()} but its mv returns {real_red}', cfg)
    # correspondence: Level-A structure rules; and the operator lies in the domain of the closed theorems
    ctx.in_domain(stream, i, esx, cfg)
    rep = ctx.model.ask(['structs', esx])
    if rep[0] != 'ok' or first_diff(rep[1], struct(ins)) is not None or first_diff(rep[2], struct(outs)) is not None \
            or int(rep[3]) != op.in_size() or int(rep[4]) != op.out_size():
        ctx.disagree(stream, i, f'{name}: structures or sizes differ from the model', cfg)
    ctx.count('class:' + name)
    dts = sorted({np.dtype(l.dtype).name for l in jax.tree.leaves(ins)})
    ctx.count('dtypes:' + '+'.join(dts))
    ctx.case(sx(esx), name not in ('IdentityOperator', 'HomothetyOperator'),
             sample={'class': name, 'x64': cfg['x64'], 'in_dtypes': dts, 'in_size': isz, 'out_size': osz})


def mixed_case(ctx: Ctx, stream: str, i: int) -> None:
    """mixed-dtype pytrees (any two of float16/float32/float64 available in this mode) with scalar factors and
    diagonal operators at various positions of a chain"""
    from furax._base.core import CompositionOperator
    rng = ctx.rng(stream, i)
    x64 = bool(jax.config.jax_enable_x64)
    dts = [jnp.float16, jnp.float32] + ([jnp.float64] if x64 else [])
    n = rng.choice([2, 3])
    d1, d2 = rng.sample(dts, 2)
    s = rng.choice([{'a': gen.S(n, dtype=d1), 'b': gen.S(n, dtype=d2)}, [gen.S(n, dtype=d2), gen.S(n, dtype=d1)]])
    pool = [gen.mk_homothety, gen.mk_homothety, gen.mk_diagonal, gen.mk_diagonal_first, gen.mk_identity]
    ops = [rng.choice(pool)(rng, s) for _ in range(rng.randint(2, 5))]
    check(ctx, stream, i, CompositionOperator(ops), 'mixed-dtype chain')


def axes_case(ctx: Ctx, stream: str, i: int) -> None:
    """ravel / reshape / move-axis operators over pytrees whose leaves differ in rank or shape, with the leaf the
    operator leaves untouched first OR last in flatten order; the operator alone, under a scalar, transposed, in a chain
    with its own transpose — every declared structure against what `mv` returns, before and after `reduce()`"""
    from furax._base.axes import MoveAxisOperator, RavelOperator, ReshapeOperator
    from furax._base.core import CompositionOperator
    rng = ctx.rng(stream, i)
    dt = jnp.float64 if (jax.config.jax_enable_x64 and rng.random() < 0.4) else jnp.float32
    n, m = rng.choice([2, 3]), rng.choice([2, 4, 5])
    flat, deep = gen.S(n * m, dtype=dt), gen.S(n, m, dtype=dt)
    untouched_first = rng.random() < 0.5
    which = rng.choice(['ravel', 'ravel-neg', 'reshape', 'moveaxis'])
    if which in ('ravel', 'ravel-neg'):
        # the 1-d leaf is already flat
        leaves = [gen.S(n, dtype=dt), deep]
        mk = (lambda s: RavelOperator(0, -1, in_structure=s)) if which == 'ravel' else (lambda s: RavelOperator(-1, -1, in_structure=s))
    elif which == 'reshape':
        # the target shape is the shape one leaf already has
        leaves = [flat, deep]
        mk = lambda s: ReshapeOperator((n * m,), in_structure=s)      # noqa: E731
    else:
        # swapping the two axes of a square leaf keeps its shape, of a rectangular one not
        leaves = [gen.S(n, n, dtype=dt), gen.S(n, n + 1, dtype=dt)]
        mk = lambda s: MoveAxisOperator(0, 1, in_structure=s)          # noqa: E731
    if not untouched_first:
        leaves = leaves[::-1]
    form = rng.choice(['dict', 'list', 'tuple'])
    s = {'a': leaves[0], 'b': leaves[1]} if form == 'dict' else (list(leaves) if form == 'list' else tuple(leaves))
    st, op = safe(mk, s)
    if st != 'ok':
        ctx.fail(stream, i, f'axes-ctor-raises:{which}:{st}', str(op)[:150], {'which': which, 'structure': str(s)})
        return
    variants = [('alone', op), ('scaled', 2.0 * op), ('negated', -op)]
    stt, t = safe(lambda: op.T)
    if stt == 'ok':
        variants += [('transpose', t), ('T-after', CompositionOperator([t, op])), ('after-T', CompositionOperator([op, t]))]
    d = gen.mk_diagonal(rng, op.out_structure())
    if d is not None:
        variants.append(('under-diagonal', d @ op))
    for label, e in variants:
        check(ctx, stream, i, e, f'axes:{which}:{label}:untouched-{"first" if untouched_first else "last"}')


def param_shape_case(ctx: Ctx, stream: str, i: int) -> None:
    """operators whose PARAMETER arrays have more (or other) dimensions than the leaves they act on: rotation angles of
    higher rank than the samples, one Toeplitz band row per detector on fewer detectors, einsum blocks whose named
    axis of size 1 is stretched over a longer leaf axis.  The constructor may refuse them (ValueError); what it accepts
    must declare the structures that `mv` — and the transpose — really have"""
    from furax._base.dense import DenseBlockDiagonalOperator
    from furax.landscapes import StokesPyTree
    from furax.operators.qu_rotations import QURotationOperator
    from furax.operators.toeplitz import SymmetricBandToeplitzOperator
    rng = ctx.rng(stream, i)
    dt = jnp.float32
    which = ['qurot-angles', 'toeplitz-band-batch', 'einsum-stretch'][i % 3]
    if which == 'qurot-angles':
        kind = rng.choice(['QU', 'IQU', 'IQUV'])
        shape = rng.choice([(2,), (3,), (2, 3)])
        ashape = rng.choice([(2, 1), (2,) + shape, (1,) + shape, (3, 1, 1), shape + (1,), shape, shape[-1:], ()])
        angles = jnp.asarray(np.arange(1, int(np.prod(ashape)) + 1, dtype=np.float64).reshape(ashape) / 7, dtype=dt)
        mk = lambda: QURotationOperator(angles, StokesPyTree.class_for(kind).structure_for(shape, dt))     # noqa: E731
        cfg = {'which': which, 'kind': kind, 'sample_shape': shape, 'angles_shape': ashape}
    elif which == 'toeplitz-band-batch':
        n, K = rng.choice([3, 4, 5]), rng.choice([1, 2, 3])
        dshape = rng.choice([(n,), (1, n), (2, n), (2, 3, n)])
        bshape = rng.choice([(2, K), (3, K), (1, K), (2, 1, K), (1, 1, 1, K), (2, 3, K), (K,), (3, 1, K)])
        band = jnp.asarray(np.arange(1, int(np.prod(bshape)) + 1, dtype=np.float64).reshape(bshape), dtype=dt)
        method = rng.choice(['dense', 'direct', 'fft', 'overlap_save'])
        mk = lambda: SymmetricBandToeplitzOperator(band, jax.ShapeDtypeStruct(dshape, dt), method=method)   # noqa: E731
        cfg = {'which': which, 'data_shape': dshape, 'band_shape': bshape, 'method': method}
    else:
        subs, bshape, xshape = rng.choice([
            ('ij,j->i', (2, 1), (3,)), ('ij...,j...->i...', (2, 3, 5), (3,)), ('ij...,j...->i...', (2, 3, 5), (3, 1)),
            ('ij...,j...->i...', (2, 1), (3, 2)), ('ij...,j...->i...', (2, 3, 1), (3, 4)), ('ij...,j...->i...', (2, 3), (3, 4)),
            ('kij,kj->ki', (1, 2, 3), (4, 3)), ('ij...,j...->i...', (2, 3, 4), (3, 4)), ('ij,j->i', (2, 3), (3,)),
            ('ikj,kj->ki', (2, 1, 3), (4, 3)),
            # two broadcasts that cancel in the element COUNT: a contracted axis of size one against n, and a batch axis of
            # size n that the input lacks (or has at size one)
            ('ij...,j...->i...', (2, 1, 3), (3,)), ('...ij,...j->...i', (4, 2, 1), (1, 4)), ('ij...,j...->i...', (2, 1, 2), (2,)),
            ('ij...,j...->i...', (3, 1, 4), (4, 1))])
        blocks = jnp.asarray(np.arange(1, int(np.prod(bshape)) + 1, dtype=np.float64).reshape(bshape), dtype=dt)
        mk = lambda: DenseBlockDiagonalOperator(blocks, jax.ShapeDtypeStruct(xshape, dt), subs)             # noqa: E731
        cfg = {'which': which, 'subscripts': subs, 'blocks_shape': bshape, 'leaf_shape': xshape}
    st, op = safe(mk)
    ctx.count(f'param-shape:{which}:' + ('accepted' if st == 'ok' else 'refused'))
    if st == 'ok':
        # what the constructor accepts satisfies the validity predicate of the closed theorems (stokesOK: the angles
        # broadcast INTO the leaf shape; toeplitzOK: the band batch broadcasts TO the leading axes)
        stv, esxv = safe(Encoder().op, op)
        if stv == 'ok':
            # einsum blocks stretched against the input: `denseOK` (exact fit) is stronger than what Python transposes
            # correctly — harmless stretches of batch axes are accepted by the library and lie outside the theorem's domain
            ctx.in_domain(stream, i, esxv, cfg, allow=('dense:',) if which == 'einsum-stretch' else ())
        ins, outs = op.in_structure(), op.out_structure()
        st1, real = safe(jax.eval_shape, op.mv, ins)
        if st1 != 'ok':
            ctx.fail(stream, i, f'accepted-parameter-shape-cannot-be-applied:{which}', f'the constructor accepts {cfg} but applying the '
                     f'operator to an input of its declared structure raises {st1}: {str(real)[:120]}', cfg)
        elif not gen.same_structure(real, outs):
            ctx.fail(stream, i, f'out-structure-dishonest:{which}', f'out_structure() = {outs} but mv returns {real}', cfg)
        else:
            stt, t = safe(lambda: op.T)
            if stt == 'ok' and not (gen.same_structure(t.in_structure(), outs) and gen.same_structure(t.out_structure(), ins)):
                ctx.fail(stream, i, f'transpose-structures:{which}', f'A.T maps {t.in_structure()} to {t.out_structure()}: not the '
                         f'structures of A swapped ({outs} to {ins})', cfg)
            elif stt == 'ok':
                st2, realt = safe(jax.eval_shape, t.mv, t.in_structure())
                if st2 != 'ok' or not gen.same_structure(realt, t.out_structure()):
                    ctx.fail(stream, i, f'transpose-out-structure-dishonest:{which}', f'A.T declares {t.out_structure()} but its mv '
                             f'gives {realt if st2 == "ok" else st2}', cfg)
    elif st != 'ValueError':
        ctx.fail(stream, i, f'parameter-shape-raises-{st}:{which}', f'constructor raised {st} (a refusal is a ValueError): {str(op)[:120]}', cfg)
    ctx.case(f'param-shape:{cfg}', True, sample=cfg)


def index_infer_case(ctx: Ctx, stream: str, i: int) -> None:
    """index operators built WITHOUT an explicit output structure (it is inferred): integers, slices with every sign of
    start / stop / step (empty results included), an ellipsis, integer arrays; one leaf or several leaves of different
    shapes — the declared structure against what `mv` returns"""
    from furax._base.indices import IndexOperator
    rng = ctx.rng(stream, i)
    nd = rng.randint(1, 3)
    shape = tuple(rng.choice([2, 3, 4, 5, 7]) for _ in range(nd))

    def slc(n):
        return slice(rng.choice([None, 0, 1, -1, -2, n - 1, n, -n, -n - 1]), rng.choice([None, 0, 1, -1, -2, n, n + 2, -n - 1]),
                     rng.choice([None, 1, 2, -1, -2, -3, 3]))
    entries = []
    for ax in range(nd):
        k = rng.random()
        if k < 0.5:
            entries.append(slc(shape[ax]))
        elif k < 0.65:
            entries.append(rng.randint(-shape[ax], shape[ax] - 1))
        elif k < 0.8:
            entries.append(slice(None))
        else:
            entries.append(jnp.asarray([rng.randint(-shape[ax], shape[ax] - 1) for _ in range(rng.randint(1, 3))]))
            break
    if rng.random() < 0.3 and nd >= 2:
        entries = entries[:1] + [Ellipsis] + ([slc(shape[-1])] if rng.random() < 0.6 else [])
    if rng.random() < 0.2:
        entries = entries[:rng.randint(1, len(entries))]
    dt = jnp.float64 if (jax.config.jax_enable_x64 and rng.random() < 0.4) else jnp.float32
    nleaf = rng.choice([1, 1, 2])
    leaves = [jax.ShapeDtypeStruct(shape if k == 0 else shape + ((2,) if rng.random() < 0.5 else ()), dt) for k in range(nleaf)]
    s = leaves[0] if nleaf == 1 else {'b': leaves[0], 'a': leaves[1]}
    idx = tuple(entries)
    st, op = safe(lambda: IndexOperator(idx if len(idx) != 1 or rng.random() < 0.5 else idx[0], in_structure=s))
    cfg = {'shape': shape, 'indices': str(idx)[:200], 'nleaf': nleaf}
    if st != 'ok':
        ctx.count('index-infer:refused:' + st)
        ctx.case(f'index-infer-refused:{cfg}', False)
        return
    check(ctx, stream, i, op, 'index-inferred-structure')
    stt, t = safe(lambda: op.T)
    if stt == 'ok':
        check(ctx, stream, i, t, 'index-inferred-structure:T')


def dtype_grid_case(ctx: Ctx, stream: str, i: int) -> None:
    """every parametrised leaf class × (parameter dtype, data dtype): what `mv` returns has the declared dtype, and when
    the parameter is NO WIDER than the data (the property's domain) the output keeps the data's dtype — Python numbers
    (weakly typed) never widen anything"""
    from furax._base.core import HomothetyOperator
    from furax._base.dense import DenseBlockDiagonalOperator
    from furax._base.diagonal import BroadcastDiagonalOperator, DiagonalOperator
    from furax.landscapes import StokesPyTree
    from furax.operators.qu_rotations import QURotationOperator
    from furax.operators.toeplitz import SymmetricBandToeplitzOperator
    x64 = bool(jax.config.jax_enable_x64)
    reals = [jnp.float16, jnp.bfloat16, jnp.float32] + ([jnp.float64] if x64 else [])
    datas = reals + [jnp.complex64, jnp.int32]
    params = reals + [jnp.int32, 'python-float', 'python-int'] + ([jnp.complex64])
    classes = ['homothety', 'diagonal', 'broadcast-diagonal', 'qurot', 'dense', 'toeplitz']
    cls_name = classes[i % len(classes)]
    ddt = datas[(i // len(classes)) % len(datas)]
    pdt = params[(i // (len(classes) * len(datas))) % len(params)]
    n = 3

    def parr(shape):
        vals = np.arange(1, int(np.prod(shape)) + 1, dtype=np.float64).reshape(shape)
        if pdt in ('python-float', 'python-int'):
            return None
        return jnp.asarray(vals, dtype=pdt)
    s = jax.ShapeDtypeStruct((n,), ddt)
    weak = pdt in ('python-float', 'python-int')
    if cls_name == 'homothety':
        v = 2.0 if pdt == 'python-float' else 2 if pdt == 'python-int' else jnp.asarray(2, dtype=pdt)
        mk = lambda: HomothetyOperator(v, s)                                                  # noqa: E731
    elif weak:
        ctx.case(f'dtype-grid:skip:{cls_name}', False)
        return
    elif cls_name == 'diagonal':
        mk = lambda: DiagonalOperator(parr((n,)), in_structure=s)                             # noqa: E731
    elif cls_name == 'broadcast-diagonal':
        mk = lambda: BroadcastDiagonalOperator(parr((2, n)), axis_destination=-1, in_structure=s)   # noqa: E731
    elif cls_name == 'qurot':
        if pdt == jnp.complex64 or pdt == jnp.int32 or ddt == jnp.int32:
            ctx.case(f'dtype-grid:skip:{cls_name}', False)
            return
        mk = lambda: QURotationOperator(parr((n,)) / 7, StokesPyTree.class_for('IQU').structure_for((n,), ddt))   # noqa: E731
    elif cls_name == 'dense':
        mk = lambda: DenseBlockDiagonalOperator(parr((2, n)), s, 'ij...,j...->i...')          # noqa: E731
    else:
        if pdt in (jnp.complex64, jnp.int32, jnp.float16, jnp.bfloat16) or ddt in (jnp.complex64, jnp.int32, jnp.float16, jnp.bfloat16):
            ctx.case(f'dtype-grid:skip:{cls_name}', False)     # the FFT of JAX has no half-precision kernels
            return
        mk = lambda: SymmetricBandToeplitzOperator(parr((2,)), s, method=['dense', 'direct', 'fft', 'overlap_save'][i % 4])   # noqa: E731
    cfg = {'class': cls_name, 'data_dtype': str(np.dtype(ddt)), 'param_dtype': pdt if weak else str(np.dtype(pdt)), 'x64': x64}
    st, op = safe(mk)
    if st != 'ok':
        ctx.count(f'dtype-grid:refused:{cls_name}')
        ctx.case(f'dtype-grid:refused:{cfg}', False)
        return
    ins = op.in_structure()
    st1, real = safe(jax.eval_shape, op.mv, ins)
    sto, outs = safe(op.out_structure)
    if st1 != 'ok' or sto != 'ok':
        ctx.fail(stream, i, f'dtype-grid-raises:{cls_name}', f'eval_shape {st1} / out_structure {sto}', cfg)
        return
    got = [l.dtype for l in jax.tree.leaves(real)]
    decl = [l.dtype for l in jax.tree.leaves(outs)]
    # no wider than the data: the promotion of (parameter, data) is the data dtype.  (A parameter WIDER than the data
    # promotes the result while a square operator declares its input structure: documented, outside the property.)
    narrow = weak and not (pdt == 'python-float' and ddt == jnp.int32) or (not weak and jnp.result_type(pdt, ddt) == ddt)
    if narrow and got != decl:
        ctx.fail(stream, i, f'out-structure-dishonest:dtype:{cls_name}', f'out_structure() declares {[str(d) for d in decl]} but mv '
                 f'returns {[str(d) for d in got]}', cfg)
    if narrow and any(d != ddt for d in got):
        ctx.fail(stream, i, f'dtype-not-kept:{cls_name}', f'parameter {cfg["param_dtype"]} is no wider than the data {cfg["data_dtype"]} but '
                 f'mv returns {[str(d) for d in got]}', cfg)
    ctx.count('dtype-grid:' + ('narrow' if narrow else 'wide'))
    ctx.case(f'dtype-grid:{cfg}', True, sample=cfg)


def twins_case(ctx: Ctx, stream: str, i: int) -> None:
    """two operators built one after the other IN THE SAME PROCESS that agree in class, static fields and the shapes and
    dtypes of their arrays but differ in array VALUES (a mask selecting another number of elements, an index array reaching
    other rows) or in weak typing: each declares its own structure — nothing learnt about one may be reused for the other"""
    from furax._base.diagonal import BroadcastDiagonalOperator
    from furax._base.indices import IndexOperator
    from furax._base.linear import PackOperator
    rng = ctx.rng(stream, i)
    n = rng.choice([4, 5, 6])
    s = gen.S(n)
    which = ['pack', 'index-mask', 'weak-values', 'pack'][i % 4]
    if which == 'pack':
        k1, k2 = rng.sample(range(1, n), 2)
        m1 = np.zeros(n, bool); m1[:k1] = True
        m2 = np.zeros(n, bool); m2[-k2:] = True
        ops = [PackOperator(jnp.asarray(m1), s), PackOperator(jnp.asarray(m2), s)]
    elif which == 'index-mask':
        k1, k2 = rng.sample(range(1, n), 2)
        m1 = np.zeros(n, bool); m1[:k1] = True
        m2 = np.zeros(n, bool); m2[:k2] = True
        ops = [IndexOperator(jnp.asarray(m), in_structure=s, out_structure=gen.S(int(m.sum()))) for m in (m1, m2)]
    else:
        s16 = gen.S(n, dtype=jnp.float16)
        v32 = jnp.asarray(np.arange(1, 2 * n + 1, dtype=np.float32).reshape(2, n))
        vweak = jnp.full((2, n), 2.0)                # the dtype of the data decides: weakly typed values do not widen
        ops = [BroadcastDiagonalOperator(v32, axis_destination=-1, in_structure=s16),
               BroadcastDiagonalOperator(vweak.astype(jnp.float16), axis_destination=-1, in_structure=s16)]
    if rng.random() < 0.5:
        ops = ops[::-1]
    for k, op in enumerate(ops):
        check(ctx, stream, i, op, f'twins:{which}:{k}')


def run(ctx: Ctx) -> None:
    q = ctx.tier == 'quick'
    for i in range(24 if q else 240):
        if ctx.want('twins', i):
            twins_case(ctx, 'twins', i)
    for i in range(6 * 6 * 8 if q else 6 * 6 * 8 * 2):
        if ctx.want('dtype-grid', i):
            dtype_grid_case(ctx, 'dtype-grid', i)
    for i in range(120 if q else 2000):
        if ctx.want('index-infer', i):
            index_infer_case(ctx, 'index-infer', i)
    for i in range(60 if q else 900):
        if ctx.want('params', i):
            param_shape_case(ctx, 'params', i)
    for i in range(48 if q else 600):
        if ctx.want('axes', i):
            axes_case(ctx, 'axes', i)
    for i in range(60 if q else 1200):
        if ctx.want('mixed', i):
            mixed_case(ctx, 'mixed', i)
    for i in range(150 if q else 3000):
        if ctx.want('expr', i):
            rng = ctx.rng('expr', i)
            s = rand_structure(rng)
            ops, _ = gen.gen_chain(rng, s, rng.randint(1, 4), 2)
            from furax._base.core import CompositionOperator
            chain = list(reversed(ops))
            e = chain[0] if len(chain) == 1 else CompositionOperator(chain)
            check(ctx, 'expr', i, e, 'expression')
    for i in range(60 if q else 1500):
        if ctx.want('moveaxis', i):
            # two adjacent move-axis operators over pytrees of mixed rank: inverse pairs, look-alike pairs sharing one
            # side, unrelated pairs (the generator of C01's stream `moveaxis`): the reduced structures must be honest
            import c01
            st_, built = safe(c01.moveaxis_expr, ctx.rng('moveaxis', i))
            if st_ == 'ok':
                check(ctx, 'moveaxis', i, built[0], 'expression')
    for i in range(150 if q else 3000):
        if ctx.want('leaf', i):
            rng = ctx.rng('leaf', i)
            o = gen.gen_step(rng, rand_structure(rng), 1)
            check(ctx, 'leaf', i, o, 'operator')
