"""C06 — inverses invert.  (solver part partial)

Correspondence: the *form* of `op.I` and of `op.I.I` for every operator kind against the model (`inverseOp`).
Oracle on the implementation: A.I(A(x)) = x = A(A.I(x)) for the closed forms (scalar, diagonal incl. zero
entries → Moore-Penrose, block-diagonal, QU rotation, move-axis, identity), `A.I.I` denotes `A`, no NaN/Inf,
as_matrix() of an inverse is the matrix inverse, non-square operators are refused; for symmetric positive
definite operators without closed form the lazy inverse solves A z = y to the solver tolerance under two solver
settings.
"""
from __future__ import annotations

import jax
import jax.numpy as jnp
import lineax as lx
import numpy as np

import gen
from common import Ctx, safe
from encode import Encoder, first_diff, sx

META = {
    'rule': ('(operator kind with a closed-form inverse: non-zero scalar incl. negative, diagonal incl. zero entries, '
             'block-diagonal of invertible blocks in nested containers, QU rotation, move-axis, identity; SPD Toeplitz and '
             'DᵀTD composites for the solver, two solver settings; non-square operators); non-trivial = not the identity; '
             'distinct by the canonical S-expression'),
    'trusted_base': [
        'Lean 4.33 kernel + Mathlib + standard axioms',
        'A4: solver convergence is runtime (the lazy inverse denotes the exact inverse in the model) — differential only',
    ],
    'assumptions': ['SPD operators have condition number ≤ 100 (strictly diagonally dominant Toeplitz bands)'],
}


def closed_form_ops(rng):
    from furax._base.blocks import BlockDiagonalOperator
    from furax._base.core import IdentityOperator
    from furax.landscapes import StokesPyTree
    s = gen.S(rng.choice([2, 3, 4]))
    s2 = gen.S(2, 3)
    st = StokesPyTree.class_for(rng.choice(['QU', 'IQU', 'IQUV'])).structure_for((2,), jnp.float32)
    d = gen.mk_diagonal(rng, s)
    dz = gen.mk_diagonal(rng, s, allow_zero=True)
    h = gen.mk_homothety(rng, s)
    r = gen.mk_qurot(rng, st)
    m = gen.mk_moveaxis(rng, s2)
    from furax._base.diagonal import DiagonalOperator
    n_ = s.shape[0]
    # entries of very different magnitude (exact powers of two): tiny but non-zero entries are invertible
    tiny = [rng.choice([2.0 ** -40, -(2.0 ** -30), 2.0 ** 20, 1.0, 2.0 ** -60, -(2.0 ** 12)]) for _ in range(n_)]
    dtiny = DiagonalOperator(gen.arr(tiny), axis_destination=-1, in_structure=s)
    # scalars of extreme magnitude, as Python floats (weakly typed) and as strongly typed 0-d arrays: tiny but
    # non-zero scalars are invertible (exact powers of two keep the round trip exact)
    from furax._base.core import HomothetyOperator
    hv = rng.choice([2.0 ** -70, -(2.0 ** -60), 2.0 ** -30, 2.0 ** 40, -(2.0 ** -24), 2.0 ** -100])
    hform = rng.choice(['python', 'float32', 'float32'])
    if hform == 'float32' and abs(hv) < 2.0 ** -100:
        hv = 2.0 ** -90
    htiny = HomothetyOperator(hv if hform == 'python' else jnp.asarray(hv, dtype=jnp.float32), s)
    bd = BlockDiagonalOperator({'b': d, 'a': [h, gen.mk_diagonal_first(rng, s)]})
    bd2 = BlockDiagonalOperator([r, gen.mk_hwp(rng, st) if rng.random() < 0.3 else r.T])
    return [('homothety', h, True), ('diagonal', d, True), ('diagonal-with-zeros', dz, False),
            ('identity', IdentityOperator(s), True), ('qurot', r, True), ('qurotT', r.T, True),
            ('moveaxis', m, True), ('blockdiag', bd, True), ('diag-inverse', d.I, True),
            ('diagonal-extreme-magnitudes', dtiny, True),
            ('homothety-extreme-magnitude', htiny, True),
            ('blockdiag-extreme-scalar', BlockDiagonalOperator([htiny, d]), True),
            ('blockdiag-extreme', BlockDiagonalOperator([dtiny, [d]]), True),
            # FLAT containers of DIFFERENT blocks; dict keys inserted in an order that is not the sorted (flatten) order
            ('blockdiag-flat-dict-unsorted', BlockDiagonalOperator({'tod': d, 'ground': h, 'a': dtiny}), True),
            ('blockdiag-flat-dict-two', BlockDiagonalOperator({'z': h, 'b': d}), True),
            ('blockdiag-flat-tuple', BlockDiagonalOperator((d, h, dtiny)), True)]


def one_case(ctx: Ctx, stream: str, i: int) -> None:
    from furax._base.diagonal import DiagonalOperator
    rng = ctx.rng(stream, i)
    for label, op, invertible in closed_form_ops(rng):
        enc = Encoder()
        esx = enc.op(op)
        enc.freeze()
        st, inv = safe(lambda: op.I)
        rep = ctx.model.ask(['I', esx])
        cfg = {'kind': label, 'expr': sx(esx)[:1200]}
        if st != 'ok':
            ctx.fail(stream, i, f'inverse-raises:{label}:{st}', str(inv)[:150], cfg)
            continue
        ctx.in_domain(stream, i, enc.op(inv), cfg)       # the form `.I` builds lies in the domain of the closed theorems
        # form
        if rep[0] == 'ok':
            d = first_diff(rep[1], enc.op(inv))
            if d is not None:
                ctx.disagree(stream, i, f'{label}.I form differs at {d[0]}: model {d[1]!r:.120} impl {d[2]!r:.120}', cfg)
        elif rep[0] != 'unsupported':
            ctx.disagree(stream, i, f'{label}.I: model {sx(rep)[:100]}, implementation {type(inv).__name__}', cfg)
        # values
        m, mi = gen.dense(op), gen.dense(inv)
        if not (np.all(np.isfinite(mi))):
            ctx.fail(stream, i, f'inverse-nonfinite:{label}', 'NaN or Inf in the inverse', cfg)
        elif invertible:
            n = m.shape[0]
            if not (gen.close(mi @ m, np.eye(n)) and gen.close(m @ mi, np.eye(m.shape[0]))):
                ctx.fail(stream, i, f'inverse-wrong:{label}', 'A.I(A(x)) != x or A(A.I(x)) != x', cfg)
        else:
            # Moore-Penrose: A A⁺ A = A, A⁺ A A⁺ = A⁺, both products symmetric
            if not (gen.close(m @ mi @ m, m) and gen.close(mi @ m @ mi, mi) and gen.close(m @ mi, (m @ mi).T)):
                ctx.fail(stream, i, 'pseudo-inverse-wrong', 'the inverse of a singular diagonal is not the Moore-Penrose '
                         'pseudo-inverse', cfg)
        # the dense form of the inverse (`as_matrix`, whichever class provides it) is the matrix inverse as well
        if invertible:
            st_m, am = safe(lambda: np.asarray(inv.as_matrix(), dtype=np.float64))
            if st_m != 'ok':
                ctx.fail(stream, i, f'inverse-as_matrix-raises:{label}:{st_m}', str(am)[:150], cfg)
            elif am.shape != mi.shape or not np.all(np.isfinite(am)) or not gen.close(am @ m, np.eye(m.shape[0]), 1e-4):
                ctx.fail(stream, i, f'inverse-as_matrix-wrong:{label}', f'{type(inv).__name__}.as_matrix() @ A.as_matrix() is '
                         f'not the identity', cfg)
        # A.I.I denotes A
        st2, back = safe(lambda: inv.I)
        if st2 != 'ok' or not gen.close(gen.dense(back), m):
            ctx.fail(stream, i, f'inverse-inverse:{label}', 'A.I.I does not denote A', cfg)
        e2 = Encoder()
        isx = e2.op(inv)
        e2.freeze()
        rep2 = ctx.model.ask(['I', isx])
        if st2 == 'ok' and rep2[0] == 'ok':
            d = first_diff(rep2[1], e2.op(back))
            if d is not None:
                ctx.disagree(stream, i, f'{label}.I.I form differs at {d[0]}', cfg)
        # as_matrix of the inverse is the matrix inverse (closed forms with an override)
        if invertible and label in ('diagonal', 'homothety', 'identity', 'diag-inverse', 'qurotT'):
            sta, am = safe(lambda: np.asarray(inv.as_matrix(), dtype=np.float64))
            if sta != 'ok' or not gen.close(am, np.linalg.inv(m)):
                ctx.fail(stream, i, f'inverse-as_matrix:{label}', f'as_matrix() of the inverse is not the matrix inverse ({sta})', cfg)
        ctx.count('closed:' + label)
        ctx.case(sx(esx), label != 'identity', sample={'kind': label, 'inverse_class': type(inv).__name__})


def solver_case(ctx: Ctx, stream: str, i: int) -> None:
    from furax._base.config import Config
    from furax._base.core import CompositionOperator, InverseOperator
    rng = ctx.rng(stream, i)
    n = rng.choice([4, 6, 8])
    s = gen.S(n)
    t = None
    while t is None or t.band_values.shape[-1] < 2:
        t = gen.mk_toeplitz(rng, s, spd=True)
    d = gen.mk_diagonal(rng, s)
    a = t if rng.random() < 0.5 else CompositionOperator([d, t, d])     # D T D is SPD as well (D = Dᵀ invertible)
    m = gen.dense(a)
    cond = np.linalg.cond(m)
    y = gen.random_input(rng, s, 1, 5)
    cfg = {'n': n, 'cond': float(cond)}
    for solver, tol in ((lx.CG(rtol=1e-6, atol=1e-6, max_steps=500), 2e-3), (lx.CG(rtol=1e-4, atol=1e-4, max_steps=200), 2e-2)):
        with Config(solver=solver, solver_callback=lambda sol: None):
            st, inv = safe(lambda: a.I)
            if st != 'ok' or not isinstance(inv, InverseOperator):
                ctx.fail(stream, i, f'lazy-inverse-ctor:{st}', f'{type(inv).__name__}', cfg)
                return
            z = np.asarray(inv(y), dtype=np.float64)
        resid = np.linalg.norm(m @ z - np.asarray(y, dtype=np.float64)) / np.linalg.norm(np.asarray(y, dtype=np.float64))
        if not np.all(np.isfinite(z)) or resid > tol * max(1.0, cond):
            ctx.fail(stream, i, 'solver-residual', f'A z = y solved with relative residual {resid:.2e} (cond {cond:.1f})', cfg)
    # "the configured solver tolerance" is the one in force where A.I is built, through any nesting of Config
    # blocks: settings of an enclosing block that the inner blocks do not restate still apply
    weak = lx.CG(rtol=1e-6, atol=1e-6, max_steps=1)
    quiet = lambda sol: None  # noqa: E731
    depth = rng.randint(1, 3)
    ref = {}
    for outer_is_weak in (True, False):
        outer = weak if outer_is_weak else lx.CG(rtol=1e-6, atol=1e-6, max_steps=500)
        with Config(solver=outer, solver_callback=quiet):       # reference: one block, everything stated
            ref[outer_is_weak] = np.asarray(a.I(y), dtype=np.float64)
    informative = not np.allclose(ref[True], ref[False], rtol=1e-3, atol=1e-3)
    for outer_is_weak in (True, False):
        outer = weak if outer_is_weak else lx.CG(rtol=1e-6, atol=1e-6, max_steps=500)
        with Config(solver=outer):
            with Config(solver_callback=quiet):
                if depth >= 2:
                    with Config(solver_throw=False):
                        if depth >= 3:
                            with Config(solver_options={}):
                                inv_n = a.I
                        else:
                            inv_n = a.I
                else:
                    inv_n = a.I
        zn = np.asarray(inv_n(y), dtype=np.float64)
        if informative and not np.allclose(zn, ref[outer_is_weak], rtol=1e-4, atol=1e-4):
            ctx.fail(stream, i, 'solver-ignores-enclosing-config',
                     f'A.I built {depth} block(s) inside Config(solver=CG(max_steps={1 if outer_is_weak else 500})) does '
                     f'not solve like A.I built directly in that block: the enclosing solver setting was not in force',
                     {**cfg, 'depth': depth, 'nested': zn.tolist(), 'reference': ref[outer_is_weak].tolist()})
    ctx.count('nested-config:' + ('informative' if informative else 'uninformative'))
    am = np.asarray(inv.as_matrix(), dtype=np.float64)
    if not gen.close(am @ m, np.eye(n), 1e-3):
        ctx.fail(stream, i, 'lazy-inverse-as_matrix', 'as_matrix() of the lazy inverse is not the matrix inverse', cfg)
    # `as_matrix()` of a lazy inverse is THE matrix inverse for every invertible operand: also a non-symmetric one,
    # and an ill-conditioned one (cond ≈ 4·10⁵: far from singular in the arithmetic of the data)
    from furax._base.dense import DenseBlockDiagonalOperator
    k3 = 3
    mns = np.array([[rng.choice([1.0, 2.0, 3.0]) if r <= c else 0.0 for c in range(k3)] for r in range(k3)]) + \
        np.diag([3.0, 4.0, 5.0])
    mns[2, 0] = rng.choice([1.0, -2.0])
    eig = np.array([3.0, 1.0, 2.0 ** -17])
    q, _ = np.linalg.qr(np.array([[rng.uniform(-1, 1) for _ in range(k3)] for _ in range(k3)]))
    mill = np.diag(eig) if rng.random() < 0.5 else (q * eig) @ q.T
    for lab, mat, tol in (('non-symmetric', mns, 1e-3), ('ill-conditioned', mill, 0.2)):
        dop = DenseBlockDiagonalOperator(jnp.asarray(mat, dtype=jnp.float64 if jax.config.jax_enable_x64 else jnp.float32),
                                         gen.S(k3, dtype=jnp.float64 if jax.config.jax_enable_x64 else jnp.float32))
        st_i, linv = safe(lambda: InverseOperator(dop))
        if st_i != 'ok':
            ctx.fail(stream, i, f'lazy-inverse-ctor:{st_i}', lab, cfg)
            continue
        st_m, lam = safe(lambda: np.asarray(linv.as_matrix(), dtype=np.float64))
        want_inv = np.linalg.inv(mat)
        if st_m != 'ok' or lam.shape != want_inv.shape or not np.all(np.isfinite(lam)) or \
                not np.allclose(lam, want_inv, rtol=tol, atol=tol * np.abs(want_inv).max()):
            ctx.fail(stream, i, f'lazy-inverse-as_matrix:{lab}', f'as_matrix() of the lazy inverse of a {lab} operand is not '
                     f'the matrix inverse ({st_m})', {**cfg, 'matrix': mat.tolist()})
        ctx.count('lazy-inverse-as_matrix:' + lab)
    back = inv.I
    if not gen.close(gen.dense(back), m):
        ctx.fail(stream, i, 'lazy-inverse-inverse', 'A.I.I does not denote A', cfg)
    # non-square operators are refused
    ns = gen.mk_dense(rng, gen.S(3))
    while ns is None or gen.same_structure(ns.in_structure(), ns.out_structure()):
        ns = gen.mk_dense(rng, gen.S(3))
    st, r = safe(lambda: ns.I)
    enc = Encoder()
    rep = ctx.model.ask(['I', enc.op(ns)])
    if st != 'ValueError':
        ctx.fail(stream, i, 'nonsquare-inverse-accepted', f'non-square operator: .I → {st}', cfg)
    if rep[0] != 'error':
        ctx.disagree(stream, i, f'non-square .I: model {rep}', cfg)
    ctx.count('solver')
    ctx.case(f'solver:{cfg}:{i}', True, sample={'solver_case': cfg})


def run(ctx: Ctx) -> None:
    q = ctx.tier == 'quick'
    for i in range(24 if q else 400):
        if ctx.want('closed', i):
            one_case(ctx, 'closed', i)
    for i in range(8 if q else 120):
        if ctx.want('solver', i):
            solver_case(ctx, 'solver', i)
