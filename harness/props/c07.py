"""C07 — reduction reaches the documented normal form in every context.

Correspondence: the *form* (class tree and parameters) of `reduce()` against the model, for every documented
pattern planted at every position of random contexts.  Oracle on the implementation: in the reduced chain no
adjacent pair fires a registered rule, no identity and at most one scalar remain (on the side with fewer
elements), and reducing twice changes nothing.
"""
from __future__ import annotations

import gen
from common import Ctx, safe
from encode import Encoder, first_diff, sx

META = {
    'rule': ('each documented pattern is planted at every position of contexts of 0..k arbitrary operators '
             '(and several patterns at once); non-trivial = at least one rule fired or an n-ary rule changed '
             'the operand list; distinct by SHA-1 of the canonical S-expression'),
    'trusted_base': [
        'Lean 4.33 kernel; axioms propext, Classical.choice, Quot.sound only',
        'harness/encode.py, harness/translate.py',
        'the oracle re-uses the real BINARY_RULE_REGISTRY to test irreducibility of the real result',
    ],
    'assumptions': ['form only: this property does not speak about values (see C01)'],
}


def strip_ids(e):
    """class tree without uids (position 1 of every node)"""
    if isinstance(e, str):
        return e
    if e and e[0] in ('leaf', 'wrap', 'comp', 'cont'):
        return [e[0], '_'] + [strip_ids(x) for x in e[2:]]
    return [strip_ids(x) for x in e]


def fires(left, right) -> str | None:
    from furax._base.rules import BINARY_RULE_REGISTRY, NoReduction
    for rule in BINARY_RULE_REGISTRY:
        try:
            rule.check(left, right)
            rule.apply(left, right)
        except NoReduction:
            continue
        return type(rule).__name__
    return None


def normal_form_defects(red) -> list[str]:
    from furax._base.core import CompositionOperator, HomothetyOperator, IdentityOperator
    out = []
    if not isinstance(red, CompositionOperator):
        return out
    ops = red.operands
    if len(ops) < 2:
        out.append('composition of fewer than two operands')
    for a, b in zip(ops, ops[1:]):
        r = fires(a, b)
        if r is not None:
            out.append(f'adjacent pair still reducible by {r}')
    if any(isinstance(o, IdentityOperator) for o in ops):
        out.append('identity left in a chain')
    homs = [k for k, o in enumerate(ops) if isinstance(o, HomothetyOperator)]
    if len(homs) > 1:
        out.append('more than one scalar factor')
    if len(homs) == 1:
        left = ops[0].out_size() <= ops[-1].in_size()
        if left and homs[0] != 0:
            out.append('scalar not on the (smaller) left side')
        if not left and homs[0] != len(ops) - 1:
            out.append('scalar not on the (smaller) right side')
    return out


def one_case(ctx: Ctx, stream: str, i: int, ctx_len: int, force_pattern=None) -> None:
    from furax._base.core import CompositionOperator
    rng = ctx.rng(stream, i)
    s = gen.random_structure(rng) if force_pattern is None else gen.structure_for_pattern(rng, force_pattern)
    npat = rng.choice([1, 1, 2, 3])
    ops: list = []
    planted: list[str] = []
    cur = s
    # context before, pattern, context between, …
    for k in range(npat):
        for _ in range(rng.randint(0, ctx_len)):
            o = gen.gen_step(rng, cur, 1)
            ops.append(o)
            cur = o.out_structure()
        for _ in range(20):
            pat = force_pattern if (force_pattern is not None and k == 0) else rng.choice(gen.PATTERNS)
            got = pat(rng, cur)
            if got is not None:
                ops.extend(got)
                planted.append(pat.__name__)
                cur = got[-1].out_structure()
                break
    for _ in range(rng.randint(0, ctx_len)):
        o = gen.gen_step(rng, cur, 1)
        ops.append(o)
        cur = o.out_structure()
    chain = list(reversed(ops))
    # how the user writes the chain: the operand list handed to CompositionOperator, or `@` folded from the left, from
    # the right, or as two halves — `@` flattens and applies its construction-time shortcuts, whatever the grouping
    build = ['list', 'list', 'left-fold', 'right-fold', 'halves'][i % 5] if len(chain) > 1 else 'single'
    ctx.count('build:' + build)
    if build in ('list', 'single'):
        e = CompositionOperator(chain) if len(chain) > 1 else chain[0]
    else:
        def fold_left(ops_):
            acc = ops_[0]
            for o in ops_[1:]:
                acc = acc @ o
            return acc

        def fold_right(ops_):
            acc = ops_[-1]
            for o in reversed(ops_[:-1]):
                acc = o @ acc
            return acc
        stb, e = safe(lambda: fold_left(chain) if build == 'left-fold' else fold_right(chain) if build == 'right-fold'
                      else fold_left(chain[:len(chain) // 2]) @ fold_right(chain[len(chain) // 2:]))
        if stb != 'ok':
            ctx.fail(stream, i, f'matmul-raises:{stb}', f'building a well-typed chain with @ ({build}) raised {stb}: {str(e)[:150]}',
                     {'planted': planted})
            return
        # `@` flattens on both sides: whatever the grouping, the chain it builds has no composition among its operands —
        # a nested chain hides the pairs across its boundary from every rule
        if isinstance(e, CompositionOperator) and any(isinstance(o, CompositionOperator) for o in e.operands):
            ctx.fail(stream, i, f'matmul-nests-chain:{build}', f'a chain built with @ ({build}) contains a composition as an operand: '
                     f'{[type(o).__name__ for o in e.operands]}', {'planted': planted, 'build': build})
    enc = Encoder()
    esx = enc.op(e)
    enc.freeze()
    ctx.in_domain(stream, i, esx, {'expr': sx(esx)[:3000]})
    reply = ctx.model.ask(['reduce', esx])
    status, red = safe(e.reduce)
    for p in planted:
        ctx.count('planted:' + p)
    ctx.count('len:%d' % min(len(chain), 16))
    if status != 'ok':
        ctx.fail(stream, i, 'reduce-raises-' + status, f'reduce() raised {status}: {red}',
                 {'expr': sx(esx)[:3000], 'planted': planted})
    else:
        for dfct in normal_form_defects(red):
            ctx.fail(stream, i, 'normal-form:' + dfct, dfct + ' after reduce()',
                     {'expr': sx(esx)[:3000], 'planted': planted})
        st2, red2 = safe(red.reduce)
        if st2 == 'ok':
            e2 = Encoder()
            a, b = strip_ids(e2.op(red)), strip_ids(e2.op(red2))
            if first_diff(a, b) is not None:
                ctx.fail(stream, i, 'normal-form:not-idempotent', 'reduce(reduce(e)) differs from reduce(e)',
                         {'expr': sx(esx)[:3000], 'planted': planted})
    if reply[0] == 'unsupported' or (reply[0] == 'error' and reply[1] in ('FUEL', 'UNSUPPORTED')):
        ctx.skipped += 1
    elif status != 'ok':
        if not (reply[0] == 'error' and reply[1] == status):
            ctx.disagree(stream, i, f'implementation raised {status}, model replied {sx(reply)[:200]}',
                         {'expr': sx(esx)[:3000]})
    elif reply[0] != 'ok':
        ctx.disagree(stream, i, f'model replied {sx(reply)[:200]}, implementation reduced fine', {'expr': sx(esx)[:3000]})
    else:
        real = enc.op(red)
        ctx.in_domain(stream, i, real, {'expr': sx(esx)[:3000], 'reduced': sx(real)[:2000]})   # reduce() stays in the domain
        d = first_diff(reply[1], real)
        if d is not None:
            ctx.disagree(stream, i, f'form of reduce() differs at {d[0]}: model {d[1]!r:.200} impl {d[2]!r:.200}',
                         {'expr': sx(esx)[:3000], 'model': sx(reply[1])[:2000], 'impl': sx(real)[:2000]})
    changed = reply[0] == 'ok' and first_diff(strip_ids(reply[1]), strip_ids(esx)) is not None
    ctx.case(sx(esx), changed, sample={'planted': planted, 'expr': sx(esx)[:500], 'reduced': sx(reply)[:300]})
    if changed:
        ctx.count('changed')


def run(ctx: Ctx) -> None:
    n = 200 if ctx.tier == 'quick' else 4000
    ctx_len = 3 if ctx.tier == 'quick' else 5
    for i in range(n):
        if ctx.want('pattern', i):
            one_case(ctx, 'pattern', i, ctx_len)
    per = 8 if ctx.tier == 'quick' else 150
    for i in range(per * len(gen.PATTERNS)):
        if ctx.want('each', i):
            one_case(ctx, 'each', i, ctx_len, force_pattern=gen.PATTERNS[i % len(gen.PATTERNS)])
