"""C08 — algebraic tags are truthful.

The (class, tag) table is exhaustive and is checked by the Lean kernel on every run (translator).  This module
is the standing search for a failing input: for every concrete operator class and for composites, random
parameters, dense matrix, and every tag query exposed to solvers (lineax is_symmetric, is_diagonal, triangular,
tridiagonal, positive/negative semidefinite) plus the library's own decorators (orthogonal: A.I acts as A.T and
MᵀM = I; square: equal in/out structures; symmetric: A.T is A) is tested against the matrix.
"""
from __future__ import annotations

import jax
import jax.numpy as jnp
import lineax as lx
import numpy as np

import gen
from common import Ctx, safe

META = {
    'rule': ('every concrete operator class (exhaustive over the class table) × random parameters × every tag query; '
             'a case is one (instance, tag) pair; non-trivial = the tag is declared True for the instance'),
    'trusted_base': [
        'Lean 4.33 kernel + standard axioms; harness/translate.py (the tag table is read with lx.is_*.dispatch(cls))',
    ],
    'assumptions': ['tolerance 1e-5 on matrices involving cos/sin'],
    'exhaustive': True,
}
TAGS = {
    'is_symmetric': lambda m: m.shape[0] == m.shape[1] and np.allclose(m, m.T, atol=1e-5),
    'is_diagonal': lambda m: m.shape[0] == m.shape[1] and np.allclose(m, np.diag(np.diag(m)), atol=1e-5),
    'is_lower_triangular': lambda m: m.shape[0] == m.shape[1] and np.allclose(m, np.tril(m), atol=1e-5),
    'is_upper_triangular': lambda m: m.shape[0] == m.shape[1] and np.allclose(m, np.triu(m), atol=1e-5),
    'is_tridiagonal': lambda m: m.shape[0] == m.shape[1] and np.allclose(m, np.triu(np.tril(m, 1), -1), atol=1e-5),
    'is_positive_semidefinite': lambda m: m.shape[0] == m.shape[1] and np.allclose(m, m.T, atol=1e-5)
    and np.linalg.eigvalsh((m + m.T) / 2).min() >= -1e-5,
    'is_negative_semidefinite': lambda m: m.shape[0] == m.shape[1] and np.allclose(m, m.T, atol=1e-5)
    and np.linalg.eigvalsh((m + m.T) / 2).max() <= 1e-5,
}


def instances(rng):
    """(class name, instance) for every concrete class and some composites"""
    from furax._base.blocks import BlockColumnOperator, BlockDiagonalOperator, BlockRowOperator
    from furax._base.core import AdditionOperator, CompositionOperator, IdentityOperator, InverseOperator, TransposeOperator
    s = gen.S(rng.choice([2, 3, 4]))
    s2 = gen.S(2, 3)
    from furax.landscapes import StokesPyTree
    st = StokesPyTree.class_for(rng.choice(['QU', 'IQU', 'IQUV'])).structure_for((2,), jnp.float32)
    d = gen.mk_diagonal(rng, s, allow_zero=rng.random() < 0.3)
    r = gen.mk_qurot(rng, st)
    t = gen.mk_toeplitz(rng, s, spd=True)
    idx = gen.mk_index(rng, s)
    out = [
        IdentityOperator(s), gen.mk_homothety(rng, s), d, d.I, gen.mk_diagonal_first(rng, s2),
        gen.mk_hwp(rng, st), r, r.T, gen.mk_polarizer(rng, st), t, InverseOperator(t),
        gen.mk_broadcast_diag(rng, s), idx, idx.T, gen.mk_pack(rng, s), gen.mk_moveaxis(rng, s2),
        gen.mk_ravel(rng, s2), gen.mk_ravel(rng, s2).T, gen.mk_reshape(rng, s2), gen.mk_dense(rng, s),
        gen.mk_dense(rng, s, square=True),
        CompositionOperator([d, t]), AdditionOperator([d, t]), BlockDiagonalOperator([d, t]),
        BlockRowOperator([d, t]), BlockColumnOperator([d, t]), CompositionOperator([r, gen.mk_hwp(rng, st)]),
        TransposeOperator(gen.mk_dense(rng, s, square=True)),
    ]
    return [o for o in out if o is not None]


def one_case(ctx: Ctx, stream: str, i: int) -> None:
    rng = ctx.rng(stream, i)
    probe_ops(ctx, stream, i, instances(rng) + [gen.toeplitz_grid(5 * i + k, rng)[0] for k in range(5)])


def composites(rng):
    """composite operators as a user writes them: sandwiches around a symmetric centre with the very same outer
    object transposed / inverted (lazily or in closed form), arithmetic on symmetric operands, random expressions and
    their reductions — a composite may be tagged only if the tag holds for every choice of its parts"""
    from furax._base.blocks import BlockDiagonalOperator
    from furax._base.core import InverseOperator, TransposeOperator
    n = rng.choice([2, 3, 4])
    s = gen.S(n)
    out = []
    sym = [gen.mk_toeplitz(rng, s, spd=True), gen.mk_diagonal(rng, s), gen.mk_homothety(rng, s)]
    outer = [gen.mk_diagonal(rng, s), gen.mk_dense(rng, s, square=True), gen.mk_toeplitz(rng, s, spd=True),
             gen.mk_obs_matrix(rng, s), gen.mk_index(rng, s)]
    for _ in range(4):
        c = rng.choice(sym)
        x = rng.choice([o for o in outer if o is not None])
        duals = [lambda: x.T, lambda: TransposeOperator(x)]
        if gen.same_structure(x.in_structure(), x.out_structure()):
            duals += [lambda: x.I, lambda: InverseOperator(x)]
        mk = rng.choice(duals)
        st, dual = safe(mk)
        if st != 'ok':
            continue
        for build in (lambda: dual @ c @ x, lambda: x @ c @ dual, lambda: dual @ x, lambda: x @ dual,
                      lambda: (dual @ c @ x).reduce()):
            st2, e = safe(build)
            if st2 == 'ok':
                out.append(e)
    a, b = rng.choice(sym), rng.choice(sym)
    for build in (lambda: a @ b, lambda: a + b, lambda: a - b, lambda: 2.0 * a, lambda: -a, lambda: a @ a,
                  lambda: (a @ b).reduce(), lambda: (a + b).reduce(), lambda: BlockDiagonalOperator([a, b]),
                  lambda: BlockDiagonalOperator({'y': a, 'x': gen.mk_dense(rng, s, square=True)}), lambda: a.T, lambda: a.I,
                  lambda: (a @ b).T, lambda: (a + b).T):
        st2, e = safe(build)
        if st2 == 'ok':
            out.append(e)
    for _ in range(3):
        st2, e = safe(gen.gen_expression, rng, 4, 2)
        if st2 == 'ok':
            e = e[0] if isinstance(e, tuple) else e
            out.append(e)
            st3, r = safe(e.reduce)
            if st3 == 'ok':
                out.append(r)
    return out


def composite_case(ctx: Ctx, stream: str, i: int) -> None:
    rng = ctx.rng(stream, i)
    probe_ops(ctx, stream, i, composites(rng), composite=True)


def probe_ops(ctx: Ctx, stream: str, i: int, ops, composite: bool = False) -> None:
    for op in ops:
        name = type(op).__name__
        if composite:
            name = 'composite:' + name
        st, m = safe(gen.dense, op)
        if st != 'ok':
            ctx.fail(stream, i, f'tag-probe-raises:{name}:{st}', str(m)[:120], {})
            continue
        square = gen.same_structure(op.in_structure(), op.out_structure())
        for tag, holds in TAGS.items():
            st, declared = safe(getattr(lx, tag), op)
            if st != 'ok':
                ctx.fail(stream, i, f'tag-query-raises:{name}:{tag}:{st}', str(declared)[:120], {})
                continue
            if declared and not (square and holds(m)):
                ctx.fail(stream, i, f'tag-false:{name}:{tag}', f'{name} declares {tag} but its dense matrix does not have '
                         f'the property: {m.tolist()}', {'class': name, 'tag': tag})
            ctx.case(f'{name}:{tag}:{m.tolist()}', bool(declared), sample={'class': name, 'tag': tag, 'declared': bool(declared)})
            if declared:
                ctx.count(f'true:{name}:{tag}')
        # whatever the tags say: an operator whose transpose is the operator itself must have a symmetric matrix
        stT, opT = safe(lambda: op.T)
        if stT == 'ok' and opT is op and not (square and TAGS['is_symmetric'](m)):
            ctx.fail(stream, i, f'self-transpose-not-symmetric:{name}', f'{name}: A.T is A but the dense matrix is not '
                     f'symmetric: {m.tolist()}', {'class': name})
        # decorators of the library itself
        if lx.is_symmetric(op):
            if op.T is not op:
                ctx.fail(stream, i, f'symmetric-T-not-self:{name}', f'{name} is tagged symmetric but A.T is not A', {})
            if not square:
                ctx.fail(stream, i, f'symmetric-not-square:{name}', 'tagged symmetric but in/out structures differ', {})
        inv_is_transpose = type(op).inverse is type(op).transpose
        if inv_is_transpose:
            # orthogonal: MᵀM = I and A.I acts as A.T (a move-axis operator relabels between two DIFFERENT structures of
            # the same size: its matrix is a permutation matrix, orthogonal without the structures being equal)
            needs_square = type(op).__name__ != 'MoveAxisOperator'
            if not ((square or not needs_square) and m.shape[0] == m.shape[1] and
                    np.allclose(m.T @ m, np.eye(m.shape[0]), atol=1e-5)):
                ctx.fail(stream, i, f'orthogonal-false:{name}', f'{name}: inverse = transpose but MᵀM != I', {})
            sti, mi = safe(lambda: gen.dense(op.I))
            if sti != 'ok' or not np.allclose(mi, m.T, atol=1e-5):
                ctx.fail(stream, i, f'orthogonal-inverse:{name}', 'A.I does not act as A.T', {})
            ctx.count(f'orthogonal:{name}')
        if type(op).out_structure is type(op).in_structure and not square:
            ctx.fail(stream, i, f'square-false:{name}', 'declared square but structures differ', {})
        ctx.count('class:' + name)


def boundary_case(ctx: Ctx, stream: str, i: int) -> None:
    """constructions at the edge of what a tagged class accepts: whatever is accepted must still be truthful"""
    from furax._base.diagonal import DiagonalOperator
    from furax.operators.toeplitz import SymmetricBandToeplitzOperator
    rng = ctx.rng(stream, i)
    attempts = []
    n = rng.choice([2, 3, 4])
    # diagonal values along an axis where the leaf has length 1 (would broadcast the leaf), along both axes, pytrees
    attempts.append(lambda: DiagonalOperator(gen.arr([1.0, 2.0, 3.0][:n]), axis_destination=0, in_structure=gen.S(1, 4)))
    attempts.append(lambda: DiagonalOperator(gen.arr([1.0, 2.0, 3.0]), axis_destination=-1, in_structure=gen.S(2, 1)))
    attempts.append(lambda: DiagonalOperator(gen.arr([2.0, 5.0]), axis_destination=0,
                                             in_structure=(gen.S(2, 3), gen.S(1,))))
    attempts.append(lambda: DiagonalOperator(gen.arr([[1.0, 2.0], [3.0, 4.0]]), axis_destination=(1, 0), in_structure=gen.S(2, 2)))
    attempts.append(lambda: DiagonalOperator(gen.arr([[1.0, 2.0]]), axis_destination=(0, 1), in_structure=gen.S(3, 2)))
    attempts.append(lambda: SymmetricBandToeplitzOperator(gen.arr([[4.0, 1.0], [3.0, -1.0]]), gen.S(2, n), method='dense'))
    attempts.append(lambda: SymmetricBandToeplitzOperator(gen.arr([4.0, 1.0, 2.0, 5.0]), gen.S(2), method='direct'))
    for k, mk in enumerate(attempts):
        st, op = safe(mk)
        if st != 'ok':
            ctx.count('boundary:refused')
            ctx.case(f'boundary:{k}:{n}', False)
            continue
        name = type(op).__name__
        stm, m = safe(gen.dense, op)
        if stm != 'ok':
            ctx.fail(stream, i, f'tag-probe-raises:{name}:{stm}', str(m)[:120], {'attempt': k})
            continue
        square = gen.same_structure(op.in_structure(), jax.eval_shape(op.mv, op.in_structure()))
        for tag, holds in TAGS.items():
            declared = getattr(lx, tag)(op)
            if declared and not (square and m.shape[0] == m.shape[1] and holds(m)):
                ctx.fail(stream, i, f'tag-false:{name}:{tag}', f'{name} (boundary construction {k}) declares {tag} but its dense '
                         f'matrix of shape {m.shape} does not have the property', {'class': name, 'tag': tag, 'attempt': k})
        ctx.count('boundary:accepted')
        ctx.case(f'boundary:{k}:{n}:{m.tolist()}', True, sample={'boundary_attempt': k, 'class': name, 'matrix_shape': list(m.shape)})


def run(ctx: Ctx) -> None:
    for i in range(4 if ctx.tier == 'quick' else 40):
        if ctx.want('boundary', i):
            boundary_case(ctx, 'boundary', i)
    for i in range(8 if ctx.tier == 'quick' else 120):
        if ctx.want('probe', i):
            one_case(ctx, 'probe', i)
    for i in range(16 if ctx.tier == 'quick' else 200):
        if ctx.want('composite', i):
            composite_case(ctx, 'composite', i)
