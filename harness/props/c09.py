"""C09 — all Toeplitz evaluation methods compute the same banded product.

Correspondence: constructor accept/reject and default FFT size, `mv` per batch row for the four methods and
`as_matrix()` against the model kernels (proved equal to the specification T[i,j] = band[|i-j|]).
Oracle on the implementation: T x computed independently with NumPy, symmetry of as_matrix(), output shape
and dtype.  Workers alternate between 64-bit mode off and on.
"""
from __future__ import annotations

from fractions import Fraction

import jax
import jax.numpy as jnp
import numpy as np

import gen
from common import Ctx, safe
from encode import frac_str

ENV_VARIANTS = [{'JAX_ENABLE_X64': '0'}, {'JAX_ENABLE_X64': '1'}]
META = {
    'rule': ('(n, K incl. K > n and K = 1, fft_size in {None, 2K-1, 2K, random admissible, inadmissible}, method incl. '
             'illegal ones, batch shapes of x and of the band values, float32/float64, 64-bit mode on/off); integer data; '
             'non-trivial = K ≥ 2 and n ≥ 2 (an off-diagonal band takes part); distinct by the full configuration'),
    'trusted_base': [
        'Lean 4.33 kernel + Mathlib Finset sums; axioms propext, Classical.choice, Quot.sound',
        'A3: fft → multiply → ifft → real is exact circular convolution (FFT accuracy is runtime; tolerance 1e-3 '
        'relative on the fft / overlap_save channels, exact comparison on dense / direct)',
        'batch broadcasting of band values against the input is reproduced by the harness with NumPy',
    ],
    'assumptions': ['np.ceil of a float quotient is modelled by integer ceiling division (exact below 2**53)'],
}
METHODS = ['dense', 'direct', 'fft', 'overlap_save']


def spec(band: np.ndarray, x: np.ndarray) -> np.ndarray:
    n, K = x.shape[-1], band.shape[-1]
    T = np.zeros((n, n))
    for i in range(n):
        for j in range(n):
            if abs(i - j) < K:
                T[i, j] = band[abs(i - j)]
    return T @ x


def one_case(ctx: Ctx, stream: str, i: int, nmax: int, kmax: int) -> None:
    from furax.operators.toeplitz import SymmetricBandToeplitzOperator as Toep
    rng = ctx.rng(stream, i)
    x64 = bool(jax.config.jax_enable_x64)
    n = rng.randint(1, nmax)
    K = rng.choice([1, 1, 2, 2, 3, rng.randint(1, kmax), n, n + 1, n + 2])
    K = max(1, min(K, kmax + 2))
    method = rng.choice(METHODS + METHODS + ['overlap_add', 'bogus'])
    dtype = rng.choice([np.float32, np.float64]) if x64 else np.float32
    xbatch = rng.choice([(), (), (2,), (1, 2), (2, 3)])
    bbatch = rng.choice([(), (), (), xbatch, (1,) * len(xbatch)]) if xbatch else ()
    fkind = rng.choice(['none', 'none', 'min', 'min+1', 'rand', 'bad'])
    fft = {'none': None, 'min': 2 * K - 1, 'min+1': 2 * K, 'rand': 2 * K - 1 + rng.randint(0, 12),
           'bad': max(0, 2 * K - 2 - rng.randint(0, 2))}[fkind]
    band = np.array([rng.choice([-2, -1, 1, 2, 3, 4]) for _ in range(int(np.prod(bbatch)) * K)],
                    dtype=np.float64).reshape(bbatch + (K,))
    x = np.array([rng.randint(-3, 4) for _ in range(int(np.prod(xbatch)) * n)], dtype=np.float64).reshape(xbatch + (n,))
    in_structure = jax.ShapeDtypeStruct(x.shape, dtype)
    cfg = {'n': n, 'K': K, 'method': method, 'fft': fft, 'xbatch': xbatch, 'bbatch': bbatch,
           'dtype': np.dtype(dtype).name, 'x64': x64}
    ctx.count('method:' + method)
    ctx.count('x64:' + str(x64))
    ctx.count('fft:' + fkind)

    st, op = safe(lambda: Toep(jnp.asarray(band, dtype=dtype), in_structure, method=method, fft_size=fft))
    rep = ctx.model.ask(['toeplitz-ctor', method, str(K), 'N' if fft is None else str(fft)])
    legal_method = method in METHODS
    admissible = fft is None or (method.startswith('overlap_') and fft >= 2 * K - 1)
    should_accept = legal_method and admissible
    # oracle: illegal methods / FFT sizes rejected, legal ones accepted
    if should_accept and st != 'ok':
        ctx.fail(stream, i, f'ctor-rejects-admissible:{st}:batched={bool(bbatch)}',
                 f'admissible configuration rejected with {st}: {op}', cfg)
    if not should_accept and st == 'ok':
        ctx.fail(stream, i, 'ctor-accepts-illegal', 'illegal method or FFT size accepted', cfg)
    # correspondence on the constructor
    if (st == 'ok') != (rep[0] == 'ok') or (st != 'ok' and rep[0] == 'error' and rep[1] != st):
        ctx.disagree(stream, i, f'constructor: implementation {st}, model {rep}', cfg)
    elif st == 'ok':
        got = 'N' if op.fft_size is None else str(int(op.fft_size))
        if got != rep[1]:
            ctx.disagree(stream, i, f'fft_size: implementation {got}, model {rep[1]}', cfg)
    ctx.case(f'ctor:{cfg}', K >= 2, sample=None)
    if st != 'ok':
        ctx.count('ctor-rejected')
        return

    # ---- mv ---------------------------------------------------------------------------------------
    st, y = safe(op.mv, jnp.asarray(x, dtype=dtype))
    if st != 'ok':
        ctx.fail(stream, i, f'mv-raises:{st}:{method}:x64={x64}:{np.dtype(dtype).name}',
                 f'mv raised {st}: {str(y)[:200]}', cfg)
        return
    y = np.asarray(y)
    if y.shape != x.shape or y.dtype != np.dtype(dtype):
        ctx.fail(stream, i, f'mv-shape-dtype:{method}', f'output {y.shape} {y.dtype} for input {x.shape} {np.dtype(dtype)}', cfg)
        return
    bshape = np.broadcast_shapes(xbatch, bbatch)
    xb = np.broadcast_to(x, bshape + (n,)).reshape(-1, n)
    bb = np.broadcast_to(band, bshape + (K,)).reshape(-1, K)
    yb = y.reshape(-1, n) if y.shape == bshape + (n,) else None
    if yb is None:
        ctx.fail(stream, i, 'mv-batch-shape', f'output shape {y.shape}, expected {bshape + (n,)}', cfg)
        return
    exact = method in ('dense', 'direct')
    tol = 0 if exact else 1e-3
    F = int(op.fft_size) if op.fft_size is not None else 0
    for r in range(xb.shape[0]):
        want = spec(bb[r], xb[r])
        rep = ctx.model.ask(['toeplitz', method, str(F), [frac_str(Fraction(v)) for v in bb[r].tolist()],
                             [frac_str(Fraction(v)) for v in xb[r].tolist()]])
        mod = np.array([float(Fraction(v)) for v in rep[1]]) if rep[0] == 'ok' else None
        scale = max(1.0, float(np.abs(want).max()))
        if not np.allclose(yb[r], want, rtol=0, atol=tol * scale + 1e-12):
            ctx.fail(stream, i, f'mv-wrong:{method}', f'{method}: T x differs from band[|i-j|] product: got '
                     f'{yb[r].tolist()} want {want.tolist()}', cfg)
        if mod is None or not np.allclose(yb[r], mod, rtol=0, atol=tol * scale + 1e-12):
            ctx.disagree(stream, i, f'{method}: implementation {yb[r].tolist()} model {None if mod is None else mod.tolist()}', cfg)
        ctx.case(f'mv:{cfg}:{r}:{bb[r].tolist()}:{xb[r].tolist()}', K >= 2 and n >= 2,
                 sample={**cfg, 'band': bb[r].tolist(), 'x': xb[r].tolist(), 'y': yb[r].tolist()})

    # ---- as_matrix ----------------------------------------------------------------------------------
    if rng.random() < 0.5 and n * int(np.prod(xbatch)) <= 40:
        st, m = safe(op.as_matrix)
        if st != 'ok':
            ctx.fail(stream, i, f'as_matrix-raises:{st}', f'as_matrix raised {st}: {str(m)[:200]}', cfg)
            return
        m = np.asarray(m, dtype=np.float64)
        nb = xb.shape[0]
        want = np.zeros((nb * n, nb * n))
        for r in range(nb):
            rep = ctx.model.ask(['toeplitz-dense', str(n), [frac_str(Fraction(v)) for v in bb[r].tolist()]])
            blk = np.array([float(Fraction(v)) for v in rep[1]]).reshape(n, n)
            want[r * n:(r + 1) * n, r * n:(r + 1) * n] = blk
            specblk = np.array([[bb[r][abs(a - b)] if abs(a - b) < K else 0.0 for b in range(n)] for a in range(n)])
            if not np.array_equal(blk, specblk):
                ctx.disagree(stream, i, 'model dense block differs from the specification (model bug)', cfg)
        if m.shape != want.shape or not np.array_equal(m, want):
            ctx.fail(stream, i, 'as_matrix-wrong', 'as_matrix() is not the block-diagonal band matrix', cfg)
        elif not np.array_equal(m, m.T):
            ctx.fail(stream, i, 'as_matrix-not-symmetric', 'as_matrix() is not symmetric', cfg)
        ctx.case(f'asmatrix:{cfg}:{band.tolist()}', K >= 2 and n >= 2, sample=None)
        ctx.count('as_matrix')


def run(ctx: Ctx) -> None:
    n = 300 if ctx.tier == 'quick' else 6000
    nmax, kmax = (16, 6) if ctx.tier == 'quick' else (40, 12)
    for i in range(n):
        if ctx.want('cfg', i):
            one_case(ctx, 'cfg', i, nmax, kmax)
