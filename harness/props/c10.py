"""C10 — block operators act as the block matrices of their blocks.

Correspondence (forms): `.T`, `.I`, in/out structures, constructor validation and the four block product rules
against the model.  Oracle on the implementation: the dense matrix of a block row / diagonal / column operator
against numpy hstack / block_diag / vstack of the dense matrices of its blocks in pytree-leaf order, for lists,
tuples, dicts (unsorted insertion order), nested containers, single blocks and blocks with pytree inputs or
outputs; the transposes; the block-wise inverse; the reduced products.
"""
from __future__ import annotations

import jax
import jax.numpy as jnp
import numpy as np
import scipy.linalg as sl

import gen
from common import Ctx, safe
from encode import Encoder, first_diff, sx

META = {
    'rule': ('containers: list / tuple / dict with unsorted keys / nested / arity 1, 1-4 blocks; block kinds: diagonal, '
             'scalar, identity, dense, index, Toeplitz, compositions, blocks on pytree structures; row, diagonal and column '
             'operators, their transposes, the block-diagonal inverse, mismatching structures, and the four adjacent products; '
             'non-trivial = more than one block or a nested container; distinct by the canonical S-expression'),
    'trusted_base': [
        'Lean 4.33 kernel + standard axioms',
        'harness encoder (containers are encoded as JAX does: treedef + leaves)',
    ],
    'assumptions': [],
}


def container(rng, items):
    k = rng.random()
    n = len(items)
    if n == 1:
        return rng.choice([[items[0]], (items[0],), {'k': items[0]}, [[items[0]]]])
    if k < 0.35:
        return list(items)
    if k < 0.5:
        return tuple(items)
    if k < 0.75:
        keys = ['z', 'a', 'm', 'b'][:n]
        return {kk: it for kk, it in zip(keys, items)}      # insertion order is not sorted
    if n >= 3:
        return [items[0], {'y': items[1], 'x': items[2]}] + list(items[3:])
    return [[items[0]], (items[1],)]


def block_leaves(c):
    return jax.tree.leaves(c, is_leaf=gen.is_op_leaf)


def one_case(ctx: Ctx, stream: str, i: int) -> None:
    from furax._base.blocks import BlockColumnOperator, BlockDiagonalOperator, BlockRowOperator
    from furax._base.core import CompositionOperator
    rng = ctx.rng(stream, i)
    n = rng.choice([1, 2, 2, 3, 4])
    kind = rng.choice(['row', 'diag', 'col'])
    s_in = gen.random_structure(rng)
    cfg = {'kind': kind, 'n': n}
    # blocks
    if kind == 'col':
        blocks = [gen.gen_step(rng, s_in, 1) for _ in range(n)]
    elif kind == 'diag':
        blocks = [gen.gen_step(rng, gen.random_structure(rng), 1) for _ in range(n)]
    else:
        first = gen.gen_step(rng, s_in, 1)
        blocks = [first]
        for _ in range(n - 1):
            # another operator with the same output structure: first composed with an endomorphism of a fresh input
            e = gen.gen_endo(rng, s_in, 1)
            blocks.append(CompositionOperator([first, e]) if rng.random() < 0.7 else first)
    cont = container(rng, blocks)
    cls = {'row': BlockRowOperator, 'diag': BlockDiagonalOperator, 'col': BlockColumnOperator}[kind]
    st, op = safe(cls, cont)
    if st != 'ok':
        ctx.fail(stream, i, f'block-ctor-raises:{kind}:{st}', f'{kind} of compatible blocks raised {st}: {str(op)[:120]}', cfg)
        return
    leaves = block_leaves(cont)
    enc = Encoder()
    esx = enc.op(op)
    enc.freeze()
    ctx.in_domain(stream, i, esx, cfg)

    # ---- oracle: dense matrix -------------------------------------------------------------------------
    mats = [gen.dense(b) for b in leaves]
    want = {'row': np.hstack, 'col': np.vstack, 'diag': lambda ms: sl.block_diag(*ms)}[kind](mats)
    st, m = safe(gen.dense, op)
    if st != 'ok':
        ctx.fail(stream, i, f'block-mv-raises:{kind}:{st}', f'applying the {kind} operator raised {st}: {str(m)[:120]}', cfg)
        return
    if not gen.close(m, want):
        ctx.fail(stream, i, f'block-matrix:{kind}', f'{kind} operator is not the stacked matrix of its blocks '
                 f'(container {type(cont).__name__}, {len(leaves)} blocks)', {**cfg, 'expr': sx(esx)[:1500]})
    st, am = safe(lambda: np.asarray(op.as_matrix(), dtype=np.float64))
    if st == 'ok' and not gen.close(am, want):
        ctx.fail(stream, i, f'block-as_matrix:{kind}', 'as_matrix() differs from the stacked matrix', cfg)
    # the caller's data: the operator applied to NumPy arrays (as a user who has not moved the data to JAX would do), the
    # SAME array object in every slot, twice in a row — the result is the matrix times the input both times and the
    # caller's arrays are left as they were
    rng_np = ctx.rng(stream + ':numpy', i)
    leaves_in = jax.tree.leaves(op.in_structure())
    if all(np.dtype(l.dtype) == np.float32 for l in leaves_in):
        shared = {}
        vals = []
        for l in leaves_in:
            key = tuple(l.shape)
            if key not in shared:
                shared[key] = np.array([rng_np.randint(-3, 4) for _ in range(int(np.prod(l.shape)))], dtype=np.float32).reshape(l.shape)
            vals.append(shared[key])
        before = [v.copy() for v in vals]
        xin = jax.tree.unflatten(jax.tree.structure(op.in_structure()), vals)
        flat_x = np.concatenate([b.ravel() for b in before]) if before else np.zeros(0)
        for rep_ in range(2):
            stn, yn = safe(op.mv, xin)
            if stn != 'ok':
                ctx.fail(stream, i, f'block-mv-raises-on-numpy-input:{kind}:{stn}', str(yn)[:120], cfg)
                break
            if not gen.close(gen.flatten_value(yn), want @ flat_x):
                ctx.fail(stream, i, f'block-numpy-input:{kind}:application-{rep_ + 1}', f'{kind} operator applied to NumPy arrays '
                         f'(application {rep_ + 1}) is not the stacked matrix times the input', cfg)
                break
            if any(not np.array_equal(a, b) for a, b in zip(vals, before)):
                ctx.fail(stream, i, f'block-modifies-caller-input:{kind}', f'applying the {kind} operator wrote into the NumPy arrays it was given', cfg)
                break
        ctx.count('numpy-input')

    # ---- structures ---------------------------------------------------------------------------------------
    rep = ctx.model.ask(['structs', esx])
    e2 = Encoder()
    from encode import struct
    if rep[0] != 'ok' or first_diff(rep[1], struct(op.in_structure())) or first_diff(rep[2], struct(op.out_structure())):
        ctx.disagree(stream, i, f'{kind}: in/out structures differ from the model', {**cfg, 'expr': sx(esx)[:1500]})

    # ---- transpose ------------------------------------------------------------------------------------------
    st, t = safe(lambda: op.T)
    rep = ctx.model.ask(['T', esx])
    if st != 'ok':
        ctx.fail(stream, i, f'block-T-raises:{st}', str(t)[:120], cfg)
    else:
        want_cls = {'row': BlockColumnOperator, 'col': BlockRowOperator, 'diag': BlockDiagonalOperator}[kind]
        if type(t) is not want_cls:
            ctx.fail(stream, i, 'block-T-class', f'{kind}.T is a {type(t).__name__}', cfg)
        stt, mt = safe(gen.dense, t)
        if stt != 'ok' or not gen.close(mt, want.T):
            ctx.fail(stream, i, f'block-T-matrix:{kind}', f'dense({kind}.T) is not the transposed matrix ({stt})', cfg)
        if rep[0] == 'ok':
            d = first_diff(rep[1], enc.op(t))
            if d is not None:
                ctx.disagree(stream, i, f'{kind}.T form differs at {d[0]}: model {d[1]!r:.120} impl {d[2]!r:.120}', cfg)
        elif rep[0] != 'unsupported':
            ctx.disagree(stream, i, f'{kind}.T: model {sx(rep)[:100]}', cfg)

    # ---- inverse (block diagonal of square blocks) --------------------------------------------------------
    if kind == 'diag':
        inv_blocks = []
        for b in leaves:
            d = gen.mk_diagonal(rng, b.in_structure()) or gen.mk_homothety(rng, b.in_structure())
            inv_blocks.append(d)
        c2 = jax.tree.unflatten(jax.tree.structure(cont, is_leaf=gen.is_op_leaf), inv_blocks)
        bd = BlockDiagonalOperator(c2)
        e3 = Encoder()
        bsx = e3.op(bd)
        e3.freeze()
        sti, inv = safe(lambda: bd.I)
        rep = ctx.model.ask(['I', bsx])
        if sti != 'ok' or type(inv) is not BlockDiagonalOperator:
            ctx.fail(stream, i, 'blockdiag-inverse', f'BlockDiagonal of invertible blocks: .I → {sti} {type(inv).__name__}', cfg)
        else:
            mi, mb = gen.dense(inv), gen.dense(bd)
            if not gen.close(mi @ mb, np.eye(mb.shape[0])):
                ctx.fail(stream, i, 'blockdiag-inverse-matrix', 'bd.I is not the block-wise inverse', cfg)
            dd = first_diff(rep[1], e3.op(inv)) if rep[0] == 'ok' else None
            if dd is not None:
                ctx.disagree(stream, i, f'BlockDiagonal.I form differs from the model at {dd[0]}: model {dd[1]!r:.150} '
                             f'impl {dd[2]!r:.150}', cfg)

    ctx.count('kind:' + kind)
    ctx.count('container:' + type(cont).__name__)
    ctx.case(sx(esx), len(leaves) > 1 or type(cont) is not list, sample={**cfg, 'container': type(cont).__name__,
                                                                              'blocks': [type(b).__name__ for b in leaves]})


def mismatch_case(ctx: Ctx, stream: str, i: int) -> None:
    """blocks whose SHARED structures (outputs of a row, inputs of a column) differ are refused at construction: the
    difference may be the size, the shape at equal size, ONLY the dtype of a leaf, the container kind, the dict keys or
    the number of leaves; the odd block stands at any position of a list, a dict or a nested container"""
    from furax._base.blocks import BlockColumnOperator, BlockRowOperator
    from furax._base.core import IdentityOperator
    rng = ctx.rng(stream, i)
    f32 = jnp.float32
    kinds = {
        'size': (gen.S(2), gen.S(3)),
        'shape-same-size': (gen.S(2, 3), gen.S(3, 2)),
        'rank-same-size': (gen.S(6), gen.S(2, 3)),
        'dtype-int': (gen.S(3), gen.S(3, dtype=jnp.int32)),
        'dtype-half': (gen.S(3), gen.S(3, dtype=jnp.float16)),
        'dtype-complex': (gen.S(2, 2), gen.S(2, 2, dtype=jnp.complex64)),
        'dtype-one-leaf-of-pytree': ({'a': gen.S(2), 'b': gen.S(3)}, {'a': gen.S(2), 'b': gen.S(3, dtype=jnp.float16)}),
        'container-kind': ([gen.S(2), gen.S(2)], (gen.S(2), gen.S(2))),
        'dict-keys': ({'a': gen.S(2), 'b': gen.S(2)}, {'a': gen.S(2), 'c': gen.S(2)}),
        'leaf-count': ([gen.S(2)], [gen.S(2), gen.S(2)]),
    }
    if jax.config.jax_enable_x64:
        kinds['dtype-double'] = (gen.S(3), gen.S(3, dtype=jnp.float64))
    names = sorted(kinds) + ['array-shape-only', 'array-shape-only-lazy-transpose']
    kind = names[i % len(names)]
    if kind.startswith('array-shape-only'):
        # the mismatch is ONLY in the shape of an array leaf (the block array of a dense operator): the pytree
        # definitions of the two containers — classes, static fields, container — are identical; and a WELL-FORMED
        # container with that very definition is built first, in the same process
        from furax._base.core import TransposeOperator
        from furax._base.dense import DenseBlockDiagonalOperator
        n = rng.choice([2, 3])
        sin = gen.S(n)

        def dn(rows):
            d = DenseBlockDiagonalOperator(gen.arr([[rng.randint(-2, 3) for _ in range(n)] for _ in range(rows)]), sin, 'ij...,j...->i...')
            return d
        lazy = kind.endswith('lazy-transpose')
        for cls, name in ((BlockRowOperator, 'BlockRowOperator'), (BlockColumnOperator, 'BlockColumnOperator')):
            if name == 'BlockRowOperator':
                good, bad = [dn(n), dn(n)], [dn(n), dn(1)]                   # outputs (n,) (n,)  vs  (n,) (1,)
            else:
                mk = (lambda r: TransposeOperator(dn(r))) if lazy else (lambda r: dn(r).T)
                good, bad = [mk(n), mk(n)], [mk(n), mk(1)]                   # inputs (n,) (n,)  vs  (n,) (1,)
            form = rng.choice(['list', 'tuple', 'dict'])
            wrap = (lambda l: l) if form == 'list' else (tuple if form == 'tuple' else (lambda l: {'q': l[0], 'a': l[1]}))
            st0, _ = safe(cls, wrap(good))
            st, op = safe(cls, wrap(bad))
            cfg = {'mismatch': kind, 'container': form, 'class': name}
            if st0 != 'ok':
                ctx.fail(stream, i, f'block-ctor-refuses-wellformed:{name}', f'{name} of two matching dense blocks → {st0}', cfg)
            if st != 'ValueError':
                ctx.fail(stream, i, f'block-ctor-accepts-mismatch:{name}:{kind}', f'{name} of two blocks whose shared structures differ '
                         f'only through the SHAPE OF A BLOCK ARRAY (same pytree definition as a well-formed container built just '
                         f'before) → {st}', cfg)
        ctx.case(f'mismatch:{kind}:{i % 7}', True, sample={'mismatch': kind})
        ctx.count('mismatch:' + kind)
        return
    s1, s2 = kinds[kind]

    def endo(s):
        o = gen.gen_endo(rng, s, 0) if all(np.dtype(l.dtype) == np.dtype(f32) for l in jax.tree.leaves(s)) else None
        return o if o is not None else IdentityOperator(s)
    nblocks = rng.choice([2, 2, 3, 4])
    odd = rng.randrange(nblocks)
    blocks = [endo(s2) if k == odd else endo(s1) for k in range(nblocks)]
    form = rng.choice(['list', 'tuple', 'dict', 'nested'])
    if form == 'list':
        cont = list(blocks)
    elif form == 'tuple':
        cont = tuple(blocks)
    elif form == 'dict':
        cont = {['q', 'a', 'm', 'c'][k]: b for k, b in enumerate(blocks)}
    else:
        cont = {'z': blocks[:1], 'a': tuple(blocks[1:])}
    cfg = {'mismatch': kind, 'blocks': nblocks, 'odd_block_at': odd, 'container': form}
    for cls, name in ((BlockRowOperator, 'BlockRowOperator'), (BlockColumnOperator, 'BlockColumnOperator')):
        st, op = safe(cls, cont)
        if st != 'ValueError':
            ctx.fail(stream, i, f'block-ctor-accepts-mismatch:{name}:{kind}', f'{name} of {nblocks} blocks ({form}) whose shared '
                     f'structures differ by {kind} (block {odd}) → {st}', cfg)
        if form == 'list':
            enc = Encoder()
            rep = ctx.model.ask(['block-ctor', name, [enc.op(b) for b in blocks]])
            if rep[0] != 'error':
                ctx.disagree(stream, i, f'{name} ctor ({kind}): model {rep}', cfg)
    ctx.case(f'mismatch:{kind}:{nblocks}:{odd}:{form}', True, sample=cfg)
    ctx.count('mismatch:' + kind)


def product_case(ctx: Ctx, stream: str, i: int) -> None:
    """adjacent block operators simplify to the block-wise products (a sum for row-times-column)"""
    from furax._base.blocks import BlockColumnOperator, BlockDiagonalOperator, BlockRowOperator
    from furax._base.core import AdditionOperator, CompositionOperator
    rng = ctx.rng(stream, i)
    n = rng.choice([1, 2, 3])
    s = gen.random_structure(rng)
    mk = lambda: [gen.gen_endo(rng, s, 0) for _ in range(n)]   # noqa: E731
    shape = container(rng, list(range(n)))
    td = jax.tree.structure(shape)
    wrap = lambda items: jax.tree.unflatten(td, items)         # noqa: E731
    which = rng.choice(['row-diag', 'diag-col', 'diag-diag', 'row-col'])
    L, R = mk(), mk()
    # block-wise products that collapse: inverses of the very same block objects, or identities on both sides —
    # every product is then an identity (or all but one are), which the container must still account for
    special = rng.choice(['none', 'none', 'inverse-pairs', 'identities', 'inverse-but-one'])
    if special != 'none':
        from furax._base.core import IdentityOperator
        invertibles = []
        for _ in range(n):
            c = None
            for _ in range(8):
                c = rng.choice([gen.mk_diagonal, gen.mk_qurot, gen.mk_diagonal_first])(rng, s)
                if c is not None:
                    break
            invertibles.append(c)
        if special == 'identities' or any(c is None for c in invertibles):
            L, R = [IdentityOperator(s) for _ in range(n)], [IdentityOperator(s) for _ in range(n)]
            special = 'identities'
        else:
            L = invertibles
            R = [c.I for c in invertibles]
            if special == 'inverse-but-one':
                R[rng.randrange(n)] = gen.gen_endo(rng, s, 0)
            if rng.random() < 0.5:
                L, R = R, L
    left = {'row-diag': BlockRowOperator, 'row-col': BlockRowOperator}.get(which, BlockDiagonalOperator)(wrap(L))
    right = {'diag-col': BlockColumnOperator, 'row-col': BlockColumnOperator}.get(which, BlockDiagonalOperator)(wrap(R))
    e = CompositionOperator([left, right])
    st, red = safe(e.reduce)
    cfg = {'product': which, 'n': n, 'container': type(shape).__name__, 'blocks': special}
    ctx.count('product-blocks:' + special)
    if st != 'ok':
        ctx.fail(stream, i, f'block-product-raises:{which}:{st}', str(red)[:150], cfg)
        return
    want_cls = {'row-diag': BlockRowOperator, 'diag-col': BlockColumnOperator, 'diag-diag': BlockDiagonalOperator,
                'row-col': AdditionOperator}[which]
    simplified = not (isinstance(red, CompositionOperator) and
                      any(isinstance(o, (BlockRowOperator, BlockColumnOperator, BlockDiagonalOperator)) and o in (left, right)
                          for o in red.operands))
    if not simplified:
        ctx.fail(stream, i, f'block-product-not-simplified:{which}', f'{which} with equal layouts was not simplified', cfg)
    if not (gen.same_structure(red.in_structure(), e.in_structure()) and
            gen.same_structure(red.out_structure(), e.out_structure())):
        ctx.fail(stream, i, f'block-product-structure:{which}', 'the simplified product has other input/output '
                 'structures than the product', cfg)
    elif not gen.close(gen.dense(red), gen.dense(e)):
        ctx.fail(stream, i, f'block-product-wrong:{which}', 'the simplified product denotes another matrix', cfg)
    enc = Encoder()
    esx = enc.op(e)
    enc.freeze()
    rep = ctx.model.ask(['reduce', esx])
    if rep[0] != 'ok' or first_diff(rep[1], enc.op(red)) is not None:
        ctx.disagree(stream, i, f'{which}: reduce() form differs from the model', {**cfg, 'expr': sx(esx)[:1500]})
    ctx.count('product:' + which)
    ctx.case(sx(esx), True, sample={**cfg, 'result': type(red).__name__, 'expected_kind': want_cls.__name__})


def many_blocks_case(ctx: Ctx, stream: str, i: int) -> None:
    """arity well beyond what the test suite uses: 5..16 blocks (simple blocks keep it cheap)"""
    from furax._base.blocks import BlockColumnOperator, BlockDiagonalOperator, BlockRowOperator
    rng = ctx.rng(stream, i)
    n = rng.randint(5, 16)
    s = gen.S(rng.choice([2, 3]))
    blocks = [rng.choice([gen.mk_diagonal, gen.mk_homothety, gen.mk_toeplitz])(rng, s) for _ in range(n)]
    cont = list(blocks) if rng.random() < 0.6 else {f'k{j:02d}': b for j, b in enumerate(rng.sample(blocks, n))}
    leaves = block_leaves(cont)
    mats = [gen.dense(b) for b in leaves]
    for kind, cls, stack in (('row', BlockRowOperator, np.hstack), ('col', BlockColumnOperator, np.vstack),
                             ('diag', BlockDiagonalOperator, lambda ms: sl.block_diag(*ms))):
        st, op = safe(cls, cont)
        if st != 'ok':
            ctx.fail(stream, i, f'block-ctor-raises:{kind}:{st}', str(op)[:120], {'n': n})
            continue
        want = stack(mats)
        st, m = safe(gen.dense, op)
        if st != 'ok' or not gen.close(m, want):
            ctx.fail(stream, i, f'block-matrix:{kind}', f'{kind} operator of {n} blocks is not the stacked matrix of its blocks '
                     f'({st})', {'n': n, 'container': type(cont).__name__})
        st, mt = safe(lambda: gen.dense(op.T))
        if st != 'ok' or not gen.close(mt, want.T):
            ctx.fail(stream, i, f'block-T-matrix:{kind}', f'{kind}.T of {n} blocks is not the transposed matrix', {'n': n})
        ctx.case(f'many:{kind}:{n}:{i}', True, sample={'kind': kind, 'n_blocks': n, 'container': type(cont).__name__})
    ctx.count(f'many:{n}')


def run(ctx: Ctx) -> None:
    q = ctx.tier == 'quick'
    for i in range(24 if q else 400):
        if ctx.want('many', i):
            many_blocks_case(ctx, 'many', i)
    for i in range(160 if q else 3000):
        if ctx.want('block', i):
            one_case(ctx, 'block', i)
    for i in range(52 if q else 520):
        if ctx.want('mismatch', i):
            mismatch_case(ctx, 'mismatch', i)
    for i in range(80 if q else 1500):
        if ctx.want('product', i):
            product_case(ctx, 'product', i)
