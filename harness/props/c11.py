"""C11 — diagonal operators multiply along the requested axes.

Correspondence: BroadcastDiagonalOperator / DiagonalOperator on one leaf (axis normalisation, left/right
broadcast padding, move-axis, NumPy broadcasting, strict shape check, constructor errors) against the model.
Oracle on the implementation: an independent NumPy construction (values expanded with np.expand_dims onto the
requested axes of the — possibly extended — leaf), the dense form, and the pseudo-inverse values.
"""
from __future__ import annotations

from fractions import Fraction

import jax
import jax.numpy as jnp
import numpy as np

import gen
from common import Ctx, safe
from encode import frac_str

META = {
    'rule': ('(leaf shapes of rank 1-4 and value shapes of rank 1-3 with pairwise distinct sizes 2,3,5,7 so that a wrong '
             'permutation cannot hide; axis_destination as non-negative / negative scalar, explicit tuple in any order, '
             'axes beyond the leaf rank on either side, duplicated and incompatible axes; pytrees with leaves of different '
             'rank; scalar and pytree values); non-trivial = accepted; distinct by the full configuration'),
    'trusted_base': [
        'Lean 4.33 kernel + standard axioms',
        'A1: jnp.moveaxis / reshape / broadcasting behave as NumPy',
    ],
    'assumptions': [],
}
DIMS = [2, 3, 5, 7]


def numpy_reference(values, axes, x):
    """values laid along `axes` (already non-negative w.r.t. the extended leaf) times x, NumPy broadcasting"""
    nd = x.ndim
    norm = [a if a >= 0 else nd + a for a in axes]
    left = -min(0, min(norm))
    right = max(0, max(norm) - nd + 1)
    total = left + nd + right
    tgt = [a + left for a in norm]
    # place values.shape[k] on axis tgt[k] of a `total`-dimensional array of ones
    shape = [1] * total
    for k, a in enumerate(tgt):
        shape[a] = values.shape[k]
    order = np.argsort(tgt)
    v = np.transpose(values, order).reshape(shape)
    xx = x.reshape(x.shape + (1,) * right)
    return v * xx     # broadcasting adds the `left` leading dimensions to x


def one_case(ctx: Ctx, stream: str, i: int) -> None:
    from furax._base.diagonal import BroadcastDiagonalOperator, DiagonalOperator
    rng = ctx.rng(stream, i)
    strict = rng.random() < 0.5
    xrank = rng.randint(1, 4 if not strict else 3)
    xshape = tuple(rng.sample(DIMS, xrank))
    if rng.random() < 0.3:
        # a length-1 axis in the leaf: values longer than 1 along it would change the shape
        k1 = rng.randrange(xrank)
        xshape = xshape[:k1] + (1,) + xshape[k1 + 1:]
    kind = rng.random()
    vrank = rng.randint(1, min(3, xrank if strict else 3))
    if (strict and kind < 0.75) or (not strict and kind < 0.6):
        # compatible: pick target axes of the leaf and take their sizes (possibly 1 to broadcast)
        axes_pos = rng.sample(range(xrank), min(vrank, xrank))
        vrank = len(axes_pos)
        form = rng.random()
        if form < 0.35:
            a0 = rng.randint(0, xrank - vrank)
            axes_pos = list(range(a0, a0 + vrank))
            spec = a0 if rng.random() < 0.5 else a0 + vrank - 1 - xrank    # non-negative or negative scalar
            if spec < 0:
                pass
            spec_axes = axes_pos
        else:
            spec_axes = [a - xrank if rng.random() < 0.5 else a for a in axes_pos]
            spec = tuple(spec_axes) if rng.random() < 0.7 else list(spec_axes)
        vshape = tuple((xshape[a] if xshape[a] != 1 or rng.random() < 0.5 else rng.choice([2, 3])) if rng.random() < 0.85 else 1
                       for a in axes_pos)
    elif kind < 0.82 and strict and kind >= 0.75:
        # strict operator: axes beyond the leaf rank on the right change the shape of the result even when the values
        # have length 1 there — the specification must be refused
        ext = rng.choice([1, 1, 2])
        inside = rng.sample(range(xrank), min(max(vrank - 1, 0), xrank))
        beyond = [xrank + ext - 1]
        axes_sel = inside + beyond if rng.random() < 0.6 else beyond + inside
        vshape = tuple(xshape[a] if a < xrank else rng.choice([1, 1, 1, 2]) for a in axes_sel)
        spec = tuple(axes_sel) if len(axes_sel) > 1 or rng.random() < 0.5 else axes_sel[0]
        if isinstance(spec, int):
            vshape = (rng.choice([1, 1, 2]),)
        vrank = len(vshape)
    elif kind < 0.7 and not strict:
        # explicit tuples, in ANY order, that extend the leaf on the right (axes ≥ rank) or on the left (axes < -rank)
        # while the other axes stay inside it, with compatible sizes: the leaf gets trailing / leading length-1 axes
        ext = rng.choice([1, 1, 2])
        if rng.random() < 0.7:
            pool = list(range(xrank + ext))
            axes_sel = rng.sample(pool, min(vrank, len(pool)))
            if all(a < xrank for a in axes_sel):
                axes_sel[rng.randrange(len(axes_sel))] = xrank + ext - 1
            if len(set(axes_sel)) != len(axes_sel):
                axes_sel = list(dict.fromkeys(axes_sel))
            vshape = tuple((xshape[a] if rng.random() < 0.85 else 1) if a < xrank else rng.choice(DIMS) for a in axes_sel)
            # MIXED signs: an axis inside the leaf may be spelt negatively (counted from the end of the LEAF, not of the
            # extended leaf) next to a non-negative axis beyond the rank
            axes_sel = [a - xrank if a < xrank and rng.random() < 0.5 else a for a in axes_sel]
            spec = tuple(axes_sel)
        else:
            pool = list(range(-xrank - ext, 0))
            axes_sel = rng.sample(pool, min(vrank, len(pool)))
            if all(a >= -xrank for a in axes_sel):
                axes_sel[rng.randrange(len(axes_sel))] = -xrank - ext
            if len(set(axes_sel)) != len(axes_sel):
                axes_sel = list(dict.fromkeys(axes_sel))
            vshape = tuple((xshape[a + xrank] if rng.random() < 0.85 else 1) if a >= -xrank else rng.choice(DIMS)
                           for a in axes_sel)
            axes_sel = [a + xrank if a >= -xrank and rng.random() < 0.5 else a for a in axes_sel]
            spec = tuple(axes_sel)
        vrank = len(vshape)
    elif kind < 0.8:
        # broadcasting beyond the leaf rank (left or right), BroadcastDiagonalOperator only
        vshape = tuple(rng.sample(DIMS, vrank))
        spec = rng.choice([-xrank - 1, xrank, -1, 0, xrank - 1, -xrank])
    else:
        vshape = tuple(rng.sample(DIMS, vrank))
        spec = rng.choice([(0, 0)[:vrank], tuple(rng.randint(-xrank - 1, xrank) for _ in range(vrank)),
                           rng.randint(-xrank - 2, xrank + 1)])
    values = np.array([rng.choice([1, 2, -1, 3, 4, 0, -2]) for _ in range(int(np.prod(vshape)))],
                      dtype=np.float64).reshape(vshape)
    x = (np.arange(int(np.prod(xshape)), dtype=np.float64) % 7 + 1).reshape(xshape)
    cls = DiagonalOperator if strict else BroadcastDiagonalOperator
    structure = jax.ShapeDtypeStruct(xshape, jnp.float32)
    cfg = {'strict': strict, 'vshape': vshape, 'spec': spec if isinstance(spec, int) else list(spec), 'xshape': xshape}
    st, res = safe(lambda: cls(jnp.asarray(values, dtype=jnp.float32), axis_destination=spec,
                               in_structure=structure).mv(jnp.asarray(x, dtype=jnp.float32)))
    sp = ['scalar', str(spec)] if isinstance(spec, int) else ['seq'] + [str(int(a)) for a in spec]
    rep = ctx.model.ask(['diagonal', 'T' if strict else 'F', [str(d) for d in vshape],
                         [frac_str(Fraction(v)) for v in values.ravel().tolist()], sp,
                         [str(d) for d in xshape], [frac_str(Fraction(v)) for v in x.ravel().tolist()]])
    # independent reference
    r = len(vshape)
    if isinstance(spec, int):
        axes = list(range(spec, spec + r)) if spec >= 0 else list(range(spec - r + 1, spec + 1))
    else:
        axes = [int(a) for a in spec]
    stn, want = safe(numpy_reference, values, axes, x) if len(axes) == r else ('ValueError', None)
    norm = [a if a >= 0 else xrank + a for a in axes]
    legal = stn == 'ok' and len(set(norm)) == len(norm)
    if legal and strict and want.shape != xshape:
        legal = False
    if st == 'ok':
        got = np.asarray(res)
        if not legal:
            ctx.fail(stream, i, 'diagonal-accepts-illegal', f'illegal specification accepted: {cfg}', cfg)
        elif got.shape != want.shape or not np.array_equal(got, want):
            ctx.fail(stream, i, 'diagonal-wrong', f'result differs from values laid along the axes: {cfg}', cfg)
        if rep[0] != 'ok' or [int(d) for d in rep[1]] != list(got.shape) or \
                [float(Fraction(v)) for v in rep[2]] != got.ravel().tolist():
            ctx.disagree(stream, i, f'diagonal: model {str(rep)[:160]} implementation shape {got.shape}', cfg)
    else:
        if legal:
            ctx.fail(stream, i, f'diagonal-rejects-legal:{st}', f'legal specification rejected ({st}: {str(res)[:120]}): {cfg}', cfg)
        if rep[0] == 'ok':
            ctx.disagree(stream, i, f'diagonal: implementation raised {st}, model accepts {str(rep)[:100]}', cfg)
    ctx.count(('strict' if strict else 'broadcast') + ':' + ('ok' if st == 'ok' else 'rejected'))
    ctx.case(str(cfg) + str(values.tolist()), st == 'ok', sample={**cfg, 'status': st})


def misc_case(ctx: Ctx, stream: str, i: int) -> None:
    """constructor errors, pytrees with leaves of different rank, dense form, pseudo-inverse"""
    from furax._base.diagonal import BroadcastDiagonalOperator, DiagonalOperator
    rng = ctx.rng(stream, i)
    S = gen.S
    # scalar / pytree values are refused
    for bad, label in ((jnp.asarray(2.0), 'scalar'), ([jnp.ones(2), jnp.ones(2)], 'pytree')):
        st, _ = safe(lambda: DiagonalOperator(bad, in_structure=S(2)))
        if st != 'ValueError':
            ctx.fail(stream, i, f'diagonal-ctor-accepts-{label}', f'{label} values: {st}', {})
    st, _ = safe(lambda: BroadcastDiagonalOperator(jnp.ones((2, 2)), axis_destination=(0, 0), in_structure=S(2, 2)))
    if st != 'ValueError':
        ctx.fail(stream, i, 'diagonal-ctor-accepts-duplicate-axes', f'duplicated axes: {st}', {})
    st, _ = safe(lambda: DiagonalOperator(jnp.ones(3), axis_destination=0, in_structure=S(2, 3)))
    if st != 'ValueError':
        ctx.fail(stream, i, 'diagonal-ctor-accepts-incompatible', f'incompatible axes: {st}', {})
    # leaves of different rank, axis counted from either end
    n = rng.choice([2, 3])
    vals = np.array([rng.choice([1, 2, -1, 3, 0]) for _ in range(n)], dtype=np.float64)
    which = rng.choice([0, -1])
    tree = {'a': S(n, 4), 'b': S(n)} if which == 0 else {'a': S(4, n), 'b': S(n), 'c': S(2, 3, n)}
    op = DiagonalOperator(jnp.asarray(vals, dtype=jnp.float32), axis_destination=which, in_structure=tree)
    x = gen.random_input(rng, tree)
    y = op.mv(x)
    for k in tree:
        xv = np.asarray(x[k], dtype=np.float64)
        shape = [1] * xv.ndim
        shape[which] = n
        if not np.array_equal(np.asarray(y[k]), vals.reshape(shape) * xv):
            ctx.fail(stream, i, 'diagonal-pytree-wrong', f'leaf {k} of a mixed-rank pytree', {'axis': which})
    m = np.asarray(op.as_matrix())
    if not np.array_equal(m, gen.dense(op)) or not np.array_equal(m, np.diag(np.diag(m))):
        ctx.fail(stream, i, 'diagonal-as-matrix', 'as_matrix() differs from the column-by-column matrix or is not diagonal', {})
    # pseudo-inverse: 1/d where d != 0, 0 elsewhere, never NaN/Inf
    pinv = np.asarray(op.I.diagonal, dtype=np.float64)
    rep = ctx.model.ask(['pinv', [frac_str(Fraction(v)) for v in vals.tolist()]])
    want = np.array([float(Fraction(v)) for v in rep[1]])
    if not np.all(np.isfinite(pinv)) or not np.allclose(pinv, want, rtol=1e-6):
        ctx.fail(stream, i, 'diagonal-pinv', f'pseudo-inverse values {pinv.tolist()} for {vals.tolist()}', {})
    ctx.case(f'misc:{which}:{vals.tolist()}', True, sample={'mixed_rank_pytree_axis': which, 'values': vals.tolist()})
    ctx.count('misc')


def run(ctx: Ctx) -> None:
    q = ctx.tier == 'quick'
    for i in range(320 if q else 8000):
        if ctx.want('leaf', i):
            one_case(ctx, 'leaf', i)
    for i in range(24 if q else 300):
        if ctx.want('misc', i):
            misc_case(ctx, 'misc', i)
