"""C12 — indexing and packing select, and their transposes scatter-add.

Correspondence: the element positions selected by IndexOperator / PackOperator (leaves hold arange values, so
the output *is* the position map), the stored unique_indices flag, indexed_axes, constructor rejections, the
transpose as scatter-add and the coverage computed by TransposeIndexRule, against the model of NumPy indexing.
Oracle on the implementation: NumPy fancy indexing on the same data, the 0/1 selection matrix, P @ P.T reduced
to the identity only for duplicate-free selections, P.T @ P reduced to the diagonal of multiplicities.
"""
from __future__ import annotations

import jax
import jax.numpy as jnp
import numpy as np

import gen
from common import Ctx, safe
from encode import idx_entry

META = {
    'rule': ('(leaf shapes of rank 1-3, pytrees of 1-2 leaves; index tuples mixing integers, slices incl. negative '
             'steps, one ellipsis, integer arrays of rank 1-2 with negative and repeated entries, boolean masks; with and '
             'without explicit output structure and unique_indices); non-trivial = accepted and the selection is not the '
             'identity; distinct by (shape, index tuple)'),
    'trusted_base': [
        'Lean 4.33 kernel + standard axioms',
        'A1: JAX indexing behaves as NumPy documents for in-bounds indices (NumPy is the oracle on every case)',
        'A2: jax.linear_transpose of a gather is the scatter-add (checked against the model on every case)',
    ],
    'assumptions': ['index arrays are in bounds (the property says so)'],
}


def rand_index(rng, shape):
    """a random legal index tuple for a leaf of this shape"""
    nd = len(shape)
    entries = []
    dim = 0
    used_ellipsis = False
    narr = 0
    arr_len = rng.randint(1, 4)
    while dim < nd:
        k = rng.random()
        d = shape[dim]
        if k < 0.22:
            entries.append(rng.randint(-d, d - 1))
            dim += 1
        elif k < 0.50:
            a = rng.choice([None, rng.randint(-d, d)])
            b = rng.choice([None, rng.randint(-d, d)])
            c = rng.choice([None, 1, 2, -1, -2])
            entries.append(slice(a, b, c))
            dim += 1
        elif k < 0.60 and not used_ellipsis:
            entries.append(Ellipsis)
            used_ellipsis = True
            skip = rng.randint(0, nd - dim)
            dim += skip
        elif k < 0.88:
            if narr and rng.random() < 0.5:
                sh = (arr_len,)
            else:
                sh = rng.choice([(arr_len,), (arr_len,), (2, arr_len) if narr == 0 else (arr_len,), (1,)])
            vals = np.array([rng.randint(-d, d - 1) for _ in range(int(np.prod(sh)))], dtype=np.int32).reshape(sh)
            entries.append(vals)
            narr += 1
            dim += 1
        else:
            r = 1 if rng.random() < 0.8 else min(2, nd - dim)
            msh = shape[dim:dim + r]
            m = np.array([rng.random() < 0.6 for _ in range(int(np.prod(msh)))]).reshape(msh)
            if not m.any():
                m.flat[0] = True
            entries.append(m)
            dim += r
    if rng.random() < 0.3 and entries and not used_ellipsis and not any(e is Ellipsis for e in entries):
        # drop trailing entries (implicit ellipsis)
        entries = entries[:rng.randint(1, len(entries))]
    return tuple(entries)


def to_jax(e):
    return jnp.asarray(e) if isinstance(e, np.ndarray) else e


def mask_int_forms():
    """every combination of a boolean mask of rank 2 or 3 with a Python integer / a slice on its far side (the mask
    consumes several axes, so the k-th entry of the tuple is not the k-th axis), every legal value of the integer"""
    out = []
    m2 = np.array([[True, False], [True, True]])
    m3 = np.array([[[True, False], [False, True]], [[True, True], [False, False]]])
    for k in range(-3, 3):
        out.append(((2, 2, 3), (m2, k)))
        out.append(((3, 2, 2), (Ellipsis, k, m2)))
        out.append(((3, 2, 2), (k, m2)))
    for k in range(-4, 4):
        out.append(((2, 2, 2, 4), (m2, slice(None), k)))
        out.append(((2, 2, 2, 4), (m3, k)))
        out.append(((2, 2, 5, 4), (m2, slice(1, None, 2), k)))
    for k in range(-2, 2):
        out.append(((2, 2, 2), (k, Ellipsis, np.array([True, True]))))
        out.append(((2, 2, 2), (np.array([True, False]), k, slice(None, None, -1))))
    return out


def one_case(ctx: Ctx, stream: str, i: int, forced=None) -> None:
    from furax._base.core import CompositionOperator, IdentityOperator
    from furax._base.diagonal import DiagonalOperator
    from furax._base.indices import IndexOperator
    rng = ctx.rng(stream, i)
    nd = rng.randint(1, 3)
    shape = tuple(rng.choice([2, 3, 4, 5]) for _ in range(nd))
    nleaf = rng.choice([1, 1, 2])
    idx = rand_index(rng, shape)
    if forced is not None:
        shape, idx = forced
    has_mask = any(isinstance(e, np.ndarray) and e.dtype == bool for e in idx)
    has_arr = any(isinstance(e, np.ndarray) and e.dtype != bool for e in idx)
    structure = [jax.ShapeDtypeStruct(shape, jnp.float32) for _ in range(nleaf)]
    if nleaf == 1 and rng.random() < 0.6:
        structure = structure[0]
    xs = [np.arange(int(np.prod(shape)), dtype=np.float64).reshape(shape) for _ in range(nleaf)]
    stn, want0 = safe(lambda: xs[0][idx])
    give_out = rng.random() < 0.5 or has_mask
    given_unique = rng.choice([None, None, True, False]) if has_arr else None
    if given_unique is True and stn == 'ok':
        # only claim uniqueness when it is true
        pos = want0.ravel().astype(int).tolist()
        if len(set(pos)) != len(pos):
            given_unique = None
    out_structure = None
    if give_out and stn == 'ok':
        out_structure = jax.tree.map(lambda l: jax.ShapeDtypeStruct(want0.shape, l.dtype), structure)
    jidx = tuple(to_jax(e) for e in idx)
    enc_idx = [idx_entry(e) for e in idx]
    cfg = {'shape': shape, 'indices': str(idx)[:300], 'out_structure_given': out_structure is not None,
           'unique_indices': given_unique, 'nleaf': nleaf}

    st, op = safe(lambda: IndexOperator(jidx if len(jidx) != 1 or rng.random() < 0.5 else jidx[0],
                                        in_structure=structure, out_structure=out_structure,
                                        unique_indices=given_unique))
    rep = ctx.model.ask(['index-ctor', enc_idx, 'T' if out_structure is not None else 'F',
                         'N' if given_unique is None else ('T' if given_unique else 'F')])
    if stn != 'ok':
        ctx.count('numpy-rejects')
        ctx.case(f'reject:{cfg}', False)
        return
    legal_ctor = not (has_mask and out_structure is None)
    if legal_ctor and st != 'ok':
        ctx.fail(stream, i, f'index-ctor-raises:{st}:out_structure={"given" if out_structure is not None else "none"}',
                 f'IndexOperator could not be constructed ({st}: {str(op)[:150]})', cfg)
        if rep[0] != 'ok':
            ctx.disagree(stream, i, f'index ctor: model {rep} but NumPy accepts', cfg)
        ctx.case(f'ctor-fail:{cfg}', True)
        return
    if not legal_ctor:
        if st == 'ok':
            ctx.fail(stream, i, 'index-ctor-accepts-mask-without-output', 'boolean mask without output structure accepted', cfg)
        if (rep[0] == 'ok') != (st == 'ok'):
            ctx.disagree(stream, i, f'index ctor: implementation {st}, model {rep}', cfg)
        ctx.case(f'ctor-reject:{cfg}', True)
        return
    if rep[0] != 'ok' or (rep[1] == 'T') != bool(op.unique_indices):
        ctx.disagree(stream, i, f'unique_indices: implementation {op.unique_indices}, model {rep}', cfg)
    rep = ctx.model.ask(['indexed-axes', enc_idx])
    if [int(v) for v in rep[1]] != list(op.indexed_axes):
        ctx.disagree(stream, i, f'indexed_axes: implementation {op.indexed_axes}, model {rep}', cfg)

    # ---- selection ------------------------------------------------------------------------------------
    x = jax.tree.unflatten(jax.tree.structure(structure), [jnp.asarray(v, dtype=jnp.float32) for v in xs])
    st, y = safe(op.mv, x)
    if st != 'ok':
        ctx.fail(stream, i, f'index-mv-raises:{st}', f'mv raised {st}: {str(y)[:150]}', cfg)
        return
    rep = ctx.model.ask(['index-positions', [str(d) for d in shape], enc_idx])
    pos = None
    for yl in jax.tree.leaves(y):
        got = np.asarray(yl)
        if got.shape != want0.shape or not np.array_equal(got, want0):
            ctx.fail(stream, i, 'index-wrong', f'op(x) differs from x[indices]: shape {got.shape} vs {want0.shape}', cfg)
            return
        if rep[0] != 'ok' or [int(d) for d in rep[1]] != list(got.shape) or \
                [int(v) for v in rep[2]] != [int(v) for v in got.ravel()]:
            ctx.disagree(stream, i, f'positions: model {str(rep)[:200]} implementation shape {got.shape} '
                         f'{got.ravel().astype(int).tolist()[:20]}', cfg)
            return
        pos = [int(v) for v in got.ravel()]
    if [l.shape for l in jax.tree.leaves(op.out_structure())] != [want0.shape] * nleaf:
        ctx.fail(stream, i, 'index-out-structure', 'out_structure() disagrees with x[indices]', cfg)

    # ---- transpose = scatter-add ---------------------------------------------------------------------------
    n = int(np.prod(shape))
    yv = np.array([rng.randint(1, 5) for _ in range(len(pos))], dtype=np.float64).reshape(want0.shape)
    yt = jax.tree.unflatten(jax.tree.structure(structure), [jnp.asarray(yv, dtype=jnp.float32)] * nleaf)
    st, back = safe(op.T.mv, yt)
    if st != 'ok':
        ctx.fail(stream, i, f'index-transpose-raises:{st}', str(back)[:150], cfg)
    else:
        want = np.zeros(n)
        np.add.at(want, pos, yv.ravel())
        rep = ctx.model.ask(['scatter-add', str(n), [str(p) for p in pos], [str(int(v)) for v in yv.ravel()]])
        for bl in jax.tree.leaves(back):
            got = np.asarray(bl).ravel()
            if got.shape != want.shape or not np.array_equal(got, want):
                ctx.fail(stream, i, 'index-transpose-wrong', 'op.T(y) is not the scatter-add of y into zeros', cfg)
                break
            if [float(__import__('fractions').Fraction(v)) for v in rep[1]] != got.tolist():
                ctx.disagree(stream, i, 'scatter-add: model and implementation differ', cfg)
                break

    # ---- rules -----------------------------------------------------------------------------------------------
    unique = len(set(pos)) == len(pos)
    e1 = CompositionOperator([op, op.T])
    st, r1 = safe(e1.reduce)
    if st != 'ok':
        ctx.fail(stream, i, f'reduce-raises:{st}', 'P @ P.T', cfg)
    else:
        if isinstance(r1, IdentityOperator) and not unique:
            ctx.fail(stream, i, 'ppT-identity-with-duplicates', 'P @ P.T reduced to the identity although an input '
                     'element is selected twice', cfg)
        if n * nleaf <= 64 and not gen.close(gen.dense(r1), gen.dense(e1)):
            ctx.fail(stream, i, 'ppT-reduce-changes-map', 'reduce(P @ P.T) differs from P @ P.T', cfg)
    e2 = CompositionOperator([op.T, op])
    st, r2 = safe(e2.reduce)
    if st != 'ok':
        ctx.fail(stream, i, f'reduce-raises:{st}', 'P.T @ P', cfg)
    else:
        mult = np.bincount(pos, minlength=n).astype(np.float64)
        if n * nleaf <= 64:
            d2 = gen.dense(r2)
            if not gen.close(d2, np.kron(np.eye(nleaf), np.diag(mult))):
                ctx.fail(stream, i, 'pTp-not-multiplicities', 'reduce(P.T @ P) is not the diagonal of selection '
                         'multiplicities', cfg)
        single_axis = len(op.indexed_axes) == 1 and not op.unique_indices
        if single_axis and not isinstance(r2, DiagonalOperator):
            ctx.fail(stream, i, 'pTp-not-simplified', 'P.T @ P with a single indexed axis was not simplified', cfg)
        if isinstance(r2, DiagonalOperator):
            axis = op.indexed_axes[0]
            arr = np.asarray(op.indices[axis]).ravel()
            rep = ctx.model.ask(['coverage-rule', str(shape[axis]), [str(int(v)) for v in arr]])
            if [int(v) for v in rep[1]] != [int(v) for v in np.asarray(r2._diagonal)]:
                ctx.disagree(stream, i, f'coverage: implementation {np.asarray(r2._diagonal).tolist()} model {rep[1]}', cfg)
            ctx.count('rule:pTp-diagonal')
    ctx.count('kind:' + ('mask' if has_mask else 'array' if has_arr else 'basic'))
    ctx.case(f'{shape}:{idx}', pos != list(range(n)),
             sample={'shape': shape, 'index': str(idx)[:200], 'out_shape': list(want0.shape), 'positions': pos[:24]})


def hetero_case(ctx: Ctx, stream: str, i: int) -> None:
    """one index expression applied to a pytree whose leaves have DIFFERENT shapes (other lengths along the indexed axis,
    other trailing axes, other ranks): every leaf is indexed on its own, as NumPy would index it — negative entries count
    from the end of THAT leaf; transposes scatter into that leaf; the reductions keep the map"""
    from furax._base.core import CompositionOperator
    from furax._base.indices import IndexOperator
    rng = ctx.rng(stream, i)
    nleaf = rng.choice([2, 2, 3])
    n0 = rng.choice([3, 4, 5])
    shapes = []
    for k in range(nleaf):
        nk = n0 + rng.choice([0, 1, 3, 2]) if k else n0            # the FIRST leaf is the shortest one
        shapes.append((nk,) + tuple(rng.choice([(), (), (2,), (3,), (2, 2)])))
    if rng.random() < 0.4:
        shapes = shapes[::-1]                                        # … or the last one
    nmin = min(sh[0] for sh in shapes)
    kind = rng.choice(['iarr', 'iarr', 'iarr2d', 'int', 'slice', 'iarr-ellipsis'])
    if kind in ('iarr', 'iarr-ellipsis'):
        m = rng.randint(1, 5)
        arr = np.array([rng.randint(-nmin, nmin - 1) for _ in range(m)])
        idx = (arr,) if kind == 'iarr' else (arr, Ellipsis)
    elif kind == 'iarr2d':
        arr = np.array([[rng.randint(-nmin, nmin - 1) for _ in range(2)] for _ in range(rng.randint(1, 3))])
        idx = (arr,)
    elif kind == 'int':
        idx = (rng.randint(-nmin, nmin - 1),)
    else:
        idx = (slice(rng.choice([None, 1, -2, -nmin]), rng.choice([None, -1, nmin, 2]), rng.choice([None, 1, 2, -1])),)
    form = rng.choice(['list', 'dict', 'tuple'])
    xs = [np.arange(int(np.prod(sh)), dtype=np.float64).reshape(sh) + 100 * k for k, sh in enumerate(shapes)]
    names = ['b', 'a', 'c']

    def pack(vals):
        if form == 'list':
            return list(vals)
        if form == 'tuple':
            return tuple(vals)
        return {names[k]: v for k, v in enumerate(vals)}
    structure = pack([jax.ShapeDtypeStruct(sh, jnp.float32) for sh in shapes])
    stn, wants = safe(lambda: [x[idx] for x in xs])
    cfg = {'shapes': shapes, 'indices': str(idx)[:200], 'container': form, 'kind': kind}
    if stn != 'ok':
        ctx.case(f'hetero-reject:{cfg}', False)
        return
    jidx = tuple(to_jax(e) for e in idx)
    give_out = rng.random() < 0.5
    outs = pack([jax.ShapeDtypeStruct(w.shape, jnp.float32) for w in wants]) if give_out else None
    st, op = safe(lambda: IndexOperator(jidx if rng.random() < 0.5 or len(jidx) != 1 else jidx[0], in_structure=structure,
                                        out_structure=outs))
    if st != 'ok':
        ctx.fail(stream, i, f'index-ctor-raises:{st}:heterogeneous-pytree', str(op)[:150], cfg)
        return
    x = pack([jnp.asarray(v, dtype=jnp.float32) for v in xs])
    st, y = safe(op.mv, x)
    want_tree = pack(wants)
    if st != 'ok' or jax.tree.structure(y) != jax.tree.structure(want_tree) or any(
            np.asarray(a).shape != b.shape or not np.array_equal(np.asarray(a), b)
            for a, b in zip(jax.tree.leaves(y), jax.tree.leaves(want_tree))):
        ctx.fail(stream, i, 'index-wrong:heterogeneous-pytree', f'op(x) differs from x[indices] leaf by leaf ({st})', cfg)
        ctx.case(f'hetero:{cfg}', True)
        return
    if [tuple(l.shape) for l in jax.tree.leaves(op.out_structure())] != [w.shape for w in jax.tree.leaves(want_tree)]:
        ctx.fail(stream, i, 'index-out-structure:heterogeneous-pytree', 'out_structure() disagrees with x[indices]', cfg)
    # the model, leaf by leaf
    enc_idx = [idx_entry(e) for e in idx]
    for sh, w, xv in zip(shapes, wants, xs):
        rep = ctx.model.ask(['index-positions', [str(d) for d in sh], enc_idx])
        if rep[0] != 'ok' or [int(d) for d in rep[1]] != list(w.shape) or \
                [int(v) for v in rep[2]] != [int(v - xv.ravel()[0]) for v in w.ravel()]:
            ctx.disagree(stream, i, f'positions on a leaf of shape {sh}: model {str(rep)[:160]}', cfg)
            break
    # dense matrix = direct sum of the per-leaf selection matrices; transpose; reductions
    total_in = sum(int(np.prod(sh)) for sh in shapes)
    if total_in <= 60:
        m = gen.dense(op)
        flat_shapes = [l.shape for l in jax.tree.leaves(structure)]
        flat_xs = [np.arange(int(np.prod(sh))).reshape(sh) for sh in flat_shapes]
        ref = np.zeros_like(m)
        r0 = c0 = 0
        for sh, base in zip(flat_shapes, flat_xs):
            sel = base[idx].ravel()
            for r, c in enumerate(sel):
                ref[r0 + r, c0 + int(c)] = 1.0
            r0 += len(sel)
            c0 += int(np.prod(sh))
        if m.shape != ref.shape or not np.array_equal(m, ref):
            ctx.fail(stream, i, 'index-matrix:heterogeneous-pytree', 'the dense matrix is not the direct sum of the per-leaf selections', cfg)
        else:
            stt, mt = safe(lambda: gen.dense(op.T))
            if stt != 'ok' or not np.array_equal(mt, ref.T):
                ctx.fail(stream, i, 'index-transpose-wrong:heterogeneous-pytree', f'op.T is not the scatter-add leaf by leaf ({stt})', cfg)
            for label, e, refm in (('P@P.T', CompositionOperator([op, op.T]), ref @ ref.T), ('P.T@P', CompositionOperator([op.T, op]), ref.T @ ref)):
                st2, r = safe(e.reduce)
                if st2 != 'ok':
                    ctx.fail(stream, i, f'reduce-raises:{st2}:heterogeneous-pytree', label, cfg)
                elif not gen.close(gen.dense(r), refm):
                    ctx.fail(stream, i, f'reduce-changes-map:{label}:heterogeneous-pytree', f'reduce({label}) is not the product of the selection matrices', cfg)
    ctx.count('hetero:' + kind)
    ctx.case(f'hetero:{shapes}:{idx}:{form}', True, sample=cfg)


def foreign_index_case(ctx: Ctx, stream: str, i: int) -> None:
    """integer index arrays handed over as NumPy arrays or Python lists (not JAX arrays), with repeated or negatively
    aliased entries, alone or next to slices / an ellipsis.  The library may not support every such form (an exception is
    tolerated and counted); but whatever it accepts must select as NumPy does, scatter-add on transposition, and
    `P @ P.T` may become the identity only if no element is selected twice"""
    from furax._base.core import CompositionOperator, IdentityOperator
    from furax._base.indices import IndexOperator
    rng = ctx.rng(stream, i)
    shape = rng.choice([(5,), (5, 3), (4, 2)])
    n0 = shape[0]
    vals = rng.choice([[0, n0 - 1, 0, 2], [1, 1], [0, -n0, 2], [n0 - 1, -1], [0, 1, 2], [2, 0, 1]])
    form = ['numpy', 'list', 'numpy-int64', 'list'][i % 4]
    arr = np.asarray(vals, dtype=np.int32) if form == 'numpy' else np.asarray(vals, dtype=np.int64) if form == 'numpy-int64' else list(vals)
    tail = rng.choice(['none', 'slice', 'ellipsis']) if len(shape) > 1 else rng.choice(['none', 'ellipsis'])
    idx = (arr,) if tail == 'none' else (arr, slice(None)) if tail == 'slice' else (arr, Ellipsis)
    given = rng.choice([None, None, False])
    cfg = {'shape': shape, 'index_values': vals, 'given_as': form, 'tail': tail, 'unique_indices': given}
    x = np.arange(int(np.prod(shape)), dtype=np.float64).reshape(shape)
    want = x[(np.asarray(vals),) + idx[1:]]
    st, op = safe(lambda: IndexOperator(idx if tail != 'none' or rng.random() < 0.5 else arr,
                                        in_structure=jax.ShapeDtypeStruct(shape, jnp.float32), unique_indices=given))
    if st != 'ok':
        ctx.count(f'foreign-index:ctor-{st}')
        ctx.case(f'foreign:{cfg}', False)
        return
    stm, y = safe(op.mv, jnp.asarray(x, dtype=jnp.float32))
    if stm != 'ok':
        ctx.count(f'foreign-index:mv-{stm}')
    elif np.asarray(y).shape != want.shape or not np.array_equal(np.asarray(y), want):
        ctx.fail(stream, i, 'index-wrong:foreign-index', f'an index given as a {form} selects something else than NumPy does', cfg)
    pos = [int(v) for v in want.ravel()]
    unique = len(set(pos)) == len(pos)
    e1 = CompositionOperator([op, op.T])
    st1, r1 = safe(e1.reduce)
    if st1 != 'ok':
        ctx.count(f'foreign-index:reduce-{st1}')
    else:
        if isinstance(r1, IdentityOperator) and not unique:
            ctx.fail(stream, i, 'ppT-identity-with-duplicates:foreign-index', f'P @ P.T reduced to the identity although the index '
                     f'(a {form}: {vals}) selects an element twice', cfg)
        else:
            std, dr = safe(gen.dense, r1)
            std2, de = safe(gen.dense, e1)
            if std == 'ok' and std2 == 'ok' and not gen.close(dr, de):
                ctx.fail(stream, i, 'ppT-reduce-changes-map:foreign-index', 'reduce(P @ P.T) differs from P @ P.T', cfg)
    ctx.count('foreign-index:' + form)
    ctx.case(f'foreign:{cfg}', True, sample=cfg)


def rule_case(ctx: Ctx, stream: str, i: int) -> None:
    """TransposeIndexRule in isolation: ONE axis indexed by an integer array of rank 0-3 (every other axis taken
    whole), few or many distinct values, negative aliases, repeats; P.T @ P must reduce to the diagonal of the
    selection multiplicities, and that diagonal must be the model's `ruleCoverage`."""
    from furax._base.core import CompositionOperator
    from furax._base.diagonal import DiagonalOperator
    from furax._base.indices import IndexOperator
    rng = ctx.rng(stream, i)
    nd = rng.randint(1, 3)
    shape = tuple(rng.choice([2, 3, 5, 7, 9]) for _ in range(nd))
    axis = rng.randrange(nd)
    d = shape[axis]
    rank = rng.choice([0, 1, 1, 2, 2, 3])
    ish = tuple(rng.choice([1, 2, 3, 4]) for _ in range(rank))
    size = int(np.prod(ish))
    mode = rng.choice(['random', 'distinct', 'negative', 'repeat', 'range-lookalike'])
    if mode == 'range-lookalike' and d >= 3 and rank == 1:
        # the values of a..b with the right end points but not in order (or with a repeat): NOT a slice
        a0 = rng.randint(0, d - 3)
        b0 = rng.randint(a0 + 2, d - 1)
        mid = list(range(a0 + 1, b0))
        rng.shuffle(mid)
        if rng.random() < 0.5 and mid:
            mid[rng.randrange(len(mid))] = rng.choice([a0, b0] + mid)
        vals = [a0] + mid + [b0]
        ish = (len(vals),)
        size = len(vals)
    elif mode == 'distinct':
        base = list(range(d))
        rng.shuffle(base)
        vals = [base[k % d] for k in range(size)]
    elif mode == 'negative':
        vals = [rng.randint(-d, -1) if rng.random() < 0.6 else rng.randint(0, d - 1) for _ in range(size)]
    elif mode == 'repeat':
        v = rng.randint(-d, d - 1)
        vals = [v if rng.random() < 0.7 else rng.randint(-d, d - 1) for _ in range(size)]
    else:
        vals = [rng.randint(-d, d - 1) for _ in range(size)]
    arr = np.array(vals, dtype=np.int32).reshape(ish)
    form = rng.choice(['slices', 'ellipsis-before', 'ellipsis-after', 'bare'])
    if form == 'slices' or (form == 'bare' and axis != 0):
        idx = tuple(arr if a == axis else slice(None) for a in range(nd))
    elif form == 'ellipsis-before':
        idx = (Ellipsis, arr) + tuple(slice(None) for _ in range(axis + 1, nd))
    elif form == 'ellipsis-after':
        idx = tuple(slice(None) for _ in range(axis)) + (arr, Ellipsis)
    else:
        idx = (arr,)
    nleaf = rng.choice([1, 1, 2])
    dt = rng.choice([jnp.float32, jnp.float32, jnp.float64 if jax.config.jax_enable_x64 else jnp.float16])
    structure = [jax.ShapeDtypeStruct(shape, dt) for _ in range(nleaf)]
    if nleaf == 1:
        structure = structure[0]
    cfg = {'shape': shape, 'axis': axis, 'index_shape': ish, 'values': vals[:40], 'form': form, 'nleaf': nleaf,
           'mode': mode}
    x0 = np.arange(int(np.prod(shape)), dtype=np.float64).reshape(shape)
    stn, want0 = safe(lambda: x0[idx])
    if stn != 'ok':
        ctx.count('rule:numpy-rejects')
        return
    jidx = tuple(to_jax(e) for e in idx)
    st, op = safe(lambda: IndexOperator(jidx, in_structure=structure))
    if st != 'ok':
        ctx.fail(stream, i, f'index-ctor-raises:{st}:out_structure=none', str(op)[:150], cfg)
        return
    if len(op.indexed_axes) != 1:
        ctx.disagree(stream, i, f'indexed_axes {op.indexed_axes} for one integer array', cfg)
        return
    real_axis = op.indexed_axes[0]
    e2 = CompositionOperator([op.T, op])
    st, r2 = safe(e2.reduce)
    if st != 'ok':
        ctx.fail(stream, i, f'reduce-raises:{st}', f'P.T @ P: {str(r2)[:200]}', cfg)
        return
    if not isinstance(r2, DiagonalOperator):
        ctx.fail(stream, i, 'pTp-not-simplified', f'P.T @ P with a single indexed axis reduced to {type(r2).__name__}', cfg)
        return
    pos_axis = [(v + d) % d for v in vals]
    mult = np.bincount(pos_axis, minlength=d)
    got = [float(v) for v in np.asarray(r2._diagonal).ravel()]
    rep = ctx.model.ask(['coverage-rule', str(d), [str(int(v)) for v in vals]])
    if [int(v) for v in rep[1]] != [int(round(v)) for v in got] or len(got) != d:
        ctx.disagree(stream, i, f'coverage: implementation {got} model {rep[1]}', cfg)
    if len(got) != d or [int(round(v)) for v in got] != mult.tolist():
        ctx.fail(stream, i, 'pTp-not-multiplicities', f'reduce(P.T @ P) has diagonal {got}, the selection '
                 f'multiplicities along axis {real_axis} are {mult.tolist()}', cfg)
    # the reduced operator applied to data equals the unreduced one (scatter-add of the gather)
    x = jax.tree.unflatten(jax.tree.structure(structure),
                           [jnp.asarray(x0 + 1, dtype=dt) for _ in range(nleaf)])
    st1, y1 = safe(r2.mv, x)
    st2, y2 = safe(e2.mv, x)
    if st1 != 'ok' or st2 != 'ok':
        ctx.fail(stream, i, f'pTp-apply-raises:{st1}:{st2}', str(y1 if st1 != 'ok' else y2)[:150], cfg)
    else:
        for a, b in zip(jax.tree.leaves(y1), jax.tree.leaves(y2)):
            if a.shape != b.shape or not np.allclose(np.asarray(a, dtype=np.float64), np.asarray(b, dtype=np.float64),
                                                     rtol=2e-2 if dt == jnp.float16 else 1e-5):
                ctx.fail(stream, i, 'pTp-reduce-changes-map', 'reduce(P.T @ P)(x) differs from P.T(P(x))', cfg)
                break
    ctx.count(f'rule:rank{rank}')
    ctx.count(f'rule:{mode}')
    ctx.case(f'rule:{shape}:{axis}:{ish}:{vals}', len(set(pos_axis)) > 1 or size > 1,
             sample={'rule': cfg, 'diagonal': got[:12]})


def pack_case(ctx: Ctx, stream: str, i: int) -> None:
    from furax._base.linear import PackOperator
    from furax.landscapes import StokesPyTree
    rng = ctx.rng(stream, i)
    shape = tuple(rng.choice([2, 3, 4]) for _ in range(rng.randint(1, 2)))
    mask = np.array([rng.random() < 0.6 for _ in range(int(np.prod(shape)))]).reshape(shape)
    if not mask.any():
        mask.flat[0] = True
    kind = rng.choice([None, 'I', 'QU', 'IQU'])
    cfg = {'shape': shape, 'mask': mask.tolist(), 'stokes': kind}
    if kind is None:
        structure = jax.ShapeDtypeStruct(shape, jnp.float32)
        x = jnp.asarray(np.arange(int(np.prod(shape)), dtype=np.float32).reshape(shape))
        comps = [np.asarray(x)]
    else:
        cls = StokesPyTree.class_for(kind)
        structure = cls.structure_for(shape, jnp.float32)
        comps = [np.arange(int(np.prod(shape)), dtype=np.float32).reshape(shape) + 100 * c for c in range(len(kind))]
        x = cls(*[jnp.asarray(c) for c in comps])
    st, op = safe(lambda: PackOperator(jnp.asarray(mask), structure))
    if st != 'ok':
        ctx.fail(stream, i, f'pack-ctor-raises:{st}', str(op)[:150], cfg)
        return
    st, y = safe(op.mv, x)
    if st != 'ok':
        ctx.fail(stream, i, f'pack-mv-raises:{st}', str(y)[:150], cfg)
        return
    rep = ctx.model.ask(['index-positions', [str(d) for d in shape], [idx_entry(mask)]])
    for c, yl in zip(comps, jax.tree.leaves(y)):
        got = np.asarray(yl)
        want = c[mask]
        if got.shape != want.shape or not np.array_equal(got, want):
            ctx.fail(stream, i, 'pack-wrong', 'pack differs from indexing every leaf by the mask', cfg)
            return
    got0 = (np.asarray(jax.tree.leaves(y)[0]) - 0).ravel().astype(int).tolist()
    if rep[0] != 'ok' or [int(v) for v in rep[2]] != got0:
        ctx.disagree(stream, i, f'pack positions: model {str(rep)[:150]} implementation {got0}', cfg)
    # transpose scatters back, pack @ pack.T = identity
    st, back = safe(op.T.mv, y)
    if st == 'ok':
        for c, bl in zip(comps, jax.tree.leaves(back)):
            if not np.array_equal(np.asarray(bl), np.where(mask, c, 0)):
                ctx.fail(stream, i, 'pack-transpose-wrong', 'pack.T(pack(x)) is not x masked', cfg)
                break
    else:
        ctx.fail(stream, i, f'pack-transpose-raises:{st}', str(back)[:150], cfg)
    ctx.count('pack')
    ctx.case(f'pack:{cfg}', not mask.all(), sample={'pack': cfg})


def run(ctx: Ctx) -> None:
    q = ctx.tier == 'quick'
    for i in range(260 if q else 6000):
        if ctx.want('index', i):
            one_case(ctx, 'index', i)
    for i in range(24 if ctx.tier == 'quick' else 240):
        if ctx.want('foreign', i):
            foreign_index_case(ctx, 'foreign', i)
    for i, form in enumerate(mask_int_forms()):
        if ctx.want('maskint', i):
            one_case(ctx, 'maskint', i, forced=form)
    for i in range(60 if ctx.tier == 'quick' else 900):
        if ctx.want('hetero', i):
            hetero_case(ctx, 'hetero', i)
    for i in range(160 if q else 4000):
        if ctx.want('rule', i):
            rule_case(ctx, 'rule', i)
    for i in range(40 if q else 600):
        if ctx.want('pack', i):
            pack_case(ctx, 'pack', i)
