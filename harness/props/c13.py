"""C13 — axis operators are exact relabellings of array elements.

Correspondence: MoveAxis / Ravel / Reshape (constructor accept/reject, output shapes, element relabelling on
leaves filled with distinct integers) against the model of numpy.moveaxis' algorithm, ravel's slicing and
reshape's normalisation.  Oracle on the implementation: numpy.moveaxis / numpy.reshape on the same data,
transpose = inverse (dense matrices), reduce() → identity iff every leaf shape is unchanged.
"""
from __future__ import annotations

import jax
import jax.numpy as jnp
import numpy as np

import gen
from common import Ctx, safe

META = {
    'rule': ('(pytree of leaf shapes of rank 1..4 with pairwise distinct sizes 2,3,5,7; source/destination tuples, '
             'first/last axis pairs (positive, negative, mixed, out of range), target shapes with and without -1, '
             'incl. illegal ones); leaves hold distinct integers so a wrong permutation cannot hide; non-trivial = the '
             'operator is accepted and changes some leaf shape or element order'),
    'trusted_base': [
        'Lean 4.33 kernel; axioms propext, Classical.choice, Quot.sound',
        'A1: jnp.moveaxis / reshape behave as NumPy documents (checked against NumPy on every case)',
        'harness encoder',
    ],
    'assumptions': [],
}
DIMS = [2, 3, 5, 7]


def rand_shape(rng, rank):
    return tuple(rng.sample(DIMS, rank))


def leafvals(shape, base):
    return (np.arange(int(np.prod(shape)), dtype=np.float64) + base).reshape(shape)


def moveaxis_case(ctx: Ctx, stream: str, i: int) -> None:
    from furax._base.axes import MoveAxisOperator
    rng = ctx.rng(stream, i)
    rank = rng.randint(1, 4)
    shapes = [rand_shape(rng, rank)] + ([rand_shape(rng, rank)] if rng.random() < 0.3 else [])
    k = rng.randint(1, min(rank, 3))
    def axes(legal):
        if legal:
            ax = rng.sample(range(rank), k)
            return [a - rank if rng.random() < 0.5 else a for a in ax]
        return [rng.randint(-rank - 1, rank) for _ in range(k)]
    legal = rng.random() < 0.85
    src, dst = axes(legal), axes(legal)
    form = rng.random()
    psrc = src[0] if (k == 1 and form < 0.5) else (tuple(src) if form < 0.8 else list(src))
    pdst = dst[0] if (k == 1 and form < 0.5) else (tuple(dst) if form < 0.8 else list(dst))
    structure = [jax.ShapeDtypeStruct(s, jnp.float32) for s in shapes]
    if len(structure) == 1 and rng.random() < 0.5:
        structure = structure[0]
    xs = [leafvals(s, 100 * n) for n, s in enumerate(shapes)]
    x = jax.tree.unflatten(jax.tree.structure(structure), [jnp.asarray(v, dtype=jnp.float32) for v in xs])
    cfg = {'shapes': shapes, 'src': src, 'dst': dst}
    st, res = safe(lambda: MoveAxisOperator(psrc, pdst, in_structure=structure).mv(x))
    for li, (shape, xv) in enumerate(zip(shapes, xs)):
        rep = ctx.model.ask(['moveaxis', [str(d) for d in shape], [str(a) for a in src], [str(a) for a in dst],
                             [str(int(v)) for v in xv.ravel()]])
        stn, want = safe(np.moveaxis, xv, src, dst)
        if st == 'ok':
            got = np.asarray(jax.tree.leaves(res)[li])
            if stn != 'ok':
                ctx.fail(stream, i, 'moveaxis-accepts-illegal', f'numpy.moveaxis raises {stn} but the operator applied', cfg)
            elif got.shape != want.shape or not np.array_equal(got, want):
                ctx.fail(stream, i, 'moveaxis-wrong', f'MoveAxisOperator differs from numpy.moveaxis: {cfg}', cfg)
            if rep[0] != 'ok' or [int(d) for d in rep[1]] != list(got.shape) or \
                    [int(v) for v in rep[2]] != [int(v) for v in got.ravel()]:
                ctx.disagree(stream, i, f'moveaxis: model {str(rep)[:200]} implementation shape {got.shape}', cfg)
        else:
            if stn == 'ok':
                ctx.fail(stream, i, f'moveaxis-rejects-legal:{st}', f'legal arguments raised {st}: {res}', cfg)
            if rep[0] != 'error':
                ctx.disagree(stream, i, f'moveaxis: implementation raised {st}, model {str(rep)[:100]}', cfg)
    if st == 'ok':
        op = MoveAxisOperator(psrc, pdst, in_structure=structure)
        # transpose is the inverse, and the dense matrix of the transpose is the transposed matrix
        st2, back = safe(lambda: op.T.mv(op.mv(x)))
        if st2 != 'ok' or not all(np.array_equal(np.asarray(a), b) for a, b in zip(jax.tree.leaves(back), xs)):
            ctx.fail(stream, i, 'moveaxis-transpose-not-inverse', 'op.T(op(x)) != x', cfg)
        if sum(int(np.prod(s)) for s in shapes) <= 60:
            m, mt = gen.dense(op), gen.dense(op.T)
            if not np.array_equal(mt, m.T):
                ctx.fail(stream, i, 'moveaxis-transpose-matrix', 'dense(op.T) != dense(op).T', cfg)
            if not np.array_equal(m.T @ m, np.eye(m.shape[1])):
                ctx.fail(stream, i, 'moveaxis-not-permutation', 'dense matrix is not a permutation', cfg)
    ctx.count('moveaxis:' + ('ok' if st == 'ok' else 'rejected'))
    ctx.case(f'moveaxis:{cfg}', st == 'ok' and src != dst, sample={'op': 'moveaxis', **cfg, 'status': st})


RAVEL_GRID = [(ranks, f, l) for ranks in ((1, 2), (2, 1), (1, 3), (3, 1), (2, 3), (3, 2), (2, 2), (3, 3))
              for f in range(-3, 3) for l in range(-3, 3)]


def ravel_case(ctx: Ctx, stream: str, i: int, forced=None) -> None:
    from furax._base.axes import RavelOperator
    from furax._base.core import IdentityOperator
    rng = ctx.rng(stream, i)
    nleaf = rng.choice([1, 1, 2])
    shapes = [rand_shape(rng, rng.randint(1, 4)) for _ in range(nleaf)]
    first = rng.randint(-4, 3)
    last = rng.randint(-4, 3)
    if rng.random() < 0.3:
        first, last = 0, -1
    if forced is not None:
        # the whole grid of (first, last) over pairs of leaves of DIFFERENT rank: every leaf has its say
        ranks, first, last = forced
        nleaf = len(ranks)
        shapes = [rand_shape(rng, r) for r in ranks]
    structure = [jax.ShapeDtypeStruct(s, jnp.float32) for s in shapes]
    if nleaf == 1 and rng.random() < 0.5:
        structure = structure[0]
    cfg = {'shapes': shapes, 'first': first, 'last': last}
    st, op = safe(lambda: RavelOperator(first, last, in_structure=structure))
    rep = ctx.model.ask(['ravel-ctor', str(first), str(last), [str(len(s)) for s in shapes]])
    in_range = all(-len(s) <= first < len(s) and -len(s) <= last < len(s) for s in shapes)
    norm = [((first + len(s)) if first < 0 else first, (last + len(s)) if last < 0 else last) for s in shapes]
    legal = in_range and all(f <= l for f, l in norm)
    if (st == 'ok') != (rep[0] == 'ok'):
        ctx.disagree(stream, i, f'ravel ctor: implementation {st}, model {rep}', cfg)
    if in_range and legal and st != 'ok':
        ctx.fail(stream, i, f'ravel-rejects-legal:{st}', f'legal axes rejected: {op}', cfg)
    if in_range and not legal and st == 'ok':
        ctx.fail(stream, i, 'ravel-accepts-first-after-last', 'first axis after the last one accepted', cfg)
    if st == 'ok' and in_range:
        xs = [leafvals(s, 100 * n) for n, s in enumerate(shapes)]
        x = jax.tree.unflatten(jax.tree.structure(structure), [jnp.asarray(v, dtype=jnp.float32) for v in xs])
        st2, y = safe(op.mv, x)
        if st2 != 'ok':
            ctx.fail(stream, i, f'ravel-mv-raises:{st2}', f'mv raised: {y}', cfg)
        else:
            noop = True
            for (f, l), s, xv, yv in zip(norm, shapes, xs, jax.tree.leaves(y)):
                want = xv.reshape(s[:f] + (-1,) + s[l + 1:])
                noop = noop and want.shape == s
                got = np.asarray(yv)
                if got.shape != want.shape or not np.array_equal(got, want):
                    ctx.fail(stream, i, 'ravel-wrong', f'ravel differs from flattening axes {f}..{l} of {s}', cfg)
                rp = ctx.model.ask(['ravel-shape', str(first), str(last), [str(d) for d in s]])
                if rp[0] != 'ok' or [int(d) for d in rp[1]] != list(got.shape):
                    ctx.disagree(stream, i, f'ravel shape: model {rp}, implementation {got.shape}', cfg)
            outs = [l.shape for l in jax.tree.leaves(op.out_structure())]
            if outs != [np.asarray(v).shape for v in jax.tree.leaves(y)]:
                ctx.fail(stream, i, 'ravel-out-structure', 'out_structure() disagrees with mv', cfg)
            red = op.reduce()
            if isinstance(red, IdentityOperator) != noop:
                ctx.fail(stream, i, 'ravel-reduce-identity', f'reduce() → identity is {isinstance(red, IdentityOperator)} '
                         f'but the operator {"is" if noop else "is not"} a no-op', cfg)
            stt, back = safe(lambda: op.T.mv(y))
            if stt != 'ok' or not all(np.array_equal(np.asarray(a), b) for a, b in zip(jax.tree.leaves(back), xs)):
                ctx.fail(stream, i, 'ravel-transpose-not-inverse', 'op.T(op(x)) != x', cfg)
    ctx.count('ravel:' + ('ok' if st == 'ok' else 'rejected'))
    ctx.case(f'ravel:{cfg}', st == 'ok' and in_range, sample={'op': 'ravel', **cfg, 'status': st})


def reshape_case(ctx: Ctx, stream: str, i: int) -> None:
    from furax._base.axes import ReshapeOperator
    from furax._base.core import IdentityOperator
    rng = ctx.rng(stream, i)
    shape = rand_shape(rng, rng.randint(1, 3))
    size = int(np.prod(shape))
    kind = rng.random()
    divs = [d for d in range(1, size + 1) if size % d == 0]
    if kind < 0.35:
        d = rng.choice(divs)
        target = rng.choice([(d, size // d), (size // d, d), (size,), (1, size), shape, shape[::-1]])
    elif kind < 0.7:
        d = rng.choice(divs)
        target = rng.choice([(-1,), (d, -1), (-1, d), (1, -1, d), (-1,) + shape[1:]])
    else:
        target = rng.choice([(size + 1,), (-1, -1), (-2, size), (4, -1), (size, 2), (-1, 11), (0, -1)])
    target = tuple(int(t) for t in target)
    shapes = [shape] + ([shape[::-1]] if rng.random() < 0.25 else [])
    structure = [jax.ShapeDtypeStruct(s, jnp.float32) for s in shapes]
    if len(shapes) == 1 and rng.random() < 0.5:
        structure = structure[0]
    cfg = {'shapes': shapes, 'target': target}
    st, op = safe(lambda: ReshapeOperator(target, in_structure=structure))
    xs = [leafvals(s, 100 * n) for n, s in enumerate(shapes)]
    stn = 'ok'
    wants = []
    for xv in xs:
        s_, w = safe(np.reshape, xv, target)
        if s_ != 'ok':
            stn = s_
        wants.append(w)
    replies = [ctx.model.ask(['reshape-check', [str(t) for t in target], [str(d) for d in s]]) for s in shapes]
    model_ok = all(r[0] == 'ok' for r in replies)
    if (st == 'ok') != model_ok:
        ctx.disagree(stream, i, f'reshape ctor: implementation {st}, model {replies}', cfg)
    elif st != 'ok':
        first_err = next(r for r in replies if r[0] != 'ok')
        if first_err[1] != st:
            ctx.disagree(stream, i, f'reshape ctor error kind: implementation {st}, model {first_err}', cfg)
    if (st == 'ok') != (stn == 'ok'):
        if (0 in target or any(t < -1 for t in target)) and st != 'ok':
            # outside the statement: a 0 in the target shape; sizes below -1 (NumPy reads them as -1,
            # furax rejects them as illegal)
            ctx.count('reshape:zero-or-negative-dim-noted')
        else:
            ctx.fail(stream, i, f'reshape-ctor-vs-numpy:{st}:{stn}', f'constructor {st} but numpy.reshape {stn}', cfg)
    if st == 'ok' and stn == 'ok':
        x = jax.tree.unflatten(jax.tree.structure(structure), [jnp.asarray(v, dtype=jnp.float32) for v in xs])
        st2, y = safe(op.mv, x)
        if st2 != 'ok':
            ctx.fail(stream, i, f'reshape-mv-raises:{st2}', f'mv raised {y}', cfg)
        else:
            noop = all(w.shape == s for w, s in zip(wants, shapes))
            for w, yv, r in zip(wants, jax.tree.leaves(y), replies):
                got = np.asarray(yv)
                if got.shape != w.shape or not np.array_equal(got, w):
                    ctx.fail(stream, i, 'reshape-wrong', 'differs from numpy.reshape', cfg)
                if [int(d) for d in r[1]] != list(got.shape):
                    ctx.disagree(stream, i, f'reshape shape: model {r} implementation {got.shape}', cfg)
            if isinstance(op.reduce(), IdentityOperator) != noop:
                ctx.fail(stream, i, 'reshape-reduce-identity', 'reduce() → identity iff no-op violated', cfg)
            stt, back = safe(lambda: op.T.mv(y))
            if stt != 'ok' or not all(np.array_equal(np.asarray(a), b) for a, b in zip(jax.tree.leaves(back), xs)):
                ctx.fail(stream, i, 'reshape-transpose-not-inverse', 'op.T(op(x)) != x', cfg)
    ctx.count('reshape:' + ('ok' if st == 'ok' else 'rejected'))
    ctx.case(f'reshape:{cfg}', st == 'ok', sample={'op': 'reshape', **cfg, 'status': st})


def pair_case(ctx: Ctx, stream: str, i: int) -> None:
    """Two ravel / reshape / move-axis operators next to each other: a pair cancels to the identity under reduce()
    only when the product really leaves every leaf unchanged; A @ B.T of two DIFFERENT relabellings of the same
    input must keep relabelling."""
    from furax._base.axes import MoveAxisOperator, RavelOperator, ReshapeOperator
    from furax._base.core import CompositionOperator, IdentityOperator
    from encode import Encoder, first_diff, sx
    rng = ctx.rng(stream, i)
    shape = rng.choice([(4, 6), (2, 3, 4), (2, 2, 3), (6,), (3, 4)])
    s = jax.ShapeDtypeStruct(shape, jnp.float32)
    n = int(np.prod(shape))

    def relabelling():
        k = rng.random()
        if k < 0.35 and len(shape) >= 2:
            f = rng.randrange(len(shape) - 1)
            return RavelOperator(f, rng.randint(f + 1, len(shape) - 1), in_structure=s)
        if k < 0.5:
            return RavelOperator(in_structure=s)
        if k < 0.85:
            divs = [d for d in range(1, n + 1) if n % d == 0]
            a = rng.choice(divs)
            target = rng.choice([(n,), (a, n // a), (-1, a), (a, -1)])
            return ReshapeOperator(target, in_structure=s)
        return ReshapeOperator(shape, in_structure=s)
    st, ab = safe(lambda: (relabelling(), relabelling()))
    if st != 'ok':
        ctx.count('pair:construction-' + st)
        return
    a, b = ab
    same_out = gen.same_structure(a.out_structure(), b.out_structure())
    chains = [('A@B.T', [a, b.T]), ('A@A.T', [a, a.T]), ('A.T@A', [a.T, a])]
    if same_out:
        chains.append(('B.T@A', [b.T, a]))
    for label, ops in chains:
        e = CompositionOperator(ops)
        enc = Encoder()
        esx = enc.op(e)
        enc.freeze()
        cfg = {'pair': label, 'shape': shape, 'expr': sx(esx)[:1200]}
        st, red = safe(e.reduce)
        if st != 'ok':
            ctx.fail(stream, i, f'pair-reduce-raises:{st}', str(red)[:150], cfg)
            continue
        if not (gen.same_structure(red.in_structure(), e.in_structure()) and
                gen.same_structure(red.out_structure(), e.out_structure())):
            ctx.fail(stream, i, f'pair-reduced-structure:{label}', f'reduce() of {label} has other structures '
                     f'({type(red).__name__})', cfg)
        elif not gen.close(gen.dense(red), gen.dense(e)):
            ctx.fail(stream, i, f'pair-reduced-map:{label}', f'reduce() of {label} denotes another map', cfg)
        if isinstance(red, IdentityOperator) and not gen.same_structure(e.in_structure(), e.out_structure()):
            ctx.fail(stream, i, f'pair-identity-changes-shape:{label}', f'{label} was reduced to the identity although it '
                     f'changes the leaf shape', cfg)
        rep = ctx.model.ask(['reduce', esx])
        if rep[0] != 'ok' or first_diff(rep[1], enc.op(red)) is not None:
            ctx.disagree(stream, i, f'{label}: reduce() form differs from the model: {sx(rep)[:160]}', cfg)
        ctx.count('pair:' + label)
        ctx.case(f'pair:{label}:{sx(esx)}', True, sample={'pair': label, 'shape': shape, 'result': type(red).__name__})


def movepair_case(ctx: Ctx, stream: str, i: int) -> None:
    """two adjacent move-axis operators over pytrees whose leaves have different ranks (generator of C01's stream
    `moveaxis`): the pair may only be cancelled when it leaves EVERY leaf unchanged; whatever reduce() returns acts on
    every leaf as the two numpy.moveaxis calls in a row"""
    import c01
    from furax._base.core import IdentityOperator
    from encode import Encoder, first_diff, sx
    rng = ctx.rng(stream, i)
    st_, built = safe(c01.moveaxis_expr, rng)
    if st_ != 'ok':
        ctx.count('movepair:construction-' + st_)
        return
    e, info = built
    enc = Encoder()
    st_e, esx = safe(enc.op, e)
    if st_e != 'ok':
        # an axis outside one of the leaves: the operator exists but has no output structure (numpy refuses it too)
        ctx.count('movepair:no-out-structure')
        return
    enc.freeze()
    cfg = {'planted': info['planted'], 'expr': sx(esx)[:1500]}
    st, red = safe(e.reduce)
    if st != 'ok':
        ctx.fail(stream, i, f'pair-reduce-raises:{st}', str(red)[:150], cfg)
        return
    def reference():
        x = gen.random_input(rng, e.in_structure())
        want = x
        for o in reversed(e.operands):
            if type(o).__name__ == 'MoveAxisOperator':
                want = jax.tree.map(lambda leaf, o=o: jnp.asarray(np.moveaxis(np.asarray(leaf), o.source, o.destination)), want)
            else:
                want = o.mv(want)
        return x, want
    st_ref, xw = safe(reference)
    if st_ref != 'ok':
        # the specification does not apply to every leaf (numpy refuses it too): nothing to compare
        ctx.count('movepair:numpy-rejects')
        return
    x, want = xw
    st, got = safe(red.mv, x)
    ok = st == 'ok' and jax.tree.structure(got) == jax.tree.structure(want) and \
        all(a.shape == b.shape and np.allclose(np.asarray(a), np.asarray(b), rtol=1e-5)
            for a, b in zip(jax.tree.leaves(got), jax.tree.leaves(want)))
    if not ok:
        ctx.fail(stream, i, 'movepair-reduced-not-numpy', f'reduce() of two move-axis operators does not act on every leaf as '
                 f'the two numpy.moveaxis calls ({st})', cfg)
    if isinstance(red, IdentityOperator) and not gen.same_structure(e.in_structure(), e.out_structure()):
        ctx.fail(stream, i, 'pair-identity-changes-shape:moveaxis', 'reduced to the identity although a leaf changes shape', cfg)
    rep = ctx.model.ask(['reduce', esx])
    if rep[0] != 'ok' or first_diff(rep[1], enc.op(red)) is not None:
        ctx.disagree(stream, i, f'move-axis pair: reduce() form differs from the model: {sx(rep)[:160]}', cfg)
    ctx.count('movepair:' + info['planted'][0])
    ctx.case(f'movepair:{sx(esx)}', True, sample={'movepair': info['planted']})


def run(ctx: Ctx) -> None:
    n = 150 if ctx.tier == 'quick' else 3500
    for i in range(n):
        if ctx.want('moveaxis', i):
            moveaxis_case(ctx, 'moveaxis', i)
    for i, form in enumerate(RAVEL_GRID):
        if ctx.want('ravelgrid', i):
            ravel_case(ctx, 'ravelgrid', i, forced=form)
    for i in range(n):
        if ctx.want('ravel', i):
            ravel_case(ctx, 'ravel', i)
    for i in range(n):
        if ctx.want('reshape', i):
            reshape_case(ctx, 'reshape', i)
    for i in range(60 if ctx.tier == 'quick' else 1500):
        if ctx.want('pair', i):
            pair_case(ctx, 'pair', i)
    for i in range(60 if ctx.tier == 'quick' else 1500):
        if ctx.want('movepair', i):
            movepair_case(ctx, 'movepair', i)
