"""C14 — einsum block operator and its rewritten-subscript transpose agree.

Correspondence: `_parse_subscripts` / `_get_transposed_subscripts` (accept / reject and the returned string)
against the model's string functions, over all two-operand explicit subscript strings on a 3-letter alphabet
with every ellipsis placement (exhaustive in the thorough tier).  Oracle on the implementation: for every
string the transposer accepts and einsum can evaluate, the dense matrix of `op.T` is the transposed dense
matrix of `op`, and `op.mv` is numpy.einsum.
"""
from __future__ import annotations

import itertools

import jax
import jax.numpy as jnp
import numpy as np

import gen
from common import Ctx, safe

META = {
    'rule': ('subscript strings "L,R->O" over the alphabet {i,j,k}: L of 2-3 letters, R and O of 1-2 letters, each with '
             'the ellipsis absent / leading / trailing (quick: seeded sample; thorough: all of them) plus malformed strings; '
             'blocks and leaves hold small integers, every letter has its own size; non-trivial = accepted by the '
             'transposer; distinct by the string'),
    'trusted_base': [
        'Lean 4.33 kernel + standard axioms',
        'A1: jnp.einsum behaves as numpy.einsum (checked on every evaluated string)',
    ],
    'assumptions': [],
}
SIZES = {'i': 2, 'j': 3, 'k': 4}
ELL = (2,)   # dimensions covered by an ellipsis


def all_strings():
    letters = 'ijk'
    out = []
    for nl in (2, 3):
        for L in itertools.product(letters, repeat=nl):
            for nr in (1, 2):
                for R in itertools.product(letters, repeat=nr):
                    for no in (1, 2):
                        for O in itertools.product(letters, repeat=no):
                            out.append((''.join(L), ''.join(R), ''.join(O)))
    return out


def with_ellipsis(s, where):
    return {'none': s, 'lead': '...' + s, 'trail': s + '...'}[where]


def shapes_for(sub, ell_present, ell=ELL):
    """shape of an operand from its subscripts (None if a letter would need two sizes — never happens here)"""
    core = sub.replace('...', '')
    dims = tuple(SIZES[c] for c in core)
    if '...' in sub:
        return ell + dims if sub.startswith('...') else dims + ell
    return dims


ELLS = [(2,), (), (3, 2), (2, 3), (3, 3), (3,), (1, 2), (3, 3, 2)]


def check_string(ctx: Ctx, stream: str, i: int, subs: str, rng, force=None) -> None:
    from furax._base.dense import DenseBlockDiagonalOperator as Dense
    st, got = safe(Dense._get_transposed_subscripts, subs)
    rep = ctx.model.ask(['einsum-transpose', subs])
    cfg = {'subscripts': subs}
    if False:
        pass
    if (st == 'ok') != (rep[0] == 'ok') or (st == 'ok' and got != rep[1]) or (st != 'ok' and rep[1] != st):
        ctx.disagree(stream, i, f'transposed subscripts of {subs!r}: implementation {st} {got if st == "ok" else ""}, '
                     f'model {rep}', cfg)
    ctx.count('transposer:' + ('accepts' if st == 'ok' else 'rejects'))
    accepted = st == 'ok'
    # can the operator be built and evaluated at all?
    parts = subs.replace('->', ',').split(',')
    if len(parts) == 3 and all(set(p.replace('...', '')) <= set('ijk') for p in parts):
        L, R, O = parts
        # the dimensions an ellipsis stands for: none, one or several (sizes that coincide with the named axes
        # included); the blocks may carry them or leave them to broadcasting (2-d blocks shared by all batch entries)
        ell = rng.choice([(2,)] + ELLS[:7])
        bell = ell if rng.random() < 0.6 else ()
        if force is not None:
            ell, bell = force
        bshape, xshape = shapes_for(L, True, bell), shapes_for(R, True, ell)
        if len(bshape) >= 2:
            blocks = np.array([rng.randint(-2, 3) for _ in range(int(np.prod(bshape)))], dtype=np.float64).reshape(bshape)
            x = np.array([rng.randint(-2, 3) for _ in range(int(np.prod(xshape)))], dtype=np.float64).reshape(xshape)
            # dtypes: the blocks may be WIDER than the leaf (fractional blocks on an integer leaf, complex blocks on a
            # real leaf): the operator applies einsum with the blocks it was given
            dmode = rng.choice(['same', 'same', 'float-blocks-int-leaf', 'complex-blocks-real-leaf', 'int-blocks-float-leaf'])
            bdt, xdt = jnp.float32, jnp.float32
            if dmode == 'float-blocks-int-leaf':
                blocks = blocks + 0.5
                xdt = jnp.int32
            elif dmode == 'complex-blocks-real-leaf':
                blocks = blocks + 1j * np.roll(blocks, 1).reshape(bshape)
                bdt = jnp.complex64
            elif dmode == 'int-blocks-float-leaf':
                bdt = jnp.int32
            cfg = {**cfg, 'blocks_shape': bshape, 'leaf_shape': xshape, 'dtypes': dmode}
            stn, want = safe(np.einsum, subs, blocks, x)
            sto, op = safe(lambda: Dense(jnp.asarray(blocks, dtype=bdt), jax.ShapeDtypeStruct(xshape, xdt), subs))
            # the executable einsum kernel of the model (FuraxModel/EinsumEval.lean, jax dialect: the operator calls
            # jnp.einsum) on the same exact data: accept / reject, shape and every entry
            if dmode in ('same', 'int-blocks-float-leaf') and sto == 'ok':
                from encode import tensor
                from fractions import Fraction
                repm = ctx.model.ask(['einsum-eval-jax', subs, tensor(blocks), tensor(x)])
                stj, yj = safe(lambda: np.asarray(op.mv(jnp.asarray(x, dtype=xdt)), dtype=np.float64))
                if (repm[0] == 'ok') != (stj == 'ok'):
                    ctx.disagree(stream, i, f'einsum kernel on {subs!r} blocks {bshape} leaf {xshape}: model {str(repm)[:80]}, '
                                 f'implementation {stj}', cfg)
                elif stj == 'ok':
                    mshape = tuple(int(d) for d in repm[1][1])
                    mvals = [float(Fraction(v)) for v in repm[1][2]]
                    if mshape != yj.shape or mvals != yj.ravel().tolist():
                        ctx.disagree(stream, i, f'einsum kernel on {subs!r}: model shape {mshape} values {mvals[:6]}, implementation '
                                     f'shape {yj.shape} values {yj.ravel().tolist()[:6]}', cfg)
                ctx.count('einsum-kernel:' + ('evaluated' if stj == 'ok' else 'both-reject'))
            if stn == 'ok' and sto == 'ok':
                stm, y = safe(op.mv, jnp.asarray(x, dtype=xdt))
                if stm != 'ok' or np.asarray(y).shape != want.shape or not np.allclose(np.asarray(y), want, rtol=1e-6, atol=1e-6):
                    ctx.fail(stream, i, 'einsum-mv-wrong', f'{subs!r}: op.mv differs from numpy.einsum ({stm})', cfg)
                elif accepted:
                    stt, opt = safe(lambda: op.T)
                    if stt != 'ok':
                        ctx.fail(stream, i, f'einsum-transpose-raises:{stt}', f'{subs!r}: op.T raised {opt}', cfg)
                    else:
                        stt2, mt = safe(gen.dense, opt)
                        m = gen.dense(op)
                        if stt2 != 'ok':
                            ctx.fail(stream, i, f'einsum-transpose-mv-raises:{stt2}',
                                     f'{subs!r}: transposed operator {got!r} cannot be applied: {str(mt)[:120]}', cfg)
                        elif dmode not in ('same', 'int-blocks-float-leaf'):
                            pass       # (the dense-matrix helper works in real float arithmetic)
                        elif mt.shape != m.T.shape or not np.array_equal(mt, m.T):
                            rep_letters = len(set(L.replace('...', ''))) < len(L.replace('...', ''))
                            ctx.fail(stream, i, 'einsum-transpose-not-adjoint' + (':repeated-letter' if rep_letters else ''),
                                     f'{subs!r} → {got!r}: dense(op.T) is not dense(op).T', cfg)
                        ctx.count('adjoint-checked')
    ctx.case(subs if force is None else f'{subs}:{force}', accepted,
             sample={'subscripts': subs, 'transposed': got if accepted else st})


def check_pytree(ctx: Ctx, i: int, rng) -> None:
    """the operator on a PYTREE of leaves: one shared block array applied to every leaf, or one block array per leaf
    (`mv` has three branches: bare leaf, shared blocks, tree of blocks); value, structure and adjoint per leaf
    against numpy.einsum"""
    from furax._base.dense import DenseBlockDiagonalOperator as Dense
    subs = rng.choice(['ij...,j...->i...', 'ji...,j...->i...', 'kij...,kj...->ki...', 'ikj,kj->ki', 'ij,j...->i...',
                       '...ij,...j->...i'])
    L, R, O = subs.replace('->', ',').split(',')
    kind = rng.choice(['list', 'tuple', 'dict', 'nested'])
    nleaf = rng.randint(1, 3)
    shared = rng.random() < 0.5
    per_leaf_ell = not shared or '...' not in L or rng.random() < 0.5

    def mk(shape, lo=-2, hi=3):
        return np.array([rng.randint(lo, hi) for _ in range(int(np.prod(shape)))], dtype=np.float64).reshape(shape)
    ells = [rng.choice(ELLS[:6]) if '...' in R else () for _ in range(nleaf)]
    if shared and '...' in L and not per_leaf_ell:
        ells = [ells[0]] * nleaf
    xs = [mk(shapes_for(R, True, e)) for e in ells]
    if shared:
        bell = () if ('...' not in L or per_leaf_ell) else ells[0]
        bl = [mk(shapes_for(L, True, bell))] * nleaf
    else:
        bl = [mk(shapes_for(L, True, e if rng.random() < 0.6 else ())) for e in ells]
    if any(b.ndim < 2 for b in bl):
        return

    def pack(vals):
        if kind == 'list':
            return list(vals)
        if kind == 'tuple':
            return tuple(vals)
        if kind == 'dict':
            names = ['q', 'a', 'm'][:len(vals)]          # unsorted insertion order: JAX sorts the keys
            return dict(zip(names, vals))
        return {'z': list(vals[:1]), 'b': tuple(vals[1:])}
    xdt = rng.choice([jnp.float32, jnp.float32, jnp.int32])
    x = pack([jnp.asarray(v, dtype=xdt) for v in xs])
    blocks = jnp.asarray(bl[0], dtype=jnp.float32) if shared else pack([jnp.asarray(b, dtype=jnp.float32) for b in bl])
    instruct = jax.tree.map(lambda a: jax.ShapeDtypeStruct(a.shape, a.dtype), x)
    cfg = {'subscripts': subs, 'container': kind, 'leaves': [v.shape for v in xs], 'blocks': 'shared' if shared else
           [b.shape for b in bl], 'leaf_dtype': str(np.dtype(xdt))}
    want = pack([np.einsum(subs, b, v) for b, v in zip(bl, xs)])
    sto, op = safe(lambda: Dense(blocks, instruct, subs))
    if sto != 'ok':
        ctx.fail('pytree', i, f'einsum-pytree-ctor-raises:{sto}', f'{subs!r} on a {kind} of {nleaf} leaves: {str(op)[:120]}', cfg)
        ctx.case(f'{subs}:{kind}:{nleaf}:{shared}', True)
        return
    stm, y = safe(op.mv, x)
    ok = stm == 'ok' and jax.tree.structure(y) == jax.tree.structure(want)
    if ok:
        for a, b in zip(jax.tree.leaves(y), jax.tree.leaves(want)):
            ok = ok and np.asarray(a).shape == b.shape and np.allclose(np.asarray(a), b, rtol=1e-6, atol=1e-6)
    if not ok:
        ctx.fail('pytree', i, 'einsum-pytree-mv-wrong', f'{subs!r} on a {kind} of {nleaf} leaves ({"shared blocks" if shared else "one block array per leaf"}): op.mv differs from numpy.einsum leaf by leaf ({stm})', cfg)
    else:
        sts, outs = safe(op.out_structure)
        if sts != 'ok' or jax.tree.structure(outs) != jax.tree.structure(y) or any(
                o.shape != np.asarray(a).shape or o.dtype != a.dtype for o, a in zip(jax.tree.leaves(outs), jax.tree.leaves(y))):
            ctx.fail('pytree', i, 'einsum-pytree-structure', f'{subs!r}: out_structure() differs from what mv returns', cfg)
        stt, mt = safe(lambda: gen.dense(op.T))
        m = gen.dense(op)
        if stt != 'ok':
            ctx.fail('pytree', i, f'einsum-pytree-transpose-raises:{stt}', f'{subs!r}: op.T cannot be built/applied: {str(mt)[:120]}', cfg)
        elif mt.shape != m.T.shape or not np.array_equal(mt, m.T):
            ctx.fail('pytree', i, 'einsum-pytree-transpose-not-adjoint', f'{subs!r} on a {kind}: dense(op.T) is not dense(op).T', cfg)
        # block-diagonal over the leaves: the dense matrix is the direct sum of the per-leaf matrices
        off = 0
        offo = 0
        for b, v in zip(jax.tree.leaves(pack(bl)), jax.tree.leaves(pack(xs))):
            one = gen.dense(Dense(jnp.asarray(b, dtype=jnp.float32), jax.ShapeDtypeStruct(v.shape, xdt), subs))
            if not np.array_equal(m[offo:offo + one.shape[0], off:off + one.shape[1]], one):
                ctx.fail('pytree', i, 'einsum-pytree-not-block-diagonal', f'{subs!r} on a {kind}: the dense matrix is not the direct sum of the per-leaf operators', cfg)
                break
            off += one.shape[1]
            offo += one.shape[0]
        ctx.count('pytree-checked')
    ctx.case(f'{subs}:{kind}:{nleaf}:{shared}:{i % 7}', True, sample=cfg)


def check_ctor(ctx: Ctx, i: int, rng) -> None:
    """constructor validation: block arrays of rank < 2 are refused (ValueError), for a bare array and inside a tree"""
    from furax._base.dense import DenseBlockDiagonalOperator as Dense
    bad = rng.choice([(), (3,)])
    tree = rng.random() < 0.5
    b = jnp.zeros(bad, jnp.float32)
    good = jnp.zeros((2, 3), jnp.float32)
    blocks = [good, b] if tree else b
    s = jax.ShapeDtypeStruct((3,), jnp.float32)
    st, r = safe(lambda: Dense(blocks, [s, s] if tree else s))
    if st != 'ValueError':
        ctx.fail('ctor', i, 'einsum-ctor-accepts-low-rank-blocks', f'blocks of shape {bad} {"inside a list" if tree else ""}: constructor {st}', {'blocks_shape': bad, 'tree': tree})
    ctx.case(f'ctor:{bad}:{tree}', True)


def check_diag_stretch(ctx: Ctx, i: int, rng) -> None:
    """a letter REPEATED in the block term whose two axes have sizes 1 and n: jnp.einsum stretches the size-1 axis
    (numpy.einsum refuses the operand), and the operator with rewritten subscripts is then not the transpose although
    every shape fits (known finding F20)"""
    from furax._base.dense import DenseBlockDiagonalOperator as Dense
    subs, bshape, xshape = [('iij,j->i', (1, 3, 2), (2,)), ('iji,j->i', (1, 2, 3), (2,)), ('iij,j->i', (3, 1, 2), (2,)),
                            ('iji,j->i', (3, 2, 1), (2,))][i % 4]
    blocks = np.array([rng.randint(1, 4) for _ in range(int(np.prod(bshape)))], dtype=np.float64).reshape(bshape)
    cfg = {'subscripts': subs, 'blocks_shape': bshape, 'leaf_shape': xshape}
    st, op = safe(lambda: Dense(jnp.asarray(blocks, dtype=jnp.float32), jax.ShapeDtypeStruct(xshape, jnp.float32), subs))
    if st == 'ok':
        stm, m = safe(gen.dense, op)
        stt, t = safe(lambda: op.T)
        if stm == 'ok' and stt == 'ok':
            st2, mt = safe(gen.dense, t)
            if st2 == 'ok' and (mt.shape != m.T.shape or not np.array_equal(mt, m.T)):
                ctx.fail('diagstretch', i, 'einsum-transpose-not-adjoint:stretched-diagonal',
                         f'{subs!r} with blocks {bshape}: jnp.einsum stretches the size-1 axis of the repeated letter; dense(op.T) is '
                         f'not dense(op).T', cfg)
        ctx.count('diagstretch:' + ('accepted' if stm == 'ok' else 'refused-at-application'))
    else:
        ctx.count('diagstretch:refused')
    ctx.case(f'diagstretch:{subs}:{bshape}', True, sample=cfg)


BROADCASTS = [('ij,j->i', (2, 1), (3,)), ('ij...,j...->i...', (2, 3, 5), (3,)), ('ij...,j...->i...', (2, 3, 5), (3, 1)),
              ('ij...,j...->i...', (2, 1), (3, 2)), ('ij...,j...->i...', (2, 3, 1), (3, 4)), ('kij,kj->ki', (1, 2, 3), (4, 3)),
              ('ikj,kj->ki', (2, 1, 3), (4, 3)), ('ij...,j...->i...', (2, 1, 3), (3,)), ('...ij,...j->...i', (4, 2, 1), (1, 4)),
              ('ij...,j...->i...', (2, 1, 2), (2,)), ('ij...,j...->i...', (3, 1, 4), (4, 1)), ('hij...,hj...->hi...', (1, 3, 3), (2, 3)),
              ('ij...,j...->i...', (2, 3, 4), (3, 4)), ('ij...,j...->i...', (2, 3, 1, 1), (3, 2, 2))]


def check_broadcast(ctx: Ctx, i: int, rng) -> None:
    """blocks that einsum BROADCASTS against the input (a size-1 axis stretched, batch axes the input lacks — including
    pairs of broadcasts that cancel in the element count): `.T` either raises ValueError or is the exact transpose"""
    from furax._base.dense import DenseBlockDiagonalOperator as Dense
    subs, bshape, xshape = BROADCASTS[i % len(BROADCASTS)]
    blocks = np.array([rng.randint(1, 4) for _ in range(int(np.prod(bshape)))], dtype=np.float64).reshape(bshape)
    cfg = {'subscripts': subs, 'blocks_shape': bshape, 'leaf_shape': xshape}
    # a legitimate twin first — same subscripts, same block shape, an input the blocks fit exactly — built and
    # transposed in the same process: what is decided for one operator must not be reused for another
    L_, R_, _ = subs.replace('->', ',').split(',')
    lcore, rcore = L_.replace('...', ''), R_.replace('...', '')
    if len(bshape) >= len(lcore):
        sizes = dict(zip(lcore, bshape[:len(lcore)] if L_.endswith('...') or '...' not in L_ else bshape[-len(lcore):]))
        ell = bshape[len(lcore):] if L_.endswith('...') else bshape[:len(bshape) - len(lcore)] if '...' in L_ else ()
        if all(c in sizes for c in rcore):
            fit = tuple(sizes[c] for c in rcore)
            fit = fit + tuple(ell) if R_.endswith('...') else tuple(ell) + fit if '...' in R_ else fit
            stw, twin = safe(lambda: Dense(jnp.asarray(blocks, dtype=jnp.float32), jax.ShapeDtypeStruct(fit, jnp.float32), subs))
            if stw == 'ok':
                sttw, _ = safe(lambda: gen.dense(twin.T))
                ctx.count('broadcast:twin-' + ('transposed' if sttw == 'ok' else 'refused'))
    st, op = safe(lambda: Dense(jnp.asarray(blocks, dtype=jnp.float32), jax.ShapeDtypeStruct(xshape, jnp.float32), subs))
    if st != 'ok':
        ctx.count('broadcast:ctor-refused')
        ctx.case(f'broadcast:{i % len(BROADCASTS)}', False)
        return
    stm, m = safe(gen.dense, op)
    stt, t = safe(lambda: op.T)
    if stm == 'ok' and stt == 'ok':
        st2, mt = safe(gen.dense, t)
        if st2 != 'ok' or mt.shape != m.T.shape or not np.array_equal(mt, m.T):
            ctx.fail('broadcast', i, 'einsum-transpose-not-adjoint:broadcast-blocks', f'{subs!r} with blocks {bshape} on a leaf {xshape}: '
                     f'.T is accepted but dense(op.T) {"cannot be formed (" + st2 + ")" if st2 != "ok" else "is not dense(op).T"}', cfg)
        ctx.count('broadcast:transposed')
    elif stt not in ('ok', 'ValueError'):
        ctx.fail('broadcast', i, f'einsum-transpose-raises:{stt}', f'{subs!r}: .T raised {stt} (a refusal is a ValueError)', cfg)
    else:
        ctx.count('broadcast:refused')
    ctx.case(f'broadcast:{subs}:{bshape}:{xshape}', True, sample=cfg)


MALFORMED = ['ij', 'ij,j', 'ij,j,k->i', 'ij->i', 'ij,j->i->k', ',->', 'ij,j->', 'ij,,j->i', '->ij,j']


def run(ctx: Ctx) -> None:
    strings = []
    for (L, R, O) in all_strings():
        for el, er, eo in (('none', 'none', 'none'), ('trail', 'trail', 'trail'), ('lead', 'lead', 'lead'),
                           ('trail', 'none', 'none'), ('lead', 'trail', 'trail')):
            strings.append(f'{with_ellipsis(L, el)},{with_ellipsis(R, er)}->{with_ellipsis(O, eo)}')
    strings += MALFORMED
    rng0 = ctx.rng('order', 0)
    if ctx.tier == 'quick':
        # the documented examples first, then a seeded sample
        docs = ['ij...,j...->i...', 'hij...,hj...->hi...'.replace('h', 'k'), 'ikj,kj->ki', 'iij,j->i'] + MALFORMED
        sample = rng0.sample(strings, 900)
        strings = docs + sample
    for i, s in enumerate(strings):
        if ctx.want('string', i):
            check_string(ctx, 'string', i, s, ctx.rng('string', i))
    # the constructor's default string and the documented ones, with every choice of batch dimensions (none, one,
    # several, sizes coinciding with the named axes) and blocks with or without their own batch dimensions
    docs = ['ij...,j...->i...', 'ji...,j...->i...', 'kij...,kj...->ki...', 'ij,j...->i...', '...ij,...j->...i']
    k = 0
    for s in docs:
        for ell in ELLS:
            for bell in (ell, ()):
                if ctx.want('default', k):
                    check_string(ctx, 'default', k, s, ctx.rng('default', k), force=(ell, bell))
                k += 1
    for i in range(120 if ctx.tier == 'quick' else 600):
        if ctx.want('pytree', i):
            check_pytree(ctx, i, ctx.rng('pytree', i))
    for i in range(len(BROADCASTS)):
        if ctx.want('broadcast', i):
            check_broadcast(ctx, i, ctx.rng('broadcast', i))
    for i in range(4):
        if ctx.want('diagstretch', i):
            check_diag_stretch(ctx, i, ctx.rng('diagstretch', i))
    for i in range(8):
        if ctx.want('ctor', i):
            check_ctor(ctx, i, ctx.rng('ctor', i))
