"""C15 — polarimetry operators realise their Mueller matrices.

Correspondence: HWP / QU rotation / its transpose / linear polariser applied to asymmetric integer Stokes
inputs, sample by sample, against the model kernels (which receive the rational value of cos 2a, sin 2a).
Oracle on the implementation: dense matrices of the operators, of the rule outputs and of the factories,
before and after reduce(), against Mueller matrices built independently with NumPy in float64.
"""
from __future__ import annotations

from fractions import Fraction

import jax
import jax.numpy as jnp
import numpy as np

import gen
from common import Ctx, safe
from encode import frac_str

META = {
    'rule': ('(Stokes kind, sample shape, angle array of any broadcastable shape / sign / magnitude, operator or '
             'chain); a case is one operator application or one chain; non-trivial = the angle is not a multiple of '
             'pi/2 and the input has pairwise distinct non-zero components'),
    'trusted_base': [
        'Lean 4.33 kernel + Mathlib (Real.cos_add, Real.sin_add, cos_sq_add_sin_sq); axioms propext, '
        'Classical.choice, Quot.sound',
        'A8: float32 cos/sin and rounding are not modelled (tolerance 1e-4 on this channel only)',
        'harness encoder',
    ],
    'assumptions': ['angles enter the model only through the float32 values of cos 2a and sin 2a'],
}
KINDS = ['I', 'QU', 'IQU', 'IQUV']
TOL = 2e-4
ENV_VARIANTS = [{'JAX_ENABLE_X64': '0'}, {'JAX_ENABLE_X64': '1'}]


def mueller_rot(a):
    c, s = np.cos(2 * a), np.sin(2 * a)
    return np.array([[1, 0, 0, 0], [0, c, -s, 0], [0, s, c, 0], [0, 0, 0, 1.0]])


M_HWP = np.diag([1.0, 1.0, -1.0, -1.0])
SEL = {'I': [0], 'QU': [1, 2], 'IQU': [0, 1, 2], 'IQUV': [0, 1, 2, 3]}


def restrict(m, kind):
    idx = SEL[kind]
    return m[np.ix_(idx, idx)]


def pol_row(kind):
    full = np.array([0.5, 0.5, 0.0, 0.0])
    return full[SEL[kind]][None, :]


def dense_per_sample(op, kind, nsamp):
    """dense matrix of an operator on a Stokes structure of `nsamp` samples, reshaped to (nsamp, out, in)
    blocks assuming it acts sample by sample; returns None if it does not"""
    m = gen.dense(op)
    k = len(SEL[kind])
    kout = m.shape[0] // nsamp
    m4 = m.reshape(kout, nsamp, k, nsamp)
    blocks = []
    for t in range(nsamp):
        blocks.append(m4[:, t, :, t])
        off = m4[:, t, :, :].copy()
        off[:, :, t] = 0
        if np.abs(off).max() > 1e-6:
            return None
    return blocks


def one_case(ctx: Ctx, stream: str, i: int, forced=None) -> None:
    from furax.landscapes import StokesPyTree
    from furax.operators.hwp import HWPOperator
    from furax.operators.polarizers import LinearPolarizerOperator
    from furax.operators.qu_rotations import QURotationOperator
    from furax._base.core import CompositionOperator
    rng = ctx.rng(stream, i)
    kind = rng.choice(KINDS)
    shape = rng.choice([(2,), (3,), (2, 2), (1,), (2, 3), (3, 2)])
    if forced is not None:
        kind, shape = forced[0], forced[1]
    n = int(np.prod(shape))
    cls = StokesPyTree.class_for(kind)
    st = cls.structure_for(shape, jnp.float32)
    # angles: any sign and magnitude, array broadcastable to the sample shape
    def angles():
        # every shape NumPy broadcasts to the sample shape: the full shape, the trailing axis, a single value, and — for
        # two-dimensional samples — one angle per row (n, 1) or a row vector (1, m)
        choices = [shape, shape[-1:], (1,)]
        if len(shape) == 2:
            choices += [(shape[0], 1), (1, shape[1]), (shape[0], 1)]
        ash = rng.choice(choices)
        if forced is not None:
            ash = forced[2]
            # pairwise different angles: an array laid along the wrong axis cannot go unnoticed
            return (np.arange(1, int(np.prod(ash)) + 1, dtype=np.float32) * 0.37 - 0.8).reshape(ash)
        vals = [rng.choice([0.0, 0.3, -0.7, 1.1, 2.5, -4.0, 7.3, 0.785398, 1.570796, -12.5, 100.25])
                for _ in range(int(np.prod(ash)))]
        return np.asarray(vals, dtype=np.float32).reshape(ash)
    a1, a2 = angles(), angles()
    if forced is None and rng.random() < 0.3:
        # rotations whose COMBINATION is special: the angles add up (or differ) to a multiple of pi/4 in every element —
        # R(pi/2) = diag(1,-1,-1,1) and R(pi) = I are where sin or cos of the doubled angle vanishes
        target = rng.choice([0.0, np.pi / 2, np.pi, -np.pi / 2, 3 * np.pi / 2, 2 * np.pi, np.pi / 4, -np.pi])
        sign = rng.choice([1.0, -1.0])
        if rng.random() < 0.5:
            a1 = np.full_like(a1, rng.choice([np.pi / 4, 0.0, np.pi / 2, 0.3, -np.pi / 4]))
        a2 = (sign * (target - np.broadcast_to(a1, shape))).astype(np.float32)
        ctx.count('special-angle-sum')
    comps = [jnp.asarray(np.array([rng.choice([-3, -2, -1, 1, 2, 3, 4, 5]) + 7 * c for _ in range(n)],
                                  dtype=np.float32).reshape(shape)) for c in range(len(kind))]
    x = cls(*comps)
    # how the caller hands the angles over: a JAX array, a (mutable) NumPy array, or Python / NumPy scalars
    given = rng.choice(['jax', 'jax', 'numpy', 'numpy', 'scalar'])
    if forced is not None and given == 'scalar':
        given = 'jax'
    if given == 'scalar':
        a1, a2 = a1.ravel()[:1].reshape(()), a2.ravel()[:1].reshape(())
    a1_orig, a2_orig = a1.copy(), a2.copy()

    def give(a):
        if given == 'jax':
            return jnp.asarray(a)
        if given == 'numpy':
            return a            # the caller's own array: nothing may write into it
        return float(a) if rng.random() < 0.5 else np.float32(a)
    R1, R2 = QURotationOperator(give(a1), st), QURotationOperator(give(a2), st)
    H, P = HWPOperator(st), LinearPolarizerOperator(st)

    # ---- correspondence: operator application, sample by sample ----------------------------------
    full_a1 = np.broadcast_to(a1_orig, shape).ravel()
    for name, op in [('hwp', H), ('rot', R1), ('rotT', R1.T)]:
        st_, y = safe(op.mv, x)
        if st_ != 'ok':
            ctx.fail(stream, i, f'mv-raises-{name}-{st_}', f'{name}.mv raised {st_}: {y}', {'kind': kind})
            continue
        ys = [np.asarray(getattr(y, c.lower())).ravel() for c in kind]
        xs = [np.asarray(c).ravel() for c in comps]
        for t in range(n):
            c32 = np.cos(np.float32(2) * np.float32(full_a1[t]), dtype=np.float32)
            s32 = np.sin(np.float32(2) * np.float32(full_a1[t]), dtype=np.float32)
            req = ['mueller', name, kind, frac_str(Fraction(float(c32))), frac_str(Fraction(float(s32))),
                   [frac_str(Fraction(float(v[t]))) for v in xs]]
            rep = ctx.model.ask(req)
            got = [float(v[t]) for v in ys]
            want = [float(Fraction(z)) for z in rep[1]] if rep[0] == 'ok' else None
            if want is None or not np.allclose(got, want, rtol=TOL, atol=TOL):
                ctx.disagree(stream, i, f'{name} on {kind}: implementation {got}, model {want}',
                             {'kind': kind, 'angle': float(full_a1[t])})
            nontriv = abs(np.sin(4 * float(full_a1[t]))) > 1e-3 and name != 'hwp' and kind != 'I'
            ctx.case(f'{name}:{kind}:{req[3]}:{req[4]}:{req[5]}', nontriv,
                     sample={'op': name, 'kind': kind, 'angle': float(full_a1[t]), 'x': req[5], 'y': got})
    st_, y = safe(P.mv, x)
    if st_ == 'ok':
        xs = [np.asarray(c).ravel() for c in comps]
        yy = np.asarray(y).ravel()
        for t in range(n):
            rep = ctx.model.ask(['polarizer', kind, [frac_str(Fraction(float(v[t]))) for v in xs]])
            want = float(Fraction(rep[1])) if rep[0] == 'ok' else None
            if want is None or abs(float(yy[t]) - want) > TOL:
                ctx.disagree(stream, i, f'polarizer on {kind}: implementation {float(yy[t])}, model {want}', {'kind': kind})
            ctx.case(f'pol:{kind}:{[float(v[t]) for v in xs]}', True, sample=None)
    else:
        ctx.fail(stream, i, f'mv-raises-polarizer-{st_}', f'polarizer.mv raised {st_}: {y}', {'kind': kind})

    # ---- oracle on the implementation: Mueller matrices, rules, factories ---------------------------
    fa1, fa2 = np.broadcast_to(a1_orig, shape).ravel().astype(np.float64), np.broadcast_to(a2_orig, shape).ravel().astype(np.float64)

    def expect(op, mats, label):
        st2, blocks = safe(dense_per_sample, op, kind, n)
        if st2 != 'ok' or blocks is None:
            ctx.fail(stream, i, f'mueller:{label}:not-samplewise', f'{label}: dense matrix not block-diagonal per sample '
                     f'or raised ({st2})', {'kind': kind})
            return
        for t in range(n):
            if not gen.close(blocks[t], mats[t], TOL):
                ctx.fail(stream, i, f'mueller:{label}', f'{label} on {kind}: per-sample matrix differs from the Mueller '
                         f'matrix', {'kind': kind, 'angles': [float(fa1[t]), float(fa2[t])],
                                     'got': blocks[t].tolist(), 'want': np.asarray(mats[t]).tolist()})
                return

    rot1 = [restrict(mueller_rot(fa1[t]), kind) for t in range(n)]
    rot2 = [restrict(mueller_rot(fa2[t]), kind) for t in range(n)]
    hw = restrict(M_HWP, kind)
    expect(H, [hw] * n, 'HWP')
    expect(R1, rot1, 'R')
    expect(R1.T, [m.T for m in rot1], 'R.T')
    expect(P, [pol_row(kind)] * n, 'polarizer')
    chains = {
        'R@R': ([R1, R2], [rot1[t] @ rot2[t] for t in range(n)]),
        'R@R.T': ([R1, R2.T], [rot1[t] @ rot2[t].T for t in range(n)]),
        'R.T@R': ([R1.T, R2], [rot1[t].T @ rot2[t] for t in range(n)]),
        'R.T@R.T': ([R1.T, R2.T], [rot1[t].T @ rot2[t].T for t in range(n)]),
        'R@HWP': ([R1, H], [rot1[t] @ hw for t in range(n)]),
        'R.T@HWP': ([R1.T, H], [rot1[t].T @ hw for t in range(n)]),
        'P@HWP': ([P, H], [pol_row(kind) @ hw for t in range(n)]),
        'P@HWP@R': ([P, H, R1], [pol_row(kind) @ hw @ rot1[t] for t in range(n)]),
        'R@HWP@R@R.T': ([R2, H, R1, R2.T], [rot2[t] @ hw @ rot1[t] @ rot2[t].T for t in range(n)]),
    }
    for label, (ops, mats) in chains.items():
        e = CompositionOperator(ops)
        expect(e, mats, label)
        st3, red = safe(e.reduce)
        if st3 != 'ok':
            ctx.fail(stream, i, f'reduce-raises:{label}', f'reduce() of {label} raised {st3}', {'kind': kind})
        else:
            expect(red, mats, label + ':reduced')
            # reduce() is a pure function of the operator: the unreduced operator still denotes the same matrix and
            # reducing it again gives the same map
            expect(e, mats, label + ':unreduced-after-reduce')
            st3b, red2 = safe(e.reduce)
            if st3b == 'ok':
                expect(red2, mats, label + ':reduced-again')
        ctx.case(f'chain:{label}:{kind}:{a1.tolist()}:{a2.tolist()}', True, sample=None)
        ctx.count('chain:' + label)
    # factories
    for label, mk, mats in [
        ('HWP.create', lambda: HWPOperator.create(shape, jnp.float32, kind, angles=give(a1)),
         [rot1[t].T @ hw @ rot1[t] for t in range(n)]),
        ('Polarizer.create', lambda: LinearPolarizerOperator.create(shape, jnp.float32, kind, angles=give(a1)),
         [pol_row(kind) @ rot1[t] for t in range(n)]),
        ('QURotation.create', lambda: QURotationOperator.create(shape, jnp.float32, kind, angles=give(a1)), rot1),
        # the factories WITHOUT angles return the bare operator
        ('HWP.create(no angles)', lambda: HWPOperator.create(shape, jnp.float32, kind), [hw for t in range(n)]),
        ('Polarizer.create(no angles)', lambda: LinearPolarizerOperator.create(shape, jnp.float32, kind),
         [pol_row(kind) for t in range(n)]),
    ]:
        st4, op = safe(mk)
        if st4 != 'ok':
            ctx.fail(stream, i, f'factory-raises:{label}', f'{label} raised {st4}: {op}', {'kind': kind})
            continue
        expect(op, mats, label)
        st5, red = safe(op.reduce)
        if st5 == 'ok':
            expect(red, mats, label + ':reduced')
            expect(op, mats, label + ':unreduced-after-reduce')
            st6, red2 = safe(op.reduce)
            if st6 == 'ok':
                expect(red2, mats, label + ':reduced-again')
        else:
            ctx.fail(stream, i, f'reduce-raises:{label}', f'reduce() of {label} raised {st5}', {'kind': kind})
        ctx.case(f'factory:{label}:{kind}:{a1.tolist()}', True, sample=None)
    # the operator is a function of its `angles` leaf: replacing that leaf by a pytree operation gives the rotation by the
    # new angles (nothing derived from the old angles may survive inside the object)
    import equinox
    st7, swapped = safe(lambda: equinox.tree_at(lambda o: o.angles, R1, jnp.asarray(np.broadcast_to(a2_orig, np.shape(a1_orig) or np.shape(a2_orig)))
                                                if np.shape(a1_orig) == np.shape(a2_orig) else jnp.asarray(a2_orig)))
    if st7 == 'ok' and np.shape(a1_orig) == np.shape(a2_orig):
        expect(swapped, rot2, 'R:angles-leaf-replaced')
        st8, swT = safe(lambda: swapped.T)
        if st8 == 'ok':
            expect(swT, [m.T for m in rot2], 'R.T:angles-leaf-replaced')
    if not (np.array_equal(a1, a1_orig) and np.array_equal(a2, a2_orig)):
        ctx.fail(stream, i, 'caller-angles-modified', 'the angle array passed by the caller was written to',
                 {'kind': kind, 'given': given, 'before': a1_orig.tolist(), 'after': a1.tolist()})
    ctx.count('kind:' + kind)
    ctx.count('angles-given-as:' + given)


def wide_case(ctx: Ctx, stream: str, i: int) -> None:
    """64-bit mode: single-precision Stokes data rotated by double-precision angles of large magnitude (an
    unwrapped rotating-HWP angle): the matrix applied must be the Mueller matrix of THAT angle."""
    from furax.landscapes import StokesPyTree
    from furax.operators.hwp import HWPOperator
    from furax.operators.polarizers import LinearPolarizerOperator
    from furax.operators.qu_rotations import QURotationOperator
    if not jax.config.jax_enable_x64:
        ctx.count('wide:skipped-32-bit-mode')
        return
    rng = ctx.rng(stream, i)
    kind = rng.choice(['QU', 'IQU', 'IQUV'])
    nsamp = rng.choice([2, 3])
    shape = (nsamp,)
    cls = StokesPyTree.class_for(kind)
    data_dt = rng.choice([jnp.float32, jnp.float32, jnp.float64])
    st = cls.structure_for(shape, data_dt)
    ang = np.array([rng.choice([1.0, -1.0]) * rng.uniform(1e3, 2e5) for _ in range(nsamp)], dtype=np.float64)
    comps = [np.array([rng.choice([-3, -2, -1, 1, 2, 3, 4, 5]) + 7 * c for _ in range(nsamp)], dtype=np.float64)
             for c in range(len(kind))]
    x = cls(*[jnp.asarray(c, dtype=data_dt) for c in comps])
    cfg = {'kind': kind, 'angles': ang.tolist(), 'data_dtype': str(np.dtype(data_dt)), 'angle_dtype': 'float64'}
    rot = [restrict(mueller_rot(a), kind) for a in ang]
    hw = restrict(M_HWP, kind)
    ops = [('R', lambda: QURotationOperator(jnp.asarray(ang), st), rot),
           ('R.T', lambda: QURotationOperator(jnp.asarray(ang), st).T, [m.T for m in rot]),
           ('HWP.create', lambda: HWPOperator.create(shape, data_dt, kind, angles=jnp.asarray(ang)),
            [rot[t].T @ hw @ rot[t] for t in range(nsamp)]),
           ('Polarizer.create', lambda: LinearPolarizerOperator.create(shape, data_dt, kind, angles=jnp.asarray(ang)),
            [pol_row(kind) @ rot[t] for t in range(nsamp)])]
    xv = np.array(comps)                         # (ncomp, nsamp)
    for label, mk, mats in ops:
        for reduced in (False, True):
            st_, op = safe(lambda: mk().reduce() if reduced else mk())
            if st_ != 'ok':
                ctx.fail(stream, i, f'wide-raises:{label}:{st_}', str(op)[:150], cfg)
                continue
            st2, y = safe(op.mv, x)
            if st2 != 'ok':
                ctx.fail(stream, i, f'wide-mv-raises:{label}:{st2}', str(y)[:150], cfg)
                continue
            leaves = [np.asarray(l, dtype=np.float64) for l in jax.tree.leaves(y)]
            for t in range(nsamp):
                want = np.asarray(mats[t]) @ xv[:, t]
                got = np.array([l[t] for l in leaves])
                if got.shape != want.shape or not np.allclose(got, want, rtol=1e-4, atol=1e-4):
                    ctx.fail(stream, i, f'mueller-wide-angle:{label}{":reduced" if reduced else ""}',
                             f'{label} with angle {ang[t]!r} on {cfg["data_dtype"]} data returns {got.tolist()}, the Mueller '
                             f'matrix of that angle gives {want.tolist()}', cfg)
                    break
    ctx.count('wide:' + cfg['data_dtype'])
    ctx.case(f'wide:{kind}:{ang.tolist()}:{cfg["data_dtype"]}', True, sample={'wide': cfg})


def dtype_case(ctx: Ctx, stream: str, i: int) -> None:
    """Stokes data of other dtypes than float32: complex64 (the operators are real matrices and act complex-linearly:
    real and imaginary parts are transformed separately, the result is complex), float16 / bfloat16 (every component
    comes back in the dtype it had) — values against the Mueller matrix, dtypes against the declared structure"""
    from furax.landscapes import StokesPyTree
    from furax.operators.hwp import HWPOperator
    from furax.operators.polarizers import LinearPolarizerOperator
    from furax.operators.qu_rotations import QURotationOperator
    rng = ctx.rng(stream, i)
    kind = rng.choice(['QU', 'IQU', 'IQUV'])
    nsamp = rng.choice([2, 3])
    shape = (nsamp,)
    cls = StokesPyTree.class_for(kind)
    data_dt = [jnp.complex64, jnp.float16, jnp.bfloat16, jnp.complex64][i % 4]
    cplx = data_dt == jnp.complex64
    st = cls.structure_for(shape, data_dt)
    ang = np.array([rng.choice([0.0, 0.5, -0.25, 1.0, 0.785398, -2.0]) for _ in range(nsamp)], dtype=np.float32)
    comps = [np.array([rng.choice([-3, -2, -1, 1, 2, 3]) + (1j * rng.choice([-2, -1, 1, 2, 3]) if cplx else 0) for _ in range(nsamp)])
             for c in range(len(kind))]
    x = cls(*[jnp.asarray(c, dtype=data_dt) for c in comps])
    cfg = {'kind': kind, 'angles': ang.tolist(), 'data_dtype': str(np.dtype(data_dt))}
    rot = [restrict(mueller_rot(float(a)), kind) for a in ang]
    hw = restrict(M_HWP, kind)
    ops = [('R', lambda: QURotationOperator(jnp.asarray(ang), st), rot),
           ('R.T', lambda: QURotationOperator(jnp.asarray(ang), st).T, [m.T for m in rot]),
           ('HWP', lambda: HWPOperator(st), [hw] * nsamp),
           ('HWP.create', lambda: HWPOperator.create(shape, data_dt, kind, angles=jnp.asarray(ang)),
            [rot[t].T @ hw @ rot[t] for t in range(nsamp)]),
           ('Polarizer.create', lambda: LinearPolarizerOperator.create(shape, data_dt, kind, angles=jnp.asarray(ang)),
            [pol_row(kind) @ rot[t] for t in range(nsamp)])]
    xv = np.array(comps)
    tol = 1e-4 if cplx else 6e-2
    # parameters no wider than the data (wider angles legitimately promote Q and U): half-precision data, half-precision angles
    jang = jnp.asarray(ang) if cplx else jnp.asarray(ang, dtype=data_dt)
    ops = [(l, (lambda mk_=mk_: mk_()), m) for l, mk_, m in [
        ('R', lambda: QURotationOperator(jang, st), rot), ('R.T', lambda: QURotationOperator(jang, st).T, [m.T for m in rot]),
        ('HWP', lambda: HWPOperator(st), [hw] * nsamp),
        ('HWP.create', lambda: HWPOperator.create(shape, data_dt, kind, angles=jang), [rot[t].T @ hw @ rot[t] for t in range(nsamp)]),
        ('Polarizer.create', lambda: LinearPolarizerOperator.create(shape, data_dt, kind, angles=jang),
         [pol_row(kind) @ rot[t] for t in range(nsamp)])]]
    for label, mk, mats in ops:
        for reduced in (False, True):
            st_, op = safe(lambda: mk().reduce() if reduced else mk())
            if st_ != 'ok':
                ctx.fail(stream, i, f'dtype-raises:{label}:{st_}', str(op)[:150], cfg)
                continue
            st2, y = safe(op.mv, x)
            if st2 != 'ok':
                ctx.fail(stream, i, f'dtype-mv-raises:{label}:{st2}', str(y)[:150], cfg)
                continue
            leaves = jax.tree.leaves(y)
            declared = jax.tree.leaves(op.out_structure())
            if [l.dtype for l in leaves] != [d.dtype for d in declared] or (not label.startswith('Polarizer') and
                                                                               any(l.dtype != data_dt for l in leaves)):
                ctx.fail(stream, i, f'mueller-dtype:{label}{":reduced" if reduced else ""}', f'{label} on {cfg["data_dtype"]} data '
                         f'returns dtypes {[str(l.dtype) for l in leaves]}, declared {[str(d.dtype) for d in declared]}', cfg)
                break
            vals = [np.asarray(l).astype(np.complex128 if cplx else np.float64) for l in leaves]
            for t in range(nsamp):
                want = np.asarray(mats[t]) @ xv[:, t]
                got = np.array([l[t] for l in vals])
                if got.shape != want.shape or not np.allclose(got, want, rtol=tol, atol=tol):
                    ctx.fail(stream, i, f'mueller-{"complex" if cplx else "low-precision"}-data:{label}{":reduced" if reduced else ""}',
                             f'{label} on {cfg["data_dtype"]} data returns {got.tolist()}, the Mueller matrix gives {want.tolist()}', cfg)
                    break
    ctx.case(f'dtype:{kind}:{cfg["data_dtype"]}:{ang.tolist()}:{i}', True, sample=cfg)
    ctx.count('dtype:' + cfg['data_dtype'])


SQUARE_FORMS = [(k, (n, n), a) for k in ('QU', 'IQU', 'IQUV') for n in (2, 3) for a in ((n,), (n, 1), (1, n), (n, n), (1,))] + \
               [(k, (2, 3), a) for k in ('QU', 'IQU') for a in ((3,), (2, 1), (1, 3))]


def run(ctx: Ctx) -> None:
    for i, form in enumerate(SQUARE_FORMS):
        if ctx.want('square', i):
            # square sample shapes with every angle shape that broadcasts to them (pairwise different angles): an
            # (n,)-array of angles runs along the LAST axis
            one_case(ctx, 'square', i, forced=form)
    for i in range(40 if ctx.tier == 'quick' else 600):
        if ctx.want('dtype', i):
            dtype_case(ctx, 'dtype', i)
    n = 40 if ctx.tier == 'quick' else 800
    for i in range(n):
        if ctx.want('mueller', i):
            one_case(ctx, 'mueller', i)
    for i in range(24 if ctx.tier == 'quick' else 600):
        if ctx.want('wide', i):
            wide_case(ctx, 'wide', i)
