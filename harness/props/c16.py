"""C16 — the acquisition operator equals the explicit pointing model.  (partial)

Correspondence: the rotation matrix of `get_rotation_matrix` and the per-sample acquisition formula against the
model kernels.  Oracle on the implementation: an independent NumPy pointing model — Z-Y-Z Euler rotation
(phi_t, theta_t, psi_t) of every detector direction, healpy.vec2pix, (Q, U) rotated by 2 psi_t — against
`create_projection_operator`; `(I + Q cos 2psi − U sin 2psi)/2` against `create_acquisition`, before and after
reduction; `P.T @ P` against the diagonal of hit counts.  Samples whose pointed direction lies within 1e-4 rad of a
pixel boundary are not compared (float32 vs float64 trigonometry).  Workers alternate 64-bit mode off / on.
"""
from __future__ import annotations

from fractions import Fraction

import jax
import jax.numpy as jnp
import numpy as np

import gen
from common import Ctx, safe
from encode import frac_str

ENV_VARIANTS = [{'JAX_ENABLE_X64': '1'}, {'JAX_ENABLE_X64': '0'}]
META = {
    'rule': ('(nside in {1,2,4} quick / up to 16 thorough, Stokes kind, 1-4 detectors with one or several directions each, '
             '2-12 samples with random (theta, phi, psi), integer sky maps with pairwise distinct values); non-trivial = '
             'polarised kind (QU/IQU/IQUV); distinct by the configuration'),
    'trusted_base': [
        'Lean 4.33 kernel + Mathlib + standard axioms',
        'A5/A8: arccos, arctan2 and the HEALPix lookup are not modelled; the pixel function is arbitrary in the theorems '
        'and validated differentially against healpy (partial)',
    ],
    'assumptions': ['ambiguous samples (direction within 1e-4 rad of a pixel boundary) are skipped'],
}


def euler_zyz(phi, theta, psi):
    c1, s1, c2, s2, c3, s3 = np.cos(phi), np.sin(phi), np.cos(theta), np.sin(theta), np.cos(psi), np.sin(psi)
    rz1 = np.array([[c1, -s1, 0], [s1, c1, 0], [0, 0, 1.0]])
    ry = np.array([[c2, 0, s2], [0, 1.0, 0], [-s2, 0, c2]])
    rz3 = np.array([[c3, -s3, 0], [s3, c3, 0], [0, 0, 1.0]])
    return rz1 @ ry @ rz3


def one_case(ctx: Ctx, stream: str, i: int, max_nside: int) -> None:
    import healpy as hp
    from furax._base.core import CompositionOperator
    from furax.detectors import DetectorArray
    from furax.instruments.sat import create_acquisition
    from furax.landscapes import HealpixLandscape, StokesPyTree
    from furax.operators.hwp import HWPOperator
    from furax.operators.polarizers import LinearPolarizerOperator
    from furax.projections import create_projection_operator, get_rotation_matrix
    from furax.samplings import Sampling
    rng = ctx.rng(stream, i)
    x64 = bool(jax.config.jax_enable_x64)
    nside = rng.choice([n for n in (1, 2, 4, 8, 16) if n <= max_nside])
    kind = rng.choice(['I', 'QU', 'IQU', 'IQUV'])
    ndet, ndir, nsamp = rng.randint(1, 4), rng.choice([1, 1, 2, 3]), rng.randint(2, 12)
    if rng.random() < 0.35:
        # coinciding sizes: as many samples as detectors (a square time-ordered array), as many directions as detectors
        # or as samples — an array of per-sample angles must never be mistaken for per-detector ones
        ndet = rng.randint(2, 4)
        nsamp = ndet
        ndir = rng.choice([1, 1, ndet])
    npix = 12 * nside * nside
    dt = np.float64 if x64 else np.float32
    land = HealpixLandscape(nside, kind, dt)
    # Euler angles: mostly a co-latitude / longitude / position angle in their usual ranges, but any real triple is
    # a legal Z-Y-Z rotation: a third of the pointings use tilts outside [0, pi] and angles beyond one turn
    wide = rng.random() < 0.35
    if wide:
        theta = np.array([rng.choice([rng.uniform(-np.pi + 0.05, -0.05), rng.uniform(np.pi + 0.05, 2 * np.pi - 0.05),
                                      rng.uniform(0.05, np.pi - 0.05)]) for _ in range(nsamp)])
        phi = np.array([rng.uniform(-2 * np.pi, 4 * np.pi) for _ in range(nsamp)])
        psi = np.array([rng.uniform(-3 * np.pi, 3 * np.pi) for _ in range(nsamp)])
    else:
        theta = np.array([rng.uniform(0.05, np.pi - 0.05) for _ in range(nsamp)])
        phi = np.array([rng.uniform(0, 2 * np.pi) for _ in range(nsamp)])
        psi = np.array([rng.uniform(-np.pi, np.pi) for _ in range(nsamp)])
    samp = Sampling(jnp.asarray(theta, dtype=dt), jnp.asarray(phi, dtype=dt), jnp.asarray(psi, dtype=dt))
    dx = np.array([[rng.uniform(-0.2, 0.2) for _ in range(ndir)] for _ in range(ndet)])
    dy = np.array([[rng.uniform(-0.2, 0.2) for _ in range(ndir)] for _ in range(ndet)])
    dets = DetectorArray(dx, dy, 1.0)
    cfg = {'nside': nside, 'kind': kind, 'ndet': ndet, 'ndir': ndir, 'nsamp': nsamp, 'x64': x64,
           'euler_range': 'wide' if wide else 'usual'}
    ctx.count('euler:' + cfg['euler_range'])

    # ---- correspondence: rotation matrix ------------------------------------------------------------------
    rot = np.asarray(get_rotation_matrix(samp), dtype=np.float64)      # (3, 3, nsamp)
    t0 = rng.randrange(nsamp)
    th_, ph_, ps_ = (np.asarray(a)[t0] for a in (samp.theta, samp.phi, samp.pa))
    trig = [np.cos(ph_), np.sin(ph_), np.cos(th_), np.sin(th_), np.cos(ps_), np.sin(ps_)]
    rep = ctx.model.ask(['rotmat'] + [frac_str(Fraction(float(v))) for v in trig])
    mod = np.array([float(Fraction(v)) for v in rep[1]]).reshape(3, 3)
    tol = 1e-9 if x64 else 2e-5
    if not np.allclose(rot[:, :, t0], mod, atol=tol):
        ctx.disagree(stream, i, f'rotation matrix: implementation {rot[:, :, t0].tolist()} model {mod.tolist()}', cfg)
    if not np.allclose(rot[:, :, t0], euler_zyz(float(ph_), float(th_), float(ps_)), atol=tol):
        ctx.fail(stream, i, 'rotation-not-zyz', 'get_rotation_matrix is not Rz(phi) Ry(theta) Rz(psi)', cfg)

    # ---- independent pointing model ---------------------------------------------------------------------------
    coords = np.asarray(dets.coords, dtype=np.float64)                  # (3, ndet, ndir)
    pix = np.zeros((ndet, ndir, nsamp), dtype=int)
    vecs = np.zeros((ndet, ndir, nsamp, 3))
    ambiguous = np.zeros((ndet, ndir, nsamp), dtype=bool)
    for t in range(nsamp):
        r = euler_zyz(phi[t], theta[t], psi[t])
        for d in range(ndet):
            for k in range(ndir):
                v = r @ coords[:, d, k]
                vecs[d, k, t] = v
                pix[d, k, t] = hp.vec2pix(nside, *v)
                th, ph = hp.vec2ang(v)
                for dth, dph in ((1e-4, 0), (-1e-4, 0), (0, 1e-4), (0, -1e-4)):
                    if hp.ang2pix(nside, float(np.clip(th[0] + dth, 0, np.pi)), float(ph[0] + dph)) != pix[d, k, t]:
                        ambiguous[d, k, t] = True
    if ndir == 1:
        pix, ambiguous = pix[:, 0, :], ambiguous[:, 0, :]
    sky_comps = [np.arange(npix, dtype=np.float64) * (c + 1) + 100 * c + 1 for c in range(len(kind))]
    cls = StokesPyTree.class_for(kind)
    sky = cls(*[jnp.asarray(c, dtype=dt) for c in sky_comps])
    full = {'I': 0.0, 'Q': 0.0, 'U': 0.0, 'V': 0.0}

    def at(p):
        out = dict(full)
        for c, k in enumerate(kind):
            out[k] = sky_comps[c][p]
        return out

    # ---- projection ---------------------------------------------------------------------------------------------
    st, proj = safe(create_projection_operator, land, samp, dets)
    if st != 'ok':
        ctx.fail(stream, i, f'projection-ctor-raises:{st}', str(proj)[:200], cfg)
        return
    st, tod = safe(proj.mv, sky)
    if st != 'ok':
        ctx.fail(stream, i, f'projection-mv-raises:{st}', str(tod)[:200], cfg)
        return
    ptol = 1e-8 if x64 else 2e-3
    n_cmp = 0
    for idx in np.ndindex(pix.shape):
        if ambiguous[idx]:
            continue
        t = idx[-1]
        s = at(pix[idx])
        c, sn = np.cos(2 * psi[t]), np.sin(2 * psi[t])
        want = {'I': s['I'], 'Q': s['Q'] * c - s['U'] * sn, 'U': s['Q'] * sn + s['U'] * c, 'V': s['V']}
        for k in kind:
            got = float(np.asarray(getattr(tod, k.lower()))[idx])
            if abs(got - want[k]) > ptol * max(1.0, abs(want[k])):
                ctx.fail(stream, i, 'projection-wrong', f'detector/sample {idx}: component {k} = {got}, pointing model says '
                         f'{want[k]} (pixel {pix[idx]})', cfg)
                break
        n_cmp += 1
    ctx.count('samples-compared', n_cmp)
    ctx.count('samples-ambiguous', int(ambiguous.sum()))

    # ---- maps of a narrow dtype: the dtype of the MAP VALUES must not influence which pixel is read ------------------
    # (half precision holds integers exactly only up to 2048 / 256: the pixel is decoded from two maps holding the low
    # and the high part of the pixel number, both exactly representable)
    ndt = rng.choice([jnp.float16, jnp.bfloat16])
    base = 1024 if ndt == jnp.float16 else 128
    nside_n = rng.choice([16, 32])
    npix_n = 12 * nside_n * nside_n
    land_n = HealpixLandscape(nside_n, 'I', ndt)
    stn, proj_n = safe(create_projection_operator, land_n, samp, dets)
    if stn != 'ok':
        ctx.fail(stream, i, f'projection-ctor-raises:{stn}:narrow-map-dtype', str(proj_n)[:200], {**cfg, 'map_dtype': str(ndt)})
    else:
        icls = StokesPyTree.class_for('I')
        ids = np.arange(npix_n)
        parts = [ids % base, (ids // base) % base, ids // (base * base)]
        dec = np.zeros(vecs.shape[:3] if ndir > 1 else (ndet, nsamp), dtype=np.int64)
        ok_n = True
        for w, part in enumerate(parts):
            stn, todn = safe(proj_n.mv, icls(jnp.asarray(part, dtype=ndt)))
            if stn != 'ok':
                ctx.fail(stream, i, f'projection-mv-raises:{stn}:narrow-map-dtype', str(todn)[:200], cfg)
                ok_n = False
                break
            dec += np.asarray(todn.i, dtype=np.float64).astype(np.int64).reshape(dec.shape) * base ** w
        if ok_n:
            want_n = np.zeros(vecs.shape[:3], dtype=np.int64)
            amb_n = np.zeros(vecs.shape[:3], dtype=bool)
            for idx3 in np.ndindex(vecs.shape[:3]):
                v = vecs[idx3]
                want_n[idx3] = hp.vec2pix(nside_n, *v)
                th, ph = hp.vec2ang(v)
                for dth, dph in ((1e-4, 0), (-1e-4, 0), (0, 1e-4), (0, -1e-4)):
                    if hp.ang2pix(nside_n, float(np.clip(th[0] + dth, 0, np.pi)), float(ph[0] + dph)) != want_n[idx3]:
                        amb_n[idx3] = True
            if ndir == 1:
                want_n, amb_n = want_n[:, 0, :], amb_n[:, 0, :]
            bad = (dec != want_n) & ~amb_n
            if bad.any():
                k0 = tuple(int(v) for v in np.argwhere(bad)[0])
                ctx.fail(stream, i, 'projection-wrong-pixel:narrow-map-dtype',
                         f'{np.dtype(ndt) if ndt == jnp.float16 else "bfloat16"} map, nside {nside_n}: detector/sample {k0} reads '
                         f'pixel {int(dec[k0])}, the pointing model says {int(want_n[k0])} ({int(bad.sum())} of {bad.size})',
                         {**cfg, 'map_dtype': 'float16' if ndt == jnp.float16 else 'bfloat16', 'nside_narrow': nside_n})
            ctx.count('narrow-map:' + ('float16' if ndt == jnp.float16 else 'bfloat16'))

    # ---- a sibling landscape in the same process: same dtype and the same number of stored values
    # (len(stokes)·12·nside²) at ANOTHER resolution, same pointing shapes — each must be read at its own resolution
    sib = {'IQUV': ('I', 2 * nside), 'I': ('IQUV', nside // 2) if nside >= 2 else None}.get(kind)
    if sib is not None and sib[1] <= 32:
        skind, snside = sib
        sland = HealpixLandscape(snside, skind, dt)
        st_s, sproj = safe(create_projection_operator, sland, samp, dets)
        if st_s != 'ok':
            ctx.fail(stream, i, f'projection-ctor-raises:{st_s}:sibling', str(sproj)[:200], cfg)
        else:
            snpix = 12 * snside * snside
            scls = StokesPyTree.class_for(skind)
            smap = scls(*[jnp.asarray(np.arange(snpix, dtype=np.float64) + 1, dtype=dt) for _ in skind])
            st_s, stod = safe(sproj.mv, smap)
            if st_s != 'ok':
                ctx.fail(stream, i, f'projection-mv-raises:{st_s}:sibling', str(stod)[:200], cfg)
            else:
                gotp = np.asarray(stod.i, dtype=np.float64).reshape(vecs.shape[:3] if ndir > 1 else (ndet, nsamp)) - 1
                nbad = 0
                for idx3 in np.ndindex(vecs.shape[:3]):
                    v = vecs[idx3]
                    p0 = hp.vec2pix(snside, *v)
                    th, ph = hp.vec2ang(v)
                    robust = all(hp.ang2pix(snside, float(np.clip(th[0] + dth, 0, np.pi)), float(ph[0] + dph)) == p0
                                 for dth, dph in ((1e-4, 0), (-1e-4, 0), (0, 1e-4), (0, -1e-4)))
                    g = gotp[idx3] if ndir > 1 else gotp[idx3[0], idx3[2]]
                    if robust and int(round(g)) != p0:
                        nbad += 1
                if nbad:
                    ctx.fail(stream, i, 'projection-wrong-pixel:sibling-landscape',
                             f'HealpixLandscape({snside}, {skind!r}) used after HealpixLandscape({nside}, {kind!r}) in the same '
                             f'process: {nbad} of {gotp.size} detector-samples read another pixel than the pointing model says',
                             {**cfg, 'sibling': [skind, snside]})
            ctx.count('sibling-landscape')

    # ---- acquisition (only defined for one direction per detector: tod shape (ndet, nsamp)) -------------------
    if ndir == 1:
        st, acq = safe(create_acquisition, land, samp, dets)
        unreduced = None
        if st == 'ok':
            hwp = HWPOperator(proj.out_structure())
            pol = LinearPolarizerOperator.create((ndet, nsamp), dt, kind)
            unreduced = CompositionOperator([pol, hwp, proj])
        if st != 'ok':
            ctx.fail(stream, i, f'acquisition-raises:{st}', str(acq)[:200], cfg)
        else:
            for label, op in (('reduced', acq), ('unreduced', unreduced)):
                y = np.asarray(op.mv(sky), dtype=np.float64)
                for idx in np.ndindex(pix.shape):
                    if ambiguous[idx]:
                        continue
                    t = idx[-1]
                    s = at(pix[idx])
                    c, sn = np.cos(2 * psi[t]), np.sin(2 * psi[t])
                    want = {'I': s['I'] / 2, 'QU': (s['Q'] * c - s['U'] * sn) / 2}.get(
                        kind, (s['I'] + s['Q'] * c - s['U'] * sn) / 2)
                    if abs(y[idx] - want) > ptol * max(1.0, abs(want)):
                        ctx.fail(stream, i, f'acquisition-wrong:{label}', f'sample {idx}: {y[idx]} instead of '
                                 f'(I + Q cos 2psi - U sin 2psi)/2 = {want}', cfg)
                        break
                    if label == 'reduced' and idx == next(iter(np.ndindex(pix.shape))):
                        c32, s32 = np.cos(dt(2) * dt(psi[t])), np.sin(dt(2) * dt(psi[t]))
                        rep = ctx.model.ask(['acquire', kind, frac_str(Fraction(float(c32))), frac_str(Fraction(float(s32))),
                                             [frac_str(Fraction(s[k])) for k in kind]])
                        if abs(float(Fraction(rep[1])) - y[idx]) > ptol * max(1.0, abs(want)):
                            ctx.disagree(stream, i, f'acquisition sample: implementation {y[idx]} model {rep[1]}', cfg)
            ctx.count('acquisition')

    # ---- P.T @ P = diagonal of hit counts -------------------------------------------------------------------------
    ptp = proj.T @ proj          # as a user writes it: `@` flattens the two chains, so that the rules see every pair
    hits = np.bincount(pix.ravel(), minlength=npix).astype(np.float64)
    st_r, red = safe(ptp.reduce)
    if st_r != 'ok':
        ctx.fail(stream, i, f'ptp-raises:reduce:{st_r}', str(red)[:200], cfg)
    elif not ambiguous.any():
        from furax._base.diagonal import DiagonalOperator
        # (a) the reduced operator is a diagonal operator: its values ARE the hit counts, whatever the map size
        diag_ops = [o for o in ([red] + list(getattr(red, 'operands', []))) if isinstance(o, DiagonalOperator)]
        if len(diag_ops) != 1:
            ctx.fail(stream, i, 'ptp-not-simplified', f'reduce(P.T @ P) contains {len(diag_ops)} diagonal operators: '
                     f'{[type(o).__name__ for o in getattr(red, "operands", [red])]}', cfg)
        else:
            dvals = np.asarray(diag_ops[0]._diagonal, dtype=np.float64).ravel()
            if dvals.shape != hits.shape or not np.array_equal(dvals, hits):
                nbad = int((dvals != hits).sum()) if dvals.shape == hits.shape else -1
                ctx.fail(stream, i, 'ptp-not-hit-counts:reduced', f'the diagonal of reduce(P.T @ P) differs from the hit '
                         f'counts at {nbad} of {npix} pixels ({int((hits > 0).sum())} pixels hit by '
                         f'{pix.size} detector-samples)', cfg)
            ctx.count('ptp:reduced-diagonal-compared')
        # (b) both forms applied to maps: every component is multiplied by the hit counts
        probe = [np.array([rng.choice([1.0, 2.0, 3.0, -1.0, 5.0]) for _ in range(npix)]) for _ in kind]
        xmap = cls(*[jnp.asarray(c, dtype=dt) for c in probe])
        for label, op in (('unreduced', ptp), ('reduced', red)):
            st, ym = safe(op.mv, xmap)
            if st != 'ok':
                ctx.fail(stream, i, f'ptp-raises:{label}:{st}', str(ym)[:200], cfg)
                continue
            for c, k in enumerate(kind):
                got = np.asarray(getattr(ym, k.lower()), dtype=np.float64)
                if got.shape != hits.shape or not np.allclose(got, hits * probe[c], atol=1e-3 if not x64 else 1e-8):
                    ctx.fail(stream, i, f'ptp-not-hit-counts:{label}', f'(P.T @ P)(m) is not hit-counts × m on component {k}', cfg)
                    break
        # (c) small maps: the whole matrix
        if npix * len(kind) <= 200:
            want = np.kron(np.eye(len(kind)), np.diag(hits))
            for label, op in (('unreduced', ptp), ('reduced', red)):
                st, m = safe(gen.dense, op)
                if st != 'ok':
                    ctx.fail(stream, i, f'ptp-raises:{label}:{st}', str(m)[:200], cfg)
                elif not np.allclose(m, want, atol=1e-3 if not x64 else 1e-8):
                    ctx.fail(stream, i, f'ptp-not-hit-counts:{label}', 'P.T @ P is not the diagonal of hit counts', cfg)
        ctx.count('ptp')
    ctx.count(f'kind:{kind}')
    ctx.count(f'ndir:{ndir}')
    ctx.case(str(cfg) + str(theta.tolist()), kind != 'I', sample=cfg)


def run(ctx: Ctx) -> None:
    q = ctx.tier == 'quick'
    for i in range(28 if q else 500):
        if ctx.want('acq', i):
            one_case(ctx, 'acq', i, 4 if q else 16)
