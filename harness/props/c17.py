"""C17 — sky pixelisation maps coordinates to indices consistently.

Correspondence: StokesLandscape.pixel2index (rounding, stride accumulation, validity, -1, dtype) and
get_coverage against the model kernels.  Oracle on the implementation: independent NumPy formula
(np.round + np.ravel_multi_index), bijectivity by exhaustive enumeration of small maps, healpy as the
reference for HEALPix world-to-index, np.bincount for the coverage.  Workers alternate 64-bit mode off / on.
"""
from __future__ import annotations

from fractions import Fraction

import jax
import jax.numpy as jnp
import numpy as np

from common import Ctx, safe
from encode import frac_str

ENV_VARIANTS = [{'JAX_ENABLE_X64': '0'}, {'JAX_ENABLE_X64': '1'}]
META = {
    'rule': ('(map shape of 1-3 dimensions, real pixel coordinates: integers, exact ties k+1/2, dyadic fractions, negative '
             'and beyond the map in any dimension); all integer coordinates of small maps (exhaustive bijection check); '
             'HEALPix: all pixel centres and random directions per nside; samplings for the coverage; non-trivial = the '
             'coordinate tuple is inside the map and not all-integer, or a HEALPix/coverage comparison'),
    'trusted_base': [
        'Lean 4.33 kernel + standard axioms',
        'A5: jax_healpy.ang2pix is opaque to the model; agreement with healpy is differential only (partial)',
        'A1: jnp.round is round-half-to-even, jnp.unique / scatter-add as documented',
    ],
    'assumptions': ['coordinates are dyadic rationals so that float32 holds them exactly'],
}


def make_landscape(shape, dtype=np.float32):
    from furax.landscapes import StokesLandscape

    class _PlainLandscape(StokesLandscape):
        def world2pixel(self, theta, phi):
            return (theta, phi)

    return _PlainLandscape(shape, 'I', dtype)


def pix_case(ctx: Ctx, stream: str, i: int) -> None:
    rng = ctx.rng(stream, i)
    ndim = rng.choice([1, 2, 2, 3])
    pshape = tuple(rng.choice([1, 2, 3, 4, 5, 7]) for _ in range(ndim))     # pixel_shape (x fastest)
    land = make_landscape(pshape[::-1])
    npts = 6

    def coord(dim):
        k = rng.random()
        if k < 0.3:
            return float(rng.randint(-1, dim))
        if k < 0.55:
            return rng.randint(-1, dim) + 0.5
        if k < 0.9:
            return rng.randint(-8, 8 * dim + 8) / 8.0
        return float(rng.choice([-100, 1000, -0.5, dim - 0.5]))
    pts = [[coord(d) for d in pshape] for _ in range(npts)]
    arrs = [jnp.asarray(np.array([p[k] for p in pts], dtype=np.float32)) for k in range(ndim)]
    st, res = safe(land.pixel2index, *arrs)
    cfg = {'pixel_shape': pshape, 'points': pts}
    if st != 'ok':
        ctx.fail(stream, i, f'pixel2index-raises:{st}', f'pixel2index raised {st}: {res}', cfg)
        return
    res = np.asarray(res)
    n = int(np.prod(pshape))
    want_dtype = np.int32 if n - 1 <= 2**31 - 1 else np.int64
    if res.dtype != want_dtype:
        ctx.fail(stream, i, 'index-dtype', f'index dtype {res.dtype}, expected {np.dtype(want_dtype)}', cfg)
    for t, p in enumerate(pts):
        r = [int(np.round(np.float32(c))) for c in p]
        inside = all(0 <= rk < d for rk, d in zip(r, pshape))
        want = -1
        if inside:
            want = int(np.ravel_multi_index(tuple(r[::-1]), pshape[::-1]))
        if int(res[t]) != want:
            ctx.fail(stream, i, 'pixel2index-wrong', f'pixel2index{tuple(p)} on pixel_shape {pshape} = {int(res[t])}, '
                     f'expected {want}', cfg)
        rep = ctx.model.ask(['pixel2index', [str(d) for d in pshape], [frac_str(Fraction(c)) for c in p]])
        if rep[0] != 'ok' or int(rep[1]) != int(res[t]):
            ctx.disagree(stream, i, f'pixel2index{tuple(p)} shape {pshape}: implementation {int(res[t])}, model {rep}', cfg)
        ctx.case(f'pix:{pshape}:{p}', inside and any(c != int(c) for c in p),
                 sample={'pixel_shape': pshape, 'coords': p, 'index': int(res[t])})
    ctx.count(f'pix:ndim{ndim}')


def bijection_case(ctx: Ctx, stream: str, i: int) -> None:
    rng = ctx.rng(stream, i)
    ndim = rng.choice([1, 2, 3])
    pshape = tuple(rng.choice([1, 2, 3, 4]) for _ in range(ndim))
    land = make_landscape(pshape[::-1])
    grids = np.meshgrid(*[np.arange(d) for d in pshape], indexing='ij')
    arrs = [jnp.asarray(g.ravel().astype(np.float32)) for g in grids]
    st, res = safe(land.pixel2index, *arrs)
    cfg = {'pixel_shape': pshape}
    if st != 'ok':
        ctx.fail(stream, i, f'pixel2index-raises:{st}', str(res), cfg)
        return
    res = np.asarray(res)
    n = int(np.prod(pshape))
    if sorted(res.tolist()) != list(range(n)):
        ctx.fail(stream, i, 'pixel2index-not-bijective', f'integer in-map coordinates of {pshape} are not in bijection '
                 f'with 0..{n - 1}: {sorted(res.tolist())}', cfg)
    # first coordinate fastest
    want = sum(g.ravel() * int(np.prod(pshape[:k])) for k, g in enumerate(grids))
    if not np.array_equal(res, want):
        ctx.fail(stream, i, 'pixel2index-order', 'index is not row-major with the first coordinate fastest', cfg)
    ctx.case(f'bij:{pshape}', n > 1, sample={'pixel_shape': pshape, 'exhaustive_points': n})
    ctx.count('bijection')


def healpix_case(ctx: Ctx, stream: str, i: int, max_nside: int) -> None:
    import healpy as hp
    from furax.landscapes import HealpixLandscape
    from furax.samplings import Sampling
    rng = ctx.rng(stream, i)
    x64 = bool(jax.config.jax_enable_x64)
    nsides = [n for n in (1, 2, 4, 8, 16, 32, 64) if n <= max_nside]
    nside = rng.choice(nsides if x64 else [n for n in nsides if n <= 16])
    land = HealpixLandscape(nside, 'I', np.float64 if x64 else np.float32)
    npix = 12 * nside * nside
    ipix = np.array(sorted(rng.sample(range(npix), min(npix, 200))))
    theta, phi = hp.pix2ang(nside, ipix)
    cfg = {'nside': nside, 'x64': x64}
    dt = np.float64 if x64 else np.float32
    st, got = safe(land.world2index, jnp.asarray(theta.astype(dt)), jnp.asarray(phi.astype(dt)))
    if st != 'ok':
        ctx.fail(stream, i, f'world2index-raises:{st}', str(got), cfg)
        return
    got = np.asarray(got)
    if not np.array_equal(got, ipix):
        bad = int(np.argmax(got != ipix))
        ctx.fail(stream, i, 'healpix-centres', f'nside={nside}: centre of pixel {ipix[bad]} maps to {got[bad]}', cfg)
    if x64:
        th = np.arccos(np.array([rng.uniform(-1, 1) for _ in range(300)]))
        ph = np.array([rng.uniform(0, 2 * np.pi) for _ in range(300)])
        st, got = safe(land.world2index, jnp.asarray(th), jnp.asarray(ph))
        ref = hp.ang2pix(nside, th, ph)
        if st != 'ok' or not np.array_equal(np.asarray(got), ref):
            ctx.fail(stream, i, 'healpix-random-directions', f'nside={nside}: world2index differs from healpy.ang2pix', cfg)
        # coverage = histogram of hits
        samp = Sampling(jnp.asarray(th), jnp.asarray(ph), jnp.zeros(len(th)))
        st, cov = safe(land.get_coverage, samp)
        if st != 'ok':
            ctx.fail(stream, i, f'coverage-raises:{st}', str(cov), cfg)
        else:
            cov = np.asarray(cov)
            want = np.bincount(ref, minlength=npix)
            if cov.shape != (npix,) or not np.array_equal(cov, want) or int(cov.sum()) != len(th):
                ctx.fail(stream, i, 'coverage-wrong', 'coverage is not the histogram of hits / does not sum to #samples', cfg)
            rep = ctx.model.ask(['coverage', str(npix), [str(int(v)) for v in ref]])
            if rep[0] != 'ok' or [int(v) for v in rep[1]] != cov.tolist():
                ctx.disagree(stream, i, f'coverage nside={nside}: model and implementation differ', cfg)
        ctx.count('healpix:random+coverage')
    ctx.case(f'healpix:{nside}:{x64}:{ipix[:5].tolist()}', True, sample={'nside': nside, 'x64': x64, 'centres': len(ipix)})
    ctx.count(f'healpix:nside{nside}')


def mixed_dtype_case(ctx: Ctx, stream: str, i: int) -> None:
    """every axis's coordinate is rounded on its OWN: the coordinates of one call may come in different dtypes (an
    integer or wide-float axis next to a float16 one, Python numbers, NumPy arrays) and an axis may be longer than what
    a narrow float can count (2048 for float16): each coordinate must be rounded in the dtype it came in"""
    rng = ctx.rng(stream, i)
    if i % 3 == 0:          # (3 is coprime to the number of workers: both 64-bit modes get such cases)
        # INTEGER coordinates on an axis longer than 2**24: an integer is its own nearest pixel, whatever float32 can hold
        n = 2 ** 25 + 8
        land = make_landscape((n,))
        xs = [2 ** 24 + 1, 2 ** 24 + 3, n - 1, n, 5, 2 ** 25 + 1, -1, 2 ** 24 - 1]
        form = rng.choice(['int32', 'numpy-int64', 'numpy-int32'])
        coord = jnp.asarray(np.asarray(xs), dtype=jnp.int32) if form == 'int32' else np.asarray(xs, dtype=np.int64 if form == 'numpy-int64' else np.int32)
        st, res = safe(land.pixel2index, coord)
        cfg = {'pixel_shape': (n,), 'x': xs, 'x_dtype': form}
        if st != 'ok':
            ctx.fail(stream, i, f'pixel2index-raises:{st}', f'pixel2index raised {st} on integer coordinates: {str(res)[:150]}', cfg)
            return
        want = [x if 0 <= x < n else -1 for x in xs]
        got = [int(v) for v in np.asarray(res)]
        if got != want:
            ctx.fail(stream, i, 'pixel2index-wrong:integer-coordinates-beyond-2**24', f'pixel2index on integer coordinates {xs} of a '
                     f'{n}-pixel axis = {got}, expected {want}', cfg)
        ctx.case(f'mixed:bigint:{form}', True, sample=cfg)
        ctx.count('mixed:bigint:' + form)
        return
    long_axis = rng.choice([2100, 4100, 4098, 2050])
    pshape = (long_axis, rng.choice([2, 3]))                       # pixel_shape (x fastest)
    if rng.random() < 0.3:
        pshape = pshape + (2,)
    land = make_landscape(pshape[::-1])
    npts = 6
    xs = [rng.choice([2049, 2051, long_axis - 1, long_axis, 2047, 1, long_axis - 3, 3001]) for _ in range(npts)]
    rest = [[rng.randint(-1, d) for _ in range(npts)] for d in pshape[1:]]
    xdt = rng.choice(['int32', 'float32', 'python', 'float64' if jax.config.jax_enable_x64 else 'float32', 'numpy-int64'])
    odt = rng.choice(['float16', 'float16', 'bfloat16', 'float32'])

    def mk(vals, dt):
        if dt == 'python':
            return np.asarray(vals, dtype=np.int64).tolist() if len(vals) > 1 else vals[0]
        if dt == 'numpy-int64':
            return np.asarray(vals, dtype=np.int64)
        return jnp.asarray(np.asarray(vals, dtype=np.float64), dtype=getattr(jnp, dt))
    coords = [mk(xs, xdt)] + [mk(r, odt) for r in rest]
    if xdt == 'python':
        coords[0] = jnp.asarray(np.asarray(xs), dtype=jnp.int32) if rng.random() < 0.5 else np.asarray(xs, dtype=np.int32)
    st, res = safe(land.pixel2index, *coords)
    cfg = {'pixel_shape': pshape, 'x': xs, 'x_dtype': xdt, 'other_dtype': odt, 'others': rest}
    if st != 'ok':
        ctx.fail(stream, i, f'pixel2index-raises:{st}', f'pixel2index raised {st}: {str(res)[:150]}', cfg)
        return
    res = np.asarray(res)
    for t in range(npts):
        r = [xs[t]] + [rk[t] for rk in rest]
        inside = all(0 <= rk < d for rk, d in zip(r, pshape))
        want = int(np.ravel_multi_index(tuple(r[::-1]), pshape[::-1])) if inside else -1
        if int(res[t]) != want:
            ctx.fail(stream, i, 'pixel2index-wrong:mixed-coordinate-dtypes', f'pixel2index{tuple(r)} on pixel_shape {pshape} with x as '
                     f'{xdt} and the other axes as {odt} = {int(res[t])}, expected {want}', cfg)
            break
    ctx.case(f'mixed:{pshape}:{xdt}:{odt}:{xs}', True, sample=cfg)
    ctx.count(f'mixed:{xdt}:{odt}')


def bigmap_case(ctx: Ctx, stream: str, i: int) -> None:
    """a map with more than 2**31 pixels needs int64 indices"""
    x64 = bool(jax.config.jax_enable_x64)
    land = make_landscape((65536, 65536))
    pts = [(65535.0, 65535.0), (0.0, 32768.0), (1.0, 40000.0)]
    xs = jnp.asarray(np.array([p[0] for p in pts], dtype=np.float32))
    ys = jnp.asarray(np.array([p[1] for p in pts], dtype=np.float32))
    st, res = safe(land.pixel2index, xs, ys)
    want = [int(p[0]) + 65536 * int(p[1]) for p in pts]
    rep = ctx.model.ask(['index-dtype', str(65536 * 65536)])
    cfg = {'shape': (65536, 65536), 'x64': x64}
    got = None if st != 'ok' else [int(v) for v in np.asarray(res)]
    if got != want:
        ctx.fail(stream, i, 'big-map-index-without-int64' if not x64 else 'big-map-index-wrong',
                 f'65536x65536 map, x64={x64}: pixel2index gives {got}, expected {want} (model dtype {rep})', cfg)
    ctx.case(f'bigmap:{x64}', True, sample={'shape': [65536, 65536], 'x64': x64, 'got': got, 'want': want})
    ctx.count('bigmap')


def healpix_family_case(ctx: Ctx, stream: str, i: int) -> None:
    """Several HEALPix landscapes used in the SAME process, chosen so that totals coincide across Stokes kinds and
    resolutions (IQUV at nside n has as many values as I at nside 2n; frequency maps multiply the count again): each
    must keep answering at its own resolution, in whichever order they are used."""
    import healpy as hp
    from furax.landscapes import HealpixLandscape
    rng = ctx.rng(stream, i)
    n = rng.choice([1, 2, 4])
    dt = np.float64 if jax.config.jax_enable_x64 else np.float32
    family = [('I', 2 * n, None), ('IQUV', n, None), ('QU', n, None), ('I', 4 * n, None), ('IQU', 2 * n, None),
              ('I', n, None), ('IQUV', 2 * n, None)]
    rng.shuffle(family)
    th = np.arccos(np.array([rng.uniform(-0.95, 0.95) for _ in range(40)]))
    ph = np.array([rng.uniform(0.05, 2 * np.pi - 0.05) for _ in range(40)])
    for kind, nside, nfreq in family[:5]:
        land = HealpixLandscape(nside, kind, dt)
        # directions at pixel centres of THIS resolution: robust to the coordinate precision
        ipix = hp.ang2pix(nside, th, ph)
        tc, pc = hp.pix2ang(nside, ipix)
        st, got = safe(land.world2index, jnp.asarray(tc.astype(dt)), jnp.asarray(pc.astype(dt)))
        cfg = {'nside': nside, 'stokes': kind, 'frequencies': nfreq, 'family': [list(map(str, f)) for f in family[:5]]}
        if st != 'ok':
            ctx.fail(stream, i, f'world2index-raises:{st}', str(got)[:150], cfg)
            continue
        got = np.asarray(got)
        got_pix = got if got.ndim == 1 else got[-1]
        if got_pix.shape != ipix.shape or not np.array_equal(got_pix, ipix):
            ctx.fail(stream, i, 'healpix-centres:among-other-landscapes',
                     f'{type(land).__name__}(nside={nside}, {kind!r}) used after other landscapes: world2index differs from '
                     f'healpy for {int((got_pix != ipix).sum()) if got_pix.shape == ipix.shape else "all"} of {len(ipix)} '
                     f'pixel centres (max index {int(got_pix.max())}, map has {12 * nside * nside} pixels)', cfg)
        ctx.count(f'family:{kind}:{nside}:{nfreq}')
    ctx.case(f'family:{n}:{family}', True, sample={'family': [list(map(str, f)) for f in family[:5]]})


def precision_case(ctx: Ctx, stream: str, i: int) -> None:
    """64-bit mode: double-precision sky directions on landscapes whose MAP dtype is narrower, at fine resolutions: the
    pixel is decided by the directions as given (healpy on the same float64 angles); directions within 1e-9 rad of a
    pixel border are not compared."""
    import healpy as hp
    from furax.landscapes import HealpixLandscape
    if not jax.config.jax_enable_x64:
        ctx.count('precision:skipped-32-bit-mode')
        return
    rng = ctx.rng(stream, i)
    nside = rng.choice([1024, 2048, 4096])
    mdt = rng.choice([np.float32, np.float32, np.float16, np.float64])
    land = HealpixLandscape(nside, 'I', mdt)
    nprng = np.random.default_rng(rng.getrandbits(32))
    npts = 60000
    th = np.arccos(nprng.uniform(-1, 1, npts))
    ph = nprng.uniform(0, 2 * np.pi, npts)
    st, got = safe(land.world2index, jnp.asarray(th), jnp.asarray(ph))
    cfg = {'nside': nside, 'map_dtype': str(np.dtype(mdt)), 'points': npts}
    if st != 'ok':
        ctx.fail(stream, i, f'world2index-raises:{st}', str(got)[:150], cfg)
        return
    got = np.asarray(got)
    ref = hp.ang2pix(nside, th, ph)
    bad = np.nonzero(got != ref)[0]
    robust = []
    for k in bad[:200]:
        eps = 1e-9
        if all(hp.ang2pix(nside, float(np.clip(th[k] + a, 0, np.pi)), float(ph[k] + b)) == ref[k]
               for a, b in ((eps, 0), (-eps, 0), (0, eps), (0, -eps))):
            robust.append(int(k))
    if robust:
        k = robust[0]
        ctx.fail(stream, i, 'healpix-random-directions:fine-resolution',
                 f'nside={nside}, map dtype {cfg["map_dtype"]}: {len(robust)} of {npts} double-precision directions (not within '
                 f'1e-9 rad of a border) fall in another pixel than healpy says, e.g. theta={th[k]!r} phi={ph[k]!r}: '
                 f'{int(got[k])} vs {int(ref[k])}', cfg)
    ctx.count('precision:' + cfg['map_dtype'])
    ctx.case(f'precision:{nside}:{cfg["map_dtype"]}:{i}', True, sample={'precision': cfg, 'border_ties': int(len(bad) - len(robust))})


def run(ctx: Ctx) -> None:
    q = ctx.tier == 'quick'
    for i in range(120 if q else 3000):
        if ctx.want('pix', i):
            pix_case(ctx, 'pix', i)
    for i in range(30 if q else 300):
        if ctx.want('bij', i):
            bijection_case(ctx, 'bij', i)
    for i in range(16 if q else 200):
        if ctx.want('healpix', i):
            healpix_case(ctx, 'healpix', i, 8 if q else 64)
    for i in range(16 if q else 200):
        if ctx.want('family', i):
            healpix_family_case(ctx, 'family', i)
    for i in range(8 if q else 80):
        if ctx.want('precision', i):
            precision_case(ctx, 'precision', i)
    for i in range(24 if ctx.tier == 'quick' else 400):
        if ctx.want('mixed', i):
            mixed_dtype_case(ctx, 'mixed', i)
    for i in range(2):
        if ctx.want('bigmap', i):
            bigmap_case(ctx, 'bigmap', i)
