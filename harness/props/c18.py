"""C18 — results do not depend on JIT compilation or pytree round trips.  (partial)

The pytree protocol (field partition of operator classes, landscape metadata keys vs constructor parameters) is
a table theorem.  Tracing is outside the model: every generated operator is applied in four modes — eager, jit
over a closure, equinox.filter_jit with the operator as argument (skipped for operators selecting through a
boolean-mask array), after a flatten/unflatten round trip — and values, shapes and dtypes are compared; every
landscape class is round-tripped.  Workers alternate 64-bit mode off / on.
"""
from __future__ import annotations

import equinox
import jax
import jax.numpy as jnp
import numpy as np

import gen
from common import Ctx, safe
from encode import Encoder, sx

ENV_VARIANTS = [{'JAX_ENABLE_X64': '0'}, {'JAX_ENABLE_X64': '1'}]
META = {
    'rule': ('random operators and composite expressions (generator of C01) × {eager, jit over a closure, filter_jit with the '
             'operator as argument, flatten/unflatten} × 64-bit mode on/off; all landscape classes × Stokes kinds; '
             'non-trivial = a composite or parameterised operator; distinct by the canonical S-expression'),
    'trusted_base': [
        'Lean 4.33 kernel + standard axioms (table theorems only)',
        'A7: equinox modules flatten field-wise; jax.jit is semantics-preserving for trace-safe code — NOT modelled: '
        'jit/eager agreement is differential only (partial)',
    ],
    'assumptions': [],
}


def has_bool_mask(op) -> bool:
    return any(getattr(l, 'dtype', None) == jnp.bool_ for l in jax.tree.leaves(op))


def same_values(a, b, tol=1e-5):
    la, lb = jax.tree.leaves(a), jax.tree.leaves(b)
    if jax.tree.structure(a) != jax.tree.structure(b) or len(la) != len(lb):
        return False
    return all(x.shape == y.shape and x.dtype == y.dtype and
               np.allclose(np.asarray(x), np.asarray(y), rtol=tol, atol=tol) for x, y in zip(la, lb))


def op_case(ctx: Ctx, stream: str, i: int) -> None:
    rng = ctx.rng(stream, i)
    if stream == 'special':
        # parameter values at which a shortcut could apply (unit / zero / negative-unit scales, all-ones diagonals,
        # zero angles), given as weakly typed Python numbers and as strongly typed scalars narrower or WIDER than the data
        from furax._base.core import HomothetyOperator
        from furax._base.diagonal import DiagonalOperator
        x64 = bool(jax.config.jax_enable_x64)
        leaf_dt = rng.choice([jnp.float16, jnp.float32] + ([jnp.float64] if x64 else []))
        nleaf = rng.choice([1, 2])
        leaves = [jax.ShapeDtypeStruct((rng.choice([2, 3]),), leaf_dt) for _ in range(nleaf)]
        s = leaves[0] if nleaf == 1 else leaves
        v = rng.choice([1, 1, 1, 0, -1, 2])
        form = rng.choice(['python-int', 'python-float', 'np.float32', 'jnp.float16', 'jnp.float32',
                           'jnp.float64' if x64 else 'jnp.float32', 'np.float64'])
        value = {'python-int': int(v), 'python-float': float(v), 'np.float32': np.float32(v),
                 'np.float64': np.float64(v), 'jnp.float16': jnp.asarray(v, dtype=jnp.float16),
                 'jnp.float32': jnp.asarray(v, dtype=jnp.float32),
                 'jnp.float64': jnp.asarray(v, dtype=jnp.float64 if x64 else jnp.float32)}[form]
        kind = rng.choice(['homothety', 'homothety', 'homothety', 'diagonal', 'scaled', 'divided'])
        if kind == 'homothety':
            op = HomothetyOperator(value, s)
        elif kind == 'diagonal':
            n = leaves[0].shape[0]
            op = DiagonalOperator(jnp.full((n,), v, dtype=rng.choice([jnp.float16, jnp.float32])),
                                  in_structure=leaves[0])
        elif kind == 'scaled':
            op = value * gen.mk_identity(rng, s) if not isinstance(value, int) or True else None
        else:
            d = gen.mk_diagonal(rng, leaves[0]) if nleaf == 1 else None
            base = d if d is not None else gen.mk_identity(rng, s)
            op = (2 * base) @ (base.I if d is not None else base) / 2 if v == 1 else base / (value if v != 0 else 2)
        ctx.count(f'special:{kind}:{form}:{v}')
    elif stream == 'index':
        # index operators whose integer array is CONCRETE when applied eagerly and TRACED when the operator is a jit
        # argument: value-dependent shortcuts would make the modes disagree.  Arrays that look like a range from
        # their end points (a permutation or a repeat inside a..b), sorted runs, scattered values, negative aliases.
        from furax._base.indices import IndexOperator
        nd = rng.choice([1, 2])
        n = rng.choice([4, 5, 6])
        shape = (n,) if nd == 1 else rng.choice([(n, 3), (2, n)])
        axis = 0 if shape[0] == n else 1
        s = jax.ShapeDtypeStruct(shape, jnp.float32)
        a = rng.randint(0, n - 3)
        b = rng.randint(a + 2, n - 1)
        mid = list(range(a + 1, b))
        rng.shuffle(mid)
        form = rng.choice(['range-permuted', 'range-with-repeat', 'sorted-run', 'scattered', 'reversed'])
        if form == 'range-with-repeat' and mid:
            mid[rng.randrange(len(mid))] = rng.choice([a, b] + mid)
        vals = {'range-permuted': [a] + mid + [b], 'range-with-repeat': [a] + mid + [b],
                'sorted-run': list(range(a, b + 1)), 'reversed': list(range(b, a - 1, -1)),
                'scattered': [rng.randint(-n, n - 1) for _ in range(rng.randint(2, n))]}[form]
        arr = jnp.asarray(np.asarray(vals, dtype=np.int32))
        indices = (arr,) if axis == 0 else (slice(None), arr)
        if axis == 0 and nd == 2 and rng.random() < 0.5:
            indices = (arr, Ellipsis)
        op = IndexOperator(indices, in_structure=s)
        if rng.random() < 0.4:
            op = op.T
        ctx.count('index-form:' + form)
    elif stream == 'toeplitz':
        # every small (length, number of bands, method, transform size, band batch) combination: data shorter than the
        # kernel, a single band, explicit minimal / odd / default transform sizes, one band row per detector
        op, label = gen.toeplitz_grid(i, rng)
        s = op.in_structure()
        if rng.random() < 0.3:
            op = op @ gen.mk_identity(rng, s) if rng.random() < 0.5 else 2.0 * op
        ctx.count('toeplitz:' + label)
    elif stream == 'inverse':
        # a lazy inverse (iterative solve needing several steps), alone or inside a composition
        s = gen.S(rng.choice([5, 6, 8]))
        a = None
        while a is None or a.band_values.shape[-1] < 2:
            a = gen.mk_toeplitz(rng, s, spd=True)
        op = a.I
        k = rng.random()
        if k < 0.3:
            op = op @ gen.mk_diagonal(rng, s)
        elif k < 0.6:
            op = gen.mk_homothety(rng, s) @ op @ a.T
    elif rng.random() < 0.5:
        s = gen.random_structure(rng)
        op = gen.gen_step(rng, s, 1)
    else:
        op, _ = gen.gen_expression(rng, max_len=4, depth=1)
    name = type(op).__name__
    enc = Encoder()
    st, esx = safe(enc.op, op)
    key = sx(esx) if st == 'ok' else f'{name}:{i}'
    x = gen.random_input(rng, op.in_structure())
    # the ORDER of the modes must not matter: for every other operator the first application of the fresh object happens
    # under a trace (jit over a closure), the eager one comes second — anything the operator memoises on first use
    # (a cached property, a lazily filled attribute) is then created inside the trace
    traced_first = i % 2 == 1
    if traced_first:
        st_first, y_first = safe(lambda: jax.jit(lambda v: op.mv(v))(x))
        ctx.count('order:traced-first')
    st, y0 = safe(op.mv, x)
    if st != 'ok':
        ctx.fail(stream, i, f'eager-raises:{name}:{st}' + (':after-a-traced-application' if traced_first else ''), str(y0)[:150],
                 {'expr': key[:1500], 'traced_first': traced_first})
        return
    if traced_first and (st_first != 'ok' or not same_values(y0, y_first)):
        ctx.fail(stream, i, f'jit-closure-first:{name}', f'the first application, under jit over a closure, differs from the eager one '
                 f'that follows ({st_first})', {'expr': key[:1500]})
    cfg = {'class': name, 'x64': bool(jax.config.jax_enable_x64), 'expr': key[:1500]}
    # declared structure
    # (declared structures are C05's subject and only claimed there for parameters no wider than the data: the
    # stream `special` deliberately uses wider parameters, for which only the agreement between the modes is C18's)
    if stream != 'special' and not gen.same_structure(jax.eval_shape(lambda: y0), op.out_structure()):
        ctx.fail(stream, i, f'out-structure-vs-eager:{name}', 'eager result does not have out_structure()', cfg)
    # jit over a closure
    f1 = jax.jit(lambda v: op.mv(v))
    f2 = equinox.filter_jit(lambda o, v: o.mv(v))
    st, y1 = safe(lambda: f1(x))
    if st != 'ok' or not same_values(y0, y1):
        ctx.fail(stream, i, f'jit-closure:{name}', f'jit over a closure differs from eager ({st}: {str(y1)[:100]})', cfg)
    # filtering jit with the operator as argument
    if not has_bool_mask(op):
        st, y2 = safe(lambda: f2(op, x))
        if st != 'ok' or not same_values(y0, y2):
            ctx.fail(stream, i, f'filter-jit:{name}', f'filter_jit with the operator as argument differs from eager '
                     f'({st}: {str(y2)[:100]})', cfg)
        ctx.count('mode:filter_jit')
    else:
        ctx.count('mode:filter_jit-skipped-boolean-mask')
    # an operator is a value: applying it again — eagerly or through the functions traced above — while a
    # different ambient solver configuration is active gives the same result
    import lineax as lx
    from furax._base.config import Config
    with Config(solver=lx.CG(rtol=1e-12, atol=1e-12, max_steps=1), solver_callback=lambda sol: None):
        modes = [('eager', lambda: op.mv(x)), ('jit-closure', lambda: f1(x))]
        if not has_bool_mask(op):
            modes.append(('filter-jit', lambda: f2(op, x)))
        for mode, fn in modes:
            st, yb = safe(fn)
            if st != 'ok' or not same_values(y0, yb):
                ctx.fail(stream, i, f'ambient-config-changes-result:{mode}:{name}',
                         f'{mode} application inside an unrelated Config block differs from the application outside '
                         f'({st}: {str(yb)[:100]})', cfg)
                break
    # flatten / unflatten
    st, op2 = safe(lambda: jax.tree.unflatten(*reversed(jax.tree.flatten(op))))
    if st != 'ok':
        ctx.fail(stream, i, f'roundtrip-raises:{name}:{st}', str(op2)[:150], cfg)
    else:
        ok = type(op2) is type(op) and gen.same_structure(op2.in_structure(), op.in_structure()) and \
            gen.same_structure(op2.out_structure(), op.out_structure())
        st, y3 = safe(op2.mv, x)
        if not ok or st != 'ok' or not same_values(y0, y3):
            ctx.fail(stream, i, f'roundtrip:{name}', 'flatten/unflatten changes the structures or the action', cfg)
    ctx.count('class:' + name)
    ctx.case(key, name not in ('IdentityOperator',), sample={'class': name, 'x64': cfg['x64']})


def landscape_case(ctx: Ctx, stream: str, i: int) -> None:
    from furax.landscapes import FrequencyLandscape, HealpixLandscape
    rng = ctx.rng(stream, i)
    kind = rng.choice(['I', 'QU', 'IQU', 'IQUV'])
    nside = rng.choice([1, 2, 4])
    for mk in (lambda: HealpixLandscape(nside, kind, np.float32),
               lambda: FrequencyLandscape(nside, jnp.asarray([1.0, 2.0, 3.0][:rng.randint(1, 3)]), kind, np.float32)):
        land = mk()
        name = type(land).__name__
        st, l2 = safe(lambda: jax.tree.unflatten(*reversed(jax.tree.flatten(land))))
        if st != 'ok':
            ctx.fail(stream, i, f'landscape-roundtrip-raises:{name}:{st}', str(l2)[:150], {'class': name})
            continue
        same = type(l2) is type(land) and l2.shape == land.shape and l2.stokes == land.stokes and \
            l2.nside == land.nside and np.dtype(l2.dtype) == np.dtype(land.dtype) and \
            gen.same_structure(l2.structure, land.structure)
        if not same:
            ctx.fail(stream, i, f'landscape-roundtrip:{name}', 'round trip changes shape / stokes / nside / dtype / structure', {})
        th = jnp.asarray([0.3, 1.2, 2.5], dtype=jnp.float32)
        ph = jnp.asarray([0.1, 3.0, 5.5], dtype=jnp.float32)
        if not np.array_equal(np.asarray(land.world2index(th, ph)), np.asarray(l2.world2index(th, ph))):
            ctx.fail(stream, i, f'landscape-action:{name}', 'world2index differs after the round trip', {})
        if jax.tree.structure(land.zeros()) != jax.tree.structure(l2.zeros()):
            ctx.fail(stream, i, f'landscape-zeros:{name}', 'zeros() differs after the round trip', {})
        ctx.count('landscape:' + name)
        ctx.case(f'{name}:{kind}:{nside}', True, sample={'landscape': name, 'stokes': kind, 'nside': nside})


_CAR = None


def car_class():
    """a user-defined landscape, as the library intends them: a registered subclass of the abstract StokesLandscape
    inheriting its pytree protocol (the repository's own tests define the same toy class)"""
    global _CAR
    if _CAR is None:
        from furax.landscapes import StokesLandscape

        @jax.tree_util.register_pytree_node_class
        class CARStokesLandscape(StokesLandscape):
            def world2pixel(self, theta, phi):
                return theta, phi
        _CAR = CARStokesLandscape
    return _CAR


def custom_landscape_case(ctx: Ctx, stream: str, i: int) -> None:
    rng = ctx.rng(stream, i)
    cls = car_class()
    shape = rng.choice([(5, 2), (2, 5), (3, 3), (4,), (2, 3, 4), (6, 1)])
    kind = rng.choice(['I', 'QU', 'IQU', 'IQUV'])
    dt = rng.choice([np.float32, np.float64 if jax.config.jax_enable_x64 else np.float16])
    by_pixel_shape = rng.random() < 0.4
    land = cls(pixel_shape=shape[::-1], stokes=kind, dtype=dt) if by_pixel_shape else cls(shape, kind, dt)
    cfg = {'shape': shape, 'stokes': kind, 'dtype': str(np.dtype(dt)), 'built_from_pixel_shape': by_pixel_shape}
    coords = [jnp.asarray([float(rng.randint(0, d - 1)) for _ in range(6)]) for d in shape[::-1]]
    want_idx = np.asarray(land.pixel2index(*coords))

    def same(l2, how):
        ok = type(l2) is type(land) and tuple(l2.shape) == tuple(land.shape) and \
            tuple(l2.pixel_shape) == tuple(land.pixel_shape) and l2.stokes == land.stokes and \
            np.dtype(l2.dtype) == np.dtype(land.dtype) and gen.same_structure(l2.structure, land.structure)
        if not ok:
            ctx.fail(stream, i, f'landscape-roundtrip:custom:{how}', f'{how}: shape {getattr(l2, "shape", None)} / pixel_shape '
                     f'{getattr(l2, "pixel_shape", None)} / stokes / dtype / structure differ from the original '
                     f'{land.shape}', cfg)
            return
        if not np.array_equal(np.asarray(l2.pixel2index(*coords)), want_idx):
            ctx.fail(stream, i, f'landscape-action:custom:{how}', f'{how}: pixel2index differs', cfg)
        if jax.tree.structure(l2.zeros()) != jax.tree.structure(land.zeros()) or \
                [l.shape for l in jax.tree.leaves(l2.ones())] != [l.shape for l in jax.tree.leaves(land.ones())]:
            ctx.fail(stream, i, f'landscape-zeros:custom:{how}', f'{how}: zeros()/ones() differ', cfg)
    st, l2 = safe(lambda: jax.tree.unflatten(*reversed(jax.tree.flatten(land))))
    if st != 'ok':
        ctx.fail(stream, i, f'landscape-roundtrip-raises:custom:{st}', str(l2)[:150], cfg)
    else:
        same(l2, 'flatten/unflatten')
    # passed through jit as an argument (rebuilt by tree_unflatten inside) and returned
    st, l3 = safe(lambda: jax.jit(lambda l: l)(land))
    if st != 'ok':
        ctx.fail(stream, i, f'landscape-jit-raises:custom:{st}', str(l3)[:150], cfg)
    else:
        same(l3, 'jit argument')
    st, idx = safe(lambda: jax.jit(lambda l, *c: l.pixel2index(*c))(land, *coords))
    if st != 'ok' or not np.array_equal(np.asarray(idx), want_idx):
        ctx.fail(stream, i, 'landscape-action:custom:jit', f'pixel2index inside jit (landscape as argument) differs ({st})', cfg)
    ctx.count('landscape:custom')
    ctx.case(f'custom:{cfg}', True, sample={'custom_landscape': cfg})


def replace_case(ctx: Ctx, stream: str, i: int) -> None:
    """an operator is a pytree of its parameters and nothing else: replacing the parameter leaf by a pytree operation
    (`equinox.tree_at`, `jax.tree.map`, unflatten with other leaves) — as optimisers and `jax.grad` do — gives the operator
    one would have CONSTRUCTED with the new parameter: same action eagerly, under jit, transposed"""
    from furax._base.core import HomothetyOperator
    from furax._base.dense import DenseBlockDiagonalOperator
    from furax._base.diagonal import DiagonalOperator
    from furax.landscapes import StokesPyTree
    from furax.operators.qu_rotations import QURotationOperator
    from furax.operators.toeplitz import SymmetricBandToeplitzOperator
    rng = ctx.rng(stream, i)
    which = ['qurot', 'homothety', 'diagonal', 'toeplitz', 'dense', 'qurot'][i % 6]
    n = rng.choice([2, 3])
    s = gen.S(n)

    def arr(shape, scale=1.0):
        return jnp.asarray(np.array([rng.choice([0.25, 0.5, -0.75, 1.0, 2.0, -1.5]) for _ in range(int(np.prod(shape)))]).reshape(shape) * scale,
                           dtype=jnp.float32)
    if which == 'qurot':
        st_ = StokesPyTree.class_for(rng.choice(['QU', 'IQU', 'IQUV'])).structure_for((n,), jnp.float32)
        a, b = arr((n,)), arr((n,))
        mk, field = (lambda p: QURotationOperator(p, st_)), (lambda o: o.angles)
    elif which == 'homothety':
        a, b = jnp.asarray(2.0, dtype=jnp.float32), jnp.asarray(-0.5, dtype=jnp.float32)
        mk, field = (lambda p: HomothetyOperator(p, s)), (lambda o: o.value)
    elif which == 'diagonal':
        a, b = arr((n,)), arr((n,))
        mk, field = (lambda p: DiagonalOperator(p, in_structure=s)), (lambda o: o._diagonal)
    elif which == 'toeplitz':
        a, b = arr((2,), 1.0) + 4.0, arr((2,)) + 3.0
        meth = rng.choice(['dense', 'direct', 'fft', 'overlap_save'])
        mk, field = (lambda p: SymmetricBandToeplitzOperator(p, s, method=meth)), (lambda o: o.band_values)
    else:
        a, b = arr((2, n)), arr((2, n))
        mk, field = (lambda p: DenseBlockDiagonalOperator(p, s, 'ij...,j...->i...')), (lambda o: o.blocks)
    op_a, op_b = mk(a), mk(b)
    x = gen.random_input(rng, op_a.in_structure())
    cfg = {'class': type(op_a).__name__, 'how': None}
    st0, want = safe(op_b.mv, x)
    if st0 != 'ok':
        return
    hows = [('tree_at', lambda: equinox.tree_at(field, op_a, b)),
            ('unflatten', lambda: jax.tree.unflatten(jax.tree.structure(op_b), jax.tree.leaves(op_b)) if False else
             jax.tree.unflatten(jax.tree.structure(op_a), [b if l is field(op_a) else l for l in jax.tree.leaves(op_a)])),
            ('tree.map', lambda: jax.tree.map(lambda l: b if l is field(op_a) else l, op_a))]
    for how, build in hows:
        st, op2 = safe(build)
        cfg['how'] = how
        if st != 'ok':
            ctx.fail(stream, i, f'leaf-replacement-raises:{which}:{how}:{st}', str(op2)[:150], cfg)
            continue
        for mode, fn in (('eager', lambda: op2.mv(x)), ('jit', lambda: jax.jit(lambda v: op2.mv(v))(x)),
                         ('filter-jit', lambda: equinox.filter_jit(lambda o, v: o.mv(v))(op2, x)),
                         ('transpose', None)):
            if mode == 'transpose':
                y = gen.random_input(rng, op_b.out_structure())
                stw, wt = safe(lambda: op_b.T.mv(y))
                stg, gt = safe(lambda: op2.T.mv(y))
                if stw == 'ok' and (stg != 'ok' or not same_values(wt, gt)):
                    ctx.fail(stream, i, f'leaf-replacement:{which}:{how}:transpose', f'{type(op_a).__name__} with its parameter replaced by '
                             f'{how}: the transpose does not act as that of the operator constructed with the new parameter', cfg)
                continue
            stg, got = safe(fn)
            if stg != 'ok' or not same_values(want, got):
                ctx.fail(stream, i, f'leaf-replacement:{which}:{how}:{mode}', f'{type(op_a).__name__} with its parameter replaced by {how} '
                         f'({mode}) does not act as the operator constructed with the new parameter', cfg)
                break
    ctx.case(f'replace:{which}:{i}', True, sample={'replace': which})
    ctx.count('replace:' + which)


def run(ctx: Ctx) -> None:
    q = ctx.tier == 'quick'
    for i in range(24 if q else 360):
        if ctx.want('replace', i):
            replace_case(ctx, 'replace', i)
    for i in range(120 if q else 2500):
        if ctx.want('op', i):
            op_case(ctx, 'op', i)
    for i in range(120 if q else 2500):
        if ctx.want('special', i):
            op_case(ctx, 'special', i)
    for i in range(60 if q else 1500):
        if ctx.want('index', i):
            op_case(ctx, 'index', i)
    for i in range(90 if q else 630):
        if ctx.want('toeplitz', i):
            op_case(ctx, 'toeplitz', i)
    for i in range(8 if q else 120):
        if ctx.want('jitcfg', i):
            # two lazy inverses whose captured configurations differ in ONE setting, through one shared jitted function
            # taking the operator as argument (the stream of C19): the static part of the pytree must tell them apart
            import c19
            c19.jit_case(ctx, 'jitcfg', i)
    for i in range(16 if q else 300):
        if ctx.want('inverse', i):
            op_case(ctx, 'inverse', i)
    for i in range(24 if q else 300):
        if ctx.want('custom', i):
            custom_landscape_case(ctx, 'custom', i)
    for i in range(8 if q else 60):
        if ctx.want('landscape', i):
            landscape_case(ctx, 'landscape', i)
