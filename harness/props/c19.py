"""C19 — solver configuration is scoped, restored and captured correctly.

Random properly nested histories of enter / exit / exit-by-exception / create-inverse / apply-inverse / read
events are executed with real `with Config(...)` statements (real exceptions for exceptional exits) in real
threads, forced through a seeded interleaving by a scheduler; `Config.instance()` is observed after every event
and compared with the model's state machine (proved to satisfy the property, so a difference on a properly
nested history is the failing input).  A few histories also run a real solve to observe which settings a lazy
inverse uses.
"""
from __future__ import annotations

import threading

import jax
import jax.numpy as jnp
import lineax as lx
import numpy as np

from common import Ctx, safe

META = {
    'rule': ('well-nested histories (depth ≤ 4 quick / 6 thorough, 1-3 threads, seeded interleaving enforced by a '
             'scheduler) over four settings with several distinct values each; one case = one history; non-trivial = '
             'nesting depth ≥ 2 or more than one thread or an exceptional exit'),
    'trusted_base': [
        'Lean 4.33 kernel + standard axioms',
        'A6: contextvars gives every thread its own current value; reset(token) restores the value held before set',
        'OS thread scheduling is not modelled: the theorem covers all interleavings of the abstract events, the '
        'harness samples real ones (partial)',
    ],
    'assumptions': ['entering a Config object while that same object is already open is outside the property (objects built ahead of time and entered later, also repeatedly, are covered)'],
}

_DEFAULT = None


def tokens_of(cfg, tables):
    """abstract a ConfigState into the model's four tokens"""
    def tok(kind, v):
        t = tables[kind]
        for k, (obj, n) in enumerate(t):
            if obj is v or (kind in ('throw', 'options') and obj == v):
                return n
        return -1
    return [tok('solver', cfg.solver), tok('throw', cfg.solver_throw), tok('options', cfg.solver_options),
            tok('callback', cfg.solver_callback)]


class Marker(Exception):
    pass


def gen_history(rng, depth, length):
    """a properly nested event list for one thread; `Config` objects are either built in the `with` statement
    (enter) or built ahead of time (mkcfg) and entered later, possibly inside other blocks (enterobj) — never
    while that same object is already open"""
    evs = []
    defined: list[int] = []
    open_objs: list[int] = []

    def rand_kw():
        # a named setting may take ANY of its values, including the default one and the "falsy" ones
        # (solver_throw=False, solver_options={}): naming a setting always overrides the enclosing value
        kw = {}
        for name, nvals in (('solver', 3), ('throw', 2), ('options', 3), ('callback', 3)):
            if rng.random() < 0.45:
                kw[name] = rng.randint(0, nvals - 1)
        return kw

    def block(d, budget):
        n = 0
        while n < budget:
            k = rng.random()
            if k < 0.30 and d < depth:
                usable = [o for o in defined if o not in open_objs]
                if usable and rng.random() < 0.5:
                    oid = rng.choice(usable)
                    evs.append(('enterobj', oid))
                    open_objs.append(oid)
                else:
                    oid = None
                    evs.append(('enter', rand_kw()))
                inner = rng.randint(0, max(0, budget - n - 2))
                block(d + 1, inner)
                if oid is not None:
                    open_objs.remove(oid)
                evs.append(('exitExc',) if rng.random() < 0.35 else ('exit',))
                n += inner + 2
            elif k < 0.42:
                oid = rng.randint(1, 3)
                if oid in open_objs:
                    continue
                evs.append(('mkcfg', oid, rand_kw()))
                if oid not in defined:
                    defined.append(oid)
                n += 1
            elif k < 0.58:
                evs.append(('mk', rng.randint(1, 3)))
                n += 1
            elif k < 0.76:
                evs.append(('apply', rng.randint(1, 3)))
                n += 1
            else:
                evs.append(('read',))
                n += 1
    block(0, length)
    return evs


def one_case(ctx: Ctx, stream: str, i: int, depth: int) -> None:
    from furax._base.config import Config, ConfigState
    from furax._base.core import IdentityOperator, InverseOperator
    rng = ctx.rng(stream, i)
    default = Config.instance()
    cbs = [default.solver_callback, (lambda s: None), (lambda s: None)]
    solvers = [default.solver, lx.CG(rtol=1e-3, atol=1e-3, max_steps=7), lx.CG(rtol=1e-5, atol=1e-5, max_steps=9)]
    options = [default.solver_options, {'marker': 1}, {'marker': 2}]
    tables = {'solver': [(o, n) for n, o in enumerate(solvers)], 'throw': [(False, 0), (True, 1)],
              'options': [(o, n) for n, o in enumerate(options)], 'callback': [(o, n) for n, o in enumerate(cbs)]}
    nthreads = rng.choice([1, 1, 2, 3])
    hist = [gen_history(rng, depth, rng.randint(3, 10)) for _ in range(nthreads)]
    # scripted openings, so that what earlier seeded changes needed is ALWAYS present in a run (not only when drawn):
    # a Config object built ahead of time (at top level, or inside a block) and entered later inside ANOTHER block;
    # an inverse created under the defaults and applied inside a block; named settings taking a falsy value
    script = i % 4
    if script == 0:
        hist[0] = [('mkcfg', 1, {'solver': 1, 'callback': 1}), ('enter', {'solver': 2, 'throw': 1}), ('read',), ('enterobj', 1),
                   ('read',), ('mk', 1), ('exit',), ('read',), ('apply', 1), ('exit',), ('read',)] + hist[0]
    elif script == 1:
        hist[0] = [('mk', 2), ('enter', {'solver': 1, 'options': 2}), ('mkcfg', 2, {'throw': 0, 'options': 0}), ('apply', 2), ('read',),
                   ('exitExc',), ('enter', {'callback': 2}), ('enterobj', 2), ('read',), ('apply', 2), ('exit',), ('read',),
                   ('exit',), ('read',)] + hist[0]
    # seeded interleaving
    order = [t for t, h in enumerate(hist) for _ in h]
    rng.shuffle(order)
    pos = [0] * nthreads
    schedule = []
    for t in order:
        schedule.append((t, hist[t][pos[t]]))
        pos[t] += 1

    S = jax.ShapeDtypeStruct((2,), jnp.float32)
    # the operand of the lazy inverses is a COMPOSITE (reduce() rebuilds composites): reducing a lazy inverse, alone or
    # inside an expression, whenever and wherever, must not change the configuration it captured at creation
    from furax._base.core import AdditionOperator, HomothetyOperator
    base_op = AdditionOperator([IdentityOperator(S), HomothetyOperator(2.0, S)])
    turn = [threading.Semaphore(0) for _ in range(nthreads)]
    done = threading.Semaphore(0)
    observed: list = [None] * len(schedule)
    slot_of: list[list[int]] = [[] for _ in range(nthreads)]
    for k, (t, _) in enumerate(schedule):
        slot_of[t].append(k)
    errors: list = []
    seen_cfgs: list = []        # ConfigState objects the history observed

    def worker(t):
        inverses = {}
        objs = {}
        it = iter(zip(slot_of[t], hist[t]))

        def kwargs(kw):
            out = {}
            if 'solver' in kw:
                out['solver'] = solvers[kw['solver']]
            if 'throw' in kw:
                out['solver_throw'] = bool(kw['throw'])
            if 'options' in kw:
                out['solver_options'] = options[kw['options']]
            if 'callback' in kw:
                out['solver_callback'] = cbs[kw['callback']]
            return out

        def run_block():
            """runs events until the matching exit of the current block; returns how the block ends"""
            for slot, ev in it:
                turn[t].acquire()
                if ev[0] == 'enter':
                    try:
                        with Config(**kwargs(ev[1])):
                            observed[slot] = ['cfg'] + tokens_of(Config.instance(), tables)
                            seen_cfgs.append(Config.instance())
                            done.release()
                            how, eslot = run_block()
                            if how == 'exitExc':
                                raise Marker()
                    except Marker:
                        pass
                    observed[eslot] = 'N'
                    done.release()
                elif ev[0] == 'enterobj':
                    try:
                        with objs[ev[1]]:
                            observed[slot] = ['cfg'] + tokens_of(Config.instance(), tables)
                            seen_cfgs.append(Config.instance())
                            done.release()
                            how, eslot = run_block()
                            if how == 'exitExc':
                                raise Marker()
                    except Marker:
                        pass
                    observed[eslot] = 'N'
                    done.release()
                elif ev[0] == 'mkcfg':
                    objs[ev[1]] = Config(**kwargs(ev[2]))
                    observed[slot] = 'N'
                    done.release()
                elif ev[0] in ('exit', 'exitExc'):
                    return ev[0], slot      # the with statement above performs the exit
                elif ev[0] == 'mk':
                    inverses[ev[1]] = InverseOperator(base_op)
                    observed[slot] = 'N'
                    done.release()
                elif ev[0] == 'apply':
                    inv = inverses.get(ev[1])
                    if inv is not None and (slot % 3) != 0:
                        # look at it through a reduction performed NOW, under whatever configuration is active
                        how = slot % 3
                        red = inv.reduce() if how == 1 else (2.0 * inv).reduce()
                        cands = [red] + list(getattr(red, 'operands', []))
                        found = [o for o in cands if isinstance(o, InverseOperator)]
                        inv = found[0] if found else inv
                    observed[slot] = 'unknown' if inv is None else ['cfg'] + tokens_of(inv.config, tables)
                    if inv is not None:
                        seen_cfgs.append(inv.config)
                    done.release()
                else:
                    observed[slot] = ['cfg'] + tokens_of(Config.instance(), tables)
                    done.release()
            return 'end', None

        try:
            run_block()
        except Exception as e:  # noqa: BLE001
            errors.append(repr(e))
            done.release()

    threads = [threading.Thread(target=worker, args=(t,)) for t in range(nthreads)]
    for th in threads:
        th.start()
    for t, _ in schedule:
        turn[t].release()
        done.acquire()
        if errors:
            break
    for th in threads:
        th.join(timeout=10)

    def enc(ev):
        if ev[0] == 'enter':
            kw = ev[1]
            return ['enter'] + [str(kw[k]) if k in kw else 'N' for k in ('solver', 'throw', 'options', 'callback')]
        if ev[0] == 'mkcfg':
            kw = ev[2]
            return ['mkcfg', str(ev[1])] + [str(kw[k]) if k in kw else 'N' for k in ('solver', 'throw', 'options', 'callback')]
        return [str(x) for x in ev]
    req = ['config-history'] + [[str(t)] + enc(ev) for t, ev in schedule]
    rep = ctx.model.ask(req)
    cfg = {'threads': nthreads, 'schedule': [[t] + enc(ev) for t, ev in schedule]}
    after = tokens_of(Config.instance(), tables)
    if errors:
        ctx.fail(stream, i, 'config-raises', f'executing a properly nested history raised {errors[0]}', cfg)
    else:
        want = rep[1:]
        got = [o if isinstance(o, str) else [str(x) for x in o] for o in observed]
        for k, (w, g) in enumerate(zip(want, got)):
            if w != g:
                ctx.fail(stream, i, f'config-observation:{schedule[k][1][0]}',
                         f'event {k} {schedule[k]}: implementation observed {g}, the state machine says {w}', cfg)
                break
    # the comparison of configurations (what jit keys a trace of a lazy inverse on) distinguishes exactly the
    # configurations that differ in a setting: hypothesis `hinj` of C19.jit_uses_creation_config
    bad_eq = None
    for ka in range(min(len(seen_cfgs), 12)):
        for kb in range(ka + 1, min(len(seen_cfgs), 12)):
            ca, cb = seen_cfgs[ka], seen_cfgs[kb]
            same_tokens = tokens_of(ca, tables) == tokens_of(cb, tables)
            st_eq, eq = safe(lambda: bool(ca == cb))
            if bad_eq is None and (st_eq != 'ok' or eq != same_tokens):
                bad_eq = (eq if st_eq == 'ok' else st_eq, tokens_of(ca, tables), tokens_of(cb, tables))
    if bad_eq is not None:
        ctx.fail(stream, i, 'configuration-equality-not-by-settings',
                 f'ConfigState.__eq__ gives {bad_eq[0]} for settings {bad_eq[1]} and {bad_eq[2]}', cfg)
    if after != [0, 0, 0, 0]:
        ctx.fail(stream, i, 'config-leaks-into-main-thread', f'main thread sees {after} after the history', cfg)
    maxdepth = 0
    for h in hist:
        d = 0
        for ev in h:
            d += ev[0] in ('enter', 'enterobj')
            maxdepth = max(maxdepth, d)
            d -= ev[0] in ('exit', 'exitExc')
    nontrivial = maxdepth >= 2 or nthreads > 1 or any(ev[0] == 'exitExc' for h in hist for ev in h)
    ctx.case(str(cfg), nontrivial, sample={'threads': nthreads, 'events': len(schedule), 'depth': maxdepth,
                                           'schedule': cfg['schedule'][:12]})
    ctx.count(f'threads:{nthreads}')
    ctx.count('prebuilt-config-blocks', sum(ev[0] == 'enterobj' for h in hist for ev in h))
    ctx.count(f'depth:{maxdepth}')


def solve_case(ctx: Ctx, stream: str, i: int) -> None:
    """which settings does a lazy inverse really use?  (observed through convergence of a real solve)"""
    from furax._base.config import Config
    from furax._base.core import InverseOperator
    import gen
    rng = ctx.rng(stream, i)
    n = rng.choice([6, 8])
    s = gen.S(n)
    a = gen.mk_toeplitz(rng, s, spd=True)
    while a is None or a.band_values.shape[-1] < 2:
        a = gen.mk_toeplitz(rng, s, spd=True)
    y = gen.random_input(rng, s, 1, 5)
    quiet = dict(solver_callback=lambda sol: None)
    weak = lx.CG(rtol=1e-6, atol=1e-6, max_steps=1)
    with Config(**quiet):
        with Config(solver=weak):
            inv_weak = InverseOperator(a)
        inv_good = InverseOperator(a)
        exact = np.linalg.solve(gen.dense(a), np.asarray(y, dtype=np.float64))
        r_weak_outside = np.asarray(inv_weak(y))
        with Config(solver=weak):
            r_good_inside = np.asarray(inv_good(y))
    ok_good = np.allclose(r_good_inside, exact, rtol=1e-3, atol=1e-3)
    ok_weak = np.allclose(r_weak_outside, exact, rtol=1e-3, atol=1e-3)
    cfg = {'n': n, 'band': np.asarray(a.band_values).tolist()}
    if not ok_good:
        ctx.fail(stream, i, 'inverse-uses-application-config', 'an inverse created with the default solver and applied '
                 'inside a max_steps=1 block did not converge: it used the configuration active at application', cfg)
    if ok_weak:
        ctx.fail(stream, i, 'inverse-forgets-creation-config', 'an inverse created under max_steps=1 converged when applied '
                 'outside the block: it did not keep the configuration active at creation', cfg)
    ctx.case(f'solve:{cfg}', True, sample={'solve': cfg, 'good_inside_converged': bool(ok_good),
                                           'weak_outside_converged': bool(ok_weak)})
    ctx.count('solve')


def jit_case(ctx: Ctx, stream: str, i: int) -> None:
    """Two lazy inverses of the same operator whose creation-time configurations differ in exactly ONE setting are
    applied eagerly and through one shared jitted function that takes the operator as an argument (in a seeded
    order): each must behave according to the configuration captured at ITS creation — under jit too, where the
    captured configuration is part of what the trace is keyed on."""
    from furax._base.config import Config
    from furax._base.core import InverseOperator
    from furax._base.dense import DenseBlockDiagonalOperator
    rng = ctx.rng(stream, i)
    which = ['solver', 'options', 'throw', 'callback'][i % 4]
    n = rng.choice([4, 5])
    # symmetric positive definite with n distinct, well separated eigenvalues: k < n CG steps do not converge
    q, _ = np.linalg.qr(np.array([[rng.uniform(-1, 1) for _ in range(n)] for _ in range(n)]))
    eig = np.array([1.0 + 2.5 * k for k in range(n)])
    m = (q * eig) @ q.T
    S = jax.ShapeDtypeStruct((n,), jnp.float32)
    a = DenseBlockDiagonalOperator(jnp.asarray(m, dtype=jnp.float32), S)
    pre = DenseBlockDiagonalOperator(jnp.asarray(np.linalg.inv(m), dtype=jnp.float32), S)
    y = jnp.asarray([rng.choice([-2.0, -1.0, 1.0, 2.0, 3.0]) for _ in range(n)], dtype=jnp.float32)
    exact = np.linalg.solve(m, np.asarray(y, dtype=np.float64))
    log_a, log_b = [], []
    cb_a, cb_b = (lambda sol: log_a.append(1)), (lambda sol: log_b.append(1))
    weak = lx.CG(rtol=1e-6, atol=1e-6, max_steps=2)
    strong = lx.CG(rtol=1e-6, atol=1e-6, max_steps=60)
    common = {'solver': weak, 'solver_callback': cb_a}
    if which == 'solver':
        ka, kb = {'solver': weak}, {'solver': strong}
    elif which == 'options':
        ka, kb = {'solver_options': {}}, {'solver_options': {'preconditioner': pre}}
    elif which == 'throw':
        ka, kb = {'solver_throw': False}, {'solver_throw': True}
    else:
        ka, kb = {'solver_callback': cb_a}, {'solver_callback': cb_b}
    nest = rng.random() < 0.5
    with Config(**common):
        if nest:
            with Config(**ka):
                inv_a = InverseOperator(a)
                with Config(**kb):
                    inv_b = InverseOperator(a)
        else:
            with Config(**ka):
                inv_a = InverseOperator(a)
            with Config(**kb):
                inv_b = InverseOperator(a)

    def observe(fn):
        """(converged?, raised?, which callback ran) of one application"""
        na, nb = len(log_a), len(log_b)
        st, r = safe(fn)
        try:
            if st == 'ok':
                jax.block_until_ready(r)
            jax.effects_barrier()
        except Exception:  # noqa: BLE001
            st = 'raised-late'
        conv = bool(st == 'ok' and np.allclose(np.asarray(r, dtype=np.float64), exact, rtol=2e-3, atol=2e-3))
        return [conv, st != 'ok', 'a' if len(log_a) > na else 'b' if len(log_b) > nb else '-']

    shared = jax.jit(lambda op, v: op(v))
    eager = {'a': observe(lambda: inv_a(y)), 'b': observe(lambda: inv_b(y))}
    order = ['a', 'b'] if rng.random() < 0.5 else ['b', 'a']
    jitted = {}
    for k in order + order[:1]:        # the first one once more, after the other has been traced
        jitted[k] = observe(lambda: shared(inv_a if k == 'a' else inv_b, y))
    cfg = {'differs_in': which, 'n': n, 'nested': nest, 'order': order, 'eager': eager, 'jitted': jitted}
    expected = {'solver': ([False, False, 'a'], [True, False, 'a']),
                'options': ([False, False, 'a'], [True, False, 'a']),
                'throw': ([False, False, 'a'], [False, True, None]),
                'callback': ([False, False, 'a'], [False, False, 'b'])}[which]
    for k, want in zip('ab', expected):
        for mode, obs in (('eager', eager[k]), ('jit', jitted[k])):
            bad = [j for j in range(3) if want[j] is not None and obs[j] != want[j]]
            if bad:
                ctx.fail(stream, i, f'inverse-{mode}-ignores-creation-{which}',
                         f'the inverse created under {"ka" if k == "a" else "kb"} ({which}) applied {mode}: observed '
                         f'[converged, raised, callback] = {obs}, its creation-time configuration implies {want}', cfg)
                break
    if jax.tree.structure(inv_a) == jax.tree.structure(inv_b) or inv_a.config == inv_b.config:
        ctx.fail(stream, i, f'configurations-differing-in-{which}-compare-equal',
                 'two lazy inverses whose captured configurations differ are indistinguishable to JAX '
                 '(equal static part): a trace made for one is reused for the other', cfg)
    ctx.case(f'jit:{which}:{n}:{nest}:{order}:{np.asarray(y).tolist()}', True, sample={'jit': cfg})
    ctx.count('jit:' + which)


def run(ctx: Ctx) -> None:
    q = ctx.tier == 'quick'
    for i in range(200 if q else 4000):
        if ctx.want('hist', i):
            one_case(ctx, 'hist', i, 4 if q else 6)
    for i in range(6 if q else 60):
        if ctx.want('solve', i):
            solve_case(ctx, 'solve', i)
    for i in range(8 if q else 120):
        if ctx.want('jit', i):
            jit_case(ctx, 'jit', i)
