"""C20 — Stokes containers and pytree helpers act leaf-wise and consistently.

Correspondence: binary arithmetic (forward and reflected, all operand types), class_for, from_stokes and
tree.dot against the model.  Oracle on the implementation: NumPy applied component by component, structure /
shape / dtype of the factories and *_like helpers, as_promoted_dtype against jnp.result_type.
Workers alternate 64-bit mode off / on.
"""
from __future__ import annotations

import operator
from fractions import Fraction

import jax
import jax.numpy as jnp
import numpy as np

from common import Ctx, safe
from encode import frac_str, tensor

ENV_VARIANTS = [{'JAX_ENABLE_X64': '0'}, {'JAX_ENABLE_X64': '1'}]
META = {
    'rule': ('(Stokes kind, shape of rank 0-2, dtypes, operation in + - * / **, operand type: same kind / other kind / Python '
             'int / float / NumPy scalar / JAX array incl. broadcastable shapes / list / NumPy array, forward and reflected); '
             'components are pairwise distinct non-symmetric integers; non-trivial = a non-commutative operation or a '
             'reflected form or a rejected operand; distinct by the full configuration'),
    'trusted_base': [
        'Lean 4.33 kernel + standard axioms',
        'A1: jnp arithmetic / broadcasting as NumPy; A8: float rounding (division and power compared to 1e-5)',
    ],
    'assumptions': [],
}
KINDS = ['I', 'QU', 'IQU', 'IQUV']
OPS = {'add': operator.add, 'sub': operator.sub, 'mul': operator.mul, 'div': operator.truediv, 'pow': operator.pow}


def sval(kind, comps):
    return ['stokes', kind] + [tensor(c) for c in comps]


def one_case(ctx: Ctx, stream: str, i: int) -> None:
    from furax.landscapes import StokesPyTree
    rng = ctx.rng(stream, i)
    kind = rng.choice(KINDS)
    cls = StokesPyTree.class_for(kind)
    shape = rng.choice([(), (2,), (3,), (2, 2)])
    n = int(np.prod(shape))
    dt = np.float32
    comps = [np.array([rng.choice([1, 2, 3, 5, 7]) + 10 * c + t for t in range(n)], dtype=np.float64).reshape(shape)
             for c in range(len(kind))]
    a = cls(*[jnp.asarray(c, dtype=dt) for c in comps])
    opname = rng.choice(list(OPS))
    op = OPS[opname]
    reflected = rng.random() < 0.5
    okind = rng.choice(['same', 'same', 'otherkind', 'int', 'float', 'npscalar', 'jax0d', 'jaxarr', 'jaxbcast', 'list', 'nparr'])
    small = [1, 2, 4] if opname in ('div',) else [2, 3] if opname == 'pow' else [1, 2, 3, 5]
    if okind == 'same':
        ocomps = [np.array([rng.choice(small) for _ in range(n)], dtype=np.float64).reshape(shape) for _ in kind]
        other = cls(*[jnp.asarray(c, dtype=dt) for c in ocomps])
        enc_other = sval(kind, ocomps)
    elif okind == 'otherkind':
        k2 = rng.choice([k for k in KINDS if k != kind])
        ocomps = [np.ones(shape) for _ in k2]
        other = StokesPyTree.class_for(k2)(*[jnp.asarray(c, dtype=dt) for c in ocomps])
        enc_other = sval(k2, ocomps)
    elif okind in ('int', 'float', 'npscalar', 'jax0d'):
        v = rng.choice(small)
        other = {'int': int(v), 'float': float(v), 'npscalar': np.float32(v), 'jax0d': jnp.asarray(float(v), dtype=dt)}[okind]
        enc_other = ['scalar', str(v)] if okind != 'jax0d' else ['array', tensor(np.asarray(float(v)))]
    elif okind in ('jaxarr', 'jaxbcast'):
        oshape = shape if okind == 'jaxarr' or not shape else shape[-1:]
        arr = np.array([rng.choice(small) for _ in range(int(np.prod(oshape)))], dtype=np.float64).reshape(oshape)
        other = jnp.asarray(arr, dtype=dt)
        enc_other = ['array', tensor(arr)]
    elif okind == 'list':
        other = [1.0, 2.0]
        enc_other = 'other'
    else:
        other = np.ones(shape if shape else (1,), dtype=np.float32) * 2
        enc_other = 'other'
    f = (lambda: op(other, a)) if reflected else (lambda: op(a, other))
    st, res = safe(f)
    cfg = {'kind': kind, 'shape': shape, 'op': opname, 'reflected': reflected, 'operand': okind}
    if okind == 'nparr':
        # NumPy array operands: NumPy's own dispatch may take over in the reflected form (cf. finding F12 for operators)
        ctx.count('nparr-skipped')
        ctx.case(str(cfg), False)
        return
    rep = ctx.model.ask(['stokes-rop' if reflected else 'stokes-op', opname, sval(kind, comps), enc_other])
    # oracle: component by component with NumPy
    expect_ok = okind not in ('otherkind', 'list')
    if expect_ok:
        if st != 'ok':
            ctx.fail(stream, i, f'stokes-op-raises:{st}:{okind}', f'{cfg}: raised {st}: {str(res)[:100]}', cfg)
        elif type(res) is not cls:
            ctx.fail(stream, i, 'stokes-op-kind', f'{cfg}: result is a {type(res).__name__}', cfg)
        else:
            for c, comp in enumerate(comps):
                if okind == 'same':
                    o = ocomps[c]
                elif okind in ('jaxarr', 'jaxbcast'):
                    o = arr
                else:
                    o = float(v)
                want = op(o, comp) if reflected else op(comp, o)
                got = np.asarray(getattr(res, kind[c].lower()), dtype=np.float64)
                if got.shape != np.shape(want) or not np.allclose(got, want, rtol=1e-5, atol=1e-6):
                    ctx.fail(stream, i, f'stokes-op-wrong:{opname}:{"reflected" if reflected else "forward"}',
                             f'{cfg}: component {kind[c]} is {got.tolist()} expected {np.asarray(want).tolist()}', cfg)
                    break
            if rep[0] == 'ok':
                for c in range(len(kind)):
                    got = np.asarray(getattr(res, kind[c].lower()), dtype=np.float64).ravel()
                    mod = np.array([float(Fraction(z)) for z in rep[2 + c][2]])
                    if rep[1] != kind or got.shape != mod.shape or not np.allclose(got, mod, rtol=1e-5, atol=1e-6):
                        ctx.disagree(stream, i, f'{cfg}: model component differs', cfg)
                        break
            elif rep[0] != 'unsupported':
                ctx.disagree(stream, i, f'{cfg}: model {rep[:2]}, implementation ok', cfg)
    else:
        if st == 'ok':
            ctx.fail(stream, i, f'stokes-op-accepts:{okind}', f'{cfg}: an operand of type {okind} was accepted', cfg)
        elif st != 'TypeError':
            ctx.fail(stream, i, f'stokes-op-rejects-with:{st}', f'{cfg}: expected TypeError, got {st}', cfg)
        if rep[0] != 'error':
            ctx.disagree(stream, i, f'{cfg}: implementation {st}, model {rep[:2]}', cfg)
    ctx.count('operand:' + okind)
    ctx.case(str(cfg) + str([c.tolist() for c in comps]), opname in ('sub', 'div', 'pow') or reflected or not expect_ok,
             sample={**cfg, 'status': st})


def helpers_case(ctx: Ctx, stream: str, i: int) -> None:
    import furax as fx
    from furax.landscapes import StokesPyTree
    rng = ctx.rng(stream, i)
    x64 = bool(jax.config.jax_enable_x64)
    kind = rng.choice(KINDS)
    cls = StokesPyTree.class_for(kind)
    shape = rng.choice([(2,), (3,), (2, 2)])
    # class_for / from_stokes
    for name in ('I', 'QU', 'IQU', 'IQUV', 'UQ', 'iqu', 'IQUX', ''):
        st, c = safe(StokesPyTree.class_for, name)
        rep = ctx.model.ask(['stokes-class', name if name else '_'])
        want_ok = name in KINDS
        if (st == 'ok') != want_ok or (st != 'ok' and st != 'ValueError'):
            ctx.fail(stream, i, f'class_for:{name}', f'class_for({name!r}) → {st}', {})
        if (rep[0] == 'ok') != (st == 'ok'):
            ctx.disagree(stream, i, f'class_for({name!r}): implementation {st}, model {rep}', {})
    dts = [np.float16, np.float32] + ([np.float64] if x64 else [])
    arrs = [jnp.asarray(np.full(shape, c + 1.0), dtype=rng.choice(dts)) for c in range(len(kind))]
    st, v = safe(StokesPyTree.from_stokes, *arrs)
    rep = ctx.model.ask(['from-stokes', str(len(arrs)), []])
    promoted = jnp.result_type(*arrs)
    if st != 'ok' or type(v) is not cls or rep[1] != kind:
        ctx.fail(stream, i, 'from_stokes-positional', f'from_stokes with {len(arrs)} arrays → {st} {type(v).__name__}', {})
    elif any(getattr(v, k.lower()).dtype != promoted for k in kind):
        ctx.fail(stream, i, 'from_stokes-promotion', 'components not promoted to the common dtype', {})
    kw = {k: a for k, a in zip(kind, arrs)}
    items = list(kw.items())
    rng.shuffle(items)
    st, v = safe(lambda: StokesPyTree.from_stokes(**dict(items)))
    rep = ctx.model.ask(['from-stokes', '0', [k for k, _ in items]])
    if st != 'ok' or type(v) is not cls or rep[1] != kind or \
            any(float(np.asarray(getattr(v, k.lower())).ravel()[0]) != float(np.asarray(kw[k]).ravel()[0]) for k in kind):
        ctx.fail(stream, i, 'from_stokes-keywords', f'from_stokes(**{[k for k, _ in items]}) → {st}', {})
    st, _ = safe(lambda: StokesPyTree.from_stokes(arrs[0], I=arrs[0]))
    if st != 'TypeError':
        ctx.fail(stream, i, 'from_stokes-mixed', f'positional and keyword arguments together → {st}', {})
    st, _ = safe(lambda: StokesPyTree.from_stokes(*([arrs[0]] * 5)))
    if st != 'TypeError':
        ctx.fail(stream, i, 'from_stokes-five', f'five arrays → {st}', {})
    # from_iquv selects
    four = [jnp.full(shape, float(c + 1), dtype=jnp.float32) for c in range(4)]
    v = cls.from_iquv(*four)
    sel = {'I': 0, 'Q': 1, 'U': 2, 'V': 3}
    if any(float(np.asarray(getattr(v, k.lower())).ravel()[0]) != sel[k] + 1 for k in kind):
        ctx.fail(stream, i, 'from_iquv', 'from_iquv does not select the components of the kind', {})
    # "with dtype promotion across components": mixed-dtype inputs come out in the promoted dtype of the KEPT
    # components (table of jnp.result_type, the one the model's promotion theorems are about), values unchanged
    pool = [jnp.float16, jnp.float32] + ([jnp.float64] if jax.config.jax_enable_x64 else [jnp.bfloat16])
    dts = [rng.choice(pool) for _ in range(4)]
    if len(set(dts)) == 1:
        dts[rng.randrange(4)] = rng.choice([d for d in pool if d != dts[0]])
    mixed = [jnp.full(shape, float(c + 1), dtype=dts[c]) for c in range(4)]
    kept = [sel[k] for k in kind]
    want_dt = jnp.result_type(*[dts[c] for c in kept])
    for label, mk in (('from_iquv', lambda: cls.from_iquv(*mixed)),
                      ('from_stokes', lambda: StokesPyTree.from_stokes(*[mixed[c] for c in kept])),
                      ('from_stokes-keywords', lambda: StokesPyTree.from_stokes(**{k: mixed[sel[k]] for k in reversed(kind)}))):
        st, t = safe(mk)
        cfgp = {'kind': kind, 'dtypes': [str(np.dtype(d)) if d != jnp.bfloat16 else 'bfloat16' for d in dts],
                'expected': str(want_dt)}
        if st != 'ok':
            ctx.fail(stream, i, f'{label}-mixed-raises:{st}', str(t)[:150], cfgp)
            continue
        got = [(str(getattr(t, k.lower()).dtype), float(np.asarray(getattr(t, k.lower()), dtype=np.float64).ravel()[0]))
               for k in kind]
        if any(d != str(want_dt) for d, _ in got):
            ctx.fail(stream, i, f'{label}-promotion', f'{label} of mixed-dtype components gives dtypes {[d for d, _ in got]}, '
                     f'the promoted dtype of the kept components is {want_dt}', cfgp)
        elif any(v != sel[k] + 1 for (_, v), k in zip(got, kind)):
            ctx.fail(stream, i, f'{label}-mixed-values', f'{label} changed the values while promoting', cfgp)
        elif type(t) is not cls:
            ctx.fail(stream, i, f'{label}-mixed-class', f'{label} returned {type(t).__name__}', cfgp)
    ctx.count('promotion:' + str(want_dt))
    # factories and *_like
    for label, mk, val in (('zeros', lambda: cls.zeros(shape, jnp.float32), 0.0), ('ones', lambda: cls.ones(shape, jnp.float32), 1.0),
                           ('full', lambda: cls.full(shape, 3.0, jnp.float32), 3.0)):
        st, z = safe(mk)
        if st != 'ok' or type(z) is not cls or any(np.asarray(l).shape != shape or l.dtype != jnp.float32 or
                                                    not np.all(np.asarray(l) == val) for l in jax.tree.leaves(z)):
            ctx.fail(stream, i, f'factory:{label}', f'{label} → {st}', {})
    s = cls.structure_for(shape, jnp.float32)
    key = jax.random.PRNGKey(i)
    for label, mk in (('normal', lambda: cls.normal(key, shape, jnp.float32)), ('uniform', lambda: cls.uniform(shape, key, jnp.float32)),
                      ('zeros_like', lambda: fx.tree.zeros_like(s)), ('ones_like', lambda: fx.tree.ones_like(s)),
                      ('full_like', lambda: fx.tree.full_like(s, 2)), ('normal_like', lambda: fx.tree.normal_like(s, key))):
        st, z = safe(mk)
        if st != 'ok' or jax.tree.structure(z) != jax.tree.structure(s) or \
                any(l.shape != shape or l.dtype != jnp.float32 for l in jax.tree.leaves(z)):
            ctx.fail(stream, i, f'like:{label}', f'{label} → {st}: structure, shape or dtype not reproduced', {})
    st, z = safe(lambda: cls.normal(key, shape, jnp.float32))
    if st == 'ok' and len(kind) > 1:
        ls = [np.asarray(l) for l in jax.tree.leaves(z)]
        if np.array_equal(ls[0], ls[1]):
            ctx.fail(stream, i, 'normal-same-key', 'random components are identical (the key is not split per leaf)', {})
    # neg / abs / getitem / ravel / reshape act on every component
    comps = [np.arange(int(np.prod(shape)), dtype=np.float64).reshape(shape) * (-1) ** c - c for c in range(len(kind))]
    a = cls(*[jnp.asarray(c, dtype=jnp.float32) for c in comps])
    for label, fn, ref in (('neg', lambda t: -t, lambda c: -c), ('abs', abs, np.abs), ('pos', lambda t: +t, lambda c: c),
                           ('getitem', lambda t: t[0], lambda c: c[0]), ('ravel', lambda t: t.ravel(), lambda c: c.ravel()),
                           ('reshape', lambda t: t.reshape((-1, 1)), lambda c: c.reshape((-1, 1)))):
        st, z = safe(fn, a)
        if st != 'ok' or type(z) is not cls or any(not np.array_equal(np.asarray(getattr(z, k.lower())), ref(c))
                                                   for k, c in zip(kind, comps)):
            ctx.fail(stream, i, f'unary:{label}', f'{label} is not component-wise ({st})', {})
    # dot: hermitian sum of leaf inner products
    xs = [np.array([rng.randint(-3, 3) for _ in range(3)], dtype=np.float64) for _ in range(2)]
    ys = [np.array([rng.randint(-3, 3) for _ in range(3)], dtype=np.float64) for _ in range(2)]
    tx = {'a': jnp.asarray(xs[0], dtype=jnp.float32), 'b': jnp.asarray(xs[1], dtype=jnp.float32)}
    ty = {'a': jnp.asarray(ys[0], dtype=jnp.float32), 'b': jnp.asarray(ys[1], dtype=jnp.float32)}
    d = float(fx.tree.dot(tx, ty))
    rep = ctx.model.ask(['tree-dot', [[frac_str(Fraction(v)) for v in x.tolist()] for x in xs],
                         [[frac_str(Fraction(v)) for v in y.tolist()] for y in ys]])
    if d != float(Fraction(rep[1])) or d != float(sum(np.dot(x, y) for x, y in zip(xs, ys))):
        ctx.fail(stream, i, 'tree-dot', f'dot = {d}, model {rep[1]}', {})
    zx = {'a': jnp.asarray([1 + 2j, 3j], dtype=jnp.complex64)}
    zy = {'a': jnp.asarray([2 - 1j, 1 + 1j], dtype=jnp.complex64)}
    dz = complex(fx.tree.dot(zx, zy))
    if abs(dz - np.vdot(np.asarray(zx['a']), np.asarray(zy['a']))) > 1e-5:
        ctx.fail(stream, i, 'tree-dot-hermitian', f'complex dot = {dz}: the first argument is not conjugated', {})
    # every mix of complex and real leaves, in either argument, over pytrees of several leaves and Stokes containers
    # (`x @ y` of two containers is the same Hermitian sum): sum over the leaves of vdot(x_leaf, y_leaf)
    from furax.landscapes import StokesPyTree
    def rleaf(cplx, m):
        re = np.array([rng.randint(-3, 3) for _ in range(m)], dtype=np.float64)
        im = np.array([rng.randint(-3, 3) for _ in range(m)], dtype=np.float64)
        return (re + 1j * im).astype(np.complex64) if cplx else re.astype(np.float32)
    for trial in range(3):
        cx, cy = rng.choice([(True, False), (False, True), (True, True), (True, False)])
        kindd = rng.choice(['QU', 'IQU'])
        nl = len(kindd)
        lx_ = [rleaf(cx or (trial == 2 and k == 0), 3) for k in range(nl)]
        ly_ = [rleaf(cy, 3) for _ in range(nl)]
        want = sum(np.vdot(a, b) for a, b in zip(lx_, ly_))
        ccls = StokesPyTree.class_for(kindd)
        forms = [('tree.dot', lambda: fx.tree.dot({str(k): jnp.asarray(v) for k, v in enumerate(lx_)},
                                                  {str(k): jnp.asarray(v) for k, v in enumerate(ly_)})),
                 ('stokes-matmul', lambda: ccls(*[jnp.asarray(v) for v in lx_]) @ ccls(*[jnp.asarray(v) for v in ly_]))]
        for fname, ff in forms:
            stz, dzz = safe(ff)
            if stz != 'ok' or abs(complex(dzz) - want) > 1e-4:
                ctx.fail(stream, i, f'tree-dot-hermitian:{fname}', f'{fname} with {"complex" if cx else "real"} first and '
                         f'{"complex" if cy else "real"} second leaves gives {dzz if stz == "ok" else stz}, the Hermitian sum '
                         f'sum conj(x)·y is {want}', {'first_complex': cx, 'second_complex': cy, 'kind': kindd})
        ctx.count(f'dot:{"c" if cx else "r"}{"c" if cy else "r"}')
    # as_promoted_dtype
    mix = {'a': jnp.ones(2, dtype=rng.choice(dts)), 'b': jnp.ones(3, dtype=rng.choice(dts)),
           'c': jax.ShapeDtypeStruct((2,), rng.choice(dts))}
    p = fx.tree.as_promoted_dtype(mix)
    want = jnp.result_type(*jax.tree.leaves(mix))
    if any(l.dtype != want for l in jax.tree.leaves(p)) or jax.tree.structure(p) != jax.tree.structure(mix) or \
            not isinstance(p['c'], jax.ShapeDtypeStruct):
        ctx.fail(stream, i, 'as_promoted_dtype', 'leaves are not all cast to the promoted dtype', {})
    ctx.case(f'helpers:{kind}:{shape}:{x64}:{i}', True, sample={'helpers': kind, 'shape': shape, 'x64': x64})
    ctx.count('helpers')


def dtype_case(ctx: Ctx, stream: str, i: int) -> None:
    """Containers of every leaf dtype (integer and boolean ones included) against weakly and strongly typed scalars that
    the leaf dtype cannot represent (fractional, complex): a Stokes container behaves as its components do, so value
    AND dtype of every component are those of the same operation on the bare JAX array, forward and reflected."""
    from furax.landscapes import StokesPyTree
    rng = ctx.rng(stream, i)
    kind = rng.choice(KINDS)
    cls = StokesPyTree.class_for(kind)
    shape = rng.choice([(), (2,), (3,)])
    n = int(np.prod(shape))
    dts = [jnp.int32, jnp.int32, jnp.float32, jnp.float16, jnp.bool_, jnp.int8]
    if jax.config.jax_enable_x64:
        dts += [jnp.int64, jnp.float64]
    dt = rng.choice(dts)
    leaves = [jnp.asarray(np.array([rng.choice([1, 2, 3, 5]) + c for _ in range(n)]).reshape(shape), dtype=dt)
              for c in range(len(kind))]
    a = cls(*leaves)
    sname, scalar = rng.choice([('float-fractional', 2.5), ('float-negative', -1.5), ('int', 3), ('np.float32', np.float32(0.5)),
                                ('complex', 1j), ('np.float16', np.float16(1.5)), ('bool', True), ('float-integral', 2.0)])
    opname = rng.choice(['add', 'sub', 'mul', 'div'])
    op = OPS[opname]
    for reflected in (False, True):
        if reflected and isinstance(scalar, np.generic):
            # `numpy_scalar <op> container`: NumPy's own dispatch runs first and hands the container a converted Python
            # number (the NumPy scalar's type is lost before furax sees it) — outside the claims, like NumPy-array operands
            ctx.count('dtype:numpy-scalar-reflected-skipped')
            continue
        f = (lambda: op(scalar, a)) if reflected else (lambda: op(a, scalar))
        st, res = safe(f)
        cfg = {'kind': kind, 'leaf_dtype': str(np.dtype(dt)), 'scalar': sname, 'op': opname, 'reflected': reflected}
        ref = [safe(lambda l=l: op(scalar, l) if reflected else op(l, scalar)) for l in leaves]
        if any(r[0] != 'ok' for r in ref):
            # the bare arrays refuse the operation too (e.g. boolean subtraction): nothing to compare
            ctx.count('dtype:jax-refuses')
            continue
        if st != 'ok':
            ctx.fail(stream, i, f'stokes-op-raises:{st}:{sname}:{"reflected" if reflected else "forward"}',
                     f'{cfg}: raised {st} ({str(res)[:100]}) although every component array accepts the operation', cfg)
            continue
        for c, (_, want) in enumerate(ref):
            got = getattr(res, kind[c].lower())
            if got.dtype != want.dtype or got.shape != want.shape or \
                    not np.allclose(np.asarray(got).astype(np.complex128), np.asarray(want).astype(np.complex128), rtol=1e-3):
                ctx.fail(stream, i, f'stokes-op-not-componentwise:{opname}:{"reflected" if reflected else "forward"}',
                         f'{cfg}: component {kind[c]} is {np.asarray(got).tolist()} ({got.dtype}), the same operation on '
                         f'the component array gives {np.asarray(want).tolist()} ({want.dtype})', cfg)
                break
        ctx.count('dtype:' + str(np.dtype(dt)))
        ctx.case(str(cfg), True, sample=cfg)


def run(ctx: Ctx) -> None:
    q = ctx.tier == 'quick'
    for i in range(300 if q else 8000):
        if ctx.want('op', i):
            one_case(ctx, 'op', i)
    for i in range(120 if q else 3000):
        if ctx.want('dtype', i):
            dtype_case(ctx, 'dtype', i)
    for i in range(24 if q else 400):
        if ctx.want('helpers', i):
            helpers_case(ctx, 'helpers', i)
