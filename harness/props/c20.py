"""C20 — Stokes containers and pytree helpers act leaf-wise and consistently.

Correspondence: binary arithmetic (forward and reflected, all operand types), class_for, from_stokes and
tree.dot against the model.  Oracle on the implementation: NumPy applied component by component, structure /
shape / dtype of the factories and *_like helpers, as_promoted_dtype against jnp.result_type.
Workers alternate 64-bit mode off / on.
"""
from __future__ import annotations

import operator
from fractions import Fraction

import jax
import jax.numpy as jnp
import numpy as np

from common import Ctx, safe
from encode import frac_str, tensor

ENV_VARIANTS = [{'JAX_ENABLE_X64': '0'}, {'JAX_ENABLE_X64': '1'}]
META = {
    'rule': ('(Stokes kind, shape of rank 0-2, dtypes, operation in + - * / **, operand type: same kind / other kind / Python '
             'int / float / NumPy scalar / JAX array incl. broadcastable shapes / list / NumPy array, forward and reflected); '
             'components are pairwise distinct non-symmetric integers; non-trivial = a non-commutative operation or a '
             'reflected form or a rejected operand; distinct by the full configuration'),
    'trusted_base': [
        'Lean 4.33 kernel + standard axioms',
        'A1: jnp arithmetic / broadcasting as NumPy; A8: float rounding (division and power compared to 1e-5)',
    ],
    'assumptions': [],
}
KINDS = ['I', 'QU', 'IQU', 'IQUV']
OPS = {'add': operator.add, 'sub': operator.sub, 'mul': operator.mul, 'div': operator.truediv, 'pow': operator.pow}


def sval(kind, comps):
    return ['stokes', kind] + [tensor(c) for c in comps]


def one_case(ctx: Ctx, stream: str, i: int) -> None:
    from furax.landscapes import StokesPyTree
    rng = ctx.rng(stream, i)
    kind = rng.choice(KINDS)
    cls = StokesPyTree.class_for(kind)
    shape = rng.choice([(), (2,), (3,), (2, 2)])
    n = int(np.prod(shape))
    dt = np.float32
    comps = [np.array([rng.choice([1, 2, 3, 5, 7]) + 10 * c + t for t in range(n)], dtype=np.float64).reshape(shape)
             for c in range(len(kind))]
    a = cls(*[jnp.asarray(c, dtype=dt) for c in comps])
    opname = rng.choice(list(OPS))
    op = OPS[opname]
    reflected = rng.random() < 0.5
    okind = rng.choice(['same', 'same', 'otherkind', 'int', 'float', 'npscalar', 'jax0d', 'jaxarr', 'jaxbcast', 'list', 'nparr'])
    small = [1, 2, 4] if opname in ('div',) else [2, 3] if opname == 'pow' else [1, 2, 3, 5]
    if okind == 'same':
        ocomps = [np.array([rng.choice(small) for _ in range(n)], dtype=np.float64).reshape(shape) for _ in kind]
        other = cls(*[jnp.asarray(c, dtype=dt) for c in ocomps])
        enc_other = sval(kind, ocomps)
    elif okind == 'otherkind':
        k2 = rng.choice([k for k in KINDS if k != kind])
        ocomps = [np.ones(shape) for _ in k2]
        other = StokesPyTree.class_for(k2)(*[jnp.asarray(c, dtype=dt) for c in ocomps])
        enc_other = sval(k2, ocomps)
    elif okind in ('int', 'float', 'npscalar', 'jax0d'):
        v = rng.choice(small)
        other = {'int': int(v), 'float': float(v), 'npscalar': np.float32(v), 'jax0d': jnp.asarray(float(v), dtype=dt)}[okind]
        enc_other = ['scalar', str(v)] if okind != 'jax0d' else ['array', tensor(np.asarray(float(v)))]
    elif okind in ('jaxarr', 'jaxbcast'):
        oshape = shape if okind == 'jaxarr' or not shape else shape[-1:]
        arr = np.array([rng.choice(small) for _ in range(int(np.prod(oshape)))], dtype=np.float64).reshape(oshape)
        other = jnp.asarray(arr, dtype=dt)
        enc_other = ['array', tensor(arr)]
    elif okind == 'list':
        other = [1.0, 2.0]
        enc_other = 'other'
    else:
        other = np.ones(shape if shape else (1,), dtype=np.float32) * 2
        enc_other = 'other'
    f = (lambda: op(other, a)) if reflected else (lambda: op(a, other))
    st, res = safe(f)
    cfg = {'kind': kind, 'shape': shape, 'op': opname, 'reflected': reflected, 'operand': okind}
    if okind == 'nparr':
        # NumPy array operands: NumPy's own dispatch may take over in the reflected form (cf. finding F12 for operators)
        ctx.count('nparr-skipped')
        ctx.case(str(cfg), False)
        return
    rep = ctx.model.ask(['stokes-rop' if reflected else 'stokes-op', opname, sval(kind, comps), enc_other])
    # oracle: component by component with NumPy
    expect_ok = okind not in ('otherkind', 'list')
    if expect_ok:
        if st != 'ok':
            ctx.fail(stream, i, f'stokes-op-raises:{st}:{okind}', f'{cfg}: raised {st}: {str(res)[:100]}', cfg)
        elif type(res) is not cls:
            ctx.fail(stream, i, 'stokes-op-kind', f'{cfg}: result is a {type(res).__name__}', cfg)
        else:
            for c, comp in enumerate(comps):
                if okind == 'same':
                    o = ocomps[c]
                elif okind in ('jaxarr', 'jaxbcast'):
                    o = arr
                else:
                    o = float(v)
                want = op(o, comp) if reflected else op(comp, o)
                got = np.asarray(getattr(res, kind[c].lower()), dtype=np.float64)
                if got.shape != np.shape(want) or not np.allclose(got, want, rtol=1e-5, atol=1e-6):
                    ctx.fail(stream, i, f'stokes-op-wrong:{opname}:{"reflected" if reflected else "forward"}',
                             f'{cfg}: component {kind[c]} is {got.tolist()} expected {np.asarray(want).tolist()}', cfg)
                    break
            if rep[0] == 'ok':
                for c in range(len(kind)):
                    got = np.asarray(getattr(res, kind[c].lower()), dtype=np.float64).ravel()
                    mod = np.array([float(Fraction(z)) for z in rep[2 + c][2]])
                    if rep[1] != kind or got.shape != mod.shape or not np.allclose(got, mod, rtol=1e-5, atol=1e-6):
                        ctx.disagree(stream, i, f'{cfg}: model component differs', cfg)
                        break
            elif rep[0] != 'unsupported':
                ctx.disagree(stream, i, f'{cfg}: model {rep[:2]}, implementation ok', cfg)
    else:
        if st == 'ok':
            ctx.fail(stream, i, f'stokes-op-accepts:{okind}', f'{cfg}: an operand of type {okind} was accepted', cfg)
        elif st != 'TypeError':
            ctx.fail(stream, i, f'stokes-op-rejects-with:{st}', f'{cfg}: expected TypeError, got {st}', cfg)
        if rep[0] != 'error':
            ctx.disagree(stream, i, f'{cfg}: implementation {st}, model {rep[:2]}', cfg)
    ctx.count('operand:' + okind)
    ctx.case(str(cfg) + str([c.tolist() for c in comps]), opname in ('sub', 'div', 'pow') or reflected or not expect_ok,
             sample={**cfg, 'status': st})


def helpers_case(ctx: Ctx, stream: str, i: int) -> None:
    import furax as fx
    from furax.landscapes import StokesPyTree
    rng = ctx.rng(stream, i)
    x64 = bool(jax.config.jax_enable_x64)
    kind = rng.choice(KINDS)
    cls = StokesPyTree.class_for(kind)
    shape = rng.choice([(2,), (3,), (2, 2)])
    # class_for / from_stokes
    for name in ('I', 'QU', 'IQU', 'IQUV', 'UQ', 'iqu', 'IQUX', ''):
        st, c = safe(StokesPyTree.class_for, name)
        rep = ctx.model.ask(['stokes-class', name if name else '_'])
        want_ok = name in KINDS
        if (st == 'ok') != want_ok or (st != 'ok' and st != 'ValueError'):
            ctx.fail(stream, i, f'class_for:{name}', f'class_for({name!r}) → {st}', {})
        if (rep[0] == 'ok') != (st == 'ok'):
            ctx.disagree(stream, i, f'class_for({name!r}): implementation {st}, model {rep}', {})
    dts = [np.float16, np.float32] + ([np.float64] if x64 else [])
    arrs = [jnp.asarray(np.full(shape, c + 1.0), dtype=rng.choice(dts)) for c in range(len(kind))]
    st, v = safe(StokesPyTree.from_stokes, *arrs)
    rep = ctx.model.ask(['from-stokes', str(len(arrs)), []])
    promoted = jnp.result_type(*arrs)
    if st != 'ok' or type(v) is not cls or rep[1] != kind:
        ctx.fail(stream, i, 'from_stokes-positional', f'from_stokes with {len(arrs)} arrays → {st} {type(v).__name__}', {})
    elif any(getattr(v, k.lower()).dtype != promoted for k in kind):
        ctx.fail(stream, i, 'from_stokes-promotion', 'components not promoted to the common dtype', {})
    kw = {k: a for k, a in zip(kind, arrs)}
    items = list(kw.items())
    rng.shuffle(items)
    st, v = safe(lambda: StokesPyTree.from_stokes(**dict(items)))
    rep = ctx.model.ask(['from-stokes', '0', [k for k, _ in items]])
    if st != 'ok' or type(v) is not cls or rep[1] != kind or \
            any(float(np.asarray(getattr(v, k.lower())).ravel()[0]) != float(np.asarray(kw[k]).ravel()[0]) for k in kind):
        ctx.fail(stream, i, 'from_stokes-keywords', f'from_stokes(**{[k for k, _ in items]}) → {st}', {})
    st, _ = safe(lambda: StokesPyTree.from_stokes(arrs[0], I=arrs[0]))
    if st != 'TypeError':
        ctx.fail(stream, i, 'from_stokes-mixed', f'positional and keyword arguments together → {st}', {})
    st, _ = safe(lambda: StokesPyTree.from_stokes(*([arrs[0]] * 5)))
    if st != 'TypeError':
        ctx.fail(stream, i, 'from_stokes-five', f'five arrays → {st}', {})
    # from_iquv selects
    four = [jnp.full(shape, float(c + 1), dtype=jnp.float32) for c in range(4)]
    v = cls.from_iquv(*four)
    sel = {'I': 0, 'Q': 1, 'U': 2, 'V': 3}
    if any(float(np.asarray(getattr(v, k.lower())).ravel()[0]) != sel[k] + 1 for k in kind):
        ctx.fail(stream, i, 'from_iquv', 'from_iquv does not select the components of the kind', {})
    # "with dtype promotion across components": mixed-dtype inputs come out in the promoted dtype of the KEPT
    # components (table of jnp.result_type, the one the model's promotion theorems are about), values unchanged
    pool = [jnp.float16, jnp.float32] + ([jnp.float64] if jax.config.jax_enable_x64 else [jnp.bfloat16])
    dts = [rng.choice(pool) for _ in range(4)]
    if len(set(dts)) == 1:
        dts[rng.randrange(4)] = rng.choice([d for d in pool if d != dts[0]])
    mixed = [jnp.full(shape, float(c + 1), dtype=dts[c]) for c in range(4)]
    kept = [sel[k] for k in kind]
    want_dt = jnp.result_type(*[dts[c] for c in kept])
    for label, mk in (('from_iquv', lambda: cls.from_iquv(*mixed)),
                      ('from_stokes', lambda: StokesPyTree.from_stokes(*[mixed[c] for c in kept])),
                      ('from_stokes-keywords', lambda: StokesPyTree.from_stokes(**{k: mixed[sel[k]] for k in reversed(kind)}))):
        st, t = safe(mk)
        cfgp = {'kind': kind, 'dtypes': [str(np.dtype(d)) if d != jnp.bfloat16 else 'bfloat16' for d in dts],
                'expected': str(want_dt)}
        if st != 'ok':
            ctx.fail(stream, i, f'{label}-mixed-raises:{st}', str(t)[:150], cfgp)
            continue
        got = [(str(getattr(t, k.lower()).dtype), float(np.asarray(getattr(t, k.lower()), dtype=np.float64).ravel()[0]))
               for k in kind]
        if any(d != str(want_dt) for d, _ in got):
            ctx.fail(stream, i, f'{label}-promotion', f'{label} of mixed-dtype components gives dtypes {[d for d, _ in got]}, '
                     f'the promoted dtype of the kept components is {want_dt}', cfgp)
        elif any(v != sel[k] + 1 for (_, v), k in zip(got, kind)):
            ctx.fail(stream, i, f'{label}-mixed-values', f'{label} changed the values while promoting', cfgp)
        elif type(t) is not cls:
            ctx.fail(stream, i, f'{label}-mixed-class', f'{label} returned {type(t).__name__}', cfgp)
    ctx.count('promotion:' + str(want_dt))
    # factories and *_like
    for label, mk, val in (('zeros', lambda: cls.zeros(shape, jnp.float32), 0.0), ('ones', lambda: cls.ones(shape, jnp.float32), 1.0),
                           ('full', lambda: cls.full(shape, 3.0, jnp.float32), 3.0)):
        st, z = safe(mk)
        if st != 'ok' or type(z) is not cls or any(np.asarray(l).shape != shape or l.dtype != jnp.float32 or
                                                    not np.all(np.asarray(l) == val) for l in jax.tree.leaves(z)):
            ctx.fail(stream, i, f'factory:{label}', f'{label} → {st}', {})
    s = cls.structure_for(shape, jnp.float32)
    key = jax.random.PRNGKey(i)
    for label, mk in (('normal', lambda: cls.normal(key, shape, jnp.float32)), ('uniform', lambda: cls.uniform(shape, key, jnp.float32)),
                      ('zeros_like', lambda: fx.tree.zeros_like(s)), ('ones_like', lambda: fx.tree.ones_like(s)),
                      ('full_like', lambda: fx.tree.full_like(s, 2)), ('normal_like', lambda: fx.tree.normal_like(s, key))):
        st, z = safe(mk)
        if st != 'ok' or jax.tree.structure(z) != jax.tree.structure(s) or \
                any(l.shape != shape or l.dtype != jnp.float32 for l in jax.tree.leaves(z)):
            ctx.fail(stream, i, f'like:{label}', f'{label} → {st}: structure, shape or dtype not reproduced', {})
    st, z = safe(lambda: cls.normal(key, shape, jnp.float32))
    if st == 'ok' and len(kind) > 1:
        ls = [np.asarray(l) for l in jax.tree.leaves(z)]
        if np.array_equal(ls[0], ls[1]):
            ctx.fail(stream, i, 'normal-same-key', 'random components are identical (the key is not split per leaf)', {})
    # neg / abs / getitem / ravel / reshape act on every component
    comps = [np.arange(int(np.prod(shape)), dtype=np.float64).reshape(shape) * (-1) ** c - c for c in range(len(kind))]
    a = cls(*[jnp.asarray(c, dtype=jnp.float32) for c in comps])
    for label, fn, ref in (('neg', lambda t: -t, lambda c: -c), ('abs', abs, np.abs), ('pos', lambda t: +t, lambda c: c),
                           ('getitem', lambda t: t[0], lambda c: c[0]), ('getitem-reversed', lambda t: t[::-1], lambda c: c[::-1]),
                           ('getitem-neg-step', lambda t: t[-1::-2], lambda c: c[-1::-2]), ('getitem-last', lambda t: t[-1], lambda c: c[-1]),
                           ('getitem-ellipsis-reversed', lambda t: t[..., ::-1], lambda c: c[..., ::-1]),
                           ('getitem-slice', lambda t: t[1:], lambda c: c[1:]), ('getitem-empty', lambda t: t[2:1], lambda c: c[2:1]),
                           ('getitem-array', lambda t: t[jnp.asarray([1, 0, 1])], lambda c: c[np.asarray([1, 0, 1])]),
                           ('ravel', lambda t: t.ravel(), lambda c: c.ravel()),
                           ('reshape', lambda t: t.reshape((-1, 1)), lambda c: c.reshape((-1, 1)))):
        st, z = safe(fn, a)
        if st != 'ok' or type(z) is not cls or any(not np.array_equal(np.asarray(getattr(z, k.lower())), ref(c))
                                                   for k, c in zip(kind, comps)):
            ctx.fail(stream, i, f'unary:{label}', f'{label} is not component-wise ({st})', {})
    # dot: hermitian sum of leaf inner products
    xs = [np.array([rng.randint(-3, 3) for _ in range(3)], dtype=np.float64) for _ in range(2)]
    ys = [np.array([rng.randint(-3, 3) for _ in range(3)], dtype=np.float64) for _ in range(2)]
    tx = {'a': jnp.asarray(xs[0], dtype=jnp.float32), 'b': jnp.asarray(xs[1], dtype=jnp.float32)}
    ty = {'a': jnp.asarray(ys[0], dtype=jnp.float32), 'b': jnp.asarray(ys[1], dtype=jnp.float32)}
    d = float(fx.tree.dot(tx, ty))
    rep = ctx.model.ask(['tree-dot', [[frac_str(Fraction(v)) for v in x.tolist()] for x in xs],
                         [[frac_str(Fraction(v)) for v in y.tolist()] for y in ys]])
    if d != float(Fraction(rep[1])) or d != float(sum(np.dot(x, y) for x, y in zip(xs, ys))):
        ctx.fail(stream, i, 'tree-dot', f'dot = {d}, model {rep[1]}', {})
    zx = {'a': jnp.asarray([1 + 2j, 3j], dtype=jnp.complex64)}
    zy = {'a': jnp.asarray([2 - 1j, 1 + 1j], dtype=jnp.complex64)}
    dz = complex(fx.tree.dot(zx, zy))
    if abs(dz - np.vdot(np.asarray(zx['a']), np.asarray(zy['a']))) > 1e-5:
        ctx.fail(stream, i, 'tree-dot-hermitian', f'complex dot = {dz}: the first argument is not conjugated', {})
    # every mix of complex and real leaves, in either argument, over pytrees of several leaves and Stokes containers
    # (`x @ y` of two containers is the same Hermitian sum): sum over the leaves of vdot(x_leaf, y_leaf)
    from furax.landscapes import StokesPyTree
    def rleaf(cplx, m):
        re = np.array([rng.randint(-3, 3) for _ in range(m)], dtype=np.float64)
        im = np.array([rng.randint(-3, 3) for _ in range(m)], dtype=np.float64)
        return (re + 1j * im).astype(np.complex64) if cplx else re.astype(np.float32)
    for trial in range(3):
        cx, cy = rng.choice([(True, False), (False, True), (True, True), (True, False)])
        kindd = rng.choice(['QU', 'IQU'])
        nl = len(kindd)
        lx_ = [rleaf(cx or (trial == 2 and k == 0), 3) for k in range(nl)]
        ly_ = [rleaf(cy, 3) for _ in range(nl)]
        want = sum(np.vdot(a, b) for a, b in zip(lx_, ly_))
        ccls = StokesPyTree.class_for(kindd)
        forms = [('tree.dot', lambda: fx.tree.dot({str(k): jnp.asarray(v) for k, v in enumerate(lx_)},
                                                  {str(k): jnp.asarray(v) for k, v in enumerate(ly_)})),
                 ('stokes-matmul', lambda: ccls(*[jnp.asarray(v) for v in lx_]) @ ccls(*[jnp.asarray(v) for v in ly_]))]
        # the model of the Hermitian sum (FuraxModel/ComplexDot.lean: treeDot over Gaussian rationals; conjugate symmetry,
        # sesquilinearity, positivity are theorems of Props/C20Complex.lean) on the same integer data — exact comparison
        def centries(a):
            return [[str(int(np.real(z))), str(int(np.imag(z)))] for z in np.ravel(a)]
        repz = ctx.model.ask(['tree-dot-complex', [centries(a) for a in lx_], [centries(b) for b in ly_]])
        if repz[0] != 'ok' or complex(int(Fraction(repz[1][0])), int(Fraction(repz[1][1]))) != complex(want):
            ctx.disagree(stream, i, f'Hermitian dot: model {str(repz)[:80]}, NumPy sum of vdot {want}', {'first_complex': cx, 'second_complex': cy})
        for fname, ff in forms:
            stz, dzz = safe(ff)
            if stz == 'ok' and repz[0] == 'ok' and complex(dzz) != complex(int(Fraction(repz[1][0])), int(Fraction(repz[1][1]))):
                ctx.disagree(stream, i, f'{fname}: implementation {complex(dzz)}, model {repz[1]}', {'first_complex': cx, 'second_complex': cy, 'kind': kindd})
            if stz != 'ok' or abs(complex(dzz) - want) > 1e-4:
                ctx.fail(stream, i, f'tree-dot-hermitian:{fname}', f'{fname} with {"complex" if cx else "real"} first and '
                         f'{"complex" if cy else "real"} second leaves gives {dzz if stz == "ok" else stz}, the Hermitian sum '
                         f'sum conj(x)·y is {want}', {'first_complex': cx, 'second_complex': cy, 'kind': kindd})
        ctx.count(f'dot:{"c" if cx else "r"}{"c" if cy else "r"}')
    # as_promoted_dtype
    mix = {'a': jnp.ones(2, dtype=rng.choice(dts)), 'b': jnp.ones(3, dtype=rng.choice(dts)),
           'c': jax.ShapeDtypeStruct((2,), rng.choice(dts))}
    p = fx.tree.as_promoted_dtype(mix)
    want = jnp.result_type(*jax.tree.leaves(mix))
    if any(l.dtype != want for l in jax.tree.leaves(p)) or jax.tree.structure(p) != jax.tree.structure(mix) or \
            not isinstance(p['c'], jax.ShapeDtypeStruct):
        ctx.fail(stream, i, 'as_promoted_dtype', 'leaves are not all cast to the promoted dtype', {})
    ctx.case(f'helpers:{kind}:{shape}:{x64}:{i}', True, sample={'helpers': kind, 'shape': shape, 'x64': x64})
    ctx.count('helpers')


def dtype_case(ctx: Ctx, stream: str, i: int) -> None:
    """Containers of every leaf dtype (integer and boolean ones included) against weakly and strongly typed scalars that
    the leaf dtype cannot represent (fractional, complex): a Stokes container behaves as its components do, so value
    AND dtype of every component are those of the same operation on the bare JAX array, forward and reflected."""
    from furax.landscapes import StokesPyTree
    rng = ctx.rng(stream, i)
    kind = rng.choice(KINDS)
    cls = StokesPyTree.class_for(kind)
    shape = rng.choice([(), (2,), (3,)])
    n = int(np.prod(shape))
    dts = [jnp.int32, jnp.int32, jnp.float32, jnp.float16, jnp.bool_, jnp.int8]
    if jax.config.jax_enable_x64:
        dts += [jnp.int64, jnp.float64]
    dt = rng.choice(dts)
    leaves = [jnp.asarray(np.array([rng.choice([1, 2, 3, 5]) + c for _ in range(n)]).reshape(shape), dtype=dt)
              for c in range(len(kind))]
    a = cls(*leaves)
    sname, scalar = rng.choice([('float-fractional', 2.5), ('float-negative', -1.5), ('int', 3), ('np.float32', np.float32(0.5)),
                                ('complex', 1j), ('np.float16', np.float16(1.5)), ('bool', True), ('float-integral', 2.0)])
    opname = rng.choice(['add', 'sub', 'mul', 'div'])
    op = OPS[opname]
    for reflected in (False, True):
        if reflected and isinstance(scalar, np.generic):
            # `numpy_scalar <op> container`: NumPy's own dispatch runs first and hands the container a converted Python
            # number (the NumPy scalar's type is lost before furax sees it) — outside the claims, like NumPy-array operands
            ctx.count('dtype:numpy-scalar-reflected-skipped')
            continue
        f = (lambda: op(scalar, a)) if reflected else (lambda: op(a, scalar))
        st, res = safe(f)
        cfg = {'kind': kind, 'leaf_dtype': str(np.dtype(dt)), 'scalar': sname, 'op': opname, 'reflected': reflected}
        ref = [safe(lambda l=l: op(scalar, l) if reflected else op(l, scalar)) for l in leaves]
        if any(r[0] != 'ok' for r in ref):
            # the bare arrays refuse the operation too (e.g. boolean subtraction): nothing to compare
            ctx.count('dtype:jax-refuses')
            continue
        if st != 'ok':
            ctx.fail(stream, i, f'stokes-op-raises:{st}:{sname}:{"reflected" if reflected else "forward"}',
                     f'{cfg}: raised {st} ({str(res)[:100]}) although every component array accepts the operation', cfg)
            continue
        for c, (_, want) in enumerate(ref):
            got = getattr(res, kind[c].lower())
            if got.dtype != want.dtype or got.shape != want.shape or \
                    not np.allclose(np.asarray(got).astype(np.complex128), np.asarray(want).astype(np.complex128), rtol=1e-3):
                ctx.fail(stream, i, f'stokes-op-not-componentwise:{opname}:{"reflected" if reflected else "forward"}',
                         f'{cfg}: component {kind[c]} is {np.asarray(got).tolist()} ({got.dtype}), the same operation on '
                         f'the component array gives {np.asarray(want).tolist()} ({want.dtype})', cfg)
                break
        ctx.count('dtype:' + str(np.dtype(dt)))
        ctx.case(str(cfg), True, sample=cfg)


def like_case(ctx: Ctx, stream: str, i: int) -> None:
    """the *_like helpers, as_structure, as_promoted_dtype and dot on GENERAL pytrees: nested containers whose leaves
    differ in shape and dtype (several leaves sharing a shape but not a dtype, and sharing a dtype but not a shape),
    given as arrays or as ShapeDtypeStructs, with fill values that not every dtype can hold.  Reference: every leaf on
    its own with jnp.full / the leaf's own attributes."""
    import furax as fx
    rng = ctx.rng(stream, i)
    x64 = bool(jax.config.jax_enable_x64)
    dts = [jnp.int32, jnp.float16, jnp.float32, jnp.bfloat16, jnp.complex64, jnp.int8] + ([jnp.float64] if x64 else [])
    shapes = [(3,), (3,), (2, 2), (), (1,), (2, 3)]
    n = rng.randint(2, 5)
    base_shape = rng.choice(shapes)
    leaves = []
    for k in range(n):
        shape = base_shape if rng.random() < 0.6 else rng.choice(shapes)
        dt = rng.choice(dts)
        leaves.append(jax.ShapeDtypeStruct(shape, dt) if rng.random() < 0.5 else jnp.zeros(shape, dt) + (k + 1))
    form = rng.choice(['dict', 'list', 'nested', 'tuple'])
    names = ['b', 'a', 'd', 'c', 'e']          # insertion order differs from the (sorted) flatten order
    if form == 'dict':
        tree = {names[k]: l for k, l in enumerate(leaves)}
    elif form == 'list':
        tree = list(leaves)
    elif form == 'tuple':
        tree = tuple(leaves)
    else:
        tree = {'z': leaves[:1], 'a': {'y': tuple(leaves[1:2]), 'x': leaves[2:]}}
    flat, treedef = jax.tree.flatten(tree)
    cfg = {'container': form, 'leaves': [(tuple(l.shape), str(l.dtype), 'struct' if isinstance(l, jax.ShapeDtypeStruct) else 'array')
                                         for l in flat]}

    def leafwise(label, got, ref_of_leaf, exact=True):
        if jax.tree.structure(got) != treedef:
            ctx.fail(stream, i, f'like:{label}:structure', f'{label} does not reproduce the tree structure', cfg)
            return
        for k, (g, l) in enumerate(zip(jax.tree.leaves(got), flat)):
            if tuple(g.shape) != tuple(l.shape) or g.dtype != l.dtype:
                ctx.fail(stream, i, f'like:{label}:shape-dtype', f'{label}: leaf {k} has shape {g.shape} dtype {g.dtype}, '
                         f'the model leaf has {l.shape} {l.dtype}', cfg)
                return
            if ref_of_leaf is not None:
                want = np.asarray(ref_of_leaf(l))
                if not np.array_equal(np.asarray(g), want):
                    ctx.fail(stream, i, f'like:{label}:value', f'{label}: leaf {k} ({l.dtype}{list(l.shape)}) holds '
                             f'{np.asarray(g).ravel()[:3].tolist()}, leaf-wise jnp.full gives {want.ravel()[:3].tolist()}', cfg)
                    return
    fill = rng.choice([2.5, 0.1, -3, 7, 300.7, -0.75, 1e-3])
    st, z = safe(fx.tree.full_like, tree, fill)
    if st != 'ok':
        ctx.fail(stream, i, f'like:full_like:{st}', str(z)[:150], {**cfg, 'fill': fill})
    else:
        leafwise('full_like', z, lambda l: jnp.full(l.shape, fill, l.dtype))
    for label, fn, val in (('zeros_like', fx.tree.zeros_like, 0), ('ones_like', fx.tree.ones_like, 1)):
        st, z = safe(fn, tree)
        if st != 'ok':
            ctx.fail(stream, i, f'like:{label}:{st}', str(z)[:150], cfg)
        else:
            leafwise(label, z, lambda l, val=val: jnp.full(l.shape, val, l.dtype))
    st, z = safe(fx.tree.as_structure, tree)
    if st != 'ok' or not all(isinstance(l, jax.ShapeDtypeStruct) for l in jax.tree.leaves(z)):
        ctx.fail(stream, i, 'like:as_structure', f'as_structure → {st}', cfg)
    else:
        leafwise('as_structure', z, None)
    st, z = safe(fx.tree.as_promoted_dtype, tree)
    want = jnp.result_type(*flat)
    if st != 'ok' or jax.tree.structure(z) != treedef or any(
            g.dtype != want or tuple(g.shape) != tuple(l.shape) or isinstance(g, jax.ShapeDtypeStruct) != isinstance(l, jax.ShapeDtypeStruct)
            for g, l in zip(jax.tree.leaves(z), flat)):
        ctx.fail(stream, i, 'like:as_promoted_dtype', f'as_promoted_dtype → {st}: not every leaf has dtype {want} with its own shape', cfg)
    elif any(not isinstance(l, jax.ShapeDtypeStruct) and not np.array_equal(np.asarray(g), np.asarray(jnp.astype(l, want)))
             for g, l in zip(jax.tree.leaves(z), flat)):
        ctx.fail(stream, i, 'like:as_promoted_dtype:value', 'as_promoted_dtype changed a value beyond the cast', cfg)
    # random helpers: floating leaves only; every leaf its own stream, the declared shape and dtype, uniform within bounds
    ftree = jax.tree.map(lambda l: jax.ShapeDtypeStruct(l.shape, l.dtype if np.dtype(l.dtype).kind == 'f' or l.dtype == jnp.bfloat16
                                                        else jnp.float32), tree)
    fflat = jax.tree.leaves(ftree)
    key = jax.random.PRNGKey(i)
    lo, hi = rng.choice([(0.0, 1.0), (-2.0, 5.0), (3.0, 4.0)])
    for label, fn in (('normal_like', lambda: fx.tree.normal_like(ftree, key)),
                      ('uniform_like', lambda: fx.tree.uniform_like(ftree, key, lo, hi))):
        st, z = safe(fn)
        if st != 'ok' or jax.tree.structure(z) != treedef or any(
                tuple(g.shape) != tuple(l.shape) or g.dtype != l.dtype for g, l in zip(jax.tree.leaves(z), fflat)):
            ctx.fail(stream, i, f'like:{label}', f'{label} → {st}: structure, shape or dtype not reproduced', cfg)
            continue
        gl = [np.asarray(g, dtype=np.float64) for g in jax.tree.leaves(z)]
        if label == 'uniform_like' and any(g.size and (g.min() < lo - 1e-2 or g.max() > hi + 1e-2) for g in gl):
            ctx.fail(stream, i, 'like:uniform_like:bounds', f'uniform_like({lo}, {hi}) returned values outside the bounds', cfg)
        same = [(a, b) for a in range(len(gl)) for b in range(a + 1, len(gl))
                if gl[a].shape == gl[b].shape and gl[a].size >= 3 and fflat[a].dtype == fflat[b].dtype and np.array_equal(gl[a], gl[b])]
        if same:
            ctx.fail(stream, i, f'like:{label}:same-stream', f'{label}: leaves {same[0]} are identical (the key is not split per leaf)', cfg)
    ctx.case(f'like:{form}:{cfg["leaves"]}:{fill}', True, sample={'like': form, 'n_leaves': n})
    ctx.count('like:' + form)


def landscape_case(ctx: Ctx, stream: str, i: int) -> None:
    """container attributes (shape, dtype, structure) and the landscape-level factories, which delegate to the Stokes
    classes: kind, shape, dtype, values, size"""
    from furax.landscapes import HealpixLandscape, StokesLandscape, StokesPyTree
    rng = ctx.rng(stream, i)
    kind = rng.choice(KINDS)
    cls = StokesPyTree.class_for(kind)
    shape = rng.choice([(2,), (3, 2), (1, 4)])
    dt = rng.choice([jnp.float32, jnp.float16, jnp.int32])
    x = cls(*[jnp.full(shape, c + 1, dtype=dt) for c in range(len(kind))])
    cfg = {'kind': kind, 'shape': shape, 'dtype': str(np.dtype(dt))}
    if tuple(x.shape) != shape or x.dtype != dt:
        ctx.fail(stream, i, 'container-attributes', f'shape/dtype of a {kind} container: {x.shape} {x.dtype}', cfg)
    sx_ = x.structure
    if type(sx_) is not cls or any(not isinstance(l, jax.ShapeDtypeStruct) or tuple(l.shape) != shape or l.dtype != dt
                                   for l in jax.tree.leaves(sx_)) or len(jax.tree.leaves(sx_)) != len(kind):
        ctx.fail(stream, i, 'container-structure', 'x.structure is not the container of ShapeDtypeStructs of its components', cfg)
    ldt = rng.choice([jnp.float32, jnp.float16] + ([jnp.float64] if jax.config.jax_enable_x64 else []))
    if rng.random() < 0.5:
        nside = rng.choice([1, 2, 4])
        land = HealpixLandscape(nside, kind, ldt)
        lshape = (12 * nside * nside,)
    else:
        lshape = rng.choice([(3,), (2, 3), (2, 2, 3)])

        class Flat(StokesLandscape):          # the base class leaves only the world → pixel map abstract
            def world2pixel(self, theta, phi):
                return (theta,) * len(self.shape)
        land = Flat(lshape, kind, ldt)
    cfg = {**cfg, 'landscape': type(land).__name__, 'landscape_shape': lshape, 'landscape_dtype': str(np.dtype(ldt))}
    if tuple(land.shape) != lshape or len(land) != int(np.prod(lshape)) or land.size != len(kind) * int(np.prod(lshape)):
        ctx.fail(stream, i, 'landscape-sizes', f'shape {land.shape}, len {len(land)}, size {land.size}', cfg)
    ls = land.structure
    if type(ls) is not cls or any(tuple(l.shape) != lshape or l.dtype != ldt for l in jax.tree.leaves(ls)):
        ctx.fail(stream, i, 'landscape-structure', 'landscape.structure is not the Stokes structure of its shape and dtype', cfg)
    key = jax.random.PRNGKey(i)
    fill = rng.choice([2.5, -1.0, 0.1])
    for label, mk, val in (('zeros', land.zeros, 0.0), ('ones', land.ones, 1.0), ('full', lambda: land.full(fill), fill),
                           ('normal', lambda: land.normal(key), None), ('uniform', lambda: land.uniform(key, 2.0, 3.0), None)):
        st, z = safe(mk)
        if st != 'ok' or type(z) is not cls or any(tuple(l.shape) != lshape or l.dtype != ldt for l in jax.tree.leaves(z)):
            ctx.fail(stream, i, f'landscape-factory:{label}', f'landscape.{label} → {st}: kind, shape or dtype not those of the landscape', cfg)
        elif val is not None and any(not np.array_equal(np.asarray(l), np.asarray(jnp.full(lshape, val, ldt))) for l in jax.tree.leaves(z)):
            ctx.fail(stream, i, f'landscape-factory:{label}:value', f'landscape.{label} holds other values than {val}', cfg)
        elif label == 'uniform' and any(np.asarray(l, dtype=np.float64).min() < 2.0 - 1e-2 or np.asarray(l, dtype=np.float64).max() > 3.0 + 1e-2
                                        for l in jax.tree.leaves(z)):
            ctx.fail(stream, i, 'landscape-factory:uniform:bounds', 'landscape.uniform(key, 2, 3) left the bounds', cfg)
    ctx.case(f'landscape:{cfg}', True, sample={'landscape': cfg['landscape']})
    ctx.count('landscape:' + cfg['landscape'])


def run(ctx: Ctx) -> None:
    for i in range(60 if ctx.tier == 'quick' else 1500):
        if ctx.want('like', i):
            like_case(ctx, 'like', i)
    for i in range(24 if ctx.tier == 'quick' else 400):
        if ctx.want('landscape', i):
            landscape_case(ctx, 'landscape', i)
    q = ctx.tier == 'quick'
    for i in range(300 if q else 8000):
        if ctx.want('op', i):
            one_case(ctx, 'op', i)
    for i in range(120 if q else 3000):
        if ctx.want('dtype', i):
            dtype_case(ctx, 'dtype', i)
    for i in range(24 if q else 400):
        if ctx.want('helpers', i):
            helpers_case(ctx, 'helpers', i)
