import numpy as np, jax, jax.numpy as jnp, subprocess, random, itertools, sys
from fractions import Fraction
jax.config.update("jax_enable_x64", True)
exe = "/tmp/lw/L7/.lake/build/bin/furax_model"
p = subprocess.Popen([exe], stdin=subprocess.PIPE, stdout=subprocess.PIPE, text=True)
def ask(line):
    p.stdin.write(line + "\n"); p.stdin.flush()
    return p.stdout.readline().strip()
def enc(a):
    return "(V (%s) (%s))" % (" ".join(map(str, a.shape)), " ".join(str(int(v)) for v in a.ravel()))
def parse(rep):
    # (ok (V (shape) (data)))
    import re
    if rep.startswith("(error"): return rep.split()[1].rstrip(")")
    m = re.match(r"\(ok \(V \(([^)]*)\) \(([^)]*)\)\)\)", rep)
    assert m, rep
    sh = tuple(int(t) for t in m.group(1).split())
    d = [int(t) for t in m.group(2).split()]
    return (sh, d)
def ref(f, subs, a, b):
    try:
        r = np.asarray(f(subs, a, b))
        return (tuple(r.shape), [int(v) for v in r.ravel()])
    except ValueError as e:
        return "ValueError"
    except Exception as e:
        return type(e).__name__
rng = random.Random(int(sys.argv[1]) if len(sys.argv) > 1 else 0)
N = int(sys.argv[2]) if len(sys.argv) > 2 else 2000
letters = "ijkAb"
def rterm(maxlen=3, pell=0.3):
    n = rng.randint(0, maxlen)
    t = [rng.choice(letters) for _ in range(n)]
    if rng.random() < pell:
        t.insert(rng.randint(0, n), "...")
    if rng.random() < 0.03:
        t.insert(rng.randint(0, len(t)), rng.choice([".", "..", "1", "-", "...", ">"]))
    return "".join(t)
def nletters(t): return len(t.replace(".", ""))
bad_np = bad_jnp = 0; stats = {"ok":0, "err":0}
for it in range(N):
    l, r = rterm(), rterm()
    # output: mostly letters from inputs
    pool = list(dict.fromkeys((l + r).replace(".", ""))) or ["i"]
    if rng.random() < 0.85:
        k = rng.randint(0, len(pool)); o = rng.sample(pool, k)
        if rng.random() < 0.05 and o: o.append(o[0])
        if "..." in l + r and rng.random() < 0.8 or rng.random() < 0.1:
            o.insert(rng.randint(0, len(o)), "...")
        o = "".join(o)
    else:
        o = rterm()
    subs = f"{l},{r}->{o}"
    sizes = {c: rng.choice([0, 1, 2, 2, 3, 3]) for c in letters}
    ell = [rng.choice([1, 2, 3]) for _ in range(rng.randint(0, 2))]
    def shape(t):
        sh = []
        if "..." in t:
            pre, post = t.split("...", 1)
            e = ell[rng.randint(0, len(ell)):]
            e = [1 if rng.random() < 0.2 else v for v in e]
        else:
            pre, post, e = t, "", []
        def sz(c):
            v = sizes.get(c, 2)
            if rng.random() < 0.1: v = 1
            if rng.random() < 0.03: v = rng.choice([1, 2, 3])
            return v
        sh = [sz(c) for c in pre if c.isalpha()] + e + [sz(c) for c in post if c.isalpha()]
        if rng.random() < 0.04: sh.append(2)
        if rng.random() < 0.04 and sh: sh.pop()
        return tuple(sh)
    sa, sb = shape(l), shape(r)
    a = np.array([rng.randint(-3, 3) for _ in range(int(np.prod(sa)))], dtype=np.int64).reshape(sa)
    b = np.array([rng.randint(-3, 3) for _ in range(int(np.prod(sb)))], dtype=np.int64).reshape(sb)
    m1 = parse(ask(f"(einsum-eval {subs} {enc(a)} {enc(b)})"))
    m2 = parse(ask(f"(einsum-eval-jax {subs} {enc(a)} {enc(b)})"))
    r1 = ref(np.einsum, subs, a, b)
    r2 = ref(jnp.einsum, subs, a, b)
    stats["ok" if isinstance(r1, tuple) else "err"] += 1
    if m1 != r1:
        bad_np += 1
        if bad_np <= 15: print("NP MISMATCH", subs, sa, sb, "model", m1, "numpy", r1)
    def diag1(t, sh):
        t2 = t.replace("...", "")
        if "..." in t:
            pre = t.split("...")[0]; npre = len(pre); npost = len(t2) - npre
            dims = list(sh[:npre]) + (list(sh[len(sh)-npost:]) if npost else [])
        else:
            dims = list(sh)
        if len(dims) != len(t2): return False
        d = {}
        for c, n in zip(t2, dims):
            d.setdefault(c, set()).add(n)
        return any(len(v) > 1 for v in d.values())
    known = (diag1(l, sa) or diag1(r, sb))
    if m2 != r2 and not known:
        bad_jnp += 1
        if bad_jnp <= 15: print("JNP MISMATCH", subs, sa, sb, "model", m2, "jnp", r2)
    if isinstance(m1, tuple):
        sh = ask(f"(einsum-shape {subs} ({' '.join(map(str,sa))}) ({' '.join(map(str,sb))}))")
        assert sh == "(ok (%s))" % " ".join(map(str, m1[0])), (sh, m1)
print("cases", N, stats, "numpy mismatches", bad_np, "jnp mismatches", bad_jnp)
