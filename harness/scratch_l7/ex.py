import numpy as np
from fractions import Fraction as F
a=np.arange(1,7).reshape(2,3); print(np.einsum('ij,j->i',a,np.array([1,0,-1])))
B=np.arange(1,13).reshape(2,2,3); x=np.array([-1,1,3,5,7,9]).reshape(2,3); y=np.array([1,-1,2,0]).reshape(2,2)
Ax=np.einsum('ikj,kj->ki',B,x); ATy=np.einsum('jki,kj->ki',B,y); print(Ax.ravel(), ATy.ravel(), (Ax*y).sum(), (x*ATy).sum())
a2=np.array([F(1,2),2,3,4,5,6],dtype=object).reshape(2,3); print(np.einsum('ij...,j...->i...',a2.astype(float),np.arange(1,7).reshape(3,2)).ravel())
print(np.einsum('...ij,j...->i...',B,np.array([1,0,-1]).reshape(3,1)).shape, np.einsum('...ij,j...->i...',B,np.array([1,0,-1]).reshape(3,1)).ravel())
print(np.einsum('iij,j->i',B,np.ones(3,dtype=int)))
print(np.einsum('ij,j->i',a,np.array([2])))
print(np.einsum('ij...,j...->i...',np.zeros((2,3,5,4)),np.zeros((3,4))).shape)
