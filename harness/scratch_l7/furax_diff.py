import numpy as np, jax, jax.numpy as jnp, subprocess, random, re, sys
jax.config.update("jax_enable_x64", True)
from furax._base.dense import DenseBlockDiagonalOperator as D
exe = "/tmp/lw/L7/.lake/build/bin/furax_model"
p = subprocess.Popen([exe], stdin=subprocess.PIPE, stdout=subprocess.PIPE, text=True)
def ask(line):
    p.stdin.write(line + "\n"); p.stdin.flush(); return p.stdout.readline().strip()
def enc(a): return "(V (%s) (%s))" % (" ".join(map(str, a.shape)), " ".join(str(int(v)) for v in np.asarray(a).ravel()))
def parse(rep):
    m = re.match(r"\(ok \(V \(([^)]*)\) \(([^)]*)\)\)\)", rep); assert m, rep
    return tuple(int(t) for t in m.group(1).split()), [int(t) for t in m.group(2).split()]
rng = random.Random(int(sys.argv[1]) if len(sys.argv) > 1 else 0)
n_ok = 0
for it in range(300):
    # shared letters h..., sum letter s, free letter t ; blocks may repeat letters
    others = rng.sample("abcdh", rng.randint(0, 2))
    s, t = "j", "i"
    res = others + [t]; rng.shuffle(res)
    ell_o = rng.random() < 0.5
    if ell_o: res.insert(rng.randint(0, len(res)), "...")
    results = "".join(res)
    rights = results.replace(t, s)
    lf = [s, t] + [c for c in others if rng.random() < 0.8]
    if rng.random() < 0.2: lf.append(rng.choice([s, t] + others))
    rng.shuffle(lf)
    if ell_o and rng.random() < 0.7: lf.insert(rng.randint(0, len(lf)), "...")
    lefts = "".join(lf)
    subs = f"{lefts},{rights}->{results}"
    sizes = {c: rng.choice([1, 2, 3]) for c in "abcdhij"}
    es = [rng.choice([1, 2, 3]) for _ in range(rng.randint(0, 2))] if ell_o else []
    def shape(term, e):
        if "..." in term:
            a, b = term.split("...")
            return tuple([sizes[c] for c in a] + e + [sizes[c] for c in b])
        return tuple(sizes[c] for c in term)
    eB = es[rng.randint(0, len(es)):] if "..." in lefts else []
    sb, sx, sy = shape(lefts, eB), shape(rights, es), shape(results, es)
    if len(sb) < 2: continue
    B = np.array([rng.randint(-3, 3) for _ in range(int(np.prod(sb)))], dtype=float).reshape(sb)
    x = np.array([rng.randint(-3, 3) for _ in range(int(np.prod(sx)))], dtype=float).reshape(sx)
    y = np.array([rng.randint(-3, 3) for _ in range(int(np.prod(sy)))], dtype=float).reshape(sy)
    op = D(jnp.asarray(B), jax.ShapeDtypeStruct(sx, jnp.float64), subs)
    Ax = np.asarray(op.mv(jnp.asarray(x)))
    m = parse(ask(f"(einsum-eval {subs} {enc(B)} {enc(x)})"))
    assert m == (tuple(Ax.shape), [int(v) for v in Ax.ravel()]), (subs, sb, sx, m, Ax)
    opT = op.T
    tr = ask(f"(einsum-transpose {subs})"); assert tr == f"(ok {opT.subscripts})", (tr, opT.subscripts)
    ATy = np.asarray(opT.mv(jnp.asarray(y)))
    m2 = parse(ask(f"(einsum-eval {opT.subscripts} {enc(B)} {enc(y)})"))
    assert m2 == (tuple(ATy.shape), [int(v) for v in ATy.ravel()]), (subs, m2, ATy)
    assert ATy.shape == x.shape, (subs, sb, sx, ATy.shape)
    assert (Ax * y).sum() == (x * ATy).sum()
    n_ok += 1
print("furax mv / transpose mv agree with model on", n_ok, "operators")
