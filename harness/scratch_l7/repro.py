# (1) _get_transposed_subscripts accepts a string whose output repeats a letter; einsum then refuses it.
# (2) numpy.einsum and jax.numpy.einsum disagree on three families of inputs.
import numpy as np, jax, jax.numpy as jnp
jax.config.update("jax_enable_x64", True)
from furax._base.dense import DenseBlockDiagonalOperator as D
subs = 'kij,kkj->kki'
print("transposed subscripts of", subs, "->", D._get_transposed_subscripts(subs))
op = D(jnp.ones((2, 2, 3)), jax.ShapeDtypeStruct((2, 2, 3), jnp.float64), subs)
print("constructor accepted")
for name, f in (("mv", lambda: op.mv(jnp.ones((2, 2, 3)))), (".T", lambda: op.T)):
    try:
        f()
    except Exception as e:
        print(name, "raises", type(e).__name__, ":", str(e)[:80])
def both(s, a, b):
    out = []
    for f in (np.einsum, jnp.einsum):
        try: r = np.asarray(f(s, a, b)); out.append((r.shape, r.ravel().tolist()))
        except Exception as e: out.append(type(e).__name__)
    print(repr(s), a.shape, b.shape, " numpy:", out[0], " jax:", out[1])
both('ij...,j...->i', np.arange(1., 7).reshape(2, 3, 1), np.array([1., 2, 3]).reshape(3, 1))
both('ii,i->i', np.array([[1., 2, 3]]), np.array([-1., 1, 3]))
both('iji,j->ji', np.arange(1., 10).reshape(3, 3, 1), np.array([1.]))
both('i1,1->i', np.arange(1., 7).reshape(2, 3), np.array([1., 0, -1]))
both('ij,j->...i...', np.arange(1., 7).reshape(2, 3), np.array([1., 0, -1]))
