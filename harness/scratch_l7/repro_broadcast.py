# The exact-fit hypothesis of the adjoint theorems is necessary: when einsum stretches a size-1 dimension of the
# blocks (or of the input's ellipsis), the rewritten subscripts do not give the adjoint.
import numpy as np, jax, jax.numpy as jnp
jax.config.update("jax_enable_x64", True)
from furax._base.dense import DenseBlockDiagonalOperator as D
# (a) contracted axis of the blocks has size 1, the input's has size 3
B = jnp.array([[2.], [5.]])                    # 'ij' with i=2, j=1
op = D(B, jax.ShapeDtypeStruct((3,), jnp.float64), 'ij,j->i')
x = jnp.array([1., 2., 3.]); y = jnp.array([1., -1.])
print("A x =", op.mv(x), "  A.T subscripts:", op.T.subscripts)
print("in_structure of A:", op.in_structure().shape, " out_structure of A.T:", op.T.out_structure().shape)
print("<A x, y> =", float(jnp.vdot(op.mv(x), y)), "  A.T y =", op.T.mv(y))
print("as_matrix(A).T vs as_matrix(A.T):", np.asarray(op.as_matrix()).T.shape, np.asarray(op.T.as_matrix()).shape)
# (b) the blocks carry more ellipsis dimensions than the input
B = jnp.arange(1., 31).reshape(2, 3, 5)
op = D(B, jax.ShapeDtypeStruct((3,), jnp.float64))          # default 'ij...,j...->i...'
print("in_structure of A:", op.in_structure().shape, " out_structure of A.T:", op.T.out_structure().shape)
