import sys
sys.path.insert(0, '/verif/harness')
import furax_imports  # noqa
import jax, jax.numpy as jnp, numpy as np
from furax._base.core import CompositionOperator, AdditionOperator, IdentityOperator
from furax._base.indices import IndexOperator
from furax.landscapes import StokesIQUPyTree, StokesPyTree, StokesIPyTree
from furax.operators.hwp import HWPOperator
from furax.operators.polarizers import LinearPolarizerOperator
from furax.operators.qu_rotations import QURotationOperator, QURotationTransposeOperator
from furax.operators.toeplitz import SymmetricBandToeplitzOperator
from furax._base.axes import ReshapeTransposeOperator
F = jnp.float32
S = lambda *sh: jax.ShapeDtypeStruct(tuple(sh), F)

def show(tag, f):
    try:
        r = f()
        print(f'{tag}: OK ->', jax.tree.map(lambda a: np.asarray(a).tolist(), r) if not isinstance(r, (str, bool)) else r)
    except Exception as e:
        print(f'{tag}: RAISES {type(e).__name__}: {str(e)[:120]}')

# 1 rotation on Stokes I with angles that do not broadcast
op = QURotationOperator(jnp.zeros(5, F), StokesPyTree.class_for('I').structure_for((2,), F))
show('1 qurot/I mv', lambda: op(StokesIPyTree(jnp.ones(2, F))))
# 2 ragged IQU
rag = StokesIQUPyTree(S(2), S(3), S(3))
x = StokesIQUPyTree(jnp.ones(2, F), jnp.arange(3, dtype=F), jnp.ones(3, F))
op = QURotationOperator(jnp.asarray(0.5, F), rag)
show('2a qurot ragged mv', lambda: op(x))
show('2a qurot ragged out_structure == in_structure', lambda: op.out_structure() == op.in_structure())
show('2b (R.T @ R).reduce() class', lambda: type((op.T @ op).reduce()).__name__)
show('2c hwp ragged mv', lambda: HWPOperator(rag)(x))
pol = LinearPolarizerOperator(StokesIQUPyTree(S(1), S(3), S(3)))
show('2d polarizer ragged out_structure', lambda: str(pol.out_structure()))
# 3 hwp on non Stokes
show('3a hwp list of 5: mv', lambda: HWPOperator([S(2)] * 5)([jnp.ones(2, F)] * 5))
show('3b hwp list of 2: mv', lambda: HWPOperator([S(2)] * 2)([jnp.ones(2, F)] * 2))
# 5 out of bounds index
P = IndexOperator((jnp.array([0, 5]),), in_structure=S(3))
xx = jnp.array([1., 2., 4.], F); yy = jnp.array([1., 1.], F)
show('5 P x (index [0,5] on length 3)', lambda: P(xx))
show('5 P.T y', lambda: P.T(yy))
show('5 <Px,y> vs <x,P.T y>', lambda: (float(jnp.vdot(P(xx), yy)), float(jnp.vdot(xx, P.T(yy)))))
show('5 (P.T @ P).reduce() diag', lambda: (P.T @ P).reduce().diagonal)
show('5 P.T(P(x))', lambda: P.T(P(xx)))
# 6 unique_indices lie
U = IndexOperator((jnp.array([1, 1]),), in_structure=S(3), unique_indices=True)
show('6 (U.T @ U).reduce() class', lambda: type((U.T @ U).reduce()).__name__)
show('6 U.T(U(x))', lambda: U.T(U(xx)))
show('6 (U @ U.T).reduce() class', lambda: type((U @ U.T).reduce()).__name__)
show('6 U(U.T(y))', lambda: U(U.T(yy)))
# 7 explicit wrong out_structure
W = IndexOperator((jnp.array([0, 1]),), in_structure=S(3), out_structure=S(5))
show('7 out_structure', lambda: str(W.out_structure()))
show('7 mv shape', lambda: str(W(xx).shape))
# 8 toeplitz
T0 = SymmetricBandToeplitzOperator(jnp.array([1.0, 0.5], F), S())
show('8a toeplitz rank-0 leaf mv', lambda: T0(jnp.asarray(1.0, F)))
T1 = SymmetricBandToeplitzOperator(jnp.zeros((0,), F), S(4), method='dense')
show('8b toeplitz empty band mv', lambda: T1(jnp.ones(4, F)))
# 9 direct constructors
C = CompositionOperator([IdentityOperator(S(2)), IdentityOperator(S(3))])
show('9a mismatched composition in/out', lambda: (str(C.in_structure()), str(C.out_structure())))
show('9a mv', lambda: C(jnp.ones(3, F)))
A = AdditionOperator([IdentityOperator(S(2)), IdentityOperator(S(3))])
show('9b mismatched addition mv', lambda: A(jnp.ones(2, F)))
show('9c CompositionOperator([]).in_structure', lambda: str(CompositionOperator([]).in_structure()))
Q = QURotationTransposeOperator(HWPOperator(StokesPyTree.class_for('IQU').structure_for((2,), F)))
show('9d qurotT(HWP) mv', lambda: Q(StokesIQUPyTree(jnp.ones(2, F), jnp.ones(2, F), jnp.ones(2, F))))
R = ReshapeTransposeOperator(IdentityOperator(S(2)))
show('9e reshapeT(identity) mv', lambda: R(jnp.ones(2, F)))
