"""Sweep: the hypotheses of the closed theorems, decided on the operators the harness really builds.

Generates random real furax operators / expressions with /verif/harness/gen.py, encodes them with
/verif/harness/encode.py and pipes `(valid OP)` to THIS scratch project's driver.

usage:  cd /verif/harness && /venv/bin/python /tmp/lw/L8/scratch/valid_sweep.py [N] [SEED]
"""
from __future__ import annotations

import collections
import os
import random
import subprocess
import sys

sys.path.insert(0, '/verif/harness')
os.chdir('/verif/harness')

import furax_imports  # noqa: F401,E402
import gen  # noqa: E402
from encode import Encoder, parse_sx, sx  # noqa: E402

EXE = '/tmp/lw/L8/.lake/build/bin/furax_model'


class Driver:
    def __init__(self):
        self.proc = subprocess.Popen([EXE], stdin=subprocess.PIPE, stdout=subprocess.PIPE, text=True, bufsize=1)

    def ask(self, req):
        line = sx(req)
        assert '\n' not in line
        self.proc.stdin.write(line + '\n')
        self.proc.stdin.flush()
        out = self.proc.stdout.readline()
        if not out:
            raise RuntimeError('driver died on ' + line[:300])
        return parse_sx(out.strip())


def class_path(o, depth=0):
    """a short description of an operator"""
    name = type(o).__name__
    if depth > 3:
        return name
    if name == 'CompositionOperator':
        return 'Comp[' + ','.join(class_path(x, depth + 1) for x in o.operands) + ']'
    if hasattr(o, 'operator'):
        return name + '(' + class_path(o.operator, depth + 1) + ')'
    return name


MAKERS = [n for n in dir(gen) if n.startswith('mk_')]


def candidates(rng: random.Random, n: int):
    """(source tag, thunk building an operator)"""
    for i in range(n):
        k = i % 4
        if k == 0:
            yield 'gen_expression', lambda: gen.gen_expression(rng)[0]
        elif k == 1:
            yield 'gen_step', lambda: gen.gen_step(rng, gen.random_structure(rng), 1)
        elif k == 2:
            name = rng.choice(MAKERS)
            yield name, lambda name=name: getattr(gen, name)(rng, gen.random_structure(rng))
        else:
            yield 'gen_endo', lambda: gen.gen_endo(rng, gen.random_structure(rng), 2)


def main():
    n = int(sys.argv[1]) if len(sys.argv) > 1 else 400
    seed = int(sys.argv[2]) if len(sys.argv) > 2 else 0
    rng = random.Random(seed)
    drv = Driver()
    answers = collections.Counter()
    by_source = collections.defaultdict(collections.Counter)
    reasons = collections.defaultdict(list)
    promises = collections.Counter()
    answers_T = collections.Counter()
    leaf_classes = collections.Counter()
    built = skipped = 0
    for src, thunk in candidates(rng, n):
        try:
            op = thunk()
        except Exception as e:  # a maker refusing a structure
            skipped += 1
            by_source[src]['raised:' + type(e).__name__] += 1
            continue
        if op is None:
            skipped += 1
            by_source[src]['None'] += 1
            continue
        built += 1
        enc = Encoder()
        try:
            e = enc.op(op)
        except Exception as ex:
            answers['encode-error:' + type(ex).__name__] += 1
            continue
        for tok in sx(e).replace('(', ' ').replace(')', ' ').split():
            if tok.endswith('Operator') or tok == 'Opaque':
                leaf_classes[tok] += 1
        r = drv.ask(['valid', e])
        key = ' '.join(r[:2]) if isinstance(r, list) else str(r)
        answers[key] += 1
        by_source[src][key] += 1
        if isinstance(r, list) and r[:2] == ['ok', 'F']:
            reasons[r[2]].append((src, class_path(op), sx(e)))
        pr = drv.ask(['valid-promises', e])
        if isinstance(pr, list) and pr[0] == 'ok':
            for w in pr[1:]:
                promises[f'{w[0]} of {w[1]}: {w[2]}'] += 1
        rt = drv.ask(['valid-T', e])
        answers_T[' '.join(rt[1:]) if isinstance(rt, list) else str(rt)] += 1
    print(f'built {built} operators ({skipped} maker calls returned nothing)')
    print('answers:')
    for k, v in answers.most_common():
        print(f'  {v:5d}  {k}')
    print('by source:')
    for s, c in sorted(by_source.items()):
        print(f'  {s:24s} ' + ', '.join(f'{k}: {v}' for k, v in c.most_common()))
    print('classes seen (occurrences of class names in the encodings):')
    print('  ' + ', '.join(f'{k}: {v}' for k, v in leaf_classes.most_common()))
    print('lazy-inverse wrappers (decided: operand is a rotation / a diagonal without zero entry, invertible by theorem;')
    print('                       promise: invertibility of the operand ASSUMED by the theorems, not decided):')
    for k, v in promises.most_common():
        print(f'  {v:5d}  {k}')
    print('answers of (valid-T OP) (hypotheses of transpose_is_adjoint_closed):')
    for k, v in answers_T.most_common():
        print(f'  {v:5d}  {k}')
    print('reasons of the F answers:')
    for rs, lst in sorted(reasons.items(), key=lambda kv: -len(kv[1])):
        print(f'  {len(lst):5d}  {rs}')
        for src, path, enc in lst[:3]:
            print(f'           e.g. [{src}] {path}')
            print(f'                {enc[:600]}')
    run_edge(drv)


def edge_cases():
    """hand-written operators at the border of what the constructors accept: (tag, thunk)"""
    import jax
    import jax.numpy as jnp
    import numpy as np
    from furax._base.axes import MoveAxisOperator, RavelOperator, ReshapeOperator, ReshapeTransposeOperator
    from furax._base.blocks import BlockColumnOperator, BlockDiagonalOperator, BlockRowOperator
    from furax._base.core import (AdditionOperator, CompositionOperator, HomothetyOperator, IdentityOperator,
                                  InverseOperator, TransposeOperator)
    from furax._base.diagonal import BroadcastDiagonalOperator, DiagonalInverseOperator, DiagonalOperator
    from furax._base.indices import IndexOperator
    from furax._base.linear import PackOperator
    from furax.landscapes import StokesIPyTree, StokesIQUPyTree, StokesPyTree, StokesQUPyTree
    from furax.operators.hwp import HWPOperator
    from furax.operators.polarizers import LinearPolarizerOperator
    from furax.operators.qu_rotations import QURotationOperator, QURotationTransposeOperator
    from furax.operators.toeplitz import SymmetricBandToeplitzOperator
    F = jnp.float32
    S = lambda *sh: jax.ShapeDtypeStruct(tuple(sh), F)
    iqu = lambda sh: StokesPyTree.class_for('IQU').structure_for(sh, F)
    ragged = StokesIQUPyTree(S(2), S(3), S(3))
    cases = [
        # polarimetry
        ('qurot: Stokes I, angles (5,) against leaves (2,)', lambda: QURotationOperator(jnp.zeros(5, F), StokesPyTree.class_for('I').structure_for((2,), F))),
        ('qurot: IQU leaves of different shapes (2,),(3,),(3,), scalar angle', lambda: QURotationOperator(jnp.asarray(0.5, F), ragged)),
        ('hwp: IQU leaves of different shapes (2,),(3,),(3,)', lambda: HWPOperator(ragged)),
        ('polarizer: IQU leaves (1,),(3,),(3,)', lambda: LinearPolarizerOperator(StokesIQUPyTree(S(1), S(3), S(3)))),
        ('polarizer: IQU leaves (3,),(1,),(1,)', lambda: LinearPolarizerOperator(StokesIQUPyTree(S(3), S(1), S(1)))),
        ('hwp: in_structure is a list of 2 arrays (not a Stokes pytree)', lambda: HWPOperator([S(2), S(2)])),
        ('hwp: in_structure is a list of 5 arrays', lambda: HWPOperator([S(2)] * 5)),
        ('hwp: in_structure is a bare array', lambda: HWPOperator(S(3))),
        ('qurot: angles (2,1) against leaves (3,)', lambda: QURotationOperator(jnp.zeros((2, 1), F), iqu((3,)))),
        ('qurot: angles (1,3) against leaves (3,)', lambda: QURotationOperator(jnp.zeros((1, 3), F), iqu((3,)))),
        ('qurotT built directly on a HWP', lambda: QURotationTransposeOperator(HWPOperator(iqu((2,))))),
        # index
        ('index: integer array with an out-of-bounds value', lambda: IndexOperator((jnp.array([0, 5]),), in_structure=S(3))),
        ('index: integer array with value -4 on an axis of length 3', lambda: IndexOperator((jnp.array([0, -4]),), in_structure=S(3))),
        ('index: out-of-bounds integer', lambda: IndexOperator((7,), in_structure=S(3))),
        ('index: unique_indices=True with a repeated index', lambda: IndexOperator((jnp.array([1, 1]),), in_structure=S(3), unique_indices=True)),
        ('index: unique_indices=True with 1 and -2 on an axis of length 3', lambda: IndexOperator((jnp.array([1, -2]),), in_structure=S(3), unique_indices=True)),
        ('index: explicit out_structure of the wrong shape', lambda: IndexOperator((jnp.array([0, 1]),), in_structure=S(3), out_structure=S(5))),
        ('index: boolean mask, out_structure of the wrong size', lambda: IndexOperator((jnp.array([True, False, True]),), in_structure=S(3), out_structure=S(3))),
        ('index: array on axis 1 of leaves of different rank', lambda: IndexOperator((slice(None), jnp.array([0, 1])), in_structure={'a': S(3, 2), 'b': S(3, 4, 2)})),
        ('pack: mask of another shape than the leaf', lambda: PackOperator(jnp.array([True, False]), in_structure=S(3))),
        ('pack: 2-d mask on (2,2) leaf', lambda: PackOperator(jnp.array([[True, False], [True, True]]), in_structure=S(2, 2))),
        # toeplitz
        ('toeplitz: rank-0 leaf', lambda: SymmetricBandToeplitzOperator(jnp.array([1.0, 0.5], F), S())),
        ('toeplitz: empty band array', lambda: SymmetricBandToeplitzOperator(jnp.zeros((0,), F), S(4), method='dense')),
        ('toeplitz: band batch (2,) against leaf (1,4)', lambda: SymmetricBandToeplitzOperator(jnp.ones((2, 2), F), S(1, 4))),
        ('toeplitz: band batch (1,2) against leaf (2,4)', lambda: SymmetricBandToeplitzOperator(jnp.ones((1, 2, 2), F), S(2, 4))),
        ('toeplitz: two leaves', lambda: SymmetricBandToeplitzOperator(jnp.array([1.0, 0.5], F), [S(4), S(2, 4)])),
        ('toeplitz: more bands than samples', lambda: SymmetricBandToeplitzOperator(jnp.array([1.0, 0.5, 0.25, 0.125], F), S(2), method='dense')),
        # diagonal
        ('diagonal: (3,) values on axis 0 of leaves (3,2),(3,)', lambda: DiagonalOperator(jnp.ones(3, F), axis_destination=0, in_structure={'a': S(3, 2), 'b': S(3)})),
        ('diagonal: values (1,) on leaf (3,)', lambda: DiagonalOperator(jnp.ones(1, F), in_structure=S(3))),
        ('diagonal: values (3,) on leaf (1,)', lambda: DiagonalOperator(jnp.ones(3, F), in_structure=S(1))),
        ('diagonal: values (2,3) axes (0,1)', lambda: DiagonalOperator(jnp.ones((2, 3), F), axis_destination=(0, 1), in_structure=S(2, 3))),
        ('diagonal: values (3,2) axes (1,0)', lambda: DiagonalOperator(jnp.ones((3, 2), F), axis_destination=(1, 0), in_structure=S(2, 3))),
        ('diagonal: axis beyond the rank', lambda: DiagonalOperator(jnp.ones(1, F), axis_destination=1, in_structure=S(3))),
        ('diagonal: singular, inverted (.I)', lambda: DiagonalOperator(jnp.array([1.0, 0.0], F), in_structure=S(2)).I),
        ('diagInv built directly on a non-diagonal (homothety)', lambda: DiagonalInverseOperator(HomothetyOperator(2.0, S(2)))),
        ('diagInv built directly on a broadcasting diagonal (not square)', lambda: DiagonalInverseOperator(BroadcastDiagonalOperator(jnp.ones((2, 3), F), in_structure=S(3)))),
        # wrappers, compositions, containers built directly
        ('InverseOperator of a non-square operator', lambda: InverseOperator(IndexOperator((jnp.array([0, 1]),), in_structure=S(3)))),
        ('InverseOperator of a singular homothety 0', lambda: InverseOperator(HomothetyOperator(0.0, S(2)))),
        ('ReshapeTransposeOperator built directly on an identity', lambda: ReshapeTransposeOperator(IdentityOperator(S(2)))),
        ('CompositionOperator([A, B]) with mismatched structures (direct constructor)', lambda: CompositionOperator([IdentityOperator(S(2)), IdentityOperator(S(3))])),
        ('CompositionOperator([]) (direct constructor)', lambda: CompositionOperator([])),
        ('AdditionOperator of operands with different structures (direct constructor)', lambda: AdditionOperator([IdentityOperator(S(2)), IdentityOperator(S(3))])),
        ('AdditionOperator([]) (direct constructor)', lambda: AdditionOperator([])),
        ('BlockRowOperator with different output structures', lambda: BlockRowOperator([IdentityOperator(S(2)), IdentityOperator(S(3))])),
        ('BlockColumnOperator with different input structures', lambda: BlockColumnOperator([IdentityOperator(S(2)), IdentityOperator(S(3))])),
        ('BlockDiagonalOperator of an empty list', lambda: BlockDiagonalOperator([])),
        ('BlockDiagonalOperator with a None slot', lambda: BlockDiagonalOperator({'a': IdentityOperator(S(2)), 'b': None})),
        # axes
        ('moveaxis: leaves of different rank', lambda: MoveAxisOperator(0, 1, in_structure={'a': S(3, 2), 'b': S(3, 4, 2)})),
        ('ravel: rank-1 leaf', lambda: RavelOperator(in_structure=S(3))),
        ('reshape: -1', lambda: ReshapeOperator((-1, 2), in_structure=S(3, 4))),
    ]
    return cases


def run_edge(drv):
    print()
    print('EDGE CASES (hand-written operators at the border of what the constructors accept)')
    for tag, thunk in edge_cases():
        try:
            op = thunk()
        except Exception as ex:
            print(f'  constructor refuses [{type(ex).__name__}]: {tag}')
            continue
        try:
            e = Encoder().op(op)
        except Exception as ex:
            print(f'  ENCODER fails [{type(ex).__name__}: {str(ex)[:80]}]: {tag}')
            continue
        r = drv.ask(['valid', e])
        pr = drv.ask(['valid-promises', e])
        rt = drv.ask(['valid-T', e])
        ans = ' '.join(r[1:]) if isinstance(r, list) else str(r)
        if rt != r:
            ans += ' | valid-T: ' + ' '.join(rt[1:])
        extra = '' if not (isinstance(pr, list) and len(pr) > 1) else '   promises: ' + sx(pr[1:])
        print(f'  accepted -> valid = {ans:48s} {tag}{extra}')


if __name__ == '__main__':
    main()
