"""Evaluates the checks against one seeded breaking change.

usage: seeded_eval.py <seeded dir> <property id> [--props C01,C07,…] [--thorough] [--seeds 0,1]

The seeded dir holds patch.diff and demo.py.  The patch is applied to /repo's working tree (git apply), the
demonstration must fail, the requested checks are run (quick tier, and thorough when asked), the patch is undone
(git checkout -- .), the demonstration must pass again.  Nothing is ever committed to /repo.
Prints one line per check run and a JSON summary; updates <seeded dir>/meta.json ("runs" entry).
"""
from __future__ import annotations

import json
import os
import subprocess
import sys
import time

VERIF = os.path.dirname(os.path.dirname(os.path.abspath(__file__)))
# the tree the change is applied to: /repo itself, or (VERIF_REPO) a scratch worktree of it — then furax is imported
# from that worktree through PYTHONPATH, which takes precedence over the editable install of /repo/src
REPO = os.environ.get('VERIF_REPO', '/repo')


def sh(cmd, **kw):
    return subprocess.run(cmd, shell=isinstance(cmd, str), text=True, capture_output=True, **kw)


def main() -> int:
    d = os.path.abspath(sys.argv[1])
    target = sys.argv[2]
    props = [target]
    tiers = ['quick']
    seeds = ['0']
    args = sys.argv[3:]
    for k, a in enumerate(args):
        if a == '--props':
            props = args[k + 1].split(',')
        if a == '--thorough':
            tiers = ['quick', 'thorough']
        if a == '--seeds':
            seeds = args[k + 1].split(',')
    patch = os.path.join(d, 'patch.diff')
    demo = os.path.join(d, 'demo.py')
    st = sh(['git', '-C', REPO, 'status', '--porcelain']).stdout.strip()
    if st:
        print('refusing: /repo has uncommitted changes:\n' + st)
        return 2
    env = dict(os.environ, PYTHONPATH=os.path.join(REPO, 'src'), JAX_PLATFORMS='cpu')
    clean = sh(['/venv/bin/python', demo], env=env, cwd=d)
    r = sh(['git', '-C', REPO, 'apply', '--check', patch])
    if r.returncode != 0:
        print('patch does not apply to /repo HEAD:\n' + r.stderr[-2000:])
        return 2
    sh(['git', '-C', REPO, 'apply', patch])
    runs = []
    try:
        broken = sh(['/venv/bin/python', demo], env=env, cwd=d)
        print(f'demo: clean exit={clean.returncode}  with-change exit={broken.returncode}')
        for p in props:
            for tier in tiers:
                for seed in seeds:
                    t0 = time.time()
                    scratch = os.path.join(VERIF, '.cache', 'seeded-evidence')
                    os.makedirs(scratch, exist_ok=True)
                    r = sh([os.path.join(VERIF, 'check'), p, '--tier', tier],
                           env=dict(os.environ, VERIF_SEED=seed, VERIF_EVIDENCE_DIR=scratch,
                                    PYTHONPATH=os.path.join(REPO, 'src')), cwd=VERIF)
                    viol = [l for l in r.stdout.split('\n') if l.startswith('VIOLATION')]
                    summary = [l for l in r.stdout.split('\n') if l.startswith(p + ' tier=')]
                    detail = [l.strip() for l in r.stderr.split('\n') if 'failing input' in l or 'correspondence broke' in l
                              or 'proof obligations' in l]
                    # replay content of the first violation
                    what = ''
                    if viol:
                        path = viol[0].split('replay=')[1].split()[0]
                        try:
                            rp = json.load(open(path))
                            what = (rp.get('signature') or rp.get('first', {}).get('what') or str(rp.get('theorems', '')))[:300]
                        except Exception:  # noqa: BLE001
                            pass
                    runs.append({'property': p, 'tier': tier, 'seed': int(seed), 'exit': r.returncode,
                                 'violations': viol, 'what': what, 'detail': detail[:3], 'wall_s': round(time.time() - t0, 1)})
                    print(f'  check {p} {tier} seed={seed}: exit={r.returncode} {"CAUGHT" if r.returncode == 1 else "missed" if r.returncode == 0 else "INFRA"}'
                          f' {what[:160]}')
                    if r.returncode == 1 and tier == 'quick':
                        break
    finally:
        sh(['git', '-C', REPO, 'checkout', '--', '.'])
    after = sh(['/venv/bin/python', demo], env=env, cwd=d)
    meta_path = os.path.join(d, 'meta.json')
    meta = {}
    if os.path.exists(meta_path):
        meta = json.load(open(meta_path))
    meta.setdefault('property', target)
    meta['demo'] = {'clean_exit': clean.returncode, 'with_change_exit': broken.returncode, 'after_revert_exit': after.returncode}
    meta.setdefault('runs', [])
    meta['runs'] += runs
    meta['caught_by'] = sorted({f"{r['property']}:{r['tier']}" for r in meta['runs'] if r['exit'] == 1})
    json.dump(meta, open(meta_path, 'w'), indent=1)
    ok = clean.returncode == 0 and broken.returncode != 0 and after.returncode == 0
    print(json.dumps({'demo_valid': ok, 'caught_by': meta['caught_by']}))
    return 0


if __name__ == '__main__':
    sys.exit(main())
