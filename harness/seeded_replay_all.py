"""Replays every seeded change against the current checks, several at a time.

Each worker owns a scratch worktree of /repo (where the change is applied; /repo itself is never touched) and a scratch
copy of /verif (its own generated tables, Lake build directory, replays and evidence), so workers do not disturb each
other nor the registered checks.  Writes seeded/REPLAY.json: for every change, which checks were run and what they said.

usage: seeded_replay_all.py [--workers 4] [--only C01-a,C02-b] [--seeds 1]
"""
from __future__ import annotations

import json
import os
import shutil
import subprocess
import sys
import time
from concurrent.futures import ThreadPoolExecutor

VERIF = os.path.dirname(os.path.dirname(os.path.abspath(__file__)))
SCRATCH = os.environ.get('VERIF_SCRATCH', f'/tmp/furax-verif-replay-{os.getpid()}')   # one scratch area per invocation
SEEDS = '0'


def sh(cmd, **kw):
    return subprocess.run(cmd, shell=isinstance(cmd, str), text=True, capture_output=True, **kw)


def worker(k: int, ids: list[str]) -> list[dict]:
    wt = os.path.join(SCRATCH, f'repo{k}')
    vf = os.path.join(SCRATCH, f'verif{k}')
    sh(['git', '-C', '/repo', 'worktree', 'remove', '--force', wt])
    shutil.rmtree(vf, ignore_errors=True)
    r = sh(['git', '-C', '/repo', 'worktree', 'add', '--detach', wt, 'HEAD'])
    if r.returncode != 0:
        return [{'id': i, 'error': 'worktree: ' + r.stderr[-300:]} for i in ids]
    shutil.copytree(VERIF, vf, ignore=shutil.ignore_patterns('.git', 'replays', '.cache', '__pycache__', 'coverage'))
    out = []
    try:
        for sid in ids:
            prop = sid.split('-')[0]
            d = os.path.join(vf, 'seeded', sid)
            meta = json.load(open(os.path.join(VERIF, 'seeded', sid, 'meta.json')))
            props = sorted({prop} | {c.split(':')[0] for c in meta.get('caught_by', [])})
            t0 = time.time()
            r = sh([sys.executable, os.path.join(vf, 'harness', 'seeded_eval.py'), d, prop, '--props', ','.join(props),
                    '--seeds', SEEDS], env=dict(os.environ, VERIF_REPO=wt))
            lines = [l.strip() for l in r.stdout.split('\n') if l.strip().startswith(('check ', 'demo:', '{'))]
            caught = [l.split()[1] for l in lines if l.startswith('check ') and 'CAUGHT' in l]
            infra = [l for l in lines if 'INFRA' in l]
            out.append({'id': sid, 'property': prop, 'checks_run': props, 'caught_by': caught,
                        'target_caught': prop in caught, 'infra': infra, 'lines': lines, 'wall_s': round(time.time() - t0, 1),
                        'stderr_tail': r.stderr[-300:] if r.returncode != 0 else ''})
            print(f'[{k}] {sid}: target {"CAUGHT" if prop in caught else "MISSED"}  all={caught} {"INFRA " + str(infra) if infra else ""}', flush=True)
    finally:
        sh(['git', '-C', '/repo', 'worktree', 'remove', '--force', wt])
        shutil.rmtree(vf, ignore_errors=True)
    return out


def main() -> int:
    args = sys.argv[1:]
    nw = int(args[args.index('--workers') + 1]) if '--workers' in args else 4
    global SEEDS
    if '--seeds' in args:
        SEEDS = args[args.index('--seeds') + 1]
    ids = sorted(d for d in os.listdir(os.path.join(VERIF, 'seeded')) if os.path.isdir(os.path.join(VERIF, 'seeded', d)))
    if '--only' in args:
        ids = args[args.index('--only') + 1].split(',')
    os.makedirs(SCRATCH, exist_ok=True)
    shards = [ids[k::nw] for k in range(nw)]
    with ThreadPoolExecutor(nw) as ex:
        res = [r for part in ex.map(lambda a: worker(*a), enumerate(shards)) for r in part]
    res.sort(key=lambda r: r['id'])
    head = sh(['git', '-C', '/repo', 'rev-parse', '--short', 'HEAD']).stdout.strip()
    vhead = sh(['git', '-C', VERIF, 'rev-parse', '--short', 'HEAD']).stdout.strip()
    summary = {'repo_head': head, 'verif_head_at_start': vhead, 'n': len(res),
               'target_caught': sum(1 for r in res if r.get('target_caught')),
               'missed': [r['id'] for r in res if not r.get('target_caught')], 'results': res}
    summary['seeds'] = SEEDS
    if '--only' not in args:
        name = 'REPLAY.json' if SEEDS == '0' else f'REPLAY-seed{SEEDS.replace(",", "_")}.json'
        json.dump(summary, open(os.path.join(VERIF, 'seeded', name), 'w'), indent=1)
    print(json.dumps({k: v for k, v in summary.items() if k != 'results'}))
    shutil.rmtree(SCRATCH, ignore_errors=True)
    return 0


if __name__ == '__main__':
    sys.exit(main())
