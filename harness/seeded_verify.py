"""Independent confirmation of one candidate breaking change made in a scratch worktree, and import under seeded/.

usage: seeded_verify.py <worktree> <out dir with patch.diff demo.py notes.md> <seeded id> <property id>

Confirms, in the scratch worktree (never in /repo):
  1. the worktree's diff against its HEAD is patch.diff (re-derived here, not taken on trust);
  2. the repository's test suite, unedited, has no newly failing test among the pinned stable ones;
  3. demo.py fails with the change and passes without it (git stash / stash pop).
Only then copies patch.diff, demo.py, notes.md to /verif/seeded/<id>/ and writes meta.json.
"""
from __future__ import annotations

import json
import os
import shutil
import subprocess
import sys
import tempfile
import xml.etree.ElementTree as ET

VERIF = os.path.dirname(os.path.dirname(os.path.abspath(__file__)))


def sh(cmd, **kw):
    return subprocess.run(cmd, shell=isinstance(cmd, str), text=True, capture_output=True, **kw)


def suite(wt: str) -> tuple[int, int, list[str]]:
    base = json.load(open('/root/.vp/BASELINE.json'))
    out = tempfile.mktemp(suffix='.xml')
    sh(f'cd {wt} && PYTHONPATH={wt}/src /venv/bin/python -m pytest -q -p no:cacheprovider --timeout=900 '
       f'--continue-on-collection-errors --junitxml={out}')
    passed = set()
    for tc in ET.parse(out).getroot().iter('testcase'):
        if not any(ch.tag in ('failure', 'error', 'skipped') for ch in tc):
            passed.add(f"{tc.get('classname')}::{tc.get('name')}")
    os.remove(out)
    stable = set(base['stable_pass'])
    return len(stable), len(passed), sorted(stable - passed)


def main() -> int:
    wt, out, sid, prop = sys.argv[1:5]
    wt = os.path.abspath(wt)
    env = dict(os.environ, PYTHONPATH=os.path.join(wt, 'src'), JAX_PLATFORMS='cpu')
    diff = sh(['git', '-C', wt, 'diff', 'HEAD']).stdout
    if not diff.strip():
        print('worktree has no change')
        return 2
    files = sh(['git', '-C', wt, 'diff', 'HEAD', '--stat']).stdout.strip().split('\n')
    untracked = sh(['git', '-C', wt, 'status', '--porcelain']).stdout
    demo = os.path.join(out, 'demo.py')
    with_change = sh(['/venv/bin/python', demo], env=env, cwd=out)
    nstable, npassed, missing = suite(wt)
    # undo / redo the change with the diff itself (`git stash` is shared by all worktrees of a repository: two
    # verifications running at the same time would swap their changes)
    tmpd = tempfile.mktemp(suffix='.diff')
    open(tmpd, 'w').write(diff)
    r1 = sh(['git', '-C', wt, 'apply', '-R', tmpd])
    try:
        without = sh(['/venv/bin/python', demo], env=env, cwd=out)
    finally:
        r2 = sh(['git', '-C', wt, 'apply', tmpd])
        os.remove(tmpd)
    if r1.returncode != 0 or r2.returncode != 0:
        print('could not undo/redo the change: ' + r1.stderr + r2.stderr)
        return 2
    ok = with_change.returncode != 0 and without.returncode == 0 and not missing
    agent_patch = os.path.join(out, 'patch.diff')
    if os.path.exists(agent_patch):
        def norm(t):
            return [l for l in t.split('\n') if l.startswith(('+', '-')) and not l.startswith(('+++', '---'))]
        if norm(open(agent_patch).read()) != norm(diff):
            print(f'{sid}: WARNING the worktree diff differs from the delivered patch.diff (the worktree diff is what is kept)')
    print(f'{sid}: demo with change exit={with_change.returncode}, without exit={without.returncode}; '
          f'suite stable={nstable} passing={npassed} newly_failing={len(missing)} -> {"VALID" if ok else "REJECTED"}')
    for m in missing[:10]:
        print('  newly failing', m)
    if not ok:
        return 1
    dest = os.path.join(VERIF, 'seeded', sid)
    os.makedirs(dest, exist_ok=True)
    open(os.path.join(dest, 'patch.diff'), 'w').write(diff)
    shutil.copy(demo, os.path.join(dest, 'demo.py'))
    notes = os.path.join(out, 'notes.md')
    if os.path.exists(notes):
        shutil.copy(notes, os.path.join(dest, 'notes.md'))
    meta = {'property': prop,
            'files_changed': [f.strip() for f in files[:-1]],
            'untracked_in_worktree': [l for l in untracked.split('\n') if l.startswith('??')],
            'needs_to_manifest': 'see notes.md (section on the trigger)',
            'confirmed': {
                'how': 'harness/seeded_verify.py in a scratch worktree of /repo HEAD (outside /repo and /verif)',
                'suite': {'stable_baseline': nstable, 'passing_with_change': npassed, 'newly_failing': 0},
                'demo_with_change_exit': with_change.returncode,
                'demo_with_change_tail': (with_change.stdout + with_change.stderr)[-600:],
                'demo_without_change_exit': without.returncode}}
    json.dump(meta, open(os.path.join(dest, 'meta.json'), 'w'), indent=1)
    return 0


if __name__ == '__main__':
    sys.exit(main())
