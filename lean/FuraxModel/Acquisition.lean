/-
Level B: the pointing model of `furax.projections` / `furax.instruments.sat`.

`rotationMatrix` is `get_rotation_matrix` as written (Z1-Y2-Z3 Euler convention with alpha = phi, beta = theta,
gamma = pa), in terms of the cosines and sines of the three angles; `rotate` is the einsum
`'ijk,jlm->ilmk'` for one (sample, direction); `acquire` is the per-sample chain polariser ∘ HWP ∘ QU-rotation
applied to the sky Stokes vector found at the pointed pixel.
-/
import FuraxModel.Stokes
namespace Furax
namespace Acquisition
variable {α : Type} [Add α] [Sub α] [Mul α] [Neg α]

/-- a 3×3 matrix as rows -/
abbrev Mat3 (α : Type) := List (List α)

/-- `get_rotation_matrix`: entries as written in the source -/
def rotationMatrix (c1 s1 c2 s2 c3 s3 : α) : Mat3 α :=
  [[-(s1 * s3) + c1 * c2 * c3, -(s1 * c3) - c1 * c2 * s3, c1 * s2],
   [c1 * s3 + s1 * c2 * c3, c1 * c3 - s1 * c2 * s3, s1 * s2],
   [-(s2 * c3), s2 * s3, c2]]

def mulVec3 [Zero α] (m : Mat3 α) (v : List α) : List α :=
  m.map fun row => (List.zipWith (· * ·) row v).foldl (· + ·) 0

/-- `jnp.einsum('ijk,jlm->ilmk', rot, coords)` for one sample and one detector direction -/
def rotate [Zero α] (c1 s1 c2 s2 c3 s3 : α) (dir : List α) : List α :=
  mulVec3 (rotationMatrix c1 s1 c2 s2 c3 s3) dir

/-- the reduced SAT acquisition on one sample: polariser ∘ HWP ∘ R(ψ) on the sky Stokes vector at the pointed
pixel (`c`, `s` = cos 2ψ, sin 2ψ) -/
def acquire (half : α) (k : StokesKind) (c s : α) (sky : SV α) : α :=
  SV.pol half k (SV.hwp (SV.rot c s sky))

/-- the projection alone: the sky Stokes vector at the pointed pixel with (Q, U) rotated by 2ψ -/
def project (c s : α) (sky : SV α) : SV α := SV.rot c s sky

end Acquisition
end Furax
