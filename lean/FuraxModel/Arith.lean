/-
The arithmetic dunders of `AbstractLinearOperator` and its subclasses (src/furax/_base/core.py),
with Python's binary-operator dispatch: `a.__op__(b)`; on `NotImplemented`, `b.__rop__(a)`.
(No furax operator class is a proper subclass of another one that overrides a reflected method, so the
"subclass first" clause of the dispatch never applies; checked from the generated class table.)
-/
import FuraxModel.Op
namespace Furax
namespace Op

/-- a Python list container of `n` operators -/
def listTd (n : Nat) : TreeDef := Tok.node "list" n :: List.replicate n Tok.leaf

/-- flat operand list of a sum (`operand_leaves`) -/
def addLeaves : Op → List Op
  | .cont _ .add _ ops => ops
  | _ => []

/-- `isinstance(b, AbstractLazyInverseOperator) and b.operator is a` -/
def lazyInverseOf (b a : Op) : Bool :=
  match b with
  | .wrap _ k o => (k == .inverse || k == .qurotT || k == .diagInv) && same o a
  | _ => false

/-- `AbstractLinearOperator.__matmul__`; `none` = `NotImplemented` -/
def baseMatmul (a b : Op) : Except PyErr (Option Op) :=
  if inS a != outS b then .error .valueError
  else if b.isComp then .ok none
  else if lazyInverseOf b a then .ok (some (mkIdentity (inS a)))
  else .ok (some (mkComp [a, b]))

/-- `type(a).__matmul__(a, b)` as resolved along the MRO of `a`'s class -/
def matmulOf (a b : Op) : Except PyErr (Option Op) :=
  match a with
  | .comp _ ops =>
    if inS a != outS b then .error .valueError
    else match b with
      | .comp _ ops' => .ok (some (mkComp (ops ++ ops')))
      | _ => .ok (some (mkComp (ops ++ [b])))
  | .leaf _ .identity _ =>
    if inS a != outS b then .error .valueError else .ok (some b)
  | .leaf _ .homothety p =>
    if b.isHomothety then
      (if inS a != outS b then .error .valueError
       else .ok (some (mkHomothety (a.homValue * b.homValue) p.inS)))
    else baseMatmul a b
  | .wrap _ _ _ =>
    if lazyInverseOf a b then .ok (some (mkIdentity (inS a)))
    else baseMatmul a b
  | _ => baseMatmul a b

/-- `a @ b` -/
def pyMatmul (a b : Op) : Except PyErr Op :=
  match matmulOf a b with
  | .error e => .error e
  | .ok (some r) => .ok r
  | .ok none =>
    -- reflected: only `CompositionOperator` defines `__rmatmul__`
    match b with
    | .comp _ ops =>
      -- `self.out_structure() != other.in_structure()` with self = b, other = a
      if outS b != inS a then .error .valueError else .ok (mkComp (a :: ops))
    | _ => .error .typeError

/-- the two structure checks shared by `__add__`, `__radd__`, `__sub__` -/
def addCheck (a b : Op) : Except PyErr Unit :=
  if inS a != inS b then .error .valueError
  else if outS a != outS b then .error .valueError
  else .ok ()

/-- the summands `a + b` is built from: the operand leaves of a sum (`AdditionOperator.__add__` /
`__radd__` flatten sums on either side), the operator itself otherwise -/
def summands (o : Op) : List Op := if o.isAdd then o.addLeaves else [o]

/-- `a + b`: `AbstractLinearOperator.__add__` (two-element sum, or NotImplemented and then
`AdditionOperator.__radd__` when `b` is a sum), `AdditionOperator.__add__` when `a` is a sum; in every
case a new sum over a Python list of the summands of `a` followed by those of `b`. -/
def pyAdd (a b : Op) : Except PyErr Op := do
  addCheck a b
  let all := summands a ++ summands b
  pure (.cont 0 .add (listTd all.length) all)

/-- `k * a` (`__rmul__`) for a 0-dimensional `k` -/
def pyRmul (k : Rat) (a : Op) : Except PyErr Op :=
  pyMatmul (mkHomothety k (outS a)) a

/-- `-a` -/
def pyNeg (a : Op) : Except PyErr Op :=
  match a with
  | .cont _ .add td ops => do
    let ops' ← ops.mapM (pyRmul (-1))
    pure (.cont 0 .add td ops')
  | _ => pyRmul (-1) a

/-- `+a` -/
def pyPos (a : Op) : Op := a

/-- `a - b` -/
def pySub (a b : Op) : Except PyErr Op := do
  addCheck a b
  let nb ← pyNeg b
  pyAdd a nb

/-- `a / k` for a 0-dimensional non-zero `k` -/
def pyTruediv (a : Op) (k : Rat) : Except PyErr Op :=
  if k = 0 then .error .unsupported
  else pyMatmul (mkHomothety (1 / k) (outS a)) a

end Op
end Furax
