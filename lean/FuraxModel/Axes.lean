/-
Level B: `MoveAxisOperator`, `RavelOperator`, `ReshapeOperator`, `ReshapeTransposeOperator`
(src/furax/_base/axes.py), one leaf at a time.  `numpy.moveaxis` is modelled by its own algorithm
(normalise, keep the other axes in order, insert (destination, source) pairs sorted by destination).
-/
import FuraxModel.Tensor
namespace Furax
namespace Axes

/-- `normalize_axis_index(a, ndim)`; `AxisError` is a `ValueError` -/
def normAxis (ndim : Nat) (a : Int) : Except PyErr Nat :=
  if a < -(ndim : Int) ∨ a ≥ (ndim : Int) then .error .valueError
  else .ok (if a < 0 then (a + ndim).toNat else a.toNat)

/-- `normalize_axis_tuple`: every axis normalised, repeated axes refused -/
def normAxisTuple (ndim : Nat) (axes : List Int) : Except PyErr (List Nat) := do
  let l ← axes.mapM (normAxis ndim)
  if l.eraseDups.length != l.length then .error .valueError else pure l

/-- Python `list.insert(i, x)` for `i ≥ 0` -/
def insertAt (l : List Nat) (i x : Nat) : List Nat := l.take i ++ [x] ++ l.drop i

/-- insertion into a list of pairs sorted by (destination, source), as `sorted(zip(destination, source))` -/
def insertPair (p : Nat × Nat) : List (Nat × Nat) → List (Nat × Nat)
  | [] => [p]
  | q :: rest => if p.1 < q.1 ∨ (p.1 = q.1 ∧ p.2 ≤ q.2) then p :: q :: rest else q :: insertPair p rest

def sortPairs (l : List (Nat × Nat)) : List (Nat × Nat) := l.foldr insertPair []

/-- the axis order `numpy.moveaxis` hands to `transpose` -/
def moveaxisOrder (ndim : Nat) (src dst : List Int) : Except PyErr (List Nat) := do
  let s ← normAxisTuple ndim src
  let d ← normAxisTuple ndim dst
  if s.length != d.length then .error .valueError
  else
    let rest := (List.range ndim).filter (fun n => !s.contains n)
    pure ((sortPairs (d.zip s)).foldl (fun ord (p : Nat × Nat) => insertAt ord p.1 p.2) rest)

/-- shape of `transpose(a, order)` -/
def transposeShape (shape order : List Nat) : List Nat := order.map (fun a => shape.getD a 0)

/-- data of `transpose(a, order)`: `out[idx] = in[idx']` with `idx'[order[m]] = idx[m]` -/
def transposeData {α} [Inhabited α] (shape order : List Nat) (data : List α) : List α :=
  let outShape := transposeShape shape order
  (List.range (prodNat outShape)).map fun k =>
    let idx := unravel outShape k
    let inIdx := (List.range shape.length).map fun ax =>
      idx.getD (order.idxOf ax) 0
    data.getD (ravelIdx shape inIdx) default

/-- `jnp.moveaxis(leaf, source, destination)` -/
def moveaxis {α} [Inhabited α] (t : Tensor α) (src dst : List Int) : Except PyErr (Tensor α) := do
  let order ← moveaxisOrder t.shape.length src dst
  pure ⟨transposeShape t.shape order, transposeData t.shape order t.data⟩

/-! ### ravel -/

/-- Python `seq[:k]` -/
def pyTake {α} (l : List α) (k : Int) : List α :=
  if k < 0 then l.take ((l.length : Int) + k).toNat else l.take k.toNat

/-- Python `seq[k:]` -/
def pyDrop {α} (l : List α) (k : Int) : List α :=
  if k < 0 then l.drop ((l.length : Int) + k).toNat else l.drop k.toNat

def normSigned (ndim : Nat) (a : Int) : Int := if a < 0 then (ndim : Int) + a else a

/-- `RavelOperator.__init__` checks, given the ranks of the leaves -/
def ravelCtor (first last : Int) (ranks : List Nat) : Except PyErr Unit :=
  if (0 ≤ last ∧ last < first) ∨ (last < first ∧ first < 0) then .error .valueError
  else if (first < 0 ∧ 0 ≤ last) ∨ (last < 0 ∧ 0 ≤ first) then
    if ranks.any (fun r => normSigned r first > normSigned r last) then .error .valueError else .ok ()
  else .ok ()

/-- the `-1` inference of `reshape`: the size not accounted for by the other dimensions -/
def inferDim (total : Nat) (others : List Nat) : Except PyErr Nat :=
  let p := prodNat others
  if p = 0 then .error .typeError
  else if total % p != 0 then .error .typeError
  else .ok (total / p)

/-- output shape of `RavelOperator.mv` on one leaf -/
def ravelShape (first last : Int) (shape : List Nat) : Except PyErr (List Nat) :=
  let f := normSigned shape.length first
  let l := normSigned shape.length last
  if f > l then .error .assertion
  else if f = l then .ok shape
  else do
    let pre := pyTake shape f
    let post := pyDrop shape (l + 1)
    let m ← inferDim (prodNat shape) (pre ++ post)
    pure (pre ++ [m] ++ post)

/-! ### reshape -/

/-- `ReshapeOperator._normalize_shape(shape, leaf_shape)` -/
def normalizeShape (shape : List Int) (leafShape : List Nat) : Except PyErr (List Int) :=
  if shape.any (· < -1) then .error .valueError
  else
    let index := shape.idxOf (-1)
    if index ≥ shape.length then .ok shape
    else
      let before := shape.take index
      let after := shape.drop (index + 1)
      if after.contains (-1) then .error .valueError
      else
        let p : Int := shape.foldl (· * ·) 1            -- prod(shape), includes the −1
        if p = 0 then .error .zeroDivision
        else
          let total : Int := (prodNat leafShape : Int)
          -- unknown = −prod(leaf)/prod(shape) must be an integer
          if (-total) % p != 0 then .error .valueError
          else .ok (before ++ [(-total) / p] ++ after)

/-- `ReshapeOperator._check_shape` for one leaf: the normalised shape has the leaf's size -/
def reshapeCheck (shape : List Int) (leafShape : List Nat) : Except PyErr (List Nat) := do
  let ns ← normalizeShape shape leafShape
  let p : Int := ns.foldl (· * ·) 1
  if p != (prodNat leafShape : Int) then .error .valueError
  else pure (ns.map Int.toNat)

end Axes
end Furax
