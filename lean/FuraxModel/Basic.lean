/-
Basic vocabulary of the model: Python error kinds, pytree definitions in flattened prefix form,
array structures (shape + dtype), sizes.  Mathlib-free, executable.
-/
namespace Furax

/-- the Python exception kinds the harness distinguishes -/
inductive PyErr where
  | valueError | typeError | notImplemented | zeroDivision | indexError | attributeError
  | assertion | fuel | unsupported
  deriving DecidableEq, Repr, Inhabited

def PyErr.name : PyErr → String
  | .valueError => "ValueError"
  | .typeError => "TypeError"
  | .notImplemented => "NotImplementedError"
  | .zeroDivision => "ZeroDivisionError"
  | .indexError => "IndexError"
  | .attributeError => "AttributeError"
  | .assertion => "AssertionError"
  | .fuel => "FUEL"
  | .unsupported => "UNSUPPORTED"

/-- A pytree definition in prefix (Polish) notation, like `jax.tree_util.PyTreeDef`:
a leaf placeholder, or an interior node with a tag (`list`, `tuple`, `dict:k1,k2`, `stokes:IQU`, `none`)
and an arity. -/
inductive Tok where
  | leaf
  | node (tag : String) (arity : Nat)
  deriving DecidableEq, Repr, Inhabited

abbrev TreeDef := List Tok

/-- number of leaf placeholders -/
def TreeDef.numLeaves (td : TreeDef) : Nat := (td.filter (· == Tok.leaf)).length

/-- substitute the i-th leaf placeholder by the i-th tree definition (`jax.tree.map` of a function
returning pytrees over a container: the container's treedef composed with the results') -/
def TreeDef.subst : TreeDef → List TreeDef → TreeDef
  | [], _ => []
  | Tok.leaf :: rest, [] => Tok.leaf :: TreeDef.subst rest []
  | Tok.leaf :: rest, t :: ts => t ++ TreeDef.subst rest ts
  | n@(Tok.node _ _) :: rest, ts => n :: TreeDef.subst rest ts

inductive DType where
  | f16 | f32 | f64 | i32 | i64 | b1 | c64 | c128
  deriving DecidableEq, Repr, Inhabited

def DType.name : DType → String
  | .f16 => "float16" | .f32 => "float32" | .f64 => "float64" | .i32 => "int32" | .i64 => "int64"
  | .b1 => "bool" | .c64 => "complex64" | .c128 => "complex128"

def DType.ofName? : String → Option DType
  | "float16" => some .f16 | "float32" => some .f32 | "float64" => some .f64
  | "int32" => some .i32 | "int64" => some .i64 | "bool" => some .b1
  | "complex64" => some .c64 | "complex128" => some .c128
  | _ => none

/-- `jax.ShapeDtypeStruct` -/
structure LeafS where
  shape : List Nat
  dtype : DType
  deriving DecidableEq, Repr, Inhabited

def prodNat (l : List Nat) : Nat := l.foldl (· * ·) 1

def LeafS.size (l : LeafS) : Nat := prodNat l.shape

/-- A structure: pytree of `ShapeDtypeStruct`, as (treedef, leaves).  Python's `==` on two such
pytrees is equality of the treedefs and of the leaf lists. -/
structure Struct where
  td : TreeDef
  leaves : List LeafS
  deriving DecidableEq, Repr, Inhabited

/-- number of elements: `sum(leaf.size for leaf in leaves)` -/
def Struct.size (s : Struct) : Nat := (s.leaves.map LeafS.size).sum

/-- a container treedef applied to per-leaf structures (the structure of a block operator) -/
def Struct.nest (td : TreeDef) (ss : List Struct) : Struct :=
  { td := td.subst (ss.map (·.td)), leaves := (ss.map (·.leaves)).flatten }

end Furax
