/-
Level B: what block operators compute (src/furax/_base/blocks.py), on flattened pytrees.

A value is the flat list of its leaves (pytree-leaf order); a block is a function on such lists together with
the number of leaves of its input (`cin`) and output (`cout`).
* `BlockDiagonalOperator.mv`: `tree_map(lambda op, vect: op.mv(vect), blocks, vector)` — block `i` acts on its
  own slice of the input leaves; the outputs are laid side by side.
* `BlockColumnOperator.mv`: every block acts on the whole input; the outputs are laid side by side.
* `BlockRowOperator.mv`: block `i` acts on its slice; the outputs (all of the same structure) are added leaf by
  leaf, starting from the first block's output.
-/
namespace Furax
namespace BlockSem
variable {W : Type}

/-- cut a flat leaf list into consecutive slices of the given lengths -/
def splitBy : List Nat → List W → List (List W)
  | [], _ => []
  | n :: ns, x => x.take n :: splitBy ns (x.drop n)

structure Block (W : Type) where
  f : List W → List W
  cin : Nat
  cout : Nat

/-- a block maps `cin` leaves to `cout` leaves -/
def Block.Honest (b : Block W) : Prop := ∀ x, x.length = b.cin → (b.f x).length = b.cout

def denDiag (bs : List (Block W)) (x : List W) : List W :=
  (List.zipWith (fun (b : Block W) xi => b.f xi) bs (splitBy (bs.map (·.cin)) x)).flatten

def denCol (bs : List (Block W)) (x : List W) : List W :=
  (bs.map fun b => b.f x).flatten

/-- leaf-wise sum of pytrees with the same structure -/
def addLeaves [Add W] (a b : List W) : List W := List.zipWith (· + ·) a b

def denRow [Add W] (bs : List (Block W)) (x : List W) : List W :=
  match List.zipWith (fun (b : Block W) xi => b.f xi) bs (splitBy (bs.map (·.cin)) x) with
  | [] => []
  | y :: ys => ys.foldl addLeaves y

/-- `l @ r` for blocks -/
def Block.comp (l r : Block W) : Block W := ⟨l.f ∘ r.f, r.cin, l.cout⟩

end BlockSem
end Furax
