/-
S-expression encoding of the model's data, mirrored by harness/encode.py.
-/
import FuraxModel.SExp
import FuraxModel.Op
namespace Furax
open SExp

def LeafCls.name : LeafCls → String
  | .identity => "IdentityOperator" | .homothety => "HomothetyOperator"
  | .diagonal => "DiagonalOperator" | .broadcastDiagonal => "BroadcastDiagonalOperator"
  | .index => "IndexOperator" | .pack => "PackOperator" | .moveAxis => "MoveAxisOperator"
  | .ravel => "RavelOperator" | .reshape => "ReshapeOperator" | .qurot => "QURotationOperator"
  | .hwp => "HWPOperator" | .polarizer => "LinearPolarizerOperator"
  | .dense => "DenseBlockDiagonalOperator" | .toeplitz => "SymmetricBandToeplitzOperator"
  | .obsMatrix => "ToastObservationMatrixOperator" | .opaque => "Opaque"

def LeafCls.all : List LeafCls :=
  [.identity, .homothety, .diagonal, .broadcastDiagonal, .index, .pack, .moveAxis, .ravel, .reshape,
   .qurot, .hwp, .polarizer, .dense, .toeplitz, .obsMatrix, .opaque]

def LeafCls.ofName? (s : String) : Option LeafCls := LeafCls.all.find? (·.name == s)

def WrapCls.name : WrapCls → String
  | .transpose => "TransposeOperator" | .inverse => "InverseOperator"
  | .reshapeT => "ReshapeTransposeOperator" | .qurotT => "QURotationTransposeOperator"
  | .diagInv => "DiagonalInverseOperator" | .obsT => "ToastObservationMatrixTransposeOperator"

def WrapCls.all : List WrapCls := [.transpose, .inverse, .reshapeT, .qurotT, .diagInv, .obsT]
def WrapCls.ofName? (s : String) : Option WrapCls := WrapCls.all.find? (·.name == s)

def ContCls.name : ContCls → String
  | .add => "AdditionOperator" | .blockRow => "BlockRowOperator"
  | .blockDiag => "BlockDiagonalOperator" | .blockCol => "BlockColumnOperator"

def ContCls.all : List ContCls := [.add, .blockRow, .blockDiag, .blockCol]
def ContCls.ofName? (s : String) : Option ContCls := ContCls.all.find? (·.name == s)

/-! ### decoding -/

def decTok : SExp → Option Tok
  | atom "L" => some .leaf
  | list [atom "N", atom tag, n] => do some (.node tag (← n.nat?))
  | _ => none

def decTreeDef (e : SExp) : Option TreeDef := e.list?.bind (·.mapM decTok)

def decLeafS : SExp → Option LeafS
  | list [sh, atom dt] => do some ⟨← sh.nats?, ← DType.ofName? dt⟩
  | _ => none

def decStruct : SExp → Option Struct
  | list [atom "S", td, lv] => do
    some ⟨← decTreeDef td, ← lv.list?.bind (·.mapM decLeafS)⟩
  | _ => none

def decTensor : SExp → Option (Tensor Rat)
  | list [atom "V", sh, d] => do some ⟨← sh.nats?, ← d.rats?⟩
  | _ => none

def decOptInt : SExp → Option (Option Int)
  | atom "N" => some none
  | e => e.int?.map some

def decIdx : SExp → Option IdxEntry
  | atom "E" => some .ellipsis
  | list [atom "i", n] => n.int?.map .int
  | list [atom "s", a, b, c] => do some (.slice (← decOptInt a) (← decOptInt b) (← decOptInt c))
  | list [atom "ia", sh, v] => do some (.iarr (← sh.nats?) (← v.ints?))
  | list [atom "ba", sh, v] => do some (.barr (← sh.nats?) (← v.list?.bind (·.mapM bool?)))
  | _ => none

def decParams : SExp → Option Params
  | list [atom "P", i, o, v, ints, idx, fl, atom s] => do
    some { inS := ← decStruct i, outS := ← decStruct o, vals := ← decTensor v,
           ints := ← ints.list?.bind (·.mapM SExp.ints?),
           idx := ← idx.list?.bind (·.mapM decIdx),
           flag := ← fl.bool?, str := if s == "_" then "" else s }
  | _ => none

partial def decOp : SExp → Option Op
  | list [atom "leaf", u, atom c, p] => do
    some (.leaf (← u.nat?) (← LeafCls.ofName? c) (← decParams p))
  | list [atom "wrap", u, atom k, o] => do
    some (.wrap (← u.nat?) (← WrapCls.ofName? k) (← decOp o))
  | list (atom "comp" :: u :: ops) => do
    some (.comp (← u.nat?) (← ops.mapM decOp))
  | list (atom "cont" :: u :: atom k :: td :: ops) => do
    some (.cont (← u.nat?) (← ContCls.ofName? k) (← decTreeDef td) (← ops.mapM decOp))
  | _ => none

/-! ### encoding -/

def encTok : Tok → SExp
  | .leaf => atom "L"
  | .node tag n => list [atom "N", atom tag, ofNat n]

def encTreeDef (td : TreeDef) : SExp := list (td.map encTok)
def encLeafS (l : LeafS) : SExp := list [ofNats l.shape, atom l.dtype.name]
def encStruct (s : Struct) : SExp := list [atom "S", encTreeDef s.td, list (s.leaves.map encLeafS)]
def encTensor (t : Tensor Rat) : SExp := list [atom "V", ofNats t.shape, ofRats t.data]
def encOptInt : Option Int → SExp
  | none => atom "N"
  | some i => ofInt i
def encIdx : IdxEntry → SExp
  | .ellipsis => atom "E"
  | .int i => list [atom "i", ofInt i]
  | .slice a b c => list [atom "s", encOptInt a, encOptInt b, encOptInt c]
  | .iarr sh v => list [atom "ia", ofNats sh, ofInts v]
  | .barr sh v => list [atom "ba", ofNats sh, list (v.map ofBool)]
def encParams (p : Params) : SExp :=
  list [atom "P", encStruct p.inS, encStruct p.outS, encTensor p.vals,
        list (p.ints.map ofInts), list (p.idx.map encIdx), ofBool p.flag,
        atom (if p.str == "" then "_" else p.str)]

partial def encOp : Op → SExp
  | .leaf u c p => list [atom "leaf", ofNat u, atom c.name, encParams p]
  | .wrap u k o => list [atom "wrap", ofNat u, atom k.name, encOp o]
  | .comp u ops => list (atom "comp" :: ofNat u :: ops.map encOp)
  | .cont u k td ops => list (atom "cont" :: ofNat u :: atom k.name :: encTreeDef td :: ops.map encOp)

end Furax
