/-
Level B: `furax.tree.dot` (src/furax/tree.py) and `StokesPyTree.__matmul__` (src/furax/landscapes.py) on pytrees
whose leaves may be COMPLEX.

    xy = jax.tree.map(jnp.vdot, x, y)
    return sum(jax.tree.leaves(xy), start=jnp.array(0))

`jnp.vdot(a, b)` flattens both arrays and conjugates its FIRST argument: `Σ_i conj(a_i) · b_i`.  The real-only model
(`StokesArith.dot`, over a commutative ring) cannot see on which side the conjugation sits; this one can.

Exact arithmetic: Gaussian rationals `GRat = ℚ[i]` (a pair of `Rat`), so that the driver answers are comparable
exactly with `complex64` data whose real and imaginary parts are small integers.

A pytree is the list of its leaves (in `jax.tree.leaves` order), a leaf is the list of its entries (row-major,
`ravel`).  As `List.zipWith` does, a shape mismatch truncates to the common prefix (Python raises instead; the
harness only sends equal shapes, and the theorems that need equal shapes say so).

Core Lean only (no Mathlib): this file is compiled into the driver.
-/
namespace Furax
namespace ComplexDot

/-- a Gaussian rational `re + im·i` -/
structure GRat where
  re : Rat
  im : Rat
  deriving DecidableEq, Repr, Inhabited

namespace GRat

/-- the embedding of the rationals (`im = 0`) -/
def ofRat (q : Rat) : GRat := ⟨q, 0⟩
def zero : GRat := ⟨0, 0⟩
def add (a b : GRat) : GRat := ⟨a.re + b.re, a.im + b.im⟩
def neg (a : GRat) : GRat := ⟨-a.re, -a.im⟩
/-- `(a + bi)(c + di) = (ac − bd) + (ad + bc)i` -/
def mul (a b : GRat) : GRat := ⟨a.re * b.re - a.im * b.im, a.re * b.im + a.im * b.re⟩
/-- complex conjugation -/
def conj (a : GRat) : GRat := ⟨a.re, -a.im⟩

instance : Zero GRat := ⟨zero⟩
instance : Add GRat := ⟨add⟩
instance : Neg GRat := ⟨neg⟩
instance : Mul GRat := ⟨mul⟩

/-- a real entry: zero imaginary part (`Bool`, for the executable defect variant below) -/
def isReal (a : GRat) : Bool := a.im == 0

end GRat

/-- `jnp.vdot(x, y)` on two flattened leaves: `Σ_i conj(x_i) · y_i`, the FIRST argument is conjugated -/
def vdot (x y : List GRat) : GRat :=
  (List.zipWith (fun a b => GRat.conj a * b) x y).foldl (· + ·) 0

/-- `furax.tree.dot(x, y)`: `sum(leaves(tree.map(jnp.vdot, x, y)), start=0)`, leaf by leaf in leaf order -/
def treeDot (x y : List (List GRat)) : GRat :=
  (List.zipWith vdot x y).foldl (· + ·) 0

/-! ### the leaf-wise vector-space operations the (conjugate-)linearity statements are about -/

/-- entry-wise sum of two leaves -/
def leafAdd (x y : List GRat) : List GRat := List.zipWith (· + ·) x y
/-- a leaf multiplied by a scalar -/
def leafSmul (c : GRat) (x : List GRat) : List GRat := x.map (c * ·)
/-- leaf-wise sum of two pytrees (`jax.tree.map(operator.add, x, y)`, what `StokesPyTree.__add__` does) -/
def treeAdd (x y : List (List GRat)) : List (List GRat) := List.zipWith leafAdd x y
/-- a pytree multiplied by a scalar (`jax.tree.map(lambda l: c * l, x)`, what `c * StokesPyTree` does) -/
def treeSmul (c : GRat) (x : List (List GRat)) : List (List GRat) := x.map (leafSmul c)

/-! ### the seeded defect C20-d: the conjugation is decided on the wrong operand -/

/-- WRONG on purpose.  `_leaf_dot` of the seeded defect: "skip the useless conjugation for real leaves", but the test
is made on the SECOND operand: the first one is conjugated only when the second has a non-real entry.  (The seeded
Python tests the dtype, `jnp.iscomplexobj(b)`; a leaf whose entries are all real is the value-level image of a
real-dtype leaf.) -/
def vdotBad (x y : List GRat) : GRat :=
  if y.all GRat.isReal then (List.zipWith (fun a b => a * b) x y).foldl (· + ·) 0
  else (List.zipWith (fun a b => GRat.conj a * b) x y).foldl (· + ·) 0

/-- `tree.dot` built on the defective leaf product -/
def treeDotBad (x y : List (List GRat)) : GRat :=
  (List.zipWith vdotBad x y).foldl (· + ·) 0

end ComplexDot
end Furax
