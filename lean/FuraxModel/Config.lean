/-
Level B: the solver configuration (src/furax/_base/config.py) as a state machine.

`_config_var` is a `contextvars.ContextVar`: every thread / context has its own current value (A6).
`Config(**kw)` computes `replace(current, **kw)`; `__enter__` sets it and keeps the token (the previous
value); `__exit__` — normal or exceptional alike — resets the token.  `InverseOperator.__init__` stores
`Config.instance()`.  Setting values are abstract tokens (`Nat`).
-/
namespace Furax
namespace Config

/-- `ConfigState`: four named settings -/
structure Cfg where
  solver : Nat
  throw : Nat
  options : Nat
  callback : Nat
  deriving DecidableEq, Repr, Inhabited

/-- keyword arguments of `Config(...)`: `none` = setting not named -/
structure Kw where
  solver : Option Nat := none
  throw : Option Nat := none
  options : Option Nat := none
  callback : Option Nat := none
  deriving DecidableEq, Repr, Inhabited

/-- `dataclasses.replace(config, **kwargs)`: named settings overridden, the others inherited -/
def override (c : Cfg) (k : Kw) : Cfg :=
  { solver := k.solver.getD c.solver, throw := k.throw.getD c.throw,
    options := k.options.getD c.options, callback := k.callback.getD c.callback }

/-- the default `ConfigState()` -/
def default : Cfg := ⟨0, 0, 0, 0⟩

inductive Ev where
  | enter (kw : Kw)          -- `with Config(**kw):` entered
  | exit                     -- block left normally
  | exitExc                  -- block left through an exception
  | mkInverse (id : Nat)     -- an `InverseOperator` is created
  | applyInverse (id : Nat)  -- … and applied: which configuration does it use?
  | read                     -- `Config.instance()`
  | mkConfig (id : Nat) (kw : Kw)  -- `c = Config(**kw)` built now (its settings are computed NOW), entered later
  | enterObj (id : Nat)      -- `with c:` entered
  deriving DecidableEq, Repr, Inhabited

/-- the state of one context: current value, tokens of the open blocks (innermost first), and the
configuration captured by each lazy inverse -/
structure State where
  cur : Cfg := default
  tokens : List Cfg := []
  inverses : List (Nat × Cfg) := []
  objects : List (Nat × Cfg) := []   -- `Config` objects built ahead of time: the settings they will install
  deriving DecidableEq, Repr, Inhabited

/-- what an event lets the program observe -/
inductive Obs where
  | none
  | cfg (c : Cfg)
  | unknownInverse
  | unbalancedExit
  | unknownConfig
  deriving DecidableEq, Repr, Inhabited

def step (s : State) : Ev → State × Obs
  | .enter kw => ({ s with cur := override s.cur kw, tokens := s.cur :: s.tokens }, .cfg (override s.cur kw))
  | .exit | .exitExc =>
    match s.tokens with
    | prev :: rest => ({ s with cur := prev, tokens := rest }, .none)
    | [] => (s, .unbalancedExit)
  | .mkInverse id => ({ s with inverses := (id, s.cur) :: s.inverses }, .none)
  | .applyInverse id =>
    match s.inverses.lookup id with
    | some c => (s, .cfg c)
    | none => (s, .unknownInverse)
  | .read => (s, .cfg s.cur)
  | .mkConfig id kw => ({ s with objects := (id, override s.cur kw) :: s.objects }, .none)
  | .enterObj id =>
    -- `__enter__` installs the settings computed when the object was built and remembers what was active
    match s.objects.lookup id with
    | some inst => ({ s with cur := inst, tokens := s.cur :: s.tokens }, .cfg inst)
    | none => ({ s with tokens := s.cur :: s.tokens }, .unknownConfig)   -- cannot happen in Python

def run (s : State) (evs : List Ev) : State := evs.foldl (fun st e => (step st e).1) s

/-- the observations along a history -/
def trace : State → List Ev → List Obs
  | _, [] => []
  | s, e :: es => (step s e).2 :: trace (step s e).1 es

/-! ### several contexts (threads) -/

/-- all contexts: a function from context id to its state (each starts from the default, A6) -/
abbrev World := Nat → State

def stepWorld (w : World) (ce : Nat × Ev) : World :=
  fun c => if c = ce.1 then (step (w c) ce.2).1 else w c

def runWorld (w : World) (evs : List (Nat × Ev)) : World := evs.foldl stepWorld w

/-! ### a jitted function that takes the lazy inverse as an argument

`InverseOperator.config` is a static field: it is part of the key under which `jax.jit` caches a trace, compared
with `ConfigState.__eq__`.  `keyOf` is what that comparison can see of a configuration; the implementation's is
the identity (the generated dataclass `__eq__` compares all four settings — checked on the implementation by the
harness for every pair of configurations it observes).  A cache entry records the configuration the trace was
made with. -/

/-- apply through the shared jitted function: on a hit the stored trace is reused, on a miss the inverse is
traced with its own captured configuration; returns the configuration the solve really runs with -/
def applyJit {κ : Type} [DecidableEq κ] (keyOf : Cfg → κ) (cache : List (κ × Cfg)) (captured : Cfg) :
    List (κ × Cfg) × Cfg :=
  match cache.lookup (keyOf captured) with
  | some used => (cache, used)
  | none => ((keyOf captured, captured) :: cache, captured)

/-- a sequence of applications of inverses (given by their captured configurations) through one jitted function -/
def runJit {κ : Type} [DecidableEq κ] (keyOf : Cfg → κ) : List (κ × Cfg) → List Cfg → List Cfg
  | _, [] => []
  | cache, c :: cs => (applyJit keyOf cache c).2 :: runJit keyOf (applyJit keyOf cache c).1 cs

end Config
end Furax
