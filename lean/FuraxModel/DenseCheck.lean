/-
EXECUTABLE validity check of a dense einsum leaf (`DenseBlockDiagonalOperator`, src/furax/_base/dense.py) with ONE
block array shared by all the leaves: the Boolean mirror of `ListSem.denseOK` (FuraxProofs/Sem/DenseLeaf.lean).

`denseOK p` asks: the subscripts parse (`Einsum.parseSubscripts`, then `parseTerm` on the three terms); the block
term has no blank; `_get_transposed_subscripts` accepts the terms (`transposeCore`); the output letters are distinct;
there are as many output leaves as input leaves and every input leaf, with the output leaf declared for it, FITS the
three terms EXACTLY (`ListSem.LeafFits`: the letters have one size each, the input and the output leaf carry the whole
ellipsis shape, the blocks a suffix of it; no size-1 axis is stretched).

`LeafFits` is an existential over the letter sizes and the two ellipsis shapes; the shapes determine these witnesses
(`letterSizes`, `ellShape`), so `fitsB` computes them and tests the conditions literally.

* `denseCheck p`  — all of the above; `denseReason p` — the tag of the first condition that fails (diagnostic);
* `denseSharedb p` — the block array is one array shared by the leaves (`Params.vals` holds it).

Soundness AND completeness (`denseCheck p = true ↔ denseOK p`): FuraxProofs/Sem/DenseLeaf.lean
(`denseOK_of_denseCheck`, `denseCheck_of_denseOK`, `denseCheck_iff`).  Core Lean only (no Mathlib).
-/
import FuraxModel.Op
import FuraxModel.Einsum
import FuraxModel.EinsumEval
namespace Furax
namespace Einsum
open Op

/-- the block array is ONE array shared by all the leaves (`Params.vals` holds it; it is left empty when there is one
block array per leaf) -/
def denseSharedb (p : Params) : Bool := !p.vals.data.isEmpty

/-- the sizes of the letters read off the shapes: the first size paired with the letter (0 if there is none) -/
def letterSizes (pairs : List (Char × Nat)) (c : Char) : Nat := (pairs.lookup c).getD 0

/-- the axes of `shape` that the ellipsis of `t` covers -/
def ellShape (t : Term) (shape : List Nat) : List Nat :=
  (shape.drop t.pre.length).take (shape.length - t.nLetters)

/-- the letters of `t` paired with the sizes of their axes in `shape` -/
def termPairs (t : Term) (shape : List Nat) : List (Char × Nat) :=
  t.pre.zip shape ++ t.post.zip (shape.drop (shape.length - t.post.length))

/-- executable form of `ListSem.LeafFits`: the witnesses are computed from the shapes, then the six conditions are
tested literally -/
def fitsB (tl tr tO : Term) (bshape : List Nat) (li lo : LeafS) : Bool :=
  let d := letterSizes (termPairs tl bshape ++ termPairs tr li.shape ++ termPairs tO lo.shape)
  let es := ellShape tr li.shape
  let eB := ellShape tl bshape
  eB.isSuffixOf es && (tl.ell || eB == []) && (tO.ell || es == []) &&
    bshape == tl.pre.map d ++ eB ++ tl.post.map d &&
    li.shape == tr.pre.map d ++ es ++ tr.post.map d &&
    lo.shape == tO.pre.map d ++ es ++ tO.post.map d

/-- everything but the split of the string, on the three terms -/
def denseCheckTerms (l r o : List Char) (p : Params) : Bool :=
  match parseTerm l, parseTerm r, parseTerm o, transposeCore (· == '.') l r o with
  | .ok tl, .ok tr, .ok tO, .ok _ =>
    l.all (fun c => isLetter c || c == '.') && nodupB (tO.pre ++ tO.post) &&
      p.inS.leaves.length == p.outS.leaves.length &&
      (p.inS.leaves.zip p.outS.leaves).all fun q => fitsB tl tr tO p.vals.shape q.1 q.2
  | _, _, _, _ => false

/-- **the executable mirror of `ListSem.denseOK`** (the split of the string does not reduce in the Lean kernel: use
`denseCheck_eq_terms` with `parseSubscripts_readback` there; the compiled driver just runs it) -/
def denseCheck (p : Params) : Bool :=
  match parseSubscripts p.str with
  | .ok (l, r, o) => denseCheckTerms l.toList r.toList o.toList p
  | .error _ => false

/-- the tag of the first condition of `denseCheck` that fails (diagnostic only: `none` when `denseCheckTerms` holds) -/
def denseReasonTerms (l r o : List Char) (p : Params) : Option String :=
  match parseTerm l, parseTerm r, parseTerm o with
  | .ok tl, .ok tr, .ok tO =>
    if !l.all (fun c => isLetter c || c == '.') then some "blank-in-block-term"
    else match transposeCore (· == '.') l r o with
      | .error _ => some "transposer-refuses-subscripts"
      | .ok _ =>
        if !nodupB (tO.pre ++ tO.post) then some "repeated-output-letter"
        else if p.inS.leaves.length != p.outS.leaves.length then some "leaf-count"
        else if !(p.inS.leaves.zip p.outS.leaves).all fun q => fitsB tl tr tO p.vals.shape q.1 q.2 then
          some "blocks-or-leaves-do-not-fit-subscripts-exactly"
        else none
  | _, _, _ => some "term-is-not-an-einsum-term"

def denseReason (p : Params) : Option String :=
  match parseSubscripts p.str with
  | .ok (l, r, o) => denseReasonTerms l.toList r.toList o.toList p
  | .error _ => some "subscripts-do-not-split"

end Einsum
end Furax
