/-
Level B: `BroadcastDiagonalOperator` / `DiagonalOperator` / `DiagonalInverseOperator`
(src/furax/_base/diagonal.py), one leaf at a time.
-/
import FuraxModel.Axes
namespace Furax
namespace Diagonal

/-- how `axis_destination` was given -/
inductive AxisSpec where
  | scalar (a : Int)
  | seq (l : List Int)
  deriving Repr, Inhabited

/-- constructor normalisation: a non-negative int `a` means `(a, …, a+r−1)`, a negative one
`(a−r+1, …, a)`, a sequence is taken as is (`r` = rank of the values) -/
def normalizeSpec (r : Nat) : AxisSpec → List Int
  | .scalar a =>
    if a ≥ 0 then (List.range r).map fun (k : Nat) => a + Int.ofNat k
    else (List.range r).map fun (k : Nat) => a - Int.ofNat r + 1 + Int.ofNat k
  | .seq l => l

/-- `_normalize_axes(leaf_shape)`: negative axes counted from the end of the leaf; duplicates refused -/
def normalizeAxes (axes : List Int) (ndim : Nat) : Except PyErr (List Int) :=
  let l := axes.map fun a => if a ≥ 0 then a else (ndim : Int) + a
  if l.eraseDups.length != l.length then .error .valueError else .ok l

def minInt (l : List Int) : Int := l.foldl min (l.headD 0)
def maxInt (l : List Int) : Int := l.foldl max (l.headD 0)

/-- number of broadcast dimensions added on the left / right of the leaf -/
def leftDims (axes : List Int) : Nat := (-(min 0 (minInt axes))).toNat
def rightDims (axes : List Int) (ndim : Nat) : Nat := (max 0 (maxInt axes - ndim + 1)).toNat

/-- `_reshape_diagonal`: values reshaped with trailing ones, then `moveaxis(range(r) → axes + left)` -/
def reshapeDiagonal {α} [Inhabited α] (values : Tensor α) (axes : List Int) (ndim : Nat) :
    Except PyErr (Tensor α) :=
  let left := leftDims axes
  let right := rightDims axes ndim
  let extra : Int := (left : Int) + right + ndim - values.shape.length
  let padded : Tensor α := ⟨values.shape ++ List.replicate extra.toNat 1, values.data⟩
  let axes' := axes.map (· + (left : Int))
  Axes.moveaxis padded ((List.range axes.length).map fun (k : Nat) => Int.ofNat k) axes'

/-- `_reshape_input_leaf`: ones appended on the right when the axes extend beyond the leaf rank -/
def reshapeLeaf {α} (x : Tensor α) (axes : List Int) : Tensor α :=
  ⟨x.shape ++ List.replicate (rightDims axes x.shape.length) 1, x.data⟩

/-- `mv` on one leaf (`strict` = `DiagonalOperator`: the result must have the input's shape) -/
def apply {α} [Inhabited α] [Mul α] (strict : Bool) (values : Tensor α) (spec : AxisSpec) (x : Tensor α) :
    Except PyErr (Tensor α) := do
  if values.shape.length == 0 then .error .valueError
  else
    let axes ← normalizeAxes (normalizeSpec values.shape.length spec) x.shape.length
    let d ← reshapeDiagonal values axes x.shape.length
    let xl := reshapeLeaf x axes
    match Tensor.zipBroadcast (· * ·) d xl with
    | none => .error .valueError
    | some y =>
      if strict && y.shape != x.shape then .error .valueError else .ok y

/-- `DiagonalInverseOperator.diagonal`: `where(d != 0, 1/d, 0)` -/
def pinvValues (d : List Rat) : List Rat := d.map fun v => if v != 0 then 1 / v else 0

end Diagonal
end Furax
