/-
The line-protocol interpreter: one request per line, one reply per line (S-expressions).
Replies: `(ok payload)`, `(error Kind)`, `(unsupported reason)`, `(bad-request)`.
-/
import FuraxModel.Codec
import FuraxModel.Reduce
import FuraxModel.Dual
import FuraxModel.Stokes
import FuraxModel.Toeplitz
import FuraxModel.Axes
import FuraxModel.Landscape
import FuraxModel.Config
import FuraxModel.Index
import FuraxModel.Einsum
import FuraxModel.EinsumEval
import FuraxModel.Diagonal
import FuraxModel.StokesArith
import FuraxModel.ComplexDot
import FuraxModel.Acquisition
import FuraxModel.Valid
namespace Furax
open SExp

def replyOp : Except PyErr Op → SExp
  | .ok o => list [atom "ok", encOp o]
  | .error .unsupported => list [atom "unsupported"]
  | .error e => list [atom "error", atom e.name]

def handleLevelA (cmd : String) (args : List SExp) : Option SExp :=
  match cmd, args with
  | "reduce", [e] => do let o ← decOp e; some (replyOp (reduceTop o))
  | "matmul", [a, b] => do some (replyOp (Op.pyMatmul (← decOp a) (← decOp b)))
  | "add", [a, b] => do some (replyOp (Op.pyAdd (← decOp a) (← decOp b)))
  | "sub", [a, b] => do some (replyOp (Op.pySub (← decOp a) (← decOp b)))
  | "neg", [a] => do some (replyOp (Op.pyNeg (← decOp a)))
  | "pos", [a] => do some (replyOp (.ok (Op.pyPos (← decOp a))))
  | "rmul", [k, a] => do some (replyOp (Op.pyRmul (← k.rat?) (← decOp a)))
  | "truediv", [a, k] => do some (replyOp (Op.pyTruediv (← decOp a) (← k.rat?)))
  | "structs", [a] => do
    let o ← decOp a
    some (list [atom "ok", encStruct (Op.inS o), encStruct (Op.outS o),
                ofNat (Op.inSize o), ofNat (Op.outSize o)])
  | "T", [a] => do some (replyOp (transposeOp (← decOp a)))
  | "I", [a] => do some (replyOp (inverseOp (← decOp a)))
  | "block-ctor", [atom k, ops] => do
    let kind ← ContCls.ofName? k
    let os ← ops.list?.bind (·.mapM decOp)
    match blockCtor kind os with
    | .ok _ => some (list [atom "ok"])
    | .error e => some (list [atom "error", atom e.name])
  | "echo", [a] => do some (list [atom "ok", encOp (← decOp a)])
  | _, _ => none

/-- `(mueller OP KIND c s (x…))` → present components of the result;
`(polarizer KIND (x…))` → the detector value (with `half = 1/2`) -/
def handleStokes (cmd : String) (args : List SExp) : Option SExp :=
  match cmd, args with
  | "mueller", [atom op, atom k, c, s, xs] => do
    let kind ← StokesKind.ofName? k
    let x := SV.ofPresent kind (← xs.rats?) (0 : Rat)
    let y ← applyMueller op (← c.rat?) (← s.rat?) x
    some (list [atom "ok", ofRats (SV.present kind y)])
  | "polarizer", [atom k, xs] => do
    let kind ← StokesKind.ofName? k
    let x := SV.ofPresent kind (← xs.rats?) (0 : Rat)
    some (list [atom "ok", ofRat (SV.pol (1/2 : Rat) kind x)])
  | _, _ => none

def fnOfList (l : List Rat) : Nat → Rat := fun i => l.getD i 0

/-- `(toeplitz METHOD F (band…) (x…))` → the `l` outputs;  `(toeplitz-dense n (band…))` → the n² entries;
`(toeplitz-ctor METHOD K FFT|N)`; `(toeplitz-default-fft bandNumber)` -/
def handleToeplitz (cmd : String) (args : List SExp) : Option SExp :=
  match cmd, args with
  | "toeplitz", [atom method, f, b, xs] => do
    let band ← b.rats?
    let x ← xs.rats?
    let F ← f.nat?
    if band.isEmpty then none else
    let h := band.length - 1
    let l := x.length
    let bf := fnOfList band
    let xf := fnOfList x
    let y : Nat → Rat ← match method with
      | "spec" => some (Toeplitz.toep h l bf xf)
      | "dense" => some (Toeplitz.applyDense h l bf xf)
      | "direct" => some (Toeplitz.applyDirect h l bf xf)
      | "fft" => some (Toeplitz.applyFft h l bf xf)
      | "overlap_save" => some (Toeplitz.applyOverlapSave F h l bf xf)
      | _ => none
    some (list [atom "ok", ofRats ((List.range l).map y)])
  | "toeplitz-dense", [n, b] => do
    let band ← b.rats?
    let n ← n.nat?
    if band.isEmpty then none else
    let h := band.length - 1
    some (list [atom "ok", ofRats ((List.range (n * n)).map (Toeplitz.denseFlat n h (fnOfList band)))])
  | "toeplitz-ctor", [atom method, k, f] => do
    let fft ← match f with
      | atom "N" => some none
      | e => e.nat?.map some
    match toeplitzCtor method (← k.nat?) fft with
    | .valueError => some (list [atom "error", atom "ValueError"])
    | .ok none => some (list [atom "ok", atom "N"])
    | .ok (some v) => some (list [atom "ok", ofNat v])
  | _, _ => none

def replyErr (e : PyErr) : SExp := list [atom "error", atom e.name]

/-- `(moveaxis (shape) (src) (dst) (data))`, `(ravel-ctor first last (ranks))`, `(ravel-shape first last (shape))`,
`(reshape-check (target) (leafshape))` -/
def handleAxes (cmd : String) (args : List SExp) : Option SExp :=
  match cmd, args with
  | "moveaxis", [sh, src, dst, d] => do
    let t : Tensor Rat := ⟨← sh.nats?, ← d.rats?⟩
    match Axes.moveaxis t (← src.ints?) (← dst.ints?) with
    | .ok r => some (list [atom "ok", ofNats r.shape, ofRats r.data])
    | .error e => some (replyErr e)
  | "ravel-ctor", [f, l, ranks] => do
    match Axes.ravelCtor (← f.int?) (← l.int?) (← ranks.nats?) with
    | .ok _ => some (list [atom "ok"])
    | .error e => some (replyErr e)
  | "ravel-shape", [f, l, sh] => do
    match Axes.ravelShape (← f.int?) (← l.int?) (← sh.nats?) with
    | .ok r => some (list [atom "ok", ofNats r])
    | .error e => some (replyErr e)
  | "reshape-check", [target, leaf] => do
    match Axes.reshapeCheck (← target.ints?) (← leaf.nats?) with
    | .ok r => some (list [atom "ok", ofNats r])
    | .error e => some (replyErr e)
  | _, _ => none

/-- `(pixel2index (pixel_shape) (coords))`, `(index-dtype N)`, `(coverage N (indices))`, `(round q)` -/
def handleLandscape (cmd : String) (args : List SExp) : Option SExp :=
  match cmd, args with
  | "pixel2index", [ps, cs] => do
    match Landscape.pixel2index (← ps.nats?) (← cs.rats?) with
    | some i => some (list [atom "ok", ofInt i])
    | none => some (replyErr .typeError)
  | "index-dtype", [n] => do some (list [atom "ok", atom (Landscape.indexDType (← n.nat?)).name])
  | "coverage", [n, idx] => do
    some (list [atom "ok", ofNats (Landscape.coverage (← n.nat?) (← idx.ints?))])
  | "round", [q] => do some (list [atom "ok", ofInt (Landscape.roundHalfEven (← q.rat?))])
  | _, _ => none

def decOptNat : SExp → Option (Option Nat)
  | atom "N" => some none
  | e => e.nat?.map some

def decEv : List SExp → Option Config.Ev
  | [atom "enter", a, b, c, d] => do
    some (.enter { solver := ← decOptNat a, throw := ← decOptNat b, options := ← decOptNat c,
                   callback := ← decOptNat d })
  | [atom "exit"] => some .exit
  | [atom "exitExc"] => some .exitExc
  | [atom "mk", i] => i.nat?.map .mkInverse
  | [atom "apply", i] => i.nat?.map .applyInverse
  | [atom "read"] => some .read
  | [atom "mkcfg", i, a, b, c, d] => do
    some (.mkConfig (← i.nat?) { solver := ← decOptNat a, throw := ← decOptNat b, options := ← decOptNat c,
                                 callback := ← decOptNat d })
  | [atom "enterobj", i] => i.nat?.map .enterObj
  | _ => none

def encObs : Config.Obs → SExp
  | .none => atom "N"
  | .cfg c => list [atom "cfg", ofNat c.solver, ofNat c.throw, ofNat c.options, ofNat c.callback]
  | .unknownInverse => atom "unknown"
  | .unbalancedExit => atom "unbalanced"
  | .unknownConfig => atom "unknown-config"

/-- `(config-history (ctx ev…) (ctx ev…) …)`: an interleaved history of several contexts; replies with the
observation of every event, in order (each context starts from the defaults) -/
def handleConfig (cmd : String) (args : List SExp) : Option SExp :=
  match cmd with
  | "config-history" => do
    let evs ← args.mapM fun (e : SExp) => match e with
      | list (c :: rest) => do some ((← c.nat?), (← decEv rest))
      | _ => none
    let (_, obs) := evs.foldl (fun (acc : Config.World × List Config.Obs) (ce : Nat × Config.Ev) =>
        let r := Config.step (acc.1 ce.1) ce.2
        (Config.stepWorld acc.1 ce, acc.2 ++ [r.2])) ((fun _ => ({} : Config.State)), [])
    some (list (atom "ok" :: obs.map encObs))
  | _ => none

/-- `(index-positions (shape) (idx…))`, `(indexed-axes (idx…))`, `(index-ctor (idx…) hasOut given)`,
`(coverage-rule n (index…))`, `(scatter-add n (pos…) (y…))` -/
def handleIndex (cmd : String) (args : List SExp) : Option SExp :=
  match cmd, args with
  | "index-positions", [sh, idx] => do
    let entries ← idx.list?.bind (·.mapM decIdx)
    match Index.indexPositions (← sh.nats?) entries with
    | .ok (os, pos) => some (list [atom "ok", ofNats os, ofNats pos])
    | .error e => some (replyErr e)
  | "indexed-axes", [idx] => do
    let entries ← idx.list?.bind (·.mapM decIdx)
    some (list [atom "ok", ofInts (indexedAxes entries)])
  | "index-ctor", [idx, hasOut, given] => do
    let entries ← idx.list?.bind (·.mapM decIdx)
    let g ← match given with | atom "N" => some none | e => e.bool?.map some
    match Index.indexCtor entries (← hasOut.bool?) with
    | .ok _ => some (list [atom "ok", ofBool (Index.uniqueFlag entries g)])
    | .error e => some (replyErr e)
  | "coverage-rule", [n, idx] => do
    some (list [atom "ok", ofNats (ruleCoverage (← n.nat?) (← idx.ints?))])
  | "scatter-add", [n, pos, y] => do
    some (list [atom "ok", ofRats (Index.scatterAdd (← n.nat?) (← pos.nats?) (← y.rats?))])
  | _, _ => none

/-- `(einsum-transpose SUBSCRIPTS)`, `(einsum-parse SUBSCRIPTS)`,
`(einsum-eval SUBSCRIPTS (V (shape) (data)) (V (shape) (data)))` → `(ok (V (shape) (data)))` with NumPy's accept /
reject rules, `(einsum-eval-jax …)` the same but summing over unmentioned ellipsis dimensions as `jax.numpy.einsum` does (see EinsumEval.lean),
`(einsum-shape SUBSCRIPTS (bshape) (xshape))` → `(ok (shape))` -/
def handleEinsum (cmd : String) (args : List SExp) : Option SExp :=
  match cmd, args with
  | "einsum-eval", [atom s, b, x] => do
    match Einsum.einsum2 s (← decTensor b) (← decTensor x) with
    | .ok t => some (list [atom "ok", encTensor t])
    | .error e => some (replyErr e)
  | "einsum-eval-jax", [atom s, b, x] => do
    match Einsum.einsum2With .jax s (← decTensor b) (← decTensor x) with
    | .ok t => some (list [atom "ok", encTensor t])
    | .error e => some (replyErr e)
  | "einsum-shape", [atom s, b, x] => do
    match Einsum.outShape s (← b.nats?) (← x.nats?) with
    | .ok sh => some (list [atom "ok", ofNats sh])
    | .error e => some (replyErr e)
  | "einsum-transpose", [atom s] =>
    match Einsum.transposedSubscripts s with
    | .ok t => some (list [atom "ok", atom t])
    | .error e => some (replyErr e)
  | "einsum-parse", [atom s] =>
    match Einsum.parseSubscripts s with
    | .ok (l, r, o) => some (list [atom "ok", atom (if l == "" then "_" else l), atom (if r == "" then "_" else r),
                                   atom (if o == "" then "_" else o)])
    | .error e => some (replyErr e)
  | _, _ => none

/-- `(diagonal STRICT (vshape) (vals) SPEC (xshape) (x))` with SPEC = `(scalar a)` | `(seq a…)`;
`(pinv (vals))` -/
def handleDiagonal (cmd : String) (args : List SExp) : Option SExp :=
  match cmd, args with
  | "diagonal", [strict, vsh, vals, spec, xsh, xs] => do
    let sp : Diagonal.AxisSpec ← match spec with
      | list [atom "scalar", a] => a.int?.map .scalar
      | list (atom "seq" :: l) => (l.mapM SExp.int?).map .seq
      | _ => none
    let v : Tensor Rat := ⟨← vsh.nats?, ← vals.rats?⟩
    let x : Tensor Rat := ⟨← xsh.nats?, ← xs.rats?⟩
    match Diagonal.apply (← strict.bool?) v sp x with
    | .ok y => some (list [atom "ok", ofNats y.shape, ofRats y.data])
    | .error e => some (replyErr e)
  | "pinv", [vals] => do some (list [atom "ok", ofRats (Diagonal.pinvValues (← vals.rats?))])
  | _, _ => none

def decSVal : SExp → Option (StokesArith.SVal Rat)
  | list (atom "stokes" :: atom k :: comps) => do
    some ⟨← StokesKind.ofName? k, ← comps.mapM decTensor⟩
  | _ => none

def decOperand : SExp → Option (StokesArith.Operand Rat)
  | list [atom "scalar", a] => a.rat?.map .scalar
  | list [atom "array", t] => (decTensor t).map .array
  | atom "other" => some .other
  | e => (decSVal e).map .stokes

/-- one complex entry is the pair `(re im)` of two rationals (each written `n` or `n/d`) -/
def decGRat : SExp → Option ComplexDot.GRat
  | list [re, im] => do some ⟨← re.rat?, ← im.rat?⟩
  | _ => none

/-- one leaf: the list of its (flattened) complex entries `((re im) …)` -/
def decGRats (e : SExp) : Option (List ComplexDot.GRat) := e.list?.bind (·.mapM decGRat)

/-- `(stokes-op OP self operand)` = `self OP operand`; `(stokes-rop OP self operand)` = `operand OP self`;
`(stokes-class NAME)`; `(from-stokes nargs (kw…))`; `(tree-dot ((x…)…) ((y…)…))`;
`(tree-dot-complex X Y)` = `furax.tree.dot(X, Y)` on complex leaves: a pytree is the list of its leaves, a leaf the
list of its flattened entries, an entry the pair `(re im)` of rationals, e.g.
`(tree-dot-complex (((1 2) (0 3)) ((1/2 0))) (((2 -1) (1 1)) ((4 0))))`; the reply is `(ok (re im))` -/
def handleStokesArith (cmd : String) (args : List SExp) : Option SExp :=
  match cmd, args with
  | c, [atom op, self, other] =>
    if c == "stokes-op" || c == "stokes-rop" then do
      let o ← StokesArith.BinOp.ofName? op
      let s ← decSVal self
      let r ← decOperand other
      let res := if c == "stokes-op" then StokesArith.operation o s r else StokesArith.roperation o s r
      match res with
      | .ok v => some (list (atom "ok" :: atom v.kind.name :: v.comps.map encTensor))
      | .notImplemented => some (list [atom "error", atom "TypeError"])
      | .unsupported => some (list [atom "unsupported"])
    else none
  | "stokes-class", [atom n] =>
    match StokesArith.classFor n with
    | .ok k => some (list [atom "ok", atom k.name])
    | .error e => some (replyErr e)
  | "from-stokes", [n, kws] => do
    let ks ← kws.list?.bind (·.mapM SExp.atom?)
    match StokesArith.fromStokesKind (← n.nat?) ks with
    | .ok k => some (list [atom "ok", atom k.name])
    | .error e => some (replyErr e)
  | "tree-dot", [x, y] => do
    let xs ← x.list?.bind (·.mapM SExp.rats?)
    let ys ← y.list?.bind (·.mapM SExp.rats?)
    some (list [atom "ok", ofRat (StokesArith.dot xs ys)])
  | "tree-dot-complex", [x, y] => do
    let xs ← x.list?.bind (·.mapM decGRats)
    let ys ← y.list?.bind (·.mapM decGRats)
    let r := ComplexDot.treeDot xs ys
    some (list [atom "ok", list [ofRat r.re, ofRat r.im]])
  | _, _ => none

/-- `(rotmat c1 s1 c2 s2 c3 s3)` → the 9 entries; `(rotate c1 s1 c2 s2 c3 s3 (x y z))`;
`(acquire KIND c s (sky…))` → the detector value of the reduced SAT chain -/
def handleAcquisition (cmd : String) (args : List SExp) : Option SExp :=
  match cmd, args with
  | "rotmat", [a, b, c, d, e, f] => do
    let m := Acquisition.rotationMatrix (← a.rat?) (← b.rat?) (← c.rat?) (← d.rat?) (← e.rat?) (← f.rat?)
    some (list [atom "ok", ofRats m.flatten])
  | "rotate", [a, b, c, d, e, f, v] => do
    let r := Acquisition.rotate (← a.rat?) (← b.rat?) (← c.rat?) (← d.rat?) (← e.rat?) (← f.rat?) (← v.rats?)
    some (list [atom "ok", ofRats r])
  | "acquire", [atom k, c, s, xs] => do
    let kind ← StokesKind.ofName? k
    let sky := SV.ofPresent kind (← xs.rats?) (0 : Rat)
    some (list [atom "ok", ofRat (Acquisition.acquire (1/2 : Rat) kind (← c.rat?) (← s.rat?) sky)])
  | _, _ => none

/-- `(valid OP)` → `(ok T)` | `(ok F REASON)`: the hypotheses of the closed theorems (`WTExpr … listLeafOK`, without
the invertibility of the operands of the lazy inverses) decided on an encoded operator (FuraxModel/Valid.lean);
`(valid-T OP)` the same for the hypotheses of `transpose_is_adjoint_closed` (`ValidT o ∧ o.WFT`);
`(valid-leaf CLASS PARAMS)` the same for the parameters of one leaf;
`(valid-promises OP)` → `(ok (WRAPPER OPERAND-LEAF-CLASS|expr decided|promise) …)`: the lazy-inverse wrappers of the
expression, whose operands the theorems assume invertible; `decided`: a rotation or a diagonal without zero entry
(invertible, a theorem), `promise`: left to the reader -/
def handleValid (cmd : String) (args : List SExp) : Option SExp :=
  match cmd, args with
  | "valid", [a] => do
    let o ← decOp a
    match Valid.invalidReason o, Valid.validb o with
    | none, true => some (list [atom "ok", atom "T"])
    | some r, false => some (list [atom "ok", atom "F", atom r])
    | _, _ => some (list [atom "error", atom "INCONSISTENT"])
  | "valid-T", [a] => do
    let o ← decOp a
    match Valid.invalidReasonT o, Valid.validTb o with
    | none, true => some (list [atom "ok", atom "T"])
    | some r, false => some (list [atom "ok", atom "F", atom r])
    | _, _ => some (list [atom "error", atom "INCONSISTENT"])
  | "valid-leaf", [atom c, p] => do
    let cls ← LeafCls.ofName? c
    let ps ← decParams p
    match Valid.leafReason cls ps, Valid.leafOKb cls ps with
    | none, true => some (list [atom "ok", atom "T"])
    | some r, false => some (list [atom "ok", atom "F", atom r])
    | _, _ => some (list [atom "error", atom "INCONSISTENT"])
  | "valid-promises", [a] => do
    let o ← decOp a
    some (list (atom "ok" :: (Valid.lazyKinds o).map fun (k, c, d) =>
      list [atom k.name, atom (match c with | some c => c.name | none => "expr"),
            atom (if d then "decided" else "promise")]))
  | _, _ => none

def handle (line : String) : String :=
  match SExp.parse line with
  | some (list (atom cmd :: args)) =>
    match ((handleLevelA cmd args).orElse (fun _ => handleStokes cmd args)).orElse (fun _ => handleToeplitz cmd args) |>.orElse (fun _ => handleAxes cmd args) |>.orElse (fun _ => handleLandscape cmd args) |>.orElse (fun _ => handleConfig cmd args) |>.orElse (fun _ => handleIndex cmd args) |>.orElse (fun _ => handleEinsum cmd args) |>.orElse (fun _ => handleDiagonal cmd args) |>.orElse (fun _ => handleStokesArith cmd args) |>.orElse (fun _ => handleAcquisition cmd args) |>.orElse (fun _ => handleValid cmd args) with
    | some r => r.toStr
    | none => "(bad-request)"
  | _ => "(bad-request)"

end Furax
