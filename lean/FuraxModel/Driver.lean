/-
The line-protocol interpreter: one request per line, one reply per line (S-expressions).
Replies: `(ok payload)`, `(error Kind)`, `(unsupported reason)`, `(bad-request)`.
-/
import FuraxModel.Codec
import FuraxModel.Reduce
import FuraxModel.Stokes
namespace Furax
open SExp

def replyOp : Except PyErr Op → SExp
  | .ok o => list [atom "ok", encOp o]
  | .error .unsupported => list [atom "unsupported"]
  | .error e => list [atom "error", atom e.name]

def handleLevelA (cmd : String) (args : List SExp) : Option SExp :=
  match cmd, args with
  | "reduce", [e] => do let o ← decOp e; some (replyOp (reduceTop o))
  | "matmul", [a, b] => do some (replyOp (Op.pyMatmul (← decOp a) (← decOp b)))
  | "add", [a, b] => do some (replyOp (Op.pyAdd (← decOp a) (← decOp b)))
  | "sub", [a, b] => do some (replyOp (Op.pySub (← decOp a) (← decOp b)))
  | "neg", [a] => do some (replyOp (Op.pyNeg (← decOp a)))
  | "pos", [a] => do some (replyOp (.ok (Op.pyPos (← decOp a))))
  | "rmul", [k, a] => do some (replyOp (Op.pyRmul (← k.rat?) (← decOp a)))
  | "truediv", [a, k] => do some (replyOp (Op.pyTruediv (← decOp a) (← k.rat?)))
  | "structs", [a] => do
    let o ← decOp a
    some (list [atom "ok", encStruct (Op.inS o), encStruct (Op.outS o),
                ofNat (Op.inSize o), ofNat (Op.outSize o)])
  | "echo", [a] => do some (list [atom "ok", encOp (← decOp a)])
  | _, _ => none

/-- `(mueller OP KIND c s (x…))` → present components of the result;
`(polarizer KIND (x…))` → the detector value (with `half = 1/2`) -/
def handleStokes (cmd : String) (args : List SExp) : Option SExp :=
  match cmd, args with
  | "mueller", [atom op, atom k, c, s, xs] => do
    let kind ← StokesKind.ofName? k
    let x := SV.ofPresent kind (← xs.rats?) (0 : Rat)
    let y ← applyMueller op (← c.rat?) (← s.rat?) x
    some (list [atom "ok", ofRats (SV.present kind y)])
  | "polarizer", [atom k, xs] => do
    let kind ← StokesKind.ofName? k
    let x := SV.ofPresent kind (← xs.rats?) (0 : Rat)
    some (list [atom "ok", ofRat (SV.pol (1/2 : Rat) kind x)])
  | _, _ => none

def handle (line : String) : String :=
  match SExp.parse line with
  | some (list (atom cmd :: args)) =>
    match (handleLevelA cmd args).orElse (fun _ => handleStokes cmd args) with
    | some r => r.toStr
    | none => "(bad-request)"
  | _ => "(bad-request)"

end Furax
