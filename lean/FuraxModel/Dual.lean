/-
Level A: the *form* of `op.T` and `op.I` for every operator class, as resolved along the MRO (the
decorators `symmetric`, `orthogonal`, `diagonal`, `square` rewire `transpose` / `inverse` at class-creation
time; which function each class ends up with is pinned against the source by table theorems).
-/
import FuraxModel.Reduce
import FuraxModel.Einsum
namespace Furax
open Op

/-- classes whose `transpose` is `lambda self: self` (decorated `@symmetric` / `@diagonal`) -/
def isSymmetricLeaf : LeafCls → Bool
  | .identity | .homothety | .diagonal | .hwp | .toeplitz => true
  | _ => false

mutual
/-- `op.T` -/
def transposeOp : Op → Except PyErr Op
  | .comp _ ops =>
    match transposeList ops with
    | .ok ts => .ok (.comp 0 ts.reverse)          -- `[_.T for _ in reversed(self.operands)]`
    | .error e => .error e
  | .cont _ k td ops =>
    match transposeList ops with
    | .ok ts =>
      let k' := match k with
        | .add => ContCls.add
        | .blockRow => .blockCol
        | .blockCol => .blockRow
        | .blockDiag => .blockDiag
      .ok (.cont 0 k' td ts)
    | .error e => .error e
  | .wrap u .inverse o => .ok (.wrap 0 .transpose (.wrap u .inverse o))   -- default: TransposeOperator(self)
  | .wrap u .diagInv o => .ok (.wrap u .diagInv o)                         -- symmetric: returns self
  | .wrap _ _ o => .ok o                                                   -- TransposeOperator.transpose
  | .leaf u c p =>
    if isSymmetricLeaf c then .ok (.leaf u c p)
    else match c with
      | .moveAxis =>
        .ok (.leaf 0 .moveAxis { p with inS := p.outS, outS := p.inS,
                                        ints := [p.ints.getD 1 [], p.ints.getD 0 []] })
      | .ravel | .reshape => .ok (.wrap 0 .reshapeT (.leaf u c p))
      | .qurot => .ok (.wrap 0 .qurotT (.leaf u c p))
      | .obsMatrix => .ok (.wrap 0 .obsT (.leaf u c p))
      | .dense =>
        match Einsum.transposedSubscripts p.str with
        | .ok s => .ok (.leaf 0 .dense { p with inS := p.outS, outS := p.inS, str := s })
        | .error e => .error e
      | _ => .ok (.wrap 0 .transpose (.leaf u c p))
def transposeList : List Op → Except PyErr (List Op)
  | [] => .ok []
  | o :: os =>
    match transposeOp o, transposeList os with
    | .ok t, .ok ts => .ok (t :: ts)
    | .error e, _ => .error e
    | _, .error e => .error e
end

/-- `InverseOperator(op)`: refuses non-square operators, stores the reduced operand -/
def mkInverse (o : Op) : Except PyErr Op :=
  if inS o != outS o then .error .valueError
  else match reduceTop o with
    | .ok r => .ok (.wrap 0 .inverse r)
    | .error e => .error e

mutual
/-- `op.I` -/
def inverseOp : Op → Except PyErr Op
  | .leaf u .identity p => .ok (.leaf u .identity p)                       -- orthogonal + symmetric: self
  | .leaf _ .homothety p =>
    let v := p.vals.data.headD 1
    if v = 0 then .error .unsupported else .ok (mkHomothety (1 / v) p.inS)
  | .leaf u .diagonal p => .ok (.wrap 0 .diagInv (.leaf u .diagonal p))
  | .leaf u .qurot p => .ok (.wrap 0 .qurotT (.leaf u .qurot p))           -- orthogonal: inverse = transpose
  | .leaf _ .moveAxis p =>                                                  -- `inverse = transpose`
    .ok (.leaf 0 .moveAxis { p with inS := p.outS, outS := p.inS, ints := [p.ints.getD 1 [], p.ints.getD 0 []] })
  | .wrap _ .diagInv o => .ok o
  | .wrap _ .qurotT o => .ok o
  | .wrap _ .inverse o => .ok o
  | .cont u .blockDiag td ops =>
    if ops.all (fun b => inS b == outS b) then
      match inverseList ops with
      | .ok is => .ok (.cont 0 .blockDiag td is)
      | .error e => .error e
    else mkInverse (.cont u .blockDiag td ops)
  | o => mkInverse o
def inverseList : List Op → Except PyErr (List Op)
  | [] => .ok []
  | o :: os =>
    match inverseOp o, inverseList os with
    | .ok t, .ok ts => .ok (t :: ts)
    | .error e, _ => .error e
    | _, .error e => .error e
end

/-- `BlockRowOperator.__init__` / `BlockColumnOperator.__init__`: the shared structures must agree -/
def blockCtor (k : ContCls) (ops : List Op) : Except PyErr Unit :=
  match k, ops with
  | .blockRow, o :: rest => if rest.all (fun b => outS b == outS o) then .ok () else .error .valueError
  | .blockCol, o :: rest => if rest.all (fun b => inS b == inS o) then .ok () else .error .valueError
  | _, _ => .ok ()

end Furax
