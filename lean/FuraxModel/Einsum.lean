/-
Level B: `DenseBlockDiagonalOperator` subscripts (src/furax/_base/dense.py):
`_parse_subscripts` and `_get_transposed_subscripts`.

The rewriting itself (`transposeCore`) is generic in the symbol type so that the theorems can be stated for
any finite alphabet; the driver instantiates it with `Char` (the dots of an ellipsis are ordinary symbols
that never count as letters).
-/
import FuraxModel.Basic
namespace Furax
namespace Einsum

/-- `_parse_subscripts`: exactly one comma, then exactly one `->` -/
def parseSubscripts (s : String) : Except PyErr (String × String × String) :=
  match s.splitOn "," with
  | [l, rest] =>
    match rest.splitOn "->" with
    | [r, o] => .ok (l, r, o)
    | _ => .error .valueError
  | _ => .error .valueError

variable {ι : Type} [DecidableEq ι]

/-- `set(x.replace('...', ''))` as a duplicate-free list -/
def letterSet (isDot : ι → Bool) (s : List ι) : List ι := (s.filter fun c => !isDot c).eraseDups

/-- replace the first occurrence of `a` by `b` (`results.index(a)` then assignment) -/
def replaceFirst (a b : ι) : List ι → List ι
  | [] => []
  | c :: cs => if c = a then b :: cs else c :: replaceFirst a b cs

/-- swap every occurrence of the two letters -/
def swapAll (a b : ι) (l : List ι) : List ι :=
  l.map fun c => if c = a then b else if c = b then a else c

/-- `_get_transposed_subscripts` on parsed subscripts: the new block subscripts, or `ValueError` -/
def transposeCore (isDot : ι → Bool) (lefts rights results : List ι) : Except PyErr (List ι) :=
  let L := letterSet isDot lefts
  let R := letterSet isDot rights
  let O := letterSet isDot results
  -- the sum axis is in lefts and rights but not in results
  match L.filter fun c => R.contains c && !O.contains c with
  | [sumAxis] =>
    -- the transpose axis is in lefts and results but not in rights
    match L.filter fun c => O.contains c && !R.contains c with
    | [tAxis] =>
      if replaceFirst tAxis sumAxis results != rights then .error .valueError
      else .ok (swapAll sumAxis tAxis lefts)
    | _ => .error .valueError
  | _ => .error .valueError

/-- `_get_transposed_subscripts` on a string -/
def transposedSubscripts (s : String) : Except PyErr String := do
  let (lefts, rights, results) ← parseSubscripts s
  let l' ← transposeCore (fun c => c == '.') lefts.toList rights.toList results.toList
  pure (String.ofList l' ++ "," ++ rights ++ "->" ++ results)

end Einsum
end Furax
