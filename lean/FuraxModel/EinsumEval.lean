/-
Level B: an executable two-operand explicit `einsum` (`numpy.einsum(subscripts, B, x)`), the kernel that
`DenseBlockDiagonalOperator.mv` (src/furax/_base/dense.py) applies to every leaf.

Pipeline
  1. `Einsum.parseSubscripts` splits the string into the three terms;
  2. `parseTerm` reads one term: letters `a-z`, `A-Z`, blanks (ignored, as NumPy does), at most one `...`;
  3. every dimension of the two operands and of the output gets a label (`Lbl`): its letter, or - for the
     dimensions covered by an ellipsis - its position in the BROADCAST ellipsis shape (right-aligned, as NumPy
     broadcasting is), so that from here on an ellipsis is nothing but further letters;
  4. `einsumCore` (generic in the label type) checks the labelled shapes and evaluates: output multi-indices in
     row-major order; for each, the sum over the assignments of the summed labels of the product of the two
     operand entries.  A dimension of size 1 is read at index 0 whatever the value of its label (NumPy
     broadcasting: size-1 dimensions stretch, for letters exactly as for ellipsis dimensions).

Accept / reject behaviour is NumPy's (`numpy.einsum`, C implementation, checked with NumPy 2.x); every rejection is
a `ValueError`:
  * not exactly one `,` and one `->` (`parseSubscripts`; implicit mode is refused by furax itself);
  * a character that is not a letter, a blank or part of a `...`; more than one ellipsis in a term;
  * operand rank different from the number of letters (no ellipsis) or smaller (with an ellipsis);
  * an output letter that occurs in no input; a letter repeated in the output;
  * the same label with two sizes that do not broadcast (`n ≠ m`, `n ≠ 1`, `m ≠ 1`);
  * a letter repeated WITHIN one operand (diagonal) with two different sizes - NumPy demands equality here,
    size 1 does not stretch;
  * an ellipsis in an input that covers at least one dimension while the output has no ellipsis.
`jax.numpy.einsum` differs from NumPy in the last item: it SUMS over the ellipsis dimensions that the output does
not mention; `Dialect.jax` reproduces this difference.  The remaining differences of `jax.numpy.einsum` are NOT
modelled: inside a diagonal with sizes `1` and `n` it does not raise but returns arrays whose very shape depends
on the position of the size-1 dimension, and its parser accepts digits, `_`, non-ASCII symbols as labels and
outputs such as `...i...`; see REPORT.md.
Mathlib-free, executable, total.
-/
import FuraxModel.Einsum
import FuraxModel.Tensor
namespace Furax
namespace Einsum

/-! ### terms -/

/-- the label of a dimension: a letter, or the `k`-th dimension (from the left) of the broadcast ellipsis shape -/
inductive Lbl where
  | ch (c : Char)
  | ell (k : Nat)
  deriving DecidableEq, Repr, Inhabited

/-- a parsed term `pre...post` (`ell = false`: no ellipsis, then `post = []`) -/
structure Term where
  pre : List Char
  ell : Bool
  post : List Char
  deriving DecidableEq, Repr, Inhabited

def isLetter (c : Char) : Bool := ('a' ≤ c && c ≤ 'z') || ('A' ≤ c && c ≤ 'Z')

/-- append a letter to a term under construction -/
def Term.push (t : Term) (c : Char) : Term :=
  if t.ell then { t with post := t.post ++ [c] } else { t with pre := t.pre ++ [c] }

/-- NumPy's `parse_operand_subscripts` / `parse_output_subscripts`, lexical part: letters are labels, blanks are
skipped, a `.` must start the one and only `...` of the term, anything else is refused -/
def parseTermAux : List Char → Term → Except PyErr Term
  | [], t => .ok t
  | c :: cs, t =>
    if isLetter c then parseTermAux cs (t.push c)
    else if c == ' ' then parseTermAux cs t
    else if c == '.' then
      match cs with
      | c1 :: c2 :: cs' =>
        if c1 == '.' && c2 == '.' && !t.ell then parseTermAux cs' { t with ell := true }
        else .error .valueError
      | _ => .error .valueError
    else .error .valueError

def parseTerm (s : List Char) : Except PyErr Term := parseTermAux s ⟨[], false, []⟩

def Term.nLetters (t : Term) : Nat := t.pre.length + t.post.length

/-- the number of dimensions of an operand of rank `rank` that the ellipsis of the term covers -/
def Term.ellRank (t : Term) (rank : Nat) : Except PyErr Nat :=
  if t.ell then
    if t.nLetters ≤ rank then .ok (rank - t.nLetters) else .error .valueError
  else
    if t.nLetters = rank then .ok 0 else .error .valueError

/-- the labels of the dimensions of a term whose ellipsis covers `ne` dimensions, the broadcast ellipsis shape
having `nb ≥ ne` dimensions: right-aligned, the `j`-th covered dimension is broadcast dimension `nb - ne + j` -/
def Term.labels (t : Term) (nb ne : Nat) : List Lbl :=
  t.pre.map .ch ++ (List.range ne).map (fun j => .ell (nb - ne + j)) ++ t.post.map .ch

/-! ### the kernel on labelled dimensions -/

/-- all multi-indices below `shape`, in row-major (lexicographic) order -/
def multiIndices : List Nat → List (List Nat)
  | [] => [[]]
  | d :: ds => (List.range d).flatMap fun i => (multiIndices ds).map (i :: ·)

section Core
variable {ι : Type} [DecidableEq ι]

/-- the size of label `ℓ`: the first size different from 1 among the dimensions carrying it, 1 if none -/
def dimOf (dims : List (ι × Nat)) (ℓ : ι) : Nat :=
  match dims.find? (fun p => p.1 == ℓ && p.2 != 1) with
  | some p => p.2
  | none => 1

/-- every dimension has the size of its label or size 1 (it then stretches) -/
def compatible (dims : List (ι × Nat)) : Bool :=
  dims.all fun p => p.2 == 1 || p.2 == dimOf dims p.1

/-- within ONE operand a repeated label must have equal sizes (NumPy: "dimensions in operand for collapsing index
don't match") -/
def diagOK (dims : List (ι × Nat)) : Bool :=
  dims.all fun p => dims.all fun q => p.1 != q.1 || p.2 == q.2

def nodupB : List ι → Bool
  | [] => true
  | a :: as => !as.contains a && nodupB as

/-- the value of label `ℓ` under the assignment `keys ↦ vals` (0 for a label that is not a key) -/
def envOf (keys : List ι) (vals : List Nat) (ℓ : ι) : Nat := ((keys.zip vals).lookup ℓ).getD 0

/-- the multi-index read in an operand: the value of the label of every dimension, 0 in a size-1 dimension -/
def opIndex (labels : List ι) (shape : List Nat) (env : ι → Nat) : List Nat :=
  (labels.zip shape).map fun p => if p.2 == 1 then 0 else env p.1

/-- the labelled dimensions of the two operands -/
def dimsOf (Lb Rb : List ι) (bs xs : List Nat) : List (ι × Nat) := Lb.zip bs ++ Rb.zip xs

/-- the summed labels: those of the inputs that the output does not mention, once each, in order of appearance -/
def sumLabels (Lb Rb Ob : List ι) : List ι := ((Lb ++ Rb).filter fun ℓ => !Ob.contains ℓ).eraseDups

/-- the admissibility checks on labelled shapes -/
def coreOK (Lb Rb Ob : List ι) (bs xs : List Nat) : Bool :=
  Lb.length == bs.length && Rb.length == xs.length &&
  nodupB Ob && Ob.all (fun ℓ => (Lb ++ Rb).contains ℓ) &&
  compatible (dimsOf Lb Rb bs xs) &&
  diagOK (Lb.zip bs) && diagOK (Rb.zip xs)

/-- the output shape on labelled dimensions -/
def coreShape (Lb Rb Ob : List ι) (bs xs : List Nat) : Except PyErr (List Nat) :=
  if coreOK Lb Rb Ob bs xs then .ok (Ob.map (dimOf (dimsOf Lb Rb bs xs))) else .error .valueError

variable {α : Type} [Zero α] [Add α] [Mul α]

/-- the entry of a tensor at a multi-index (0 outside the data) -/
def entryAt (t : Tensor α) (idx : List Nat) : α := t.data.getD (ravelIdx t.shape idx) 0

/-- the output entry at the output multi-index `oi`: the sum over the assignments `si` of the summed labels `S`
of `B[..] * x[..]` -/
def coreEntry (Lb Rb Ob S : List ι) (sshape : List Nat) (B x : Tensor α) (oi : List Nat) : α :=
  ((multiIndices sshape).map fun si =>
    let env := envOf (Ob ++ S) (oi ++ si)
    entryAt B (opIndex Lb B.shape env) * entryAt x (opIndex Rb x.shape env)).sum

/-- `einsum` on labelled dimensions -/
def einsumCore (Lb Rb Ob : List ι) (B x : Tensor α) : Except PyErr (Tensor α) :=
  if coreOK Lb Rb Ob B.shape x.shape then
    let dims := dimsOf Lb Rb B.shape x.shape
    let S := sumLabels Lb Rb Ob
    let oshape := Ob.map (dimOf dims)
    let sshape := S.map (dimOf dims)
    .ok ⟨oshape, (multiIndices oshape).map (coreEntry Lb Rb Ob S sshape B x)⟩
  else .error .valueError

end Core

/-! ### from strings to labelled dimensions -/

/-- which library's accept / reject rules -/
inductive Dialect where
  | numpy | jax
  deriving DecidableEq, Repr, Inhabited

/-- the labels of the dimensions of the two operands and of the output -/
structure Plan where
  Lb : List Lbl
  Rb : List Lbl
  Ob : List Lbl
  deriving DecidableEq, Repr, Inhabited

/-- parse the three terms and label every dimension, given the ranks of the operands -/
def plan (dia : Dialect) (l r o : List Char) (brank xrank : Nat) : Except PyErr Plan := do
  let tl ← parseTerm l
  let tr ← parseTerm r
  let to ← parseTerm o
  let nl ← tl.ellRank brank
  let nr ← tr.ellRank xrank
  let nb := max nl nr
  -- NumPy: "output has more dimensions than subscripts given in einstein sum, but no '...' ellipsis provided
  -- to broadcast the extra dimensions"; jax sums over them instead
  if dia == .numpy && !to.ell && nb != 0 then throw .valueError
  pure ⟨tl.labels nb nl, tr.labels nb nr, to.labels nb (if to.ell then nb else 0)⟩

variable {α : Type} [Zero α] [Add α] [Mul α]

/-- `einsum` on the three parsed terms -/
def einsumTerms (dia : Dialect) (l r o : List Char) (B x : Tensor α) : Except PyErr (Tensor α) := do
  let p ← plan dia l r o B.rank x.rank
  einsumCore p.Lb p.Rb p.Ob B x

/-- the output shape from the three parsed terms and the operand shapes -/
def outShapeTerms (dia : Dialect) (l r o : List Char) (bs xs : List Nat) : Except PyErr (List Nat) := do
  let p ← plan dia l r o bs.length xs.length
  coreShape p.Lb p.Rb p.Ob bs xs

/-- two-operand explicit einsum in a given dialect -/
def einsum2With (dia : Dialect) (subs : String) (B x : Tensor α) : Except PyErr (Tensor α) := do
  let (l, r, o) ← parseSubscripts subs
  einsumTerms dia l.toList r.toList o.toList B x

/-- **`numpy.einsum(subs, B, x)`** for an explicit two-operand subscripts string -/
def einsum2 (subs : String) (B x : Tensor α) : Except PyErr (Tensor α) := einsum2With .numpy subs B x

/-- the shape of `numpy.einsum(subs, B, x)` from the shapes of `B` and `x` -/
def outShape (subs : String) (bs xs : List Nat) : Except PyErr (List Nat) := do
  let (l, r, o) ← parseSubscripts subs
  outShapeTerms .numpy l.toList r.toList o.toList bs xs

end Einsum
end Furax
