/-
The tables the hand-written model was written against.  FuraxProofs/Props/*.lean prove that the tables
regenerated from the source on every run (FuraxGenerated/Tables.lean) agree with these.
-/
namespace Furax

/-- `BINARY_RULE_REGISTRY` (rule, operator_class, left_operator_class, right_operator_class) -/
def expectedRuleRegistry : List (String × List String × List String × List String) := [
  ("InverseBinaryRule", ["AbstractLazyInverseOperator"], [], []),
  ("MoveAxisInverseRule", [], ["MoveAxisOperator"], ["MoveAxisOperator"]),
  ("ReshapeInverseRule", [], ["AbstractRavelOrReshapeOperator", "ReshapeTransposeOperator"],
     ["AbstractRavelOrReshapeOperator", "ReshapeTransposeOperator"]),
  ("PackUnpackRule", [], ["PackOperator"], ["TransposeOperator"]),
  ("BlockRowBlockDiagonalRule", [], ["BlockRowOperator"], ["BlockDiagonalOperator"]),
  ("BlockDiagonalBlockColumnRule", [], ["BlockDiagonalOperator"], ["BlockColumnOperator"]),
  ("BlockDiagonalBlockDiagonalRule", [], ["BlockDiagonalOperator"], ["BlockDiagonalOperator"]),
  ("BlockRowBlockColumnRule", [], ["BlockRowOperator"], ["BlockColumnOperator"]),
  ("IndexTransposeRule", [], ["IndexOperator"], ["TransposeOperator"]),
  ("TransposeIndexRule", [], ["TransposeOperator"], ["IndexOperator"]),
  ("QURotationRule", [], ["QURotationOperator", "QURotationTransposeOperator"],
     ["QURotationOperator", "QURotationTransposeOperator"]),
  ("QURotationHWPRule", [], ["QURotationOperator", "QURotationTransposeOperator"], ["HWPOperator"]),
  ("LinearPolarizerHWPRule", [], ["LinearPolarizerOperator"], ["HWPOperator"])
]

/-- which function provides `check` / `apply` for each rule -/
def expectedRuleMethods : List (String × String × String) := [
  ("InverseBinaryRule", "InverseBinaryRule.check", "InverseBinaryRule.apply"),
  ("MoveAxisInverseRule", "AbstractBinaryRule.check", "MoveAxisInverseRule.apply"),
  ("ReshapeInverseRule", "AbstractBinaryRule.check", "ReshapeInverseRule.apply"),
  ("PackUnpackRule", "AbstractBinaryRule.check", "PackUnpackRule.apply"),
  ("BlockRowBlockDiagonalRule", "AbstractBinaryRule.check", "AbstractBlockDiagonalRule.apply"),
  ("BlockDiagonalBlockColumnRule", "AbstractBinaryRule.check", "AbstractBlockDiagonalRule.apply"),
  ("BlockDiagonalBlockDiagonalRule", "AbstractBinaryRule.check", "AbstractBlockDiagonalRule.apply"),
  ("BlockRowBlockColumnRule", "AbstractBinaryRule.check", "AbstractBlockDiagonalRule.apply"),
  ("IndexTransposeRule", "AbstractBinaryRule.check", "IndexTransposeRule.apply"),
  ("TransposeIndexRule", "AbstractBinaryRule.check", "TransposeIndexRule.apply"),
  ("QURotationRule", "AbstractBinaryRule.check", "QURotationRule.apply"),
  ("QURotationHWPRule", "AbstractBinaryRule.check", "QURotationHWPRule.apply"),
  ("LinearPolarizerHWPRule", "AbstractBinaryRule.check", "LinearPolarizerHWPRule.apply")
]

end Furax
