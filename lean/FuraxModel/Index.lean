/-
Level B: NumPy/JAX indexing as a position map (DESIGN.md Appendix C), `gather` / `scatterAdd`, and the
constructor logic of `IndexOperator` (src/furax/_base/indices.py) and `PackOperator` (linear.py).

`indexPositions shape idx` returns the result shape and, for every element of the result in row-major
order, the flat position of the input element it selects.
-/
import FuraxModel.Tensor
import FuraxModel.IndexRule
namespace Furax
namespace Index

/-- Python `range(start, stop, step)` as a list of naturals (all values are in `[0, len)` by construction) -/
def pyRange (start stop step : Int) (fuel : Nat) : List Nat :=
  match fuel with
  | 0 => []
  | fuel + 1 =>
    if step > 0 then (if start < stop then start.toNat :: pyRange (start + step) stop step fuel else [])
    else if step < 0 then (if start > stop then start.toNat :: pyRange (start + step) stop step fuel else [])
    else []

/-- `slice(start, stop, step).indices(len)` followed by `range(*…)` -/
def sliceIndices (start stop step : Option Int) (len : Nat) : Except PyErr (List Nat) :=
  let n : Int := len
  let st := step.getD 1
  if st = 0 then .error .valueError
  else if st > 0 then
    let clamp (v : Int) : Int := let v := if v < 0 then v + n else v; if v < 0 then 0 else if v > n then n else v
    let a := match start with | none => 0 | some v => clamp v
    let b := match stop with | none => n | some v => clamp v
    .ok (pyRange a b st (len + 1))
  else
    let clamp (v : Int) : Int := let v := if v < 0 then v + n else v; if v < -1 then -1 else if v > n - 1 then n - 1 else v
    let a := match start with | none => n - 1 | some v => clamp v
    let b := match stop with | none => -1 | some v => (if v < 0 then (if v + n < -1 then -1 else v + n) else (if v > n - 1 then n - 1 else v))
    .ok (pyRange a b st (len + 1))

/-- one selector per input dimension, after ellipsis expansion and mask conversion -/
inductive Sel where
  | int (i : Int)
  | slice (idxs : List Nat)
  | adv (shape : List Nat) (vals : List Int)
  deriving Repr, Inhabited

/-- number of input dimensions an entry consumes -/
def consumed : IdxEntry → Nat
  | .ellipsis => 0
  | .barr sh _ => sh.length
  | _ => 1

/-- coordinates (one list per mask dimension) of the `True` entries of a boolean mask, row-major -/
def maskNonzero (sh : List Nat) (vals : List Bool) : List (List Int) :=
  let hits := (List.range (prodNat sh)).filter (fun k => vals.getD k false)
  (List.range sh.length).map fun ax => hits.map fun k => Int.ofNat ((unravel sh k).getD ax 0)

/-- expand entries into per-dimension selectors -/
def toSels (shape : List Nat) (idx : List IdxEntry) : Except PyErr (List Sel) := do
  let nEll := (idx.filter (· == .ellipsis)).length
  if nEll > 1 then .error .valueError
  else
    let used := (idx.map consumed).sum
    if used > shape.length then .error .indexError
    else
      let fill := shape.length - used
      let idx' := if nEll == 0 then idx ++ [.ellipsis] else idx
      -- walk the entries, tracking the current input dimension
      let rec go (es : List IdxEntry) (dim : Nat) (acc : List Sel) : Except PyErr (List Sel) :=
        match es with
        | [] => .ok acc.reverse
        | .ellipsis :: rest =>
          let sels := (List.range fill).map fun k => Sel.slice (List.range (shape.getD (dim + k) 0))
          go rest (dim + fill) (sels.reverse ++ acc)
        | .int i :: rest => go rest (dim + 1) (.int i :: acc)
        | .slice a b c :: rest =>
          match sliceIndices a b c (shape.getD dim 0) with
          | .ok l => go rest (dim + 1) (.slice l :: acc)
          | .error e => .error e
        | .iarr sh v :: rest => go rest (dim + 1) (.adv sh v :: acc)
        | .barr sh v :: rest =>
          if sh != (shape.drop dim).take sh.length then .error .indexError
          else
            let cols := maskNonzero sh v
            let n := (cols.headD []).length
            go rest (dim + sh.length) ((cols.map fun c => Sel.adv [n] c).reverse ++ acc)
      go idx' 0 []

def Sel.isAdv (hasArr : Bool) : Sel → Bool
  | .adv .. => true
  | .int _ => hasArr
  | .slice _ => false

/-- the position map -/
def indexPositions (shape : List Nat) (idx : List IdxEntry) : Except PyErr (List Nat × List Nat) := do
  let sels ← toSels shape idx
  let hasArr := sels.any fun s => match s with | .adv .. => true | _ => false
  -- normalise and bounds-check integer selectors
  let norm (i : Int) (d : Nat) : Except PyErr Nat :=
    let j := if i < 0 then i + d else i
    if j < 0 ∨ j ≥ d then .error .indexError else .ok j.toNat
  let dims := shape
  -- advanced entries with their broadcast shape
  let advShapes := (sels.filterMap fun s => match s with
    | .adv sh _ => some sh
    | .int _ => if hasArr then some [] else none
    | _ => none)
  let B ← (advShapes.foldlM (fun (acc : List Nat) sh => match broadcastShapes acc sh with
      | some r => .ok r | none => .error .indexError) ([] : List Nat) : Except PyErr (List Nat))
  let advPos := (List.range sels.length).filter fun k => (sels.getD k (.int 0)).isAdv hasArr
  -- NumPy decides adjacency on the index tuple as written: a slice or an Ellipsis between two advanced
  -- entries separates them even when the Ellipsis stands for no dimension at all
  let flags := idx.map fun e => match e with
    | .iarr .. | .barr .. => true
    | .int _ => hasArr
    | _ => false
  let firstF := flags.idxOf true
  let lastF := flags.length - 1 - flags.reverse.idxOf true
  let adjacent := (List.range flags.length).all fun k => !(firstF ≤ k && k ≤ lastF) || flags.getD k false
  let firstAdv := advPos.headD 0
  -- output dimension descriptors: `some k` = slice selector number k, `none` = one broadcast dimension
  let sliceDescs := (List.range sels.length).filterMap fun k =>
    match sels.getD k (.int 0) with | .slice l => some (k, l.length) | _ => none
  let bDescs : List (Option Nat × Nat) := B.map fun d => (none, d)
  let descs : List (Option Nat × Nat) :=
    if !hasArr then sliceDescs.map fun p => (some p.1, p.2)
    else if adjacent then
      (sliceDescs.filter (·.1 < firstAdv)).map (fun p => (some p.1, p.2)) ++ bDescs ++
      (sliceDescs.filter (·.1 > firstAdv)).map (fun p => (some p.1, p.2))
    else bDescs ++ sliceDescs.map fun p => (some p.1, p.2)
  let outShape := descs.map (·.2)
  let positions ← (List.range (prodNat outShape)).mapM fun k => do
    let oi := unravel outShape k
    let bIdx := (List.range descs.length).filterMap fun j =>
      match descs.getD j (none, 0) with | (none, _) => some (oi.getD j 0) | _ => none
    let inIdx ← (List.range sels.length).mapM fun e =>
      match sels.getD e (.int 0) with
      | .int i => norm i (dims.getD e 0)
      | .slice l =>
        let j := (List.range descs.length).find? fun j => (descs.getD j (none, 0)).1 == some e
        .ok (l.getD (oi.getD (j.getD 0) 0) 0)
      | .adv sh vals =>
        norm (vals.getD (ravelIdx sh (bcastIndex sh bIdx)) 0) (dims.getD e 0)
    pure (ravelIdx dims inIdx)
  pure (outShape, positions)

/-- `leaf[indices]` on row-major data -/
def gather {α} [Inhabited α] (pos : List Nat) (x : List α) : List α := pos.map fun p => x.getD p default

/-- the transpose: accumulate `y[j]` into position `pos[j]` of a zero array of size `n` -/
def scatterAdd {α} [Zero α] [Add α] (n : Nat) (pos : List Nat) (y : List α) : List α :=
  (List.range n).map fun p =>
    ((pos.zip y).filter fun (q : Nat × α) => q.1 == p).foldl (fun acc (q : Nat × α) => acc + q.2) 0

/-- `IndexOperator.__init__`: the `unique_indices` flag actually stored -/
def uniqueFlag (idx : List IdxEntry) (given : Option Bool) : Bool :=
  if idx.all (fun e => match e with | .int _ | .slice .. | .ellipsis | .barr .. => true | .iarr .. => false)
  then true else given.getD false

/-- `IndexOperator.__init__` argument checks: more than one ellipsis, or a boolean mask without an explicit
output structure, are refused -/
def indexCtor (idx : List IdxEntry) (hasOutStructure : Bool) : Except PyErr Unit :=
  if (idx.filter (· == .ellipsis)).length > 1 then .error .valueError
  else if !hasOutStructure && idx.any (fun e => match e with | .barr .. => true | _ => false) then .error .valueError
  else .ok ()

end Index
end Furax
