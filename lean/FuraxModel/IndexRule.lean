/-
The parts of `IndexOperator` (src/furax/_base/indices.py) that the reduction rules look at:
`indexed_axes` and the coverage computation of `TransposeIndexRule`.
-/
import FuraxModel.Op
namespace Furax

/-- `index == slice(None)` -/
def IdxEntry.isFullSlice : IdxEntry → Bool
  | .slice none none none => true
  | _ => false

/-- `IndexOperator.indexed_axes` as written: positions before the ellipsis counted from the left,
positions after it counted from the right (negative). -/
def indexedAxes (idx : List IdxEntry) : List Int :=
  let n := idx.length
  let e := idx.idxOf IdxEntry.ellipsis          -- `n` when there is no ellipsis
  let before := (List.range (min e n)).filter fun a => !((idx.getD a .ellipsis).isFullSlice)
  let after := ((List.range n).filter fun a => e < a && !((idx.getD a .ellipsis).isFullSlice))
  before.map (fun (a : Nat) => Int.ofNat a) ++ after.map (fun (a : Nat) => Int.ofNat a - Int.ofNat n)

/-! ### `jnp.unique(index, return_counts=True, size=n, fill_value=-1)` followed by scatter-add -/

/-- insert a value into a sorted list of (value, count) -/
def insertCount (v : Int) : List (Int × Nat) → List (Int × Nat)
  | [] => [(v, 1)]
  | (w, c) :: rest => if v < w then (v, 1) :: (w, c) :: rest
                      else if v = w then (w, c + 1) :: rest
                      else (w, c) :: insertCount v rest

/-- sorted distinct values with their counts -/
def uniqueCounts (xs : List Int) : List (Int × Nat) := xs.foldr insertCount []

/-- `jnp.unique(xs, return_counts=True, size=n, fill_value=-1)`: truncated to the `n` smallest,
padded with `(-1, 0)` -/
def uniqueSized (xs : List Int) (n : Nat) : List (Int × Nat) :=
  let u := uniqueCounts xs
  (u.take n) ++ List.replicate (n - u.length) ((-1 : Int), 0)

/-- NumPy/JAX normalisation of a possibly negative index -/
def normIdx (n : Nat) (i : Int) : Int := if i < 0 then i + n else i

/-- `zeros(n).at[idx].add(counts)`: negative indices are normalised, out-of-bounds updates dropped -/
def scatterAddCounts (n : Nat) (ups : List (Int × Nat)) : List Nat :=
  (List.range n).map fun (p : Nat) =>
    (ups.filter fun (u : Int × Nat) => normIdx n u.1 = Int.ofNat p).foldl (fun a (u : Int × Nat) => a + u.2) 0

/-- what `TransposeIndexRule.apply` computes as the diagonal of `P.T @ P`:
`index = where(index < 0, index + n, index)`, then `unique(size=n, fill_value=-1)`, then scatter-add -/
def ruleCoverage (n : Nat) (index : List Int) : List Nat :=
  scatterAddCounts n (uniqueSized (index.map (normIdx n)) n)

/-- the same computation *without* the normalisation step: the code before the repair of finding F2
(kept for the kernel-checked counterexample in FuraxProofs/Props/C12.lean) -/
def ruleCoverageUnnormalised (n : Nat) (index : List Int) : List Nat :=
  scatterAddCounts n (uniqueSized index n)

/-- the specification: multiplicity of each position among the (normalised) indices -/
def mult (n : Nat) (index : List Int) : List Nat :=
  (List.range n).map fun (p : Nat) => (index.filter fun i => normIdx n i = Int.ofNat p).length

/-- Python `seq[i]` with negative indexing -/
def pyGet? {α} (l : List α) (i : Int) : Option α :=
  let j := if i < 0 then i + l.length else i
  if j < 0 then none else l[j.toNat]?

end Furax
