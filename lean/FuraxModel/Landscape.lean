/-
Level B: `StokesLandscape.pixel2index`, the index dtype choice and `get_coverage`
(src/furax/landscapes.py).  Coordinates are exact rationals; `jnp.round` is round-half-to-even.
-/
import FuraxModel.Basic
import FuraxModel.IndexRule
namespace Furax
namespace Landscape

/-- `jnp.round` on an exact value: nearest integer, ties to even -/
def roundHalfEven (q : Rat) : Int :=
  let f := q.floor
  let d := q - (f : Rat)
  if d < 1/2 then f
  else if d > 1/2 then f + 1
  else if f % 2 = 0 then f else f + 1

/-- the loop of `pixel2index` on already rounded coordinates:
`indices += indices_axis * stride; stride *= dim; valid &= 0 <= indices_axis < dim` -/
def accumulate : List (Int × Nat) → (acc : Int) → (valid : Bool) → (stride : Nat) → Int × Bool
  | [], acc, valid, _ => (acc, valid)
  | (ia, dim) :: rest, acc, valid, stride =>
    accumulate rest (acc + ia * stride) (valid && decide (0 ≤ ia) && decide (ia < dim)) (stride * dim)

/-- `pixel2index` on rounded coordinates (`pixel_shape` order: first coordinate fastest);
`none` = `TypeError` (no coordinate given) -/
def pixel2indexInt (pixelShape : List Nat) (ints : List Int) : Option Int :=
  match pixelShape, ints with
  | d0 :: ds, i0 :: is =>
    let r := accumulate (is.zip ds) i0 (decide (0 ≤ i0) && decide (i0 < d0)) d0
    some (if r.2 then r.1 else -1)
  | _, _ => none

/-- `pixel2index(*coords)` -/
def pixel2index (pixelShape : List Nat) (coords : List Rat) : Option Int :=
  pixel2indexInt pixelShape (coords.map roundHalfEven)

/-- the index dtype: int32 when the largest index fits, else int64 -/
def indexDType (npixel : Nat) : DType := if (npixel : Int) - 1 ≤ 2147483647 then .i32 else .i64

/-- `get_coverage`: `unique(indices, return_counts)` then scatter-add into `zeros(N)` -/
def coverage (npixel : Nat) (indices : List Int) : List Nat :=
  scatterAddCounts npixel (uniqueCounts indices)

end Landscape
end Furax
