/-
Level A: the operator expression tree.  One constructor family per kind of furax class that a rule,
an arithmetic dunder, a `reduce()` override or a decorator can distinguish.

* `leaf`  — operators without operator-valued fields (identity, scalar, diagonal, index, …)
* `wrap`  — `_AbstractLazyDualOperator` subclasses (hold one `.operator`) and `DiagonalInverseOperator`
* `comp`  — `CompositionOperator`
* `cont`  — operators holding a pytree container of operators (sum, block row/diagonal/column),
            stored as JAX does: a treedef and the flat list of leaves.

Every node carries the Python `id()` the harness observed (`uid`); objects created by the modelled
code get `uid = 0`.  Python's `a is b` is modelled by `Op.same`.
-/
import FuraxModel.Tensor
namespace Furax

inductive LeafCls where
  | identity | homothety | diagonal | broadcastDiagonal | index | pack | moveAxis | ravel | reshape
  | qurot | hwp | polarizer | dense | toeplitz | obsMatrix | opaque
  deriving DecidableEq, Repr, Inhabited

inductive WrapCls where
  | transpose      -- TransposeOperator (generic)
  | inverse        -- InverseOperator (lazy, iterative solver)
  | reshapeT       -- ReshapeTransposeOperator
  | qurotT         -- QURotationTransposeOperator
  | diagInv        -- DiagonalInverseOperator
  | obsT           -- ToastObservationMatrixTransposeOperator
  deriving DecidableEq, Repr, Inhabited

inductive ContCls where
  | add | blockRow | blockDiag | blockCol
  deriving DecidableEq, Repr, Inhabited

/-- one entry of an `IndexOperator.indices` tuple -/
inductive IdxEntry where
  | int (i : Int)
  | slice (start stop step : Option Int)
  | ellipsis
  | iarr (shape : List Nat) (vals : List Int)
  | barr (shape : List Nat) (vals : List Bool)
  deriving DecidableEq, Repr, Inhabited

/-- the parameters of a leaf operator, as far as the expression algebra can see them -/
structure Params where
  inS : Struct
  outS : Struct
  vals : Tensor Rat := ⟨[], []⟩   -- scalar value / diagonal values / rotation angles
  ints : List (List Int) := []     -- move-axis [source, destination]; diagonal [axis_destination]; …
  idx : List IdxEntry := []        -- index operator: the indices tuple
  flag : Bool := false             -- index operator: unique_indices
  str : String := ""               -- dense: subscripts; toeplitz: method
  deriving DecidableEq, Repr, Inhabited

inductive Op where
  | leaf (uid : Nat) (cls : LeafCls) (p : Params)
  | wrap (uid : Nat) (k : WrapCls) (op : Op)
  | comp (uid : Nat) (ops : List Op)
  | cont (uid : Nat) (k : ContCls) (td : TreeDef) (ops : List Op)
  deriving Repr, Inhabited

namespace Op

def uid : Op → Nat
  | leaf u _ _ | wrap u _ _ | comp u _ | cont u _ _ _ => u

mutual
/-- structural equality (Boolean) -/
def beq : Op → Op → Bool
  | .leaf u c p, .leaf u' c' p' => u == u' && c == c' && p == p'
  | .wrap u k o, .wrap u' k' o' => u == u' && k == k' && beq o o'
  | .comp u os, .comp u' os' => u == u' && beqList os os'
  | .cont u k td os, .cont u' k' td' os' => u == u' && k == k' && td == td' && beqList os os'
  | _, _ => false
def beqList : List Op → List Op → Bool
  | [], [] => true
  | a :: as, b :: bs => beq a b && beqList as bs
  | _, _ => false
end

/-- Python's `a is b`.  An object the harness saw has a non-zero `id()`; two encodings with the same id
are encodings of the same object and hence structurally equal, so on every input the harness can
produce the structural conjunct is implied by the first two.  Objects created by the modelled code
(`uid = 0`) occur at one place only and are never `is`-equal to anything else. -/
def same (a b : Op) : Bool := a.uid != 0 && a.uid == b.uid && beq a b

/-! ### class tests (`isinstance`) -/

def isLeafCls (c : LeafCls) : Op → Bool
  | .leaf _ c' _ => c == c'
  | _ => false

def isIdentity := isLeafCls .identity
def isHomothety := isLeafCls .homothety
def isHWP := isLeafCls .hwp
def isPolarizer := isLeafCls .polarizer
def isQURot := isLeafCls .qurot
def isIndex := isLeafCls .index
def isPack := isLeafCls .pack
def isMoveAxis := isLeafCls .moveAxis

/-- `isinstance(x, AbstractRavelOrReshapeOperator)` -/
def isRavelOrReshape : Op → Bool
  | .leaf _ .ravel _ | .leaf _ .reshape _ => true
  | _ => false

def isWrapCls (k : WrapCls) : Op → Bool
  | .wrap _ k' _ => k == k'
  | _ => false

/-- `isinstance(x, TransposeOperator)`: the generic transpose and its subclasses -/
def isTransposeOperator : Op → Bool
  | .wrap _ .transpose _ | .wrap _ .reshapeT _ | .wrap _ .qurotT _ | .wrap _ .obsT _ => true
  | _ => false

/-- `isinstance(x, AbstractLazyInverseOperator)` -/
def isLazyInverse : Op → Bool
  | .wrap _ .inverse _ | .wrap _ .qurotT _ | .wrap _ .diagInv _ => true
  | _ => false

def isReshapeT := isWrapCls .reshapeT
def isQURotT := isWrapCls .qurotT
def isComp : Op → Bool
  | .comp .. => true
  | _ => false
def isContCls (k : ContCls) : Op → Bool
  | .cont _ k' _ _ => k == k'
  | _ => false
def isAdd := isContCls .add

/-- `.operator` of a wrapper -/
def operator? : Op → Option Op
  | .wrap _ _ o => some o
  | _ => none

def params? : Op → Option Params
  | .leaf _ _ p => some p
  | _ => none

/-! ### declared structures (`in_structure()`, `out_structure()`) -/

/-- leaf classes decorated `@square` / `@symmetric` / `@diagonal` / `@orthogonal`: the decorator assigns
`cls.out_structure = cls.in_structure` (pinned against the source: `outStructureResolutionOk`) -/
def squareLeaf : LeafCls → Bool
  | .identity | .homothety | .diagonal | .hwp | .qurot | .toeplitz | .obsMatrix => true
  | _ => false

mutual
def inS : Op → Struct
  | .leaf _ _ p => p.inS
  | .wrap _ .diagInv o => inS o
  | .wrap _ _ o => outS o
  | .comp _ ops => inSLast ops
  | .cont _ .add _ ops => inSHead ops
  | .cont _ .blockRow td ops => Struct.nest td (inSList ops)
  | .cont _ .blockDiag td ops => Struct.nest td (inSList ops)
  | .cont _ .blockCol _ ops => inSHead ops
def outS : Op → Struct
  | .leaf _ c p => if squareLeaf c then p.inS else p.outS
  | .wrap _ .diagInv o => inS o
  | .wrap _ _ o => inS o
  | .comp _ ops => outSHead ops
  | .cont _ .add _ ops => outSHead ops
  | .cont _ .blockRow _ ops => outSHead ops
  | .cont _ .blockDiag td ops => Struct.nest td (outSList ops)
  | .cont _ .blockCol td ops => Struct.nest td (outSList ops)
def inSList : List Op → List Struct
  | [] => []
  | o :: os => inS o :: inSList os
def outSList : List Op → List Struct
  | [] => []
  | o :: os => outS o :: outSList os
def inSHead : List Op → Struct
  | [] => default
  | o :: _ => inS o
def outSHead : List Op → Struct
  | [] => default
  | o :: _ => outS o
def inSLast : List Op → Struct
  | [] => default
  | [o] => inS o
  | _ :: o :: os => inSLast (o :: os)
end

def inSize (o : Op) : Nat := (inS o).size
def outSize (o : Op) : Nat := (outS o).size

/-! ### constructors of objects made by the modelled code (`uid = 0`) -/

def mkIdentity (s : Struct) : Op := .leaf 0 .identity { inS := s, outS := s }
def mkHomothety (v : Rat) (s : Struct) : Op :=
  .leaf 0 .homothety { inS := s, outS := s, vals := Tensor.scalar v }
def mkComp (ops : List Op) : Op := .comp 0 ops

def homValue : Op → Rat
  | .leaf _ .homothety p => p.vals.data.headD 1
  | _ => 1

end Op
end Furax
