/-
`reduce()` for every operator class, the two n-ary rules and the thirteen registered binary rules
(src/furax/_base/rules.py, core.py, blocks.py, indices.py, linear.py, axes.py, operators/*.py).
The binary rules are plugged into the generic `scan` of FuraxModel/Scan.lean, so the theorems proved
about `scan` apply to this very function.
-/
import FuraxModel.Scan
import FuraxModel.Arith
import FuraxModel.IndexRule
namespace Furax
open Op

/-- `IdentityRule.apply` -/
def identityRule (ops : List Op) : List Op := ops.filter (fun o => !o.isIdentity)

/-- `HomothetyRule.apply` -/
def homothetyRule (ops : List Op) : List Op :=
  match ops, ops.getLast? with
  | first :: _ :: _, some last =>
    let homs := ops.filter isHomothety
    let value : Rat := homs.foldl (fun acc o => acc * o.homValue) 1
    let newOps := ops.filter (fun o => !o.isHomothety)
    if homs.length == 0 then ops
    else
      let applyOnLeft := first.outSize ≤ last.inSize
      if homs.length == 1 && ((applyOnLeft && first.isHomothety) || (!applyOnLeft && last.isHomothety))
      then ops
      else if applyOnLeft then mkHomothety value (outS first) :: newOps
      else newOps ++ [mkHomothety value (inS last)]
  | _, _ => ops

abbrev BRule := Rule Op PyErr

/-- angles of a `QURotationOperator` -/
def anglesOf : Op → Tensor Rat
  | .leaf _ .qurot p => p.vals
  | _ => ⟨[], []⟩

def mkQURot (angles : Tensor Rat) (s : Struct) : Op :=
  .leaf 0 .qurot { inS := s, outS := s, vals := angles }

def tensorOp (f : Rat → Rat → Rat) (a b : Tensor Rat) : Except PyErr (Tensor Rat) :=
  match Tensor.zipBroadcast f a b with
  | some t => .ok t
  | none => .error .valueError

/-- `InverseBinaryRule` -/
def inverseBinaryRule : BRule where
  name := "InverseBinaryRule"
  fire l r :=
    if !(l.isLazyInverse || r.isLazyInverse) then .ok none
    else if l.isLazyInverse then
      match l.operator? with
      | some o => if same o r then .ok (some []) else .ok none
      | none => .ok none
    else
      match r.operator? with
      | some o => if same o l then .ok (some []) else .ok none
      | none => .ok none

/-- `MoveAxisInverseRule` -/
def moveAxisInverseRule : BRule where
  name := "MoveAxisInverseRule"
  fire l r :=
    match l, r with
    | .leaf _ .moveAxis pl, .leaf _ .moveAxis pr =>
      -- ints = [source, destination]
      if pl.ints.getD 0 [] != pr.ints.getD 1 [] || pl.ints.getD 1 [] != pr.ints.getD 0 [] then .ok none
      else .ok (some [])
    | _, _ => .ok none

/-- `ReshapeInverseRule` -/
def reshapeInverseRule : BRule where
  name := "ReshapeInverseRule"
  fire l r :=
    if !(l.isRavelOrReshape || l.isReshapeT) then .ok none
    else if !(r.isRavelOrReshape || r.isReshapeT) then .ok none
    else if l.isRavelOrReshape then
      if !r.isReshapeT then .ok none
      else match r.operator? with
        | some o => if same o l then .ok (some []) else .ok none
        | none => .ok none
    else
      if !r.isRavelOrReshape then .ok none
      else match l.operator? with
        | some o => if same o r then .ok (some []) else .ok none
        | none => .ok none

/-- `PackUnpackRule` -/
def packUnpackRule : BRule where
  name := "PackUnpackRule"
  fire l r :=
    if !l.isPack then .ok none
    else if !r.isTransposeOperator then .ok none
    else match r.operator? with
      | some o => if same o l then .ok (some []) else .ok none
      | none => .ok none

/-- the four block rules (`AbstractBlockDiagonalRule.apply`):
`[reduced_class(left._tree_map(lambda l, r: l @ r, right.blocks)).reduce()]`.
Containers of different pytree shape are not combined (NoReduction). -/
def blockRule (red : Op → Except PyErr Op) (name : String) (lk rk res : ContCls) : BRule where
  name := name
  fire l r :=
    match l, r with
    | .cont _ lk' ltd lops, .cont _ rk' rtd rops =>
      if lk' == lk && rk' == rk then
        if ltd != rtd || lops.length != rops.length then .ok none
        else do
          let prods ← (lops.zip rops).mapM fun (p : Op × Op) => pyMatmul p.1 p.2
          let c' ← red (.cont 0 res ltd prods)
          pure (some [c'])
      else .ok none
    | _, _ => .ok none

/-- `IndexTransposeRule` -/
def indexTransposeRule : BRule where
  name := "IndexTransposeRule"
  fire l r :=
    match l with
    | .leaf _ .index p =>
      if !r.isTransposeOperator then .ok none
      else match r.operator? with
        | some o => if !same o l then .ok none else if !p.flag then .ok none else .ok (some [])
        | none => .ok none
    | _ => .ok none

/-- `TransposeIndexRule` -/
def transposeIndexRule : BRule where
  name := "TransposeIndexRule"
  fire l r :=
    match r with
    | .leaf _ .index p =>
      if !l.isTransposeOperator then .ok none
      else match l.operator? with
        | none => .ok none
        | some o =>
          if !same o r then .ok none
          else
            let axes := indexedAxes p.idx
            if axes.length > 1 then .ok none
            else if p.flag then .ok none
            else if ((p.inS.leaves.map (·.dtype)).eraseDups).length > 1 then .ok none
            else
              let shapes := (p.inS.leaves.map (·.shape)).eraseDups
              if shapes.length > 1 then .ok none
              else match shapes.head?, axes.head? with
                | some shape, some axis =>
                  match pyGet? p.idx axis, pyGet? shape axis with
                  | some (.iarr _ vals), some sizeMax =>
                    let cov := ruleCoverage sizeMax vals
                    .ok (some [.leaf 0 .diagonal
                      { inS := p.inS, outS := p.inS,
                        vals := ⟨[sizeMax], cov.map (fun (c : Nat) => (c : Rat))⟩,
                        ints := [[axis]] }])
                  | some (.iarr _ _), none => .error .indexError
                  | _, _ => .error .assertion
                | _, _ => .error .indexError
    | _ => .ok none

/-- `QURotationRule` -/
def quRotationRule : BRule where
  name := "QURotationRule"
  fire l r :=
    if !(l.isQURot || l.isQURotT) then .ok none
    else if !(r.isQURot || r.isQURotT) then .ok none
    else
      let la := match l with | .wrap _ _ o => anglesOf o | _ => anglesOf l
      let ra := match r with | .wrap _ _ o => anglesOf o | _ => anglesOf r
      let angles : Except PyErr (Tensor Rat) :=
        if l.isQURot then
          (if r.isQURot then tensorOp (· + ·) la ra else tensorOp (· - ·) la ra)
        else
          (if r.isQURot then tensorOp (· - ·) ra la else tensorOp (· - ·) (la.map (- ·)) ra)
      match angles with
      | .error e => .error e
      | .ok a => .ok (some [mkQURot a (inS r)])

/-- `QURotationHWPRule` -/
def quRotationHWPRule : BRule where
  name := "QURotationHWPRule"
  fire l r :=
    if !(l.isQURot || l.isQURotT) then .ok none
    else if !r.isHWP then .ok none
    else match l with
      | .wrap _ _ o => .ok (some [r, o])
      | _ => .ok (some [r, .wrap 0 .qurotT l])

/-- `LinearPolarizerHWPRule` -/
def linearPolarizerHWPRule : BRule where
  name := "LinearPolarizerHWPRule"
  fire l r := if l.isPolarizer && r.isHWP then .ok (some [l]) else .ok none

/-- `BINARY_RULE_REGISTRY`, in registration order (the order is pinned against the source by the
translator, see FuraxProofs/Props/Tables.lean) -/
def binaryRules (red : Op → Except PyErr Op) : List BRule :=
  [ inverseBinaryRule, moveAxisInverseRule, reshapeInverseRule, packUnpackRule,
    blockRule red "BlockRowBlockDiagonalRule" .blockRow .blockDiag .blockRow,
    blockRule red "BlockDiagonalBlockColumnRule" .blockDiag .blockCol .blockCol,
    blockRule red "BlockDiagonalBlockDiagonalRule" .blockDiag .blockDiag .blockDiag,
    blockRule red "BlockRowBlockColumnRule" .blockRow .blockCol .add,
    indexTransposeRule, transposeIndexRule, quRotationRule, quRotationHWPRule,
    linearPolarizerHWPRule ]

/-- `new_ops = identity_rule.apply(new_ops)` right after a rule fired -/
def dropIdentities (ru : BRule) : BRule where
  name := ru.name
  fire l r :=
    match ru.fire l r with
    | .ok (some new) => .ok (some (identityRule new))
    | other => other

def reductionCfg (red : Op → Except PyErr Op) : Cfg Op PyErr where
  rules := (binaryRules red).map dropIdentities
  isHom := isHomothety
  homRule := homothetyRule

/-- enough for every chain: each step either advances or fires a rule, see `scan_fuel` notes -/
def scanFuel (n : Nat) : Nat := 8 * (n + 2) * (n + 2) + 32

/-- `AlgebraicReductionRule.apply` -/
def algebraicReduction (red : Op → Except PyErr Op) (ops : List Op) : Except PyErr (List Op) :=
  if ops.length < 2 then .ok ops
  else
    let inStruct := inSLast ops
    let ops2 := homothetyRule (identityRule ops)
    match scan (reductionCfg red) (scanFuel ops2.length) ops2 0 with
    | .error e => .error e
    | .ok none => .error .fuel
    | .ok (some res) => if res.isEmpty then .ok [mkIdentity inStruct] else .ok res

/-- `op.reduce()` -/
def reduce : Nat → Op → Except PyErr Op
  | 0, _ => .error .fuel
  | fuel+1, o =>
    match o with
    | .leaf _ .index p =>
      if (indexedAxes p.idx).length == 0 then .ok (mkIdentity p.inS) else .ok o
    | .leaf _ .ravel p => if p.outS == p.inS then .ok (mkIdentity p.inS) else .ok o
    | .leaf _ .reshape p => if p.outS == p.inS then .ok (mkIdentity p.inS) else .ok o
    | .leaf .. => .ok o
    | .wrap .. => .ok o
    | .comp _ ops => do
      let ops' ← ops.mapM (reduce fuel)
      let res ← algebraicReduction (reduce fuel) ops'
      match res with
      | [] => pure (mkIdentity (inS o))
      | [x] => pure x
      | _ => pure (mkComp res)
    | .cont _ .add td ops => do
      let ops' ← ops.mapM (reduce fuel)
      match ops' with
      | [x] => pure x
      | _ => pure (.cont 0 .add td ops')
    | .cont _ k td ops => do
      let ops' ← ops.mapM (reduce fuel)
      if k == .blockDiag && ops'.all isIdentity then pure (mkIdentity (inS o))
      else pure (.cont 0 k td ops')

/-- fuel for `reduce`: nesting depth of the expression plus slack -/
def Op.depth : Op → Nat
  | .leaf .. => 1
  | .wrap _ _ o => 1 + o.depth
  | .comp _ ops => 1 + depthList ops
  | .cont _ _ _ ops => 1 + depthList ops
where depthList : List Op → Nat
  | [] => 0
  | o :: os => max o.depth (depthList os)

def reduceTop (o : Op) : Except PyErr Op := reduce (2 * o.depth + 8) o

end Furax
