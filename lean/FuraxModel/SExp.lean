/-
S-expressions: the line protocol between the Python harness and the Lean model driver.
Mathlib-free.  Not subject to proofs (parsing/printing is part of the trusted tie).
-/
namespace Furax

inductive SExp where
  | atom (s : String)
  | list (xs : List SExp)
  deriving Inhabited, Repr

namespace SExp

partial def toStr : SExp → String
  | atom s => s
  | list xs => "(" ++ " ".intercalate (xs.map toStr) ++ ")"

instance : ToString SExp := ⟨toStr⟩

/-- tokenizer: parentheses and whitespace-separated atoms -/
def tokenize (s : String) : List String := Id.run do
  let mut toks : Array String := #[]
  let mut cur : String := ""
  for c in s.toList do
    if c == '(' || c == ')' then
      if cur != "" then toks := toks.push cur; cur := ""
      toks := toks.push (String.singleton c)
    else if c == ' ' || c == '\n' || c == '\t' || c == '\r' then
      if cur != "" then toks := toks.push cur; cur := ""
    else
      cur := cur.push c
  if cur != "" then toks := toks.push cur
  return toks.toList

/-- parse one expression from a token list, returning the rest -/
partial def parseToks : List String → Option (SExp × List String)
  | [] => none
  | "(" :: rest =>
    let rec go (acc : Array SExp) (ts : List String) : Option (SExp × List String) :=
      match ts with
      | [] => none
      | ")" :: r => some (list acc.toList, r)
      | _ => match parseToks ts with
        | some (e, r) => go (acc.push e) r
        | none => none
    go #[] rest
  | ")" :: _ => none
  | a :: rest => some (atom a, rest)

def parse (s : String) : Option SExp :=
  match parseToks (tokenize s) with
  | some (e, []) => some e
  | _ => none

def atom? : SExp → Option String
  | atom s => some s
  | _ => none

def list? : SExp → Option (List SExp)
  | list xs => some xs
  | _ => none

def nat? (e : SExp) : Option Nat := e.atom?.bind String.toNat?
def int? (e : SExp) : Option Int := e.atom?.bind String.toInt?

/-- rationals are written `n` or `n/d` -/
def rat? (e : SExp) : Option Rat := do
  let s ← e.atom?
  match s.splitOn "/" with
  | [n] => (n.toInt?).map (fun (i : Int) => (i : Rat))
  | [n, d] => do
    let n ← n.toInt?
    let d ← d.toNat?
    if d == 0 then none else some ((n : Rat) / (d : Rat))
  | _ => none

def ofNat (n : Nat) : SExp := atom (toString n)
def ofInt (n : Int) : SExp := atom (toString n)
def ofRat (q : Rat) : SExp :=
  if q.den == 1 then atom (toString q.num) else atom (toString q.num ++ "/" ++ toString q.den)
def ofBool (b : Bool) : SExp := atom (if b then "T" else "F")
def bool? (e : SExp) : Option Bool :=
  match e with
  | atom "T" => some true
  | atom "F" => some false
  | _ => none

def nats? (e : SExp) : Option (List Nat) := e.list?.bind (·.mapM nat?)
def ints? (e : SExp) : Option (List Int) := e.list?.bind (·.mapM int?)
def rats? (e : SExp) : Option (List Rat) := e.list?.bind (·.mapM rat?)
def ofNats (l : List Nat) : SExp := list (l.map ofNat)
def ofInts (l : List Int) : SExp := list (l.map ofInt)
def ofRats (l : List Rat) : SExp := list (l.map ofRat)

end SExp
end Furax
