/-
The scan of `AlgebraicReductionRule.apply` (src/furax/_base/rules.py), generic in the operator type.

    index = 0
    while index < len(operands) - 1:
        left, right = operands[index], operands[index + 1]
        for rule in BINARY_RULE_REGISTRY:
            try: rule.check(left, right); new_ops = rule.apply(left, right)
            except NoReduction: continue
            operands[index : index + 2] = new_ops
            if any(isinstance(op, HomothetyOperator) for op in new_ops):
                operands = homothety_rule.apply(operands); index = 0
            if index > 0: index -= 1
            break
        else: index += 1

A rule is a function returning `.ok none` (NoReduction), `.ok (some new_ops)` or `.error e` (any other
exception, which propagates out of `reduce()`).  Mathlib-free, executable; the theorems about it are in
FuraxProofs/Lemmas/Scan.lean.
-/
namespace Furax

structure Rule (O : Type) (E : Type) where
  name : String
  fire : O → O → Except E (Option (List O))

/-- first rule of the registry (in order) that does not raise NoReduction -/
def fireFirst {O E} : List (Rule O E) → O → O → Except E (Option (List O))
  | [], _, _ => .ok none
  | ru :: rest, l, r =>
    match ru.fire l r with
    | .error e => .error e
    | .ok (some new) => .ok (some new)
    | .ok none => fireFirst rest l r

structure Cfg (O : Type) (E : Type) where
  rules : List (Rule O E)
  isHom : O → Bool
  homRule : List O → List O

/-- `operands[index : index + 2] = new_ops` -/
def splice {O} (ops : List O) (index : Nat) (newOps : List O) : List O :=
  ops.take index ++ newOps ++ ops.drop (index + 2)

/-- The while loop, with fuel.  `none` = fuel exhausted (never observed; see `scan_terminates`
obligations in the proofs). -/
def scan {O E} (c : Cfg O E) : Nat → List O → Nat → Except E (Option (List O))
  | 0, _, _ => .ok none
  | fuel+1, ops, index =>
    if h : index + 1 < ops.length then
      match fireFirst c.rules ops[index] ops[index+1] with
      | .error e => .error e
      | .ok (some newOps) =>
        let ops' := splice ops index newOps
        if newOps.any c.isHom then scan c fuel (c.homRule ops') 0
        else scan c fuel ops' (index - 1)
      | .ok none => scan c fuel ops (index + 1)
    else .ok (some ops)

end Furax
