/-
Level B: the polarimetry kernels (src/furax/operators/hwp.py, qu_rotations.py, polarizers.py) acting on
one sample of a Stokes vector.  A sample is kept as a full (I,Q,U,V) quadruple; the Stokes kind says which
components exist (`present`), absent components are carried along untouched and never read except where the
code reads them.  Generic in the scalar type through core classes only; `c`, `s` stand for
`cos(2·angle)`, `sin(2·angle)`.
-/
namespace Furax

inductive StokesKind where
  | I | QU | IQU | IQUV
  deriving DecidableEq, Repr, Inhabited

def StokesKind.name : StokesKind → String
  | .I => "I" | .QU => "QU" | .IQU => "IQU" | .IQUV => "IQUV"

def StokesKind.ofName? : String → Option StokesKind
  | "I" => some .I | "QU" => some .QU | "IQU" => some .IQU | "IQUV" => some .IQUV
  | _ => none

structure SV (α : Type) where
  i : α
  q : α
  u : α
  v : α
  deriving DecidableEq, Repr, Inhabited

namespace SV
variable {α : Type}

/-- components that exist for a kind, in the order of the pytree fields -/
def present (k : StokesKind) (x : SV α) : List α :=
  match k with
  | .I => [x.i]
  | .QU => [x.q, x.u]
  | .IQU => [x.i, x.q, x.u]
  | .IQUV => [x.i, x.q, x.u, x.v]

def ofPresent [Inhabited α] (k : StokesKind) (l : List α) (fill : α) : SV α :=
  match k, l with
  | .I, [i] => ⟨i, fill, fill, fill⟩
  | .QU, [q, u] => ⟨fill, q, u, fill⟩
  | .IQU, [i, q, u] => ⟨i, q, u, fill⟩
  | .IQUV, [i, q, u, v] => ⟨i, q, u, v⟩
  | _, _ => ⟨fill, fill, fill, fill⟩

variable [Add α] [Sub α] [Mul α] [Neg α]

/-- `HWPOperator.mv`: flips the sign of U and V -/
def hwp (x : SV α) : SV α := ⟨x.i, x.q, -x.u, -x.v⟩

/-- `QURotationOperator.mv`: `q' = q·c − u·s`, `u' = q·s + u·c` -/
def rot (c s : α) (x : SV α) : SV α := ⟨x.i, x.q * c - x.u * s, x.q * s + x.u * c, x.v⟩

/-- `QURotationTransposeOperator.mv`: `q' = q·c + u·s`, `u' = −q·s + u·c` -/
def rotT (c s : α) (x : SV α) : SV α := ⟨x.i, x.q * c + x.u * s, -x.q * s + x.u * c, x.v⟩

/-- `LinearPolarizerOperator.mv`: `0.5·i`, `0.5·q` or `0.5·(i+q)` depending on the kind -/
def pol (half : α) (k : StokesKind) (x : SV α) : α :=
  match k with
  | .I => half * x.i
  | .QU => half * x.q
  | _ => half * (x.i + x.q)

end SV

/-- the QU-rotation and HWP operators leave a Stokes-I input untouched (`if isinstance(x, StokesIPyTree):
return x`): on kind I only `i` exists, and `hwp`, `rot`, `rotT` do not change `i`. -/
def applyMueller {α} [Add α] [Sub α] [Mul α] [Neg α] (op : String) (c s : α) (x : SV α) : Option (SV α) :=
  match op with
  | "hwp" => some (SV.hwp x)
  | "rot" => some (SV.rot c s x)
  | "rotT" => some (SV.rotT c s x)
  | _ => none

end Furax
