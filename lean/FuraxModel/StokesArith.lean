/-
Level B: `StokesPyTree` arithmetic, factories and the pytree helpers of `furax.tree`
(src/furax/landscapes.py, src/furax/tree.py).
-/
import FuraxModel.Stokes
import FuraxModel.Tensor
namespace Furax
namespace StokesArith

def kindLen : StokesKind → Nat
  | .I => 1 | .QU => 2 | .IQU => 3 | .IQUV => 4

/-- a Stokes container: its kind and one tensor per component, in field order -/
structure SVal (α : Type) where
  kind : StokesKind
  comps : List (Tensor α)
  deriving Repr, Inhabited

inductive BinOp where
  | add | sub | mul | div | pow
  deriving DecidableEq, Repr, Inhabited

def BinOp.ofName? : String → Option BinOp
  | "add" => some .add | "sub" => some .sub | "mul" => some .mul | "div" => some .div | "pow" => some .pow
  | _ => none

/-- exact evaluation on rationals (`none` = outside the modelled fragment: division by zero, non-natural powers) -/
def evalOp (op : BinOp) (a b : Rat) : Option Rat :=
  match op with
  | .add => some (a + b)
  | .sub => some (a - b)
  | .mul => some (a * b)
  | .div => if b = 0 then none else some (a / b)
  | .pow => if b.den = 1 ∧ 0 ≤ b.num then some (a ^ b.num.toNat) else none

/-- the other operand of a binary dunder -/
inductive Operand (α : Type) where
  | stokes (v : SVal α)
  | scalar (a : α)            -- `jnp.isscalar`
  | array (t : Tensor α)      -- `jax.Array`
  | other                     -- anything else (list, NumPy array, …)
  deriving Repr, Inhabited

inductive Res (α : Type) where
  | ok (v : SVal α)
  | notImplemented
  | unsupported
  deriving Repr, Inhabited

/-- broadcasted leaf ⊙ tensor with a partial scalar operation -/
def tensorOp (f : Rat → Rat → Option Rat) (a b : Tensor Rat) : Option (Tensor Rat) := do
  let shape ← broadcastShapes a.shape b.shape
  let a' := a.broadcastTo shape
  let b' := b.broadcastTo shape
  let data ← (List.zipWith f a'.data b'.data).mapM id
  some ⟨shape, data⟩

def mapComps (f : Tensor Rat → Option (Tensor Rat)) (v : SVal Rat) : Res Rat :=
  match v.comps.mapM f with
  | some cs => .ok ⟨v.kind, cs⟩
  | none => .unsupported

/-- `_operation(operation, right)`: `self ⊙ right` -/
def operation (op : BinOp) (self : SVal Rat) : Operand Rat → Res Rat
  | .stokes r =>
    if r.kind = self.kind then
      match (List.zipWith (fun a b => tensorOp (evalOp op) a b) self.comps r.comps).mapM id with
      | some cs => .ok ⟨self.kind, cs⟩
      | none => .unsupported
    else .notImplemented
  | .scalar a => mapComps (fun leaf => tensorOp (evalOp op) leaf (Tensor.scalar a)) self
  | .array t => mapComps (fun leaf => tensorOp (evalOp op) leaf t) self
  | .other => .notImplemented

/-- `_roperation(operation, left)`: `left ⊙ self` — the operand order matters for `-`, `/`, `**` -/
def roperation (op : BinOp) (self : SVal Rat) : Operand Rat → Res Rat
  | .stokes l =>
    if l.kind = self.kind then
      match (List.zipWith (fun a b => tensorOp (evalOp op) a b) l.comps self.comps).mapM id with
      | some cs => .ok ⟨self.kind, cs⟩
      | none => .unsupported
    else .notImplemented
  | .scalar a => mapComps (fun leaf => tensorOp (evalOp op) (Tensor.scalar a) leaf) self
  | .array t => mapComps (fun leaf => tensorOp (evalOp op) t leaf) self
  | .other => .notImplemented

/-- `StokesPyTree.class_for(stokes)` -/
def classFor (s : String) : Except PyErr StokesKind :=
  match StokesKind.ofName? s with
  | some k => .ok k
  | none => .error .valueError

/-- `from_stokes(*args, **keywords)`: which kind results (positional count, or keyword names) -/
def fromStokesKind (nargs : Nat) (keywords : List String) : Except PyErr StokesKind :=
  if nargs > 0 ∧ keywords ≠ [] then .error .typeError
  else
    let n := if keywords ≠ [] then
        (if ["I", "QU", "IQU", "IQUV"].contains (String.join (keywords.mergeSort (· ≤ ·))) then some keywords.length else none)
      else some nargs
    match n with
    | none => .error .typeError
    | some 1 => .ok .I
    | some 2 => .ok .QU
    | some 3 => .ok .IQU
    | some 4 => .ok .IQUV
    | some _ => .error .typeError

/-- `from_iquv(i, q, u, v)`: the components the kind has, in order -/
def fromIQUV {α} (k : StokesKind) (i q u v : α) : List α :=
  match k with
  | .I => [i]
  | .QU => [q, u]
  | .IQU => [i, q, u]
  | .IQUV => [i, q, u, v]

/-- `furax.tree.dot` on real leaves: the sum of the leaf inner products -/
def dot {α} [Zero α] [Add α] [Mul α] (x y : List (List α)) : α :=
  (List.zipWith (fun a b => (List.zipWith (· * ·) a b).foldl (· + ·) 0) x y).foldl (· + ·) 0

end StokesArith
end Furax
