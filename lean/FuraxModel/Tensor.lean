/-
Row-major tensors and NumPy broadcasting.  Generic in the scalar type through core classes only.
-/
import FuraxModel.Basic
namespace Furax

structure Tensor (α : Type) where
  shape : List Nat
  data : List α
  deriving DecidableEq, Repr, Inhabited

namespace Tensor
variable {α : Type}

def size (t : Tensor α) : Nat := prodNat t.shape
def rank (t : Tensor α) : Nat := t.shape.length
def wellFormed (t : Tensor α) : Bool := t.data.length == prodNat t.shape
def scalar (a : α) : Tensor α := ⟨[], [a]⟩
def map {β} (f : α → β) (t : Tensor α) : Tensor β := ⟨t.shape, t.data.map f⟩
def full (shape : List Nat) (a : α) : Tensor α := ⟨shape, List.replicate (prodNat shape) a⟩
end Tensor

/-- row-major multi-index of a flat position -/
def unravel (shape : List Nat) (i : Nat) : List Nat :=
  (shape.foldr (fun d (acc : List Nat × Nat) => ((acc.2 % d) :: acc.1, acc.2 / d)) ([], i)).1

/-- flat position of a row-major multi-index -/
def ravelIdx (shape idx : List Nat) : Nat :=
  (shape.zip idx).foldl (fun acc (p : Nat × Nat) => acc * p.1 + p.2) 0

/-- NumPy `broadcast_shapes` of two shapes (right-aligned) -/
def broadcastShapes (a b : List Nat) : Option (List Nat) :=
  let n := max a.length b.length
  let a' := List.replicate (n - a.length) 1 ++ a
  let b' := List.replicate (n - b.length) 1 ++ b
  (a'.zip b').mapM fun (p : Nat × Nat) =>
    if p.1 == p.2 then some p.1 else if p.1 == 1 then some p.2 else if p.2 == 1 then some p.1 else none

/-- the multi-index into a tensor of shape `s` read by output multi-index `oi` under broadcasting -/
def bcastIndex (s : List Nat) (oi : List Nat) : List Nat :=
  let oi' := oi.drop (oi.length - s.length)
  (s.zip oi').map fun (p : Nat × Nat) => if p.1 == 1 then 0 else p.2

/-- `numpy.broadcast_to(t, shape)`, assuming compatibility -/
def Tensor.broadcastTo {α} [Inhabited α] (t : Tensor α) (shape : List Nat) : Tensor α :=
  ⟨shape, (List.range (prodNat shape)).map fun i =>
    t.data.getD (ravelIdx t.shape (bcastIndex t.shape (unravel shape i))) default⟩

/-- elementwise binary operation with NumPy broadcasting -/
def Tensor.zipBroadcast {α} [Inhabited α] (f : α → α → α) (a b : Tensor α) : Option (Tensor α) := do
  let shape ← broadcastShapes a.shape b.shape
  let a' := a.broadcastTo shape
  let b' := b.broadcastTo shape
  some ⟨shape, List.zipWith f a'.data b'.data⟩

end Furax
