/-
Level B: `SymmetricBandToeplitzOperator` (src/furax/operators/toeplitz.py), one batch row at a time.

Signals are index functions `Nat → α` together with their length; a band array `band` of length `K = h + 1`
(`h` = half band width).  Sums are `sumRange`, which FuraxProofs identifies with `Finset.sum` over
`Finset.range`.  The discrete Fourier transform is abstracted by what it computes exactly: a circular
convolution (`circ`), assumption A3 of DESIGN.md.
-/
namespace Furax
namespace Toeplitz
variable {α : Type} [Zero α] [Add α] [Mul α]

/-- `Σ_{k < n} f k` -/
def sumRange (n : Nat) (f : Nat → α) : α := (List.range n).foldl (fun acc k => acc + f k) 0

/-- `|i − j|` -/
def dist (i j : Nat) : Nat := if i ≤ j then j - i else i - j

/-- **the specification**: `(T x)[i] = Σ_j [|i−j| ≤ h] band[|i−j|] · x[j]` -/
def toep (h l : Nat) (band x : Nat → α) (i : Nat) : α :=
  sumRange l (fun j => (if dist i j ≤ h then band (dist i j) else 0) * x j)

/-- `_get_kernel`: `[b_h … b_1 b_0 b_1 … b_h]`, positions `0 … 2h` -/
def kernOf (h : Nat) (band : Nat → α) (k : Nat) : α := if k ≤ h then band (h - k) else band (k - h)

/-- circular convolution of a length-`F` block with the kernel zero-padded to `F`
(`ifft(fft(xb) * fft(kernel, F)).real`, A3) -/
def circ (F h : Nat) (kern xb : Nat → α) (t : Nat) : α :=
  sumRange F (fun k => (if k ≤ 2 * h then kern k else 0) * xb ((t + F - k) % F))

/-! ### `_apply_direct`: `convolve(pad(x, (h, h)), kernel, mode='valid')` -/

/-- `jnp.pad(x, (h, h))` -/
def padBoth (h l : Nat) (x : Nat → α) (v : Nat) : α := if h ≤ v ∧ v < h + l then x (v - h) else 0

def applyDirect (h l : Nat) (band x : Nat → α) (i : Nat) : α :=
  sumRange (2 * h + 1) (fun k => kernOf h band k * padBoth h l x (i + 2 * h - k))

/-! ### `_apply_fft`: one circular convolution of size `l + 2h` -/

/-- `jnp.pad(x, (0, 2h))` -/
def padRight (l : Nat) (x : Nat → α) (v : Nat) : α := if v < l then x v else 0

def applyFft (h l : Nat) (band x : Nat → α) (i : Nat) : α :=
  circ (l + 2 * h) h (kernOf h band) (padRight l x) (i + h)

/-! ### `_apply_overlap_save` -/

/-- `jnp.pad(x, (2h, total_length − 2h − l))` read at any position -/
def xpad (h l : Nat) (x : Nat → α) (v : Nat) : α := if 2 * h ≤ v ∧ v < 2 * h + l then x (v - 2 * h) else 0

/-- `int(np.ceil((l + overlap) / step_size))` -/
def nblock (F h l : Nat) : Nat := (l + 2 * h + (F - 2 * h) - 1) / (F - 2 * h)

/-- what the `fori_loop` leaves in `y[u]`: block `b = u / step` writes `y_block[2h : 2h + step]` at
`b·step`; positions of blocks that are never computed keep the initial zero -/
def ovsY (F h l : Nat) (kern x : Nat → α) (u : Nat) : α :=
  let step := F - 2 * h
  if u / step < nblock F h l then
    circ F h kern (fun j => xpad h l x (u / step * step + j)) (2 * h + u % step)
  else 0

/-- `y[h : h + l]` -/
def applyOverlapSave (F h l : Nat) (band x : Nat → α) (i : Nat) : α := ovsY F h l (kernOf h band) x (i + h)

/-! ### `dense_symmetric_band_toeplitz`: scatter into a flat `n²` array -/

/-- one `.at[indices].set(value)` of the loop over `j ∈ [−h, h]`: `jj = j + h ∈ [0, 2h]`.
Returns the new value at flat position `p` (out-of-range updates are dropped, `p < n²` always). -/
def denseStep (n h : Nat) (band : Nat → α) (jj : Nat) (old : Nat → α) (p : Nat) : α :=
  -- j = jj - h ;  m = n - j
  if h ≤ jj then
    -- j = jj - h ≥ 0 : indices = j + t·(n+1), t < n − j
    let j := jj - h
    if (List.range (n - j)).any (fun t => j + t * (n + 1) == p) then band j else old p
  else
    -- j = −(h − jj) < 0 : indices = n·|j| + t·(n+1), t < n + |j|
    let a := h - jj
    if (List.range (n + a)).any (fun t => n * a + t * (n + 1) == p) then band a else old p

/-- the flat array after all `2h + 1` updates, in the order of the Python loop -/
def denseFlat (n h : Nat) (band : Nat → α) : Nat → α :=
  (List.range (2 * h + 1)).foldl (fun acc jj => denseStep n h band jj acc) (fun _ => 0)

/-- `output.reshape(n, n)[r, c]` -/
def denseEntry (n h : Nat) (band : Nat → α) (r c : Nat) : α := denseFlat n h band (r * n + c)

/-- `_apply_dense`: `matrix @ x` -/
def applyDense (h l : Nat) (band x : Nat → α) (i : Nat) : α :=
  sumRange l (fun j => denseEntry l h band i j * x j)

end Toeplitz

/-! ### constructor -/

/-- `np.ceil(np.log2(n))` for `n ≥ 1` -/
def clog2 (n : Nat) : Nat := if n ≤ 1 then 0 else Nat.log2 (n - 1) + 1

/-- `_get_default_fft_size(band_number)` = `2 ** (1 + ceil(log2(band_number)))` -/
def defaultFftSize (bandNumber : Nat) : Nat := 2 ^ (1 + clog2 bandNumber)

inductive ToeplitzCtor where
  | ok (fft : Option Nat)
  | valueError
  deriving DecidableEq, Repr

/-- `SymmetricBandToeplitzOperator.__init__` validation; `K` = number of band values along the last axis -/
def toeplitzCtor (method : String) (K : Nat) (fft : Option Nat) : ToeplitzCtor :=
  if !(["dense", "direct", "fft", "overlap_save"].contains method) then .valueError
  else
    let bandNumber := 2 * K - 1
    -- `method.startswith('overlap_')`: among the legal methods only `overlap_save` does
    let overlap := method == "overlap_save"
    match fft with
    | some f =>
      if !overlap then .valueError
      else if f < bandNumber then .valueError
      else .ok (some f)
    | none => if overlap then .ok (some (defaultFftSize bandNumber)) else .ok none

end Furax
