/-
EXECUTABLE validity check: the hypotheses of the closed theorems, decided on encoded operators.

The closed theorems (FuraxProofs/Sem/ListModel.lean `reduce_sound_closed`, …) quantify over expressions `o : Op`
with `WTExpr (listArithSem E).invertible listLeafOK o`.  These predicates are `Prop`s of the proof files.  This
file gives their Boolean mirror, clause by clause, so that the compiled driver can DECIDE them on the operators the
Python harness really builds (`(valid OP)`, FuraxModel/Driver.lean):

* `leafClauses c p` — the named clauses of `listLeafOK c p` (one list of `(tag, Bool)` per leaf class; one function
  per class, so that adding a class is a local change);
* `leafOKb c p` — all of them hold; `leafReason c p` — the tag of the first one that fails;
* `validb o` — the structure of `WTExpr`: every leaf is `leafOKb`, every wrapper satisfies the structural part of
  `WrapOK`, every composition is a non-empty chain, every container is non-empty and satisfies `ContOK`;
* `invalidReason o` — the tag of the first failing clause (depth first, left to right);
* `lazyOperands o` — the operands of the lazy-inverse wrappers of `o` (`InverseOperator`,
  `QURotationTransposeOperator`, `DiagonalInverseOperator`): the objects whose semantic invertibility `WrapOK` asks
  and that this file does NOT decide (the promise "the operand of a lazy inverse is invertible").

The dense einsum leaves with one block array shared by their leaves are checked by `Einsum.denseCheck`
(FuraxModel/DenseCheck.lean).

Soundness and completeness: FuraxProofs/Sem/ValidDecide.lean.  Core Lean only (no Mathlib).
-/
import FuraxModel.Op
import FuraxModel.Index
import FuraxModel.IndexRule
import FuraxModel.Axes
import FuraxModel.Diagonal
import FuraxModel.Dual
import FuraxModel.DenseCheck
namespace Furax
namespace Valid
open Op

/-! ### generic helpers -/

/-- Boolean `List.Forall₂` -/
def forall2b {α β : Type} (r : α → β → Bool) : List α → List β → Bool
  | [], [] => true
  | a :: as, b :: bs => r a b && forall2b r as bs
  | _, _ => false

/-- a named clause -/
abbrev Clause := String × Bool

/-- all the clauses hold -/
def allb (cs : List Clause) : Bool := cs.all (·.2)

/-- the tag of the first clause that fails -/
def firstFail : List Clause → Option String
  | [] => none
  | (tag, b) :: rest => if b then firstFail rest else some tag

/-- `s` broadcasts to `S` (NumPy, right-aligned): Boolean mirror of `ListSem.Bc` -/
def bcb (s S : List Nat) : Bool :=
  decide (s.length ≤ S.length) &&
    (List.range s.length).all fun j => s.getD j 0 == 1 || s.getD j 0 == S.getD (j + (S.length - s.length)) 0

/-- no repeated element (`List.Nodup`, decided by pairwise comparison) -/
def nodupb : List Nat → Bool
  | [] => true
  | a :: as => !as.contains a && nodupb as

/-! ### Toeplitz -/

/-- the batch axes of the band array broadcast TO the leading axes of every leaf, which has rank ≥ 1 -/
def toeplitzLeafb (bs : List Nat) (l : LeafS) : Bool := l.shape != [] && bcb bs l.shape.dropLast

/-- `listLeafOK .toeplitz`: `toepK p.vals ≠ none → toeplitzOK p` (a rank-0 band array is not constrained) -/
def toeplitzClauses (p : Params) : List Clause :=
  match p.vals.shape.getLast? with
  | none => []
  | some K =>
    [("toeplitz:no-band", decide (1 ≤ K)),
     ("toeplitz:band-values-length", p.vals.data.length == prodNat p.vals.shape.dropLast * K),
     ("toeplitz:leaf-rank-0", p.inS.leaves.all fun l => l.shape != []),
     ("toeplitz:band-batch", p.inS.leaves.all (toeplitzLeafb p.vals.shape.dropLast))]

/-! ### move-axis, ravel, reshape -/

def moveAxisLeafb (src dst : List Int) (li lo : LeafS) : Bool :=
  match Axes.moveaxisOrder li.shape.length src dst with
  | .ok order => lo.shape == Axes.transposeShape li.shape order && lo.dtype == li.dtype
  | .error _ => false

def moveAxisClauses (p : Params) : List Clause :=
  [("moveaxis:treedef", p.outS.td == p.inS.td),
   ("moveaxis:leaves", forall2b (moveAxisLeafb (p.ints.getD 0 []) (p.ints.getD 1 [])) p.inS.leaves p.outS.leaves)]

def reshapeClauses (p : Params) : List Clause :=
  [("reshape:treedef", p.outS.td == p.inS.td),
   ("reshape:leaf-sizes", forall2b (fun li lo => lo.size == li.size) p.inS.leaves p.outS.leaves)]

/-! ### index, pack -/

/-- why one leaf of an index operator is refused (`none`: accepted): Boolean mirror of `indexLeafOK` -/
def indexLeafReason (idx : List IdxEntry) (uniq : Bool) (li lo : LeafS) : Option String :=
  match Index.indexPositions li.shape idx with
  | .error _ => some "indexing-fails"
  | .ok (sh, pos) =>
    if sh != lo.shape then some "out-shape"
    else if !pos.all (fun q => decide (q < li.size)) then some "position-out-of-bounds"
    else if uniq && !nodupb pos then some "unique-indices-promise-broken"
    else if lo.dtype != li.dtype then some "out-dtype"
    else none

def indexLeafb (idx : List IdxEntry) (uniq : Bool) (li lo : LeafS) : Bool := (indexLeafReason idx uniq li lo).isNone

/-- the tag of the first refused leaf -/
def indexLeavesReason (idx : List IdxEntry) (uniq : Bool) : List LeafS → List LeafS → Option String
  | [], [] => none
  | li :: ins, lo :: outs =>
    match indexLeafReason idx uniq li lo with
    | some r => some r
    | none => indexLeavesReason idx uniq ins outs
  | _, _ => some "leaf-count"

/-- every integer array of the index tuple has as many values as its shape says -/
def idxWellFormedb (idx : List IdxEntry) : Bool :=
  idx.all fun e => match e with
    | .iarr sh vals => vals.length == prodNat sh
    | _ => true

/-- the values of an integer array sitting on an indexed axis are valid Python indices into that axis of every
input leaf -/
def idxInBoundsb (idx : List IdxEntry) (leaves : List LeafS) : Bool :=
  (indexedAxes idx).all fun axis =>
    match pyGet? idx axis with
    | some (.iarr _ vals) =>
      leaves.all fun l =>
        match pyGet? l.shape axis with
        | some n => vals.all fun i => decide (-(n : Int) ≤ i) && decide (i < (n : Int))
        | none => true
    | _ => true

/-- `listLeafOK .index = indexOK ∧ indexArraysOK` -/
def indexClauses (p : Params) : List Clause :=
  [("index:treedef", p.outS.td == p.inS.td),
   ("index:leaf-count", p.inS.leaves.length == p.outS.leaves.length),
   ("index:" ++ (indexLeavesReason p.idx p.flag p.inS.leaves p.outS.leaves).getD "",
      forall2b (indexLeafb p.idx p.flag) p.inS.leaves p.outS.leaves),
   ("index:array-values-length", idxWellFormedb p.idx),
   ("index:out-of-bounds", idxInBoundsb p.idx p.inS.leaves)]

/-- `listLeafOK .pack = packOK` (a boolean mask never selects a position twice: checked) -/
def packClauses (p : Params) : List Clause :=
  [("pack:treedef", p.outS.td == p.inS.td),
   ("pack:leaf-count", p.inS.leaves.length == p.outS.leaves.length),
   ("pack:" ++ (indexLeavesReason p.idx true p.inS.leaves p.outS.leaves).getD "",
      forall2b (indexLeafb p.idx true) p.inS.leaves p.outS.leaves)]

/-! ### polarimetry -/

/-- the common shape of the Stokes components (`ListSem.leafShape`) -/
def leafShape (p : Params) : List Nat := (p.inS.leaves.headD default).shape

/-- `listLeafOK c = stokesOK c` for `c ∈ {qurot, hwp, polarizer}` -/
def stokesClauses (c : LeafCls) (p : Params) : List Clause :=
  [("stokes:not-a-stokes-pytree", decide (1 ≤ p.inS.leaves.length) && decide (p.inS.leaves.length ≤ 4)),
   ("stokes:leaf-shapes-differ", p.inS.leaves.all fun l => l.shape == leafShape p),
   ("stokes:angles-ill-formed", c != .qurot || p.vals.wellFormed),
   ("stokes:angles-do-not-broadcast-into-leaf", c != .qurot || bcb p.vals.shape (leafShape p)),
   ("stokes:polarizer-output", c != .polarizer ||
      match p.outS.leaves with
      | [l] => l.shape == leafShape p
      | _ => false)]

/-! ### diagonal -/

/-- the shape part of `Diagonal.reshapeDiagonal` -/
def reshapeDiagonalShape (vshape : List Nat) (axes : List Int) (ndim : Nat) : Except PyErr (List Nat) :=
  let left := Diagonal.leftDims axes
  let right := Diagonal.rightDims axes ndim
  let extra : Int := (left : Int) + right + ndim - vshape.length
  let padded := vshape ++ List.replicate extra.toNat 1
  let axes' := axes.map (· + (left : Int))
  match Axes.moveaxisOrder padded.length ((List.range axes.length).map fun (k : Nat) => Int.ofNat k) axes' with
  | .ok order => .ok (Axes.transposeShape padded order)
  | .error e => .error e

/-- the shape part of `Diagonal.apply`: success / failure and the shape of the result depend on the shapes only -/
def applyShape (strict : Bool) (vshape : List Nat) (spec : Diagonal.AxisSpec) (xshape : List Nat) :
    Except PyErr (List Nat) :=
  if vshape.length == 0 then .error .valueError
  else
    match Diagonal.normalizeAxes (Diagonal.normalizeSpec vshape.length spec) xshape.length with
    | .error e => .error e
    | .ok axes =>
      match reshapeDiagonalShape vshape axes xshape.length with
      | .error e => .error e
      | .ok d =>
        match broadcastShapes d (xshape ++ List.replicate (Diagonal.rightDims axes xshape.length) 1) with
        | none => .error .valueError
        | some y => if strict && y != xshape then .error .valueError else .ok y

def diagonalLeafb (p : Params) (l : LeafS) : Bool :=
  match applyShape true p.vals.shape (.seq (p.ints.getD 0 [])) l.shape with
  | .ok _ => true
  | .error _ => false

/-- `listLeafOK .diagonal = diagonalOK`: the strict broadcasting product succeeds on every leaf -/
def diagonalClauses (p : Params) : List Clause :=
  [("diagonal:product-does-not-keep-leaf-shape", p.inS.leaves.all (diagonalLeafb p))]

/-! ### dense einsum blocks -/

/-- `listLeafOK .dense p = (denseShared p → denseOK p)`: a dense leaf with one block array PER leaf is interpreted by
the environment and not constrained; one with ONE block array shared by its leaves (`Einsum.denseSharedb`) is
interpreted by the einsum kernel and must pass `Einsum.denseCheck` (FuraxModel/DenseCheck.lean); the tag names the first
condition that fails (`Einsum.denseReason`) -/
def denseClauses (p : Params) : List Clause :=
  [("dense:" ++ (Einsum.denseReason p).getD "", !Einsum.denseSharedb p || Einsum.denseCheck p)]

/-! ### all the leaf classes -/

/-- the named clauses of `listLeafOK c p`, class by class -/
def leafClauses : LeafCls → Params → List Clause
  | .toeplitz, p => toeplitzClauses p
  | .moveAxis, p => moveAxisClauses p
  | .ravel, p => reshapeClauses p
  | .reshape, p => reshapeClauses p
  | .index, p => indexClauses p
  | .pack, p => packClauses p
  | .qurot, p => stokesClauses .qurot p
  | .hwp, p => stokesClauses .hwp p
  | .polarizer, p => stokesClauses .polarizer p
  | .diagonal, p => diagonalClauses p
  | .dense, p => denseClauses p
  | _, _ => []

/-- Boolean mirror of `listLeafOK` -/
def leafOKb (c : LeafCls) (p : Params) : Bool := allb (leafClauses c p)

/-- the tag of the first failing clause of `listLeafOK c p` -/
def leafReason (c : LeafCls) (p : Params) : Option String := firstFail (leafClauses c p)

/-! ### wrappers, compositions, containers -/

def isLazyb : WrapCls → Bool
  | .inverse | .qurotT | .diagInv => true
  | _ => false

/-- the structural part of `WrapOK` (everything but the invertibility of the operand of a lazy inverse) -/
def wrapClauses (k : WrapCls) (o : Op) : List Clause :=
  [("wrap:lazy-inverse-of-non-square", !isLazyb k || decide (Op.inS o = Op.outS o)),
   ("wrap:qurotT-of-non-rotation", k != .qurotT || o.isQURot),
   ("wrap:reshapeT-of-non-reshape", k != .reshapeT || o.isRavelOrReshape),
   ("wrap:obsT-of-non-observation-matrix", k != .obsT || o.isLeafCls .obsMatrix)]

/-- adjacent structures of a chain match (`Chain`) -/
def chainb : List Op → Bool
  | [] => true
  | [_] => true
  | a :: b :: rest => decide (Op.inS a = Op.outS b) && chainb (b :: rest)

/-- `ContOK` -/
def contClauses (k : ContCls) (td : TreeDef) (ops : List Op) : List Clause :=
  [("cont:treedef-leaf-count", td.numLeaves == ops.length),
   match k with
   | .add => ("add:operand-structures-differ",
       ops.all fun o => decide (Op.inS o = inSHead ops) && decide (Op.outS o = outSHead ops))
   | .blockRow => ("blockRow:output-structures-differ", ops.all fun o => decide (Op.outS o = outSHead ops))
   | .blockCol => ("blockCol:input-structures-differ", ops.all fun o => decide (Op.inS o = inSHead ops))
   | .blockDiag => ("blockDiag", true)]

mutual
/-- Boolean mirror of `WTExpr inv leafOK` for a decidable leaf validity `leafb`, without the invertibility of the
operands of the lazy inverses (`lazyOperands`) -/
def validWith (leafb : LeafCls → Params → Bool) : Op → Bool
  | .leaf _ c p => leafb c p
  | .wrap _ k o => validWith leafb o && allb (wrapClauses k o)
  | .comp _ ops => !ops.isEmpty && validWithList leafb ops && chainb ops
  | .cont _ k td ops => !ops.isEmpty && validWithList leafb ops && allb (contClauses k td ops)
def validWithList (leafb : LeafCls → Params → Bool) : List Op → Bool
  | [] => true
  | o :: os => validWith leafb o && validWithList leafb os
end

mutual
/-- the tag of the first failing clause (operands first, left to right), for a leaf diagnostic `leafR` -/
def invalidReasonWith (leafR : LeafCls → Params → Option String) : Op → Option String
  | .leaf _ c p => leafR c p
  | .wrap _ k o =>
    match invalidReasonWith leafR o with
    | some r => some r
    | none => firstFail (wrapClauses k o)
  | .comp _ ops =>
    if ops.isEmpty then some "comp:empty"
    else match invalidReasonWithList leafR ops with
      | some r => some r
      | none => if chainb ops then none else some "comp:adjacent-structures-differ"
  | .cont _ k td ops =>
    if ops.isEmpty then some "cont:empty"
    else match invalidReasonWithList leafR ops with
      | some r => some r
      | none => firstFail (contClauses k td ops)
def invalidReasonWithList (leafR : LeafCls → Params → Option String) : List Op → Option String
  | [] => none
  | o :: os =>
    match invalidReasonWith leafR o with
    | some r => some r
    | none => invalidReasonWithList leafR os
end

/-- **Boolean mirror of `WTExpr inv listLeafOK`** (the hypothesis of `reduce_sound_closed`) without the
invertibility of the operands of the lazy inverses (`lazyOperands`) -/
def validb (o : Op) : Bool := validWith leafOKb o

/-- the tag of the first failing clause of `validb` -/
def invalidReason (o : Op) : Option String := invalidReasonWith leafReason o

/-! ### the hypotheses of the adjointness theorem (`transpose_is_adjoint_closed`: `ValidT o ∧ o.WFT`) -/

/-- `adjLeafOK = listLeafOK ∧ class ≠ BroadcastDiagonalOperator` -/
def adjLeafClauses (c : LeafCls) (p : Params) : List Clause :=
  leafClauses c p ++ [("adjoint:broadcast-diagonal-leaf-excluded", c != .broadcastDiagonal)]

def adjLeafOKb (c : LeafCls) (p : Params) : Bool := allb (adjLeafClauses c p)
def adjLeafReason (c : LeafCls) (p : Params) : Option String := firstFail (adjLeafClauses c p)

/-- `o = .leaf u .diagonal p` for some `u`, `p` -/
def isDiagonalLeaf : Op → Bool
  | .leaf _ .diagonal _ => true
  | _ => false

mutual
/-- `TFormOK`: every dense leaf has ONE block array shared by its leaves (`Einsum.denseSharedb`: the case the
denotation interprets by the einsum kernel) and every `DiagonalInverseOperator` wraps a diagonal leaf, at the
positions `transposeOp` visits -/
def tformb : Op → Bool
  | .leaf _ c p => c != .dense || Einsum.denseSharedb p
  | .wrap _ k o => k != .diagInv || isDiagonalLeaf o
  | .comp _ ops => tformListb ops
  | .cont _ _ _ ops => tformListb ops
def tformListb : List Op → Bool
  | [] => true
  | o :: os => tformb o && tformListb os
end

mutual
/-- `Op.WFT`: a leaf of a class whose `transpose` is `lambda self: self` is square -/
def wftb : Op → Bool
  | .leaf _ c p => !isSymmetricLeaf c || decide (p.inS = p.outS)
  | .wrap _ _ _ => true
  | .comp _ ops => wftListb ops
  | .cont _ _ _ ops => wftListb ops
def wftListb : List Op → Bool
  | [] => true
  | o :: os => wftb o && wftListb os
end

/-- **Boolean mirror of `ValidT o ∧ o.WFT`** (the hypotheses of `transpose_is_adjoint_closed`; no invertibility is
asked there) -/
def validTb (o : Op) : Bool := validWith adjLeafOKb o && tformb o && wftb o

def invalidReasonT (o : Op) : Option String :=
  match invalidReasonWith adjLeafReason o with
  | some r => some r
  | none =>
    if !tformb o then some "adjoint:dense-leaf-with-per-leaf-blocks-or-diagInv-of-non-diagonal"
    else if !wftb o then some "adjoint:symmetric-leaf-not-square"
    else none

mutual
/-- the operands of the lazy-inverse wrappers of an expression: what `WrapOK` asks to be invertible -/
def lazyOperands : Op → List Op
  | .leaf _ _ _ => []
  | .wrap _ k o => (if isLazyb k then [o] else []) ++ lazyOperands o
  | .comp _ ops => lazyOperandsList ops
  | .cont _ _ _ ops => lazyOperandsList ops
def lazyOperandsList : List Op → List Op
  | [] => []
  | o :: os => lazyOperands o ++ lazyOperandsList os
end

/-- an operand of a lazy inverse whose invertibility IS decided: a `QURotationOperator` (its transpose is its
inverse when its parameters are valid: `ListSem.qurot_invertibleG`), or a `DiagonalOperator` whose array of values
is well formed and has no zero entry (`ListSem.diagonal_inverts`) -/
def invDecidedb : Op → Bool
  | .leaf _ .qurot _ => true
  | .leaf _ .diagonal p => p.vals.wellFormed && p.vals.data.all (· != 0)
  | _ => false

/-- the operands of the lazy inverses whose invertibility is left as a promise -/
def promises (o : Op) : List Op := (lazyOperands o).filter (fun a => !invDecidedb a)

/-- no promise is left to the reader -/
def noPromiseb (o : Op) : Bool := (lazyOperands o).all invDecidedb

mutual
/-- the classes of the lazy-inverse wrappers of an expression, with the class of leaf (if any) they wrap:
diagnostic output of the driver (`(valid-promises OP)`) -/
def lazyKinds : Op → List (WrapCls × Option LeafCls × Bool)
  | .leaf _ _ _ => []
  | .wrap _ k o =>
    (if isLazyb k then [(k, (match o with | .leaf _ c _ => some c | _ => none), invDecidedb o)] else []) ++ lazyKinds o
  | .comp _ ops => lazyKindsList ops
  | .cont _ _ _ ops => lazyKindsList ops
def lazyKindsList : List Op → List (WrapCls × Option LeafCls × Bool)
  | [] => []
  | o :: os => lazyKinds o ++ lazyKindsList os
end

end Valid
end Furax
