import FuraxProofs.Lemmas.Scan
import FuraxProofs.Lemmas.OpEq
import FuraxProofs.Lemmas.Nary
import FuraxProofs.Props.C01
import FuraxProofs.Props.C07
import FuraxProofs.Lemmas.ArithSound
import FuraxProofs.Lemmas.Tables
import FuraxProofs.Props.C02
