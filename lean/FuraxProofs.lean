import FuraxProofs.Lemmas.Scan
import FuraxProofs.Lemmas.Nary
import FuraxProofs.Props.C01
