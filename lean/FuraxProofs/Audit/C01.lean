import FuraxProofs.Props.C01
#print axioms Furax.C01.registry_pinned
#print axioms Furax.C01.registry_names
#print axioms Furax.C01.rule_methods_pinned
#print axioms Furax.C01.scan_sound_every_chain
#print axioms Furax.C01.algebraicReduction_sound
#print axioms Furax.C01.homothetyRule_sound
#print axioms Furax.C01.identityRule_sound
#print axioms Furax.C01.framework_inhabited
#print axioms Furax.C01.reduce_sound
#print axioms Furax.C01.reduceTop_sound
#print axioms Furax.C01.every_rule_sound
#print axioms Furax.C01.unrelativised_rule_soundness_is_false
#print axioms Furax.C01.reduce_sound_hypotheses_consistent
#print axioms Furax.C01.scan_sound_on_every_chain
#print axioms Furax.C01.structural_rule_soundness_needs_invertibility
#print axioms Furax.C01.wellformed_is_structOK
