import FuraxProofs.Props.C02
#print axioms Furax.C02.dunders_pinned
#print axioms Furax.C02.hierarchy_pinned
#print axioms Furax.C02.matmul_den
#print axioms Furax.C02.add_den
#print axioms Furax.C02.rmul_den
#print axioms Furax.C02.truediv_den
#print axioms Furax.C02.neg_den_partial
#print axioms Furax.C02.pos_den
#print axioms Furax.C02.matmul_operands
#print axioms Furax.C02.matmul_rejects
#print axioms Furax.C02.add_sub_reject
#print axioms Furax.C02.framework_inhabited
#print axioms Furax.C02.matmul_den_closed
#print axioms Furax.C02.add_den_closed
#print axioms Furax.C02.rmul_den_closed
#print axioms Furax.C02.truediv_den_closed
