import FuraxProofs.Props.C03
import FuraxProofs.Props.ValidClosed
#print axioms Furax.C03.transpose_resolution_pinned
#print axioms Furax.C03.structures_swapped
#print axioms Furax.C03.double_transpose_wrapper
#print axioms Furax.C03.double_transpose_leaf
#print axioms Furax.C03.symmetric_returns_self
#print axioms Furax.C03.transpose_is_adjoint
#print axioms Furax.C03.framework_inhabited
#print axioms Furax.C03.qurotation_adjoint
#print axioms Furax.C03.index_adjoint
#print axioms Furax.C03.einsum_adjoint
#print axioms Furax.C03.moveaxis_transpose_inverse
#print axioms Furax.C03.toeplitz_self_adjoint
#print axioms Furax.C03.block_row_adjoint
#print axioms Furax.C03.transpose_structOK
#print axioms Furax.C03.transpose_is_adjoint_closed
#print axioms Furax.C03.den_adjoint_closed
#print axioms Furax.C03.transposeOp_denotes_adjoint
#print axioms Furax.C03.env_adjoint_inhabited
#print axioms Furax.C03.transpose_is_adjoint_closed_noEnv
#print axioms Furax.Valid.validTb_iff
#print axioms Furax.Valid.transpose_is_adjoint_closed
#print axioms Furax.Valid.Examples.exDense_validTb
#print axioms Furax.Valid.Examples.exDense_adjoint
