import FuraxProofs.Props.C04
import FuraxProofs.Props.C04Closed
#print axioms Furax.C04.as_matrix_resolution_pinned
#print axioms Furax.C04.generic_as_matrix_columns
#print axioms Furax.C04.mv_eq_as_matrix_mulVec
#print axioms Furax.C04.as_matrix_faithful
#print axioms Furax.C04.identity_override
#print axioms Furax.C04.homothety_override
#print axioms Furax.C04.addition_override
#print axioms Furax.C04.composition_matrix
#print axioms Furax.C04.diagonal_override
#print axioms Furax.C04.diagonal_acts_entrywise
#print axioms Furax.C04.reshape_override
#print axioms Furax.C04.inverse_override
#print axioms Furax.C04.chain_homogeneous
#print axioms Furax.C04.application_additive
#print axioms Furax.C04.application_is_dense_matrix
#print axioms Furax.C04.dense_matrix_faithful
#print axioms Furax.C04.dense_matrix_of_composition
#print axioms Furax.C04.dense_matrix_of_sum
#print axioms Furax.C04.dense_matrix_of_lazy_inverse
