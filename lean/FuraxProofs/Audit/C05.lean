import FuraxProofs.Props.C05
#print axioms Furax.C05.out_structure_resolution_pinned
#print axioms Furax.C05.composition_structures
#print axioms Furax.C05.container_structures
#print axioms Furax.C05.dual_structures
#print axioms Furax.C05.nest_size
#print axioms Furax.C05.matmul_structures
#print axioms Furax.C05.reduction_keeps_structures
#print axioms Furax.C05.kernel_shapes_honest
#print axioms Furax.C05.promoted_dtype_is_join
#print axioms Furax.C05.narrower_parameter_keeps_dtype
#print axioms Furax.C05.reduce_keeps_structures
#print axioms Furax.C05.reduce_keeps_structures_closed
#print axioms Furax.C05.declared_sizes_honest
