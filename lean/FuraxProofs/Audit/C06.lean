import FuraxProofs.Props.C06
#print axioms Furax.C06.inverse_resolution_pinned
#print axioms Furax.C06.refuses_nonsquare
#print axioms Furax.C06.inverse_of_lazy_inverse
#print axioms Furax.C06.inverse_inverse_diagonal
#print axioms Furax.C06.inverse_inverse_qurot
#print axioms Furax.C06.inverse_identity
#print axioms Furax.C06.homothety_inverse
#print axioms Furax.C06.blockdiag_inverse_blockwise
#print axioms Furax.C06.blockdiag_nonsquare_block_lazy
#print axioms Furax.C06.rotation_inverse_is_transpose
#print axioms Furax.C06.moveaxis_inverse
#print axioms Furax.C06.diagonal_pseudo_inverse
#print axioms Furax.C06.closed_form_inverse_inverts
#print axioms Furax.C06.singular_diagonal_pseudo_inverse
#print axioms Furax.C06.no_closed_form_is_lazy
#print axioms Furax.C06.lazy_inverse_inverts
