import FuraxProofs.Props.C07
#print axioms Furax.C07.normal_form
#print axioms Furax.C07.scan_normal_form
#print axioms Furax.C07.at_most_one_scalar
#print axioms Furax.C07.no_identity_left
#print axioms Furax.C07.polarizer_hwp_fires
#print axioms Furax.C07.rotation_hwp_fires
#print axioms Furax.C07.moveaxis_pair_fires
#print axioms Furax.C07.inverse_pair_fires_left
#print axioms Furax.C07.polarizer_hwp_never_survives
#print axioms Furax.C07.inverse_pair_never_survives
