import FuraxProofs.Props.C08
#print axioms Furax.C08.tags_truthful
#print axioms Furax.C08.symmetric_wiring
#print axioms Furax.C08.orthogonal_wiring
#print axioms Furax.C08.square_wiring
#print axioms Furax.C08.hwp_is_diagonal
#print axioms Furax.C08.scalar_is_diagonal
#print axioms Furax.C08.toeplitz_is_symmetric
#print axioms Furax.C08.qurotation_is_orthogonal
#print axioms Furax.C08.qurotation_transpose_is_adjoint
