import FuraxProofs.Props.C09
import FuraxProofs.Props.C09Closed
import FuraxProofs.Sem.LinearList
#print axioms Furax.C09.methods_pinned
#print axioms Furax.C09.direct_correct
#print axioms Furax.C09.fft_correct
#print axioms Furax.C09.overlapSave_correct
#print axioms Furax.C09.methods_agree
#print axioms Furax.C09.blocks_cover
#print axioms Furax.C09.toeplitz_symmetric
#print axioms Furax.C09.two_pow_clog2
#print axioms Furax.C09.defaultFft_admissible
#print axioms Furax.C09.ctor_fft_admissible
#print axioms Furax.C09.ctor_rejects_small_fft
#print axioms Furax.C09.ctor_rejects_examples
#print axioms Furax.C09.dense_entry_correct
#print axioms Furax.C09.dense_correct
#print axioms Furax.C09.dense_symmetric
#print axioms Furax.C09.denotation_is_banded_product
#print axioms Furax.C09.denotation_ignores_method
#print axioms Furax.C09.all_methods_compute_denotation
#print axioms Furax.C09.accepted_configuration_computes_denotation
#print axioms Furax.C09.valid_leaf_facts
#print axioms Furax.C09.denotation_self_adjoint
#print axioms Furax.C09.transpose_denotes_self
#print axioms Furax.C09.band_row_is_broadcast
#print axioms Furax.C09.band_row_one_per_row
#print axioms Furax.C09.band_row_shared
#print axioms Furax.C09.band_row_unbatched
#print axioms Furax.C09.denotation_is_banded_product_unbatched
#print axioms Furax.C09.all_methods_compute_denotation_unbatched
#print axioms Furax.C09.accepted_configuration_computes_denotation_unbatched
#print axioms Furax.C09.valid_leaf_facts_unbatched
#print axioms Furax.C09.unbatched_valid_iff
