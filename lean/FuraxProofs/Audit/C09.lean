import FuraxProofs.Props.C09
#print axioms Furax.C09.methods_pinned
#print axioms Furax.C09.direct_correct
#print axioms Furax.C09.fft_correct
#print axioms Furax.C09.overlapSave_correct
#print axioms Furax.C09.methods_agree
#print axioms Furax.C09.blocks_cover
#print axioms Furax.C09.toeplitz_symmetric
#print axioms Furax.C09.two_pow_clog2
#print axioms Furax.C09.defaultFft_admissible
#print axioms Furax.C09.ctor_fft_admissible
#print axioms Furax.C09.ctor_rejects_small_fft
#print axioms Furax.C09.ctor_rejects_examples
#print axioms Furax.C09.dense_entry_correct
#print axioms Furax.C09.dense_correct
#print axioms Furax.C09.dense_symmetric
