import FuraxProofs.Props.C10
import FuraxProofs.Props.C10Closed
#print axioms Furax.C10.diag_diag_rule
#print axioms Furax.C10.diag_col_rule
#print axioms Furax.C10.row_diag_rule
#print axioms Furax.C10.row_col_rule
#print axioms Furax.C10.single_block
#print axioms Furax.C10.row_transpose_is_column
#print axioms Furax.C10.column_transpose_is_row
#print axioms Furax.C10.diagonal_transpose_is_diagonal
#print axioms Furax.C10.transpose_form
#print axioms Furax.C10.ctor_refuses_mismatch
#print axioms Furax.C10.rule_needs_same_layout
#print axioms Furax.C10.block_diagonal_matrix
#print axioms Furax.C10.block_diagonal_matrix_in_band
#print axioms Furax.C10.block_diagonal_matrix_off_band
#print axioms Furax.C10.block_row_matrix
#print axioms Furax.C10.block_column_matrix
#print axioms Furax.C10.block_diagonal_acts_as_its_matrix
#print axioms Furax.C10.block_row_transpose_matrix
