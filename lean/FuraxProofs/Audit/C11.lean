import FuraxProofs.Props.C11
#print axioms Furax.C11.multiplies_along_axes
#print axioms Furax.C11.broadcasts_unit_dimensions
#print axioms Furax.C11.scalar_axis_forms
#print axioms Furax.C11.strict_keeps_shape
#print axioms Furax.C11.rejects_scalar_values
#print axioms Furax.C11.rejects_duplicate_axes
#print axioms Furax.C11.only_value_errors
#print axioms Furax.C11.pinv_moore_penrose
#print axioms Furax.C11.pinv_of_zero_is_zero
