import FuraxProofs.Props.C11
import FuraxProofs.Props.C11Closed
#print axioms Furax.C11.multiplies_along_axes
#print axioms Furax.C11.broadcasts_unit_dimensions
#print axioms Furax.C11.scalar_axis_forms
#print axioms Furax.C11.strict_keeps_shape
#print axioms Furax.C11.rejects_scalar_values
#print axioms Furax.C11.rejects_duplicate_axes
#print axioms Furax.C11.only_value_errors
#print axioms Furax.C11.pinv_moore_penrose
#print axioms Furax.C11.pinv_of_zero_is_zero
#print axioms Furax.C11.diagonal_leaf_facts
#print axioms Furax.C11.diagonal_entry_closed
#print axioms Furax.C11.diagonal_structure_closed
#print axioms Furax.C11.diagonal_one_vector
#print axioms Furax.C11.diagInv_closed
#print axioms Furax.C11.diagInv_entry_closed
#print axioms Furax.C11.diagInv_values
#print axioms Furax.C11.moore_penrose_closed
#print axioms Furax.C11.diagInv_inverse_closed
#print axioms Furax.C11.broadcastDiagonal_entry_closed
#print axioms Furax.C11.ClosedExamples.haxes_needed
