import FuraxProofs.Props.C12
#print axioms Furax.C12.transpose_is_scatter_add
#print axioms Furax.C12.ppT_identity_of_nodup
#print axioms Furax.C12.ppT_not_identity_with_duplicates
#print axioms Furax.C12.pTp_is_multiplicity_diagonal
#print axioms Furax.C12.rule_computes_multiplicities
#print axioms Furax.C12.unnormalised_rule_counterexample
#print axioms Furax.C12.unique_flag_forced
#print axioms Furax.C12.unique_flag_default
#print axioms Furax.C12.ctor_accepts_without_output_structure
