import FuraxProofs.Props.C13
#print axioms Furax.C13.ravel_preserves_size
#print axioms Furax.C13.ravel_same_axis
#print axioms Furax.C13.ravel_rejects_first_after_last
#print axioms Furax.C13.ravel_mixed_rejects_iff
#print axioms Furax.C13.reshape_preserves_size
#print axioms Furax.C13.reshape_rejects_bad_entries
#print axioms Furax.C13.reshape_literal
#print axioms Furax.C13.moveaxis_is_permutation
#print axioms Furax.C13.moveaxis_destinations
#print axioms Furax.C13.moveaxis_rest_in_order
#print axioms Furax.C13.moveaxis_transpose_is_inverse
#print axioms Furax.C13.moveaxis_accepts_only_valid_axes
