import FuraxProofs.Props.C13
#print axioms Furax.C13.ravel_preserves_size
#print axioms Furax.C13.ravel_same_axis
#print axioms Furax.C13.ravel_rejects_first_after_last
#print axioms Furax.C13.ravel_mixed_rejects_iff
#print axioms Furax.C13.reshape_preserves_size
#print axioms Furax.C13.reshape_rejects_bad_entries
#print axioms Furax.C13.reshape_literal
