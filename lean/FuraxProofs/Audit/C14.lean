import FuraxProofs.Props.C14
#print axioms Furax.C14.rewriting_shape
#print axioms Furax.C14.transposed_is_adjoint
#print axioms Furax.C14.rejected_iff
#print axioms Furax.C14.rejects_without_single_contracted_axis
#print axioms Furax.C14.rejects_without_single_free_axis
