import FuraxProofs.Props.C14
import FuraxProofs.Props.C14Eval
#print axioms Furax.C14.rewriting_shape
#print axioms Furax.C14.transposed_is_adjoint
#print axioms Furax.C14.rejected_iff
#print axioms Furax.C14.rejects_without_single_contracted_axis
#print axioms Furax.C14.rejects_without_single_free_axis
#print axioms Furax.C14.einsum2_eq_terms
#print axioms Furax.C14.transposedSubscripts_ok
#print axioms Furax.C14.einsum2_pairing
#print axioms Furax.C14.terms_adjoint
#print axioms Furax.C14.einsum2_adjoint
#print axioms Furax.C14.einsum2_add
#print axioms Furax.C14.einsum2_smul
#print axioms Furax.Einsum.einsumCore_pairing
#print axioms Furax.Einsum.einsumCore_map
#print axioms Furax.Einsum.einsumTerms_adjoint
#print axioms Furax.C14.terms_adjoint_ellipsis
#print axioms Furax.C14.einsum2_adjoint_ellipsis
#print axioms Furax.Einsum.einsumCore_adjoint
#print axioms Furax.Einsum.einsumCore_entry
#print axioms Furax.Einsum.einsumTerms_entry
#print axioms Furax.C14.einsum2_entry
#print axioms Furax.C14.outShape_spec
#print axioms Furax.C14.einsum2_error
