import FuraxProofs.Props.C16
#print axioms Furax.C16.rotation_is_ZYZ
#print axioms Furax.C16.rotated_x_axis_is_unit
#print axioms Furax.C16.projection_spec
#print axioms Furax.C16.acquisition_spec
#print axioms Furax.C16.acquisition_reduced
#print axioms Furax.C16.acquisition_real
#print axioms Furax.C16.ptp_is_hit_count_diagonal
#print axioms Furax.C16.rotations_cancel_in_ptp
