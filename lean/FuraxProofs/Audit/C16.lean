import FuraxProofs.Props.C16
import FuraxProofs.Props.C16Closed
#print axioms Furax.C16.rotation_is_ZYZ
#print axioms Furax.C16.rotated_x_axis_is_unit
#print axioms Furax.C16.projection_spec
#print axioms Furax.C16.acquisition_spec
#print axioms Furax.C16.acquisition_reduced
#print axioms Furax.C16.acquisition_real
#print axioms Furax.C16.ptp_is_hit_count_diagonal
#print axioms Furax.C16.rotations_cancel_in_ptp
#print axioms Furax.C16.projection_closed
#print axioms Furax.C16.acquisition_closed_IQU
#print axioms Furax.C16.acquisition_reduced_closed
#print axioms Furax.C16.ptp_closed
