import FuraxProofs.Props.C17
#print axioms Furax.C17.rounds_to_nearest
#print axioms Furax.C17.rounds_integers_to_themselves
#print axioms Furax.C17.index_inside
#print axioms Furax.C17.index_outside
#print axioms Furax.C17.index_in_bounds
#print axioms Furax.C17.index_injective
#print axioms Furax.C17.index_surjective
#print axioms Furax.C17.dtype_wide_enough
#print axioms Furax.C17.coverage_is_histogram
#print axioms Furax.C17.coverage_sums_to_samples
