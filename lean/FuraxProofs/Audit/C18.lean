import FuraxProofs.Props.C18
#print axioms Furax.C18.landscape_roundtrip
#print axioms Furax.C18.module_fields_partition
#print axioms Furax.C18.roundtrip_of_keys_ok
#print axioms Furax.C18.roundtrip_fails_on_unexpected_key
#print axioms Furax.C18.config_fields_pinned
