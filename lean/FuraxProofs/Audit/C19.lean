import FuraxProofs.Props.C19
#print axioms Furax.C19.wn_restores
#print axioms Furax.C19.ends_with_default
#print axioms Furax.C19.inv_init
#print axioms Furax.C19.inv_enter
#print axioms Furax.C19.inv_exit
#print axioms Furax.C19.inv_other
#print axioms Furax.C19.read_is_innermost
#print axioms Furax.C19.override_named
#print axioms Furax.C19.inverse_keeps_creation_config
#print axioms Furax.C19.apply_observes_creation_config
#print axioms Furax.C19.thread_isolation
#print axioms Furax.C19.jit_uses_creation_config
#print axioms Furax.C19.jit_history_uses_creation_configs
#print axioms Furax.C19.jit_with_forgetful_key_reuses_wrong_trace
#print axioms Furax.C19.prebuilt_config_installs_construction_settings
