import FuraxProofs.Props.C20
#print axioms Furax.C20.operation_componentwise
#print axioms Furax.C20.roperation_scalar_order
#print axioms Furax.C20.order_matters
#print axioms Furax.C20.other_kind_refused
#print axioms Furax.C20.foreign_operand_refused
#print axioms Furax.C20.class_for_spec
#print axioms Furax.C20.kinds_pinned
#print axioms Furax.C20.from_stokes_positional
#print axioms Furax.C20.from_iquv_selects
#print axioms Furax.C20.promotion_total
#print axioms Furax.C20.promotion_idempotent
#print axioms Furax.C20.promotion_commutative
#print axioms Furax.C20.promotion_associative
#print axioms Furax.C20.promotion_upper_bound
#print axioms Furax.C20.dot_comm
