/-
Negation and subtraction of operators, complete (property C02).

`-a` on an `AdditionOperator` negates every summand (`ops.mapM (pyRmul (-1))`) and builds a new sum over the same
container; on any other operator it is `(-1) * a`.  `a - b` is `a + (-b)`.

* `pyNeg_den_add`  — `-a` for a sum `a`;
* `NegOK`, `pyNeg_den_full` — `-a` for every operand;
* `pyRmul_WFtop`, `pyNeg_WFtop` — the result of `k * a` / `-a` satisfies `WFtop`;
* `pySub_den` — `a - b`;
* `neg_den_closed`, `sub_den_closed` — the corollaries in the faithful list denotation.
-/
import FuraxProofs.Lemmas.ArithSound
import FuraxProofs.Sem.ListModel
namespace Furax
open Op

/-- a successful `mapM` in `Except` relates the two lists element by element -/
theorem mapM_ok_forall₂ {α β ε : Type} (f : α → Except ε β) :
    ∀ (l : List α) (l' : List β), l.mapM f = .ok l' → List.Forall₂ (fun a b => f a = .ok b) l l'
  | [], l', h => by
    simp only [List.mapM_nil, pure, Except.pure, Except.ok.injEq] at h
    subst h
    exact .nil
  | a :: l, l', h => by
    rw [List.mapM_cons] at h
    cases hfa : f a with
    | error e => simp [hfa, bind, Except.bind] at h
    | ok b =>
      cases hl : l.mapM f with
      | error e => simp [hfa, hl, bind, Except.bind] at h
      | ok bs =>
        simp only [hfa, hl, bind, Except.bind, pure, Except.pure, Except.ok.injEq] at h
        subst h
        exact .cons hfa (mapM_ok_forall₂ f l bs hl)

namespace ArithSem
variable {V : Type} (A : ArithSem V)

/-! ### `-a` on a sum -/

/-- what `pyRmul_den` gives for one summand -/
def NegRel (o o' : Op) : Prop :=
  Op.inS o' = Op.inS o ∧ Op.outS o' = Op.outS o ∧
    ∀ x, A.mem (Op.inS o) x → A.den o' x = A.smul (-1) (A.den o x)

theorem negRel_of_mapM (ops ops' : List Op)
    (hs : ∀ o ∈ ops, StructOK o) (hi : ∀ o ∈ ops, A.LazyInvertible o)
    (h : List.Forall₂ (fun o o' => pyRmul (-1) o = .ok o') ops ops') :
    List.Forall₂ A.NegRel ops ops' := by
  induction h with
  | nil => exact .nil
  | @cons o o' os os' hr _ ih =>
    refine .cons ?_ (ih (fun p hp => hs p (List.mem_cons_of_mem _ hp))
      (fun p hp => hi p (List.mem_cons_of_mem _ hp)))
    have hso := hs o List.mem_cons_self
    exact A.pyRmul_den (-1) o o' (WFtop_of_StructOK o hso) hso (hi o List.mem_cons_self) hr

theorem negRel_heads (ops ops' : List Op) (h : List.Forall₂ A.NegRel ops ops') :
    inSHead ops' = inSHead ops ∧ outSHead ops' = outSHead ops ∧ ops'.length = ops.length := by
  cases h with
  | nil => exact ⟨rfl, rfl, rfl⟩
  | cons hr ht => exact ⟨hr.1, hr.2.1, by simp [ht.length_eq]⟩

theorem negRel_map (ops ops' : List Op) (x : V) (h : List.Forall₂ A.NegRel ops ops')
    (hx : ∀ o ∈ ops, A.mem (Op.inS o) x) :
    ops'.map (fun o => A.den o x) = (ops.map (fun o => A.den o x)).map (A.smul (-1)) := by
  induction h with
  | nil => rfl
  | @cons o o' os os' hr _ ih =>
    simp only [List.map_cons]
    rw [hr.2.2 x (hx o List.mem_cons_self), ih (fun p hp => hx p (List.mem_cons_of_mem _ hp))]

/-- **`-a` for a sum `a`**: every summand is negated, the container is kept; the result has the structures of `a`
and denotes minus the map.  `StructOK a` gives that the summands are structurally well formed, share both
structures and are at least one; `hi`: the lazy inverses among the summands wrap invertible operands. -/
theorem pyNeg_den_add (u : Nat) (td : TreeDef) (ops : List Op) (r : Op)
    (has : StructOK (.cont u .add td ops)) (hi : ∀ o ∈ ops, A.LazyInvertible o)
    (h : pyNeg (.cont u .add td ops) = .ok r) :
    (∃ ops', ops.mapM (pyRmul (-1)) = .ok ops' ∧ ops'.length = ops.length ∧ r = .cont 0 .add td ops') ∧
    Op.inS r = Op.inS (.cont u .add td ops) ∧ Op.outS r = Op.outS (.cont u .add td ops) ∧
    ∀ x, A.mem (Op.inS (.cont u .add td ops)) x →
      A.den r x = A.smul (-1) (A.den (.cont u .add td ops) x) := by
  obtain ⟨_, hs, _, hshare⟩ := (StructOK_cont_iff _ _ _ _).mp has
  simp only [pyNeg] at h
  cases hm : ops.mapM (pyRmul (-1)) with
  | error e => simp [hm, bind, Except.bind] at h
  | ok ops' =>
    simp only [hm, bind, Except.bind, pure, Except.pure, Except.ok.injEq] at h
    subst h
    have hrel := A.negRel_of_mapM ops ops' hs hi (mapM_ok_forall₂ _ _ _ hm)
    obtain ⟨hI, hO, hlen⟩ := A.negRel_heads ops ops' hrel
    refine ⟨⟨ops', rfl, hlen, rfl⟩, by simpa only [Op.inS] using hI, by simpa only [Op.outS] using hO,
      fun x hx => ?_⟩
    have hx' : ∀ o ∈ ops, A.mem (Op.inS o) x := fun o ho => by
      rw [(hshare o ho).1]; simpa only [Op.inS] using hx
    rw [A.add_law, A.add_law, A.negRel_map ops ops' x hrel hx', A.smul_sum]

/-! ### `-a` in general -/

/-- **what `-a` needs of its operand**: `a` is structurally well formed (`StructOK`: what the constructors
guarantee; for a sum, the summands are structurally well formed, share both structures and are at least one) and
every lazy inverse among its summands — `a` itself when it is not a sum — wraps an invertible operand. -/
def NegOK (a : Op) : Prop := StructOK a ∧ ∀ o ∈ summands a, A.LazyInvertible o

theorem summands_add (u : Nat) (td : TreeDef) (ops : List Op) : summands (.cont u .add td ops) = ops := by
  simp [summands, isAdd, isContCls, addLeaves]

theorem isAdd_cases (a : Op) : (∃ u td ops, a = .cont u .add td ops) ∨ a.isAdd = false := by
  cases a with
  | cont u k td ops => cases k <;> simp [isAdd, isContCls]
  | _ => right; rfl

theorem summands_not_add (a : Op) (h : a.isAdd = false) : summands a = [a] := by
  simp [summands, h]

/-- `NegOK` of a sum, from the hypotheses of `pyNeg_den_add` -/
theorem NegOK.of_add {u : Nat} {td : TreeDef} {ops : List Op} (has : StructOK (.cont u .add td ops))
    (hi : ∀ o ∈ ops, A.LazyInvertible o) : A.NegOK (.cont u .add td ops) :=
  ⟨has, by rw [summands_add]; exact hi⟩

/-- `NegOK` of an operand that is not a sum, from the hypotheses of `pyNeg_den` -/
theorem NegOK.of_not_add {a : Op} (has : StructOK a) (hai : A.LazyInvertible a) (hns : a.isAdd = false) :
    A.NegOK a :=
  ⟨has, by rw [summands_not_add a hns]; intro o ho; rw [List.mem_singleton.mp ho]; exact hai⟩

/-- **`-a` denotes minus the map, for every operand** (sum or not), and has the structures of `a`. -/
theorem pyNeg_den_full (a r : Op) (ha : A.NegOK a) (h : pyNeg a = .ok r) :
    Op.inS r = Op.inS a ∧ Op.outS r = Op.outS a ∧
    ∀ x, A.mem (Op.inS a) x → A.den r x = A.smul (-1) (A.den a x) := by
  rcases isAdd_cases a with ⟨u, td, ops, rfl⟩ | hns
  · have hi : ∀ o ∈ ops, A.LazyInvertible o := by
      have := ha.2; rwa [summands_add] at this
    exact (A.pyNeg_den_add u td ops r ha.1 hi h).2
  · have hai : A.LazyInvertible a :=
      ha.2 a (by rw [summands_not_add a hns]; exact List.mem_singleton_self a)
    exact A.pyNeg_den a r (WFtop_of_StructOK a ha.1) ha.1 hai hns h

/-! ### the result of `k * a` and of `-a` is well formed at top level -/

theorem WFtop_mkIdentity (s : Struct) : WFtop (mkIdentity s) := by
  refine ⟨?_, ?_, ?_⟩
  · intro u k o' h; simp [mkIdentity] at h
  · intro u ops h; simp [mkIdentity] at h
  · intro u td ops h; simp [mkIdentity] at h

theorem WFtop_mkComp (ops : List Op) (hne : ops ≠ []) : WFtop (mkComp ops) := by
  refine ⟨?_, ?_, ?_⟩
  · intro u k o' h; simp [mkComp] at h
  · intro u ops' h
    simp only [mkComp, Op.comp.injEq] at h
    rw [← h.2]; exact hne
  · intro u td ops' h; simp [mkComp] at h

theorem baseMatmul_WFtop (a b r : Op) (h : baseMatmul a b = .ok (some r)) : WFtop r := by
  unfold baseMatmul at h
  split at h
  · simp at h
  · split at h
    · simp at h
    · split at h
      · simp only [Except.ok.injEq, Option.some.injEq] at h
        subst h; exact WFtop_mkIdentity _
      · simp only [Except.ok.injEq, Option.some.injEq] at h
        subst h; exact WFtop_mkComp _ (by simp)

/-- **`k * a` is a scalar operator, an identity or a non-empty composition**: whatever `a` is, the result satisfies
`WFtop` (no hypothesis on `a`). -/
theorem pyRmul_WFtop (k : Rat) (a r : Op) (h : pyRmul k a = .ok r) : WFtop r := by
  unfold pyRmul pyMatmul at h
  have hm : matmulOf (mkHomothety k (Op.outS a)) a
      = if a.isHomothety then
          (if Op.inS (mkHomothety k (Op.outS a)) != Op.outS a then .error .valueError
           else .ok (some (mkHomothety ((mkHomothety k (Op.outS a)).homValue * a.homValue) (Op.outS a))))
        else baseMatmul (mkHomothety k (Op.outS a)) a := by
    simp [mkHomothety, matmulOf]
  rw [hm] at h
  by_cases hh : a.isHomothety = true
  · simp only [hh, if_true] at h
    by_cases hs : (Op.inS (mkHomothety k (Op.outS a)) != Op.outS a) = true
    · simp [hs] at h
    · simp only [hs, Bool.false_eq_true, if_false, Except.ok.injEq] at h
      subst h; exact WFtop_mkHomothety _ _
  · simp only [hh, Bool.false_eq_true, if_false] at h
    cases hbm : baseMatmul (mkHomothety k (Op.outS a)) a with
    | error e => simp [hbm] at h
    | ok res =>
      cases res with
      | some r' =>
        simp only [hbm, Except.ok.injEq] at h
        subst h
        exact baseMatmul_WFtop _ _ _ hbm
      | none =>
        simp only [hbm] at h
        cases a with
        | comp u ops =>
          simp only at h
          split at h
          · simp at h
          · simp only [Except.ok.injEq] at h
            subst h; exact WFtop_mkComp _ (by simp)
        | leaf _ _ _ => simp at h
        | wrap _ _ _ => simp at h
        | cont _ _ _ _ => simp at h

/-- **`-b` satisfies `WFtop`**: a sum with as many summands as `b` when `b` is a (non-empty) sum, `(-1) * b`
otherwise.  Only the top-level condition on `b` is used. -/
theorem pyNeg_WFtop (b r : Op) (hb : WFtop b) (h : pyNeg b = .ok r) : WFtop r := by
  rcases isAdd_cases b with ⟨u, td, ops, rfl⟩ | hns
  · have hne := hb.2.2 u td ops rfl
    simp only [pyNeg] at h
    cases hm : ops.mapM (pyRmul (-1)) with
    | error e => simp [hm, bind, Except.bind] at h
    | ok ops' =>
      simp only [hm, bind, Except.bind, pure, Except.pure, Except.ok.injEq] at h
      subst h
      have hlen := (mapM_ok_forall₂ _ _ _ hm).length_eq
      refine ⟨?_, ?_, ?_⟩
      · intro u' k o' he; cases he
      · intro u' ops'' he; cases he
      · intro u' td' ops'' he
        simp only [Op.cont.injEq] at he
        rw [← he.2.2.2]
        intro hnil
        rw [hnil] at hlen
        exact hne (List.eq_nil_of_length_eq_zero (by simpa using hlen))
  · have : pyNeg b = pyRmul (-1) b := by
      cases b with
      | cont u k td ops => cases k <;> simp_all [pyNeg, isAdd, isContCls]
      | _ => rfl
    rw [this] at h
    exact pyRmul_WFtop (-1) b r h

/-! ### `a - b` -/

/-- **`a - b` denotes the difference of the maps**: it is `a + (-b)`, a new sum over the summands of `a` followed
by those of `-b`; the structures agree as for `+`. -/
theorem pySub_den (a b r : Op) (ha : WFtop a) (hb : A.NegOK b) (h : pySub a b = .ok r) :
    Op.inS a = Op.inS b ∧ Op.outS a = Op.outS b ∧ Op.inS r = Op.inS a ∧ Op.outS r = Op.outS a ∧
    (∃ nb, pyNeg b = .ok nb ∧ WFtop nb ∧ pyAdd a nb = .ok r ∧
      ∃ u td, r = .cont u .add td (summands a ++ summands nb)) ∧
    ∀ x, A.mem (Op.inS a) x → A.den r x = A.add (A.den a x) (A.smul (-1) (A.den b x)) := by
  unfold pySub at h
  cases hc : addCheck a b with
  | error e => simp [hc, bind, Except.bind] at h
  | ok _ =>
    cases hn : pyNeg b with
    | error e => simp [hc, hn, bind, Except.bind] at h
    | ok nb =>
      simp only [hc, hn, bind, Except.bind] at h
      obtain ⟨nI, nO, nD⟩ := A.pyNeg_den_full b nb hb hn
      have hnb : WFtop nb := pyNeg_WFtop b nb (WFtop_of_StructOK b hb.1) hn
      obtain ⟨h1, h2, h3, h4, h5, h6⟩ := A.pyAdd_den a nb r ha hnb h
      refine ⟨h1.trans nI, h2.trans nO, h3, h4, ⟨nb, rfl, hnb, h, h5⟩, fun x hx => ?_⟩
      rw [h6 x, nD x (by rw [← nI, ← h1]; exact hx)]

end ArithSem

/-! ### in the faithful list denotation: no law is assumed -/

namespace ListSem

/-- `-A` negates every entry of the result, for every operand (sum or not) -/
theorem neg_den_closed (E : Env) (a r : Op) (ha : (listArithSem E).NegOK a) (h : pyNeg a = .ok r) :
    Op.inS r = Op.inS a ∧ Op.outS r = Op.outS a ∧
    ∀ x : List ℝ, x.length = (Op.inS a).size → den E r x = vsmul (-1) (den E a x) :=
  (listArithSem E).pyNeg_den_full a r ha h

/-- `A - B` computes the entry-wise difference of the two results -/
theorem sub_den_closed (E : Env) (a b r : Op) (ha : ArithSem.WFtop a) (hb : (listArithSem E).NegOK b)
    (h : pySub a b = .ok r) :
    Op.inS a = Op.inS b ∧ Op.outS a = Op.outS b ∧ Op.inS r = Op.inS a ∧ Op.outS r = Op.outS a ∧
    ∀ x : List ℝ, x.length = (Op.inS a).size →
      den E r x = vadd (den E a x) (vsmul (-1) (den E b x)) :=
  let ⟨h1, h2, h3, h4, _, h6⟩ := (listArithSem E).pySub_den a b r ha hb h
  ⟨h1, h2, h3, h4, h6⟩

/-! ### non-vacuity: a subtraction of a sum that the model really evaluates -/

namespace Examples

def sumBB : Op := .cont 3 .add td2 [opB, opB]

theorem sub_ex_red : pySub opB sumBB = .ok (.cont 0 .add (listTd 3)
    [opB, mkComp [mkHomothety (-1) s2, opB], mkComp [mkHomothety (-1) s2, opB]]) := by
  with_unfolding_all rfl

theorem sumBB_negOK (E : Env) : (listArithSem E).NegOK sumBB := by
  refine ArithSem.NegOK.of_add _ ?_ ?_
  · rw [StructOK_cont_iff]
    refine ⟨by simp, fun o _ => ?_, by decide, ?_⟩
    · simp only [List.mem_cons, List.not_mem_nil, or_false, or_self] at *
      subst_vars; exact StructOK_leaf _ _ _
    · intro o ho
      simp only [List.mem_cons, List.not_mem_nil, or_false, or_self] at ho
      subst ho; exact ⟨rfl, rfl⟩
  · intro o ho u k o' he
    simp only [List.mem_cons, List.not_mem_nil, or_false, or_self] at ho
    subst ho; cases he

/-- `B - (B + B)` computes `B x - (B x + B x)` entry by entry -/
theorem sub_ex_den (E : Env) (x : List ℝ) (hx : x.length = 3) :
    den E (.cont 0 .add (listTd 3)
      [opB, mkComp [mkHomothety (-1) s2, opB], mkComp [mkHomothety (-1) s2, opB]]) x
      = vadd (den E opB x) (vsmul (-1) (den E sumBB x)) :=
  (sub_den_closed E opB sumBB _ (ArithSem.WFtop_of_StructOK _ (StructOK_leaf _ _ _)) (sumBB_negOK E)
    sub_ex_red).2.2.2.2 x hx

end Examples

end ListSem


end Furax
