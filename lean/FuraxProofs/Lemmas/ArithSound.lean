/-
Soundness of the arithmetic dunders modelled in FuraxModel/Arith.lean, for any semantics satisfying the
composite laws collected in `ArithSem` (a composition denotes the composite, a sum the pointwise sum, a lazy
inverse of an invertible operand its inverse).
-/
import FuraxModel.Arith
import FuraxProofs.Lemmas.Nary
namespace Furax
open Op

/-- `OpSem` plus an additive structure on values and the laws of the composite operators. -/
structure ArithSem (V : Type) extends OpSem V where
  add : V → V → V
  zero : V
  add_assoc : ∀ x y z, add (add x y) z = add x (add y z)
  zero_add : ∀ x, add zero x = x
  /-- `CompositionOperator.mv` applies the operands from the last to the first -/
  comp_law : ∀ u ops x, den (.comp u ops) x = toOpSem.toSem.app ops x
  /-- `AdditionOperator.mv` adds the results of its operand leaves -/
  add_law : ∀ u td ops x, den (.cont u .add td ops) x = (ops.map (fun o => den o x)).foldr add zero
  add_zero : ∀ x, add x zero = x
  /-- scalar multiplication distributes over the fold of a sum -/
  smul_sum : ∀ a (l : List V), smul a (l.foldr add zero) = (l.map (smul a)).foldr add zero
  /-- which operands are invertible (a diagonal operator with a zero entry is not: finding F13) -/
  invertible : Op → Prop
  /-- a lazy inverse of an INVERTIBLE operand undoes it, both ways.  `QURotationTransposeOperator` is a lazy
  inverse of rotations only (its denotation is the TRANSPOSE of its operand, which inverts an orthogonal operand
  but not, say, `2·I`): the law is asked of `.qurotT` wrappers around a `QURotationOperator` only, which is what
  the constructor guarantees (`WrapOK`). -/
  inv_left : ∀ u k o, invertible o → (k = .inverse ∨ k = .qurotT ∨ k = .diagInv) →
    (k = .qurotT → o.isQURot = true) →
    ∀ x, mem (Op.inS o) x → den (.wrap u k o) (den o x) = x
  inv_right : ∀ u k o, invertible o → (k = .inverse ∨ k = .qurotT ∨ k = .diagInv) →
    (k = .qurotT → o.isQURot = true) →
    ∀ x, mem (Op.inS (.wrap u k o)) x → den o (den (.wrap u k o) x) = x

namespace ArithSem
variable {V : Type} (A : ArithSem V)

abbrev L := A.toOpSem

theorem mkIdentity_den (s : Struct) (x : V) (hx : A.mem s x) : A.den (mkIdentity s) x = x := by
  have h := A.identity_law (mkIdentity s) (by simp [mkIdentity, isIdentity, isLeafCls])
  exact h x (by simpa [mkIdentity, Op.inS] using hx)

theorem mkHomothety_den (v : Rat) (s : Struct) (x : V) (hx : A.mem s x) :
    A.den (mkHomothety v s) x = A.smul v x := by
  obtain ⟨hH, hI, _, hV⟩ := OpSem.mkHomothety_law v s
  have h := A.homothety_law _ hH
  rw [h x (by rw [hI]; exact hx), hV]

theorem lazyInverseOf_cases (b a : Op) (h : lazyInverseOf b a = true) :
    ∃ u k, b = .wrap u k a ∧ (k = .inverse ∨ k = .qurotT ∨ k = .diagInv) := by
  cases b with
  | wrap u k o =>
    simp only [lazyInverseOf, Bool.and_eq_true, Bool.or_eq_true, beq_iff_eq] at h
    obtain ⟨hk, hs⟩ := h
    have := Op.same_eq _ _ hs
    subst this
    exact ⟨u, k, rfl, by rcases hk with (h1 | h2) | h3 <;> simp_all⟩
  | _ => simp [lazyInverseOf] at h

/-- an operand wrapped by a lazy inverse is square (the constructors guarantee it: `InverseOperator`
refuses non-square operands, rotations and diagonal operators are square) -/
def LazySquare (o : Op) : Prop :=
  ∀ u k o', o = .wrap u k o' → (k = .inverse ∨ k = .qurotT ∨ k = .diagInv) → Op.inS o' = Op.outS o'

/-- a `QURotationTransposeOperator` wraps a `QURotationOperator` (guaranteed by its constructor; part of `WrapOK`) -/
def LazyRot (o : Op) : Prop :=
  ∀ u k o', o = .wrap u k o' → k = .qurotT → o'.isQURot = true

/-- the operand of a lazy inverse is invertible (this is the hypothesis finding F13 violates: the
pseudo-inverse of a singular diagonal operator is a lazy-inverse object too), and the lazy inverse
`QURotationTransposeOperator` wraps a rotation (`LazyRot`; the hypothesis under which `ArithSem.inv_left` /
`inv_right` speak about `.qurotT` wrappers) -/
def LazyInvertible (A : ArithSem V) (o : Op) : Prop :=
  ∀ u k o', o = .wrap u k o' → (k = .inverse ∨ k = .qurotT ∨ k = .diagInv) →
    A.invertible o' ∧ (k = .qurotT → o'.isQURot = true)

theorem LazyInvertible.lazyRot {A : ArithSem V} {o : Op} (h : A.LazyInvertible o) : LazyRot o :=
  fun u k o' he hk => (h u k o' he (.inr (.inl hk))).2 hk

/-- `LazyInvertible` from its two components -/
theorem LazyInvertible.mk' {A : ArithSem V} {o : Op}
    (hinv : ∀ u k o', o = .wrap u k o' → (k = .inverse ∨ k = .qurotT ∨ k = .diagInv) → A.invertible o')
    (hrot : LazyRot o) : A.LazyInvertible o :=
  fun u k o' he hk => ⟨hinv u k o' he hk, hrot u k o' he⟩

theorem wrap_inS_sq (u : Nat) (k : WrapCls) (o : Op) (h : Op.inS o = Op.outS o) :
    Op.inS (.wrap u k o) = Op.inS o := by
  cases k <;> simp [Op.inS, h]

theorem wrap_outS (u : Nat) (k : WrapCls) (o : Op) : Op.outS (.wrap u k o) = Op.inS o := by
  cases k <;> simp [Op.outS]

/-- `AbstractLinearOperator.__matmul__` (when it does not return NotImplemented) denotes the product. -/
theorem baseMatmul_den (a b r : Op) (hb : LazySquare b) (hbi : A.LazyInvertible b)
    (h : baseMatmul a b = .ok (some r)) :
    Op.inS a = Op.outS b ∧ Op.inS r = Op.inS b ∧ Op.outS r = Op.outS a ∧
    ∀ x, A.mem (Op.inS b) x → A.den r x = A.den a (A.den b x) := by
  unfold baseMatmul at h
  by_cases hs : (Op.inS a != Op.outS b) = true
  · simp [hs] at h
  · have hs' : Op.inS a = Op.outS b := by simpa using hs
    simp only [hs, if_false, Bool.false_eq_true] at h
    by_cases hc : b.isComp = true
    · simp [hc] at h
    · simp only [hc, if_false, Bool.false_eq_true] at h
      by_cases hl : lazyInverseOf b a = true
      · simp only [hl, if_true, Except.ok.injEq, Option.some.injEq] at h
        subst h
        obtain ⟨u, k, rfl, hk⟩ := lazyInverseOf_cases b a hl
        have hsq : Op.inS a = Op.outS a := hb u k a rfl hk
        have hin : Op.inS (Op.wrap u k a) = Op.inS a := wrap_inS_sq u k a hsq
        refine ⟨hs', ?_, ?_, fun x hx => ?_⟩
        · rw [hin]; simp [mkIdentity, Op.inS]
        · rw [← hsq]; simp [mkIdentity, Op.outS]
        · rw [A.inv_right u k a (hbi u k a rfl hk).1 hk (hbi u k a rfl hk).2 x hx]
          exact A.mkIdentity_den _ x (by rw [← hin]; exact hx)
      · simp only [hl, if_false, Bool.false_eq_true, Except.ok.injEq, Option.some.injEq] at h
        subst h
        refine ⟨hs', ?_, ?_, fun x _ => ?_⟩
        · simp [mkComp, Op.inS, Op.inSLast]
        · simp [mkComp, Op.outS, Op.outSHead]
        · simp only [mkComp, A.comp_law, Sem.app, OpSem.toSem_den]

/-- top-level well-formedness the constructors guarantee: compositions and sums are non-empty, the operand
of a lazy inverse is square -/
def WFtop (o : Op) : Prop :=
  LazySquare o ∧ (∀ u ops, o = .comp u ops → ops ≠ []) ∧ (∀ u td ops, o = .cont u .add td ops → ops ≠ [])

/-- structural well-formedness implies the top-level conditions -/
theorem WFtop_of_StructOK (o : Op) (h : StructOK o) : WFtop o := by
  refine ⟨?_, ?_, ?_⟩
  · intro u k o' he hk; subst he
    exact (((StructOK_wrap_iff _ _ _).mp h).2.1 hk).1
  · intro u ops he; subst he
    exact ((StructOK_comp_iff _ _).mp h).1
  · intro u td ops he; subst he
    exact ((StructOK_cont_iff _ _ _ _).mp h).1

theorem inSLast_append (xs ys : List Op) (h : ys ≠ []) : inSLast (xs ++ ys) = inSLast ys := by
  induction xs with
  | nil => rfl
  | cons x xs ih =>
    cases hxy : xs ++ ys with
    | nil => simp at hxy; exact absurd hxy.2 h
    | cons z zs => simp only [List.cons_append, hxy, inSLast]; rw [← hxy]; exact ih

theorem outSHead_append (xs ys : List Op) (h : xs ≠ []) : outSHead (xs ++ ys) = outSHead xs := by
  cases xs with
  | nil => exact absurd rfl h
  | cons x xs => rfl

theorem inSLast_singleton_append (xs : List Op) (b : Op) : inSLast (xs ++ [b]) = Op.inS b := by
  rw [inSLast_append _ _ (by simp)]; rfl

/-- `a @ b`: the result has the structures of the product (no semantic hypothesis on the operands), and denotes
the product of the maps as soon as the right operand `b` is honest (maps its input space into its output space;
`OpSem.honest` gives this for a structurally well-formed `b`, see `pyMatmul_den`). -/
theorem pyMatmul_den_core (a b r : Op) (ha : WFtop a) (hb : WFtop b)
    (hai : A.LazyInvertible a) (hbi : A.LazyInvertible b) (h : pyMatmul a b = .ok r) :
    Op.inS a = Op.outS b ∧ Op.inS r = Op.inS b ∧ Op.outS r = Op.outS a ∧
    ((∀ x, A.mem (Op.inS b) x → A.mem (Op.outS b) (A.den b x)) →
      ∀ x, A.mem (Op.inS b) x → A.den r x = A.den a (A.den b x)) := by
  -- the generic path through `baseMatmul`, including the reflected `CompositionOperator.__rmatmul__`
  have generic : ∀ (hm : matmulOf a b = baseMatmul a b),
      Op.inS a = Op.outS b ∧ Op.inS r = Op.inS b ∧ Op.outS r = Op.outS a ∧
      ((∀ x, A.mem (Op.inS b) x → A.mem (Op.outS b) (A.den b x)) →
        ∀ x, A.mem (Op.inS b) x → A.den r x = A.den a (A.den b x)) := fun hm => by
    unfold pyMatmul at h
    rw [hm] at h
    cases hbm : baseMatmul a b with
    | error e => simp [hbm] at h
    | ok res =>
      cases res with
      | some r' =>
        simp only [hbm, Except.ok.injEq] at h; subst h
        obtain ⟨h1, h2, h3, h4⟩ := A.baseMatmul_den a b r' hb.1 hbi hbm
        exact ⟨h1, h2, h3, fun _ => h4⟩
      | none =>
        simp only [hbm] at h
        -- NotImplemented: b is a composition, structures already checked
        unfold baseMatmul at hbm
        by_cases hs : (Op.inS a != Op.outS b) = true
        · simp [hs] at hbm
        · have hs' : Op.inS a = Op.outS b := by simpa using hs
          cases b with
          | comp u ops =>
            have hne := hb.2.1 u ops rfl
            simp only [hs'.symm, bne_self_eq_false, Bool.false_eq_true, if_false, Except.ok.injEq] at h
            subst h
            refine ⟨hs', ?_, ?_, fun _ x _ => ?_⟩
            · cases ops with
              | nil => exact absurd rfl hne
              | cons o os => simp [mkComp, Op.inS, inSLast]
            · simp [mkComp, Op.outS, outSHead]
            · simp only [mkComp, A.comp_law, Sem.app, OpSem.toSem_den]
          | leaf _ _ _ => simp at h
          | wrap _ _ _ => simp at h
          | cont _ _ _ _ => simp at h
  cases a with
  | comp u ops =>
    have hne := ha.2.1 u ops rfl
    unfold pyMatmul matmulOf at h
    by_cases hs : (Op.inS (Op.comp u ops) != Op.outS b) = true
    · simp [hs] at h
    · have hs' : Op.inS (Op.comp u ops) = Op.outS b := by simpa using hs
      simp only [hs, Bool.false_eq_true, if_false] at h
      cases b with
      | comp u' ops' =>
        have hne' := hb.2.1 u' ops' rfl
        simp only [Except.ok.injEq] at h; subst h
        refine ⟨hs', ?_, ?_, fun _ x _ => ?_⟩
        · simp only [mkComp, Op.inS]; exact inSLast_append _ _ hne'
        · simp only [mkComp, Op.outS]; exact outSHead_append _ _ hne
        · simp only [mkComp, A.comp_law, Sem.app_append]
      | leaf u' c p =>
        simp only [Except.ok.injEq] at h; subst h
        refine ⟨hs', ?_, ?_, fun _ x _ => ?_⟩
        · simp only [mkComp, Op.inS]; exact inSLast_singleton_append _ _
        · simp only [mkComp, Op.outS]; exact outSHead_append _ _ hne
        · simp only [mkComp, A.comp_law, Sem.app_append, Sem.app, OpSem.toSem_den]
      | wrap u' k o =>
        simp only [Except.ok.injEq] at h; subst h
        refine ⟨hs', ?_, ?_, fun _ x _ => ?_⟩
        · simp only [mkComp, Op.inS]; exact inSLast_singleton_append _ _
        · simp only [mkComp, Op.outS]; exact outSHead_append _ _ hne
        · simp only [mkComp, A.comp_law, Sem.app_append, Sem.app, OpSem.toSem_den]
      | cont u' k td os =>
        simp only [Except.ok.injEq] at h; subst h
        refine ⟨hs', ?_, ?_, fun _ x _ => ?_⟩
        · simp only [mkComp, Op.inS]; exact inSLast_singleton_append _ _
        · simp only [mkComp, Op.outS]; exact outSHead_append _ _ hne
        · simp only [mkComp, A.comp_law, Sem.app_append, Sem.app, OpSem.toSem_den]
  | cont u k td os => exact generic (by simp [matmulOf])
  | wrap u k o =>
    by_cases hl : lazyInverseOf (Op.wrap u k o) b = true
    · -- `A.I @ A`
      unfold pyMatmul matmulOf at h
      simp only [hl, if_true, Except.ok.injEq] at h
      subst h
      have hk : (k = .inverse ∨ k = .qurotT ∨ k = .diagInv) ∧ o = b := by
        simp only [lazyInverseOf, Bool.and_eq_true, Bool.or_eq_true, beq_iff_eq] at hl
        exact ⟨by rcases hl.1 with (h1 | h2) | h3 <;> simp_all, Op.same_eq _ _ hl.2⟩
      obtain ⟨hk, rfl⟩ := hk
      have hsq : Op.inS o = Op.outS o := ha.1 u k o rfl hk
      have hin : Op.inS (Op.wrap u k o) = Op.inS o := wrap_inS_sq u k o hsq
      refine ⟨by rw [hin, hsq], ?_, ?_, fun hhon x hx => ?_⟩
      · rw [hin]; simp [mkIdentity, Op.inS]
      · rw [hin, wrap_outS]; simp [mkIdentity, Op.outS]
      · rw [A.inv_left u k o (hai u k o rfl hk).1 hk (hai u k o rfl hk).2 x hx]
        exact A.mkIdentity_den _ x (by rw [hin]; exact hx)
    · exact generic (by simp [matmulOf, hl])
  | leaf u c p =>
    by_cases hid : c = .identity
    · subst hid
      unfold pyMatmul matmulOf at h
      by_cases hs : (Op.inS (Op.leaf u .identity p) != Op.outS b) = true
      · simp [hs] at h
      · have hs' : Op.inS (Op.leaf u .identity p) = Op.outS b := by simpa using hs
        simp only [hs, Bool.false_eq_true, if_false, Except.ok.injEq] at h
        subst h
        have hlaw := A.identity_law (Op.leaf u .identity p) (by simp [isIdentity, isLeafCls])
        have hsq := OpSem.identity_square (Op.leaf u .identity p) (by simp [isIdentity, isLeafCls])
        refine ⟨hs', rfl, ?_, fun hhon x hx => ?_⟩
        · rw [← hsq]; exact hs'.symm
        · have hm := hhon x hx
          rw [hlaw _ (by rw [hs']; exact hm)]
    · by_cases hh : c = .homothety
      · subst hh
        by_cases hbh : b.isHomothety = true
        · unfold pyMatmul matmulOf at h
          simp only [hbh, if_true] at h
          by_cases hs : (Op.inS (Op.leaf u .homothety p) != Op.outS b) = true
          · simp [hs] at h
          · have hs' : Op.inS (Op.leaf u .homothety p) = Op.outS b := by simpa using hs
            simp only [hs, Bool.false_eq_true, if_false, Except.ok.injEq] at h
            subst h
            have hla := A.homothety_law (Op.leaf u .homothety p) (by simp [isHomothety, isLeafCls])
            have hlb := A.homothety_law b hbh
            obtain ⟨_, hI, hO, _⟩ := OpSem.mkHomothety_law
              ((Op.leaf u .homothety p).homValue * b.homValue) p.inS
            have hpa : Op.inS (Op.leaf u .homothety p) = p.inS := rfl
            have hsa := OpSem.homothety_square (Op.leaf u .homothety p) (by simp [isHomothety, isLeafCls])
            have hsb := OpSem.homothety_square b hbh
            refine ⟨hs', ?_, ?_, fun hhon x hx => ?_⟩
            · rw [hI, ← hpa, hs', ← hsb]
            · rw [hO, ← hpa, hsa]
            · have hm := hhon x hx
              rw [hla _ (by rw [hs']; exact hm), hlb x hx, A.smul_smul]
              exact A.mkHomothety_den _ _ x (by rw [← hpa, hs', ← hsb]; exact hx)
        · exact generic (by simp [matmulOf, hbh])
      · exact generic (by cases c <;> simp_all [matmulOf])

/-- **`a @ b` denotes the product of the maps**, with every construction-time shortcut (flattening of
compositions on either side, identity absorption, merging of scalar factors, `A.I @ A` and `A @ A.I`
collapsing to the identity), and the result has the structures of the product.  The right operand is
structurally well formed (`StructOK`: this is where its honesty, `OpSem.honest`, comes from). -/
theorem pyMatmul_den (a b r : Op) (ha : WFtop a) (hb : WFtop b) (hbs : StructOK b)
    (hai : A.LazyInvertible a) (hbi : A.LazyInvertible b) (h : pyMatmul a b = .ok r) :
    Op.inS a = Op.outS b ∧ Op.inS r = Op.inS b ∧ Op.outS r = Op.outS a ∧
    ∀ x, A.mem (Op.inS b) x → A.den r x = A.den a (A.den b x) :=
  let ⟨h1, h2, h3, h4⟩ := A.pyMatmul_den_core a b r ha hb hai hbi h
  ⟨h1, h2, h3, h4 (fun x hx => A.honest b x hbs hx)⟩

/-- the structural half of `pyMatmul_den`: no well-formedness of the operands beyond `WFtop` is needed -/
theorem pyMatmul_structs (a b r : Op) (ha : WFtop a) (hb : WFtop b)
    (hai : A.LazyInvertible a) (hbi : A.LazyInvertible b) (h : pyMatmul a b = .ok r) :
    Op.inS a = Op.outS b ∧ Op.inS r = Op.inS b ∧ Op.outS r = Op.outS a :=
  let ⟨h1, h2, h3, _⟩ := A.pyMatmul_den_core a b r ha hb hai hbi h
  ⟨h1, h2, h3⟩

theorem WFtop_mkHomothety (v : Rat) (s : Struct) : WFtop (mkHomothety v s) := by
  refine ⟨?_, ?_, ?_⟩
  · intro u k o' h; simp [mkHomothety] at h
  · intro u ops h; simp [mkHomothety] at h
  · intro u td ops h; simp [mkHomothety] at h

/-- **`k * a` denotes `k` times the map** (also `a * k`, which Python evaluates as `k * a`). -/
theorem lazyInvertible_mkHomothety (v : Rat) (s : Struct) : A.LazyInvertible (mkHomothety v s) := by
  intro u k o' h; simp [mkHomothety] at h

theorem pyRmul_den (k : Rat) (a r : Op) (ha : WFtop a) (has : StructOK a) (hai : A.LazyInvertible a)
    (h : pyRmul k a = .ok r) :
    Op.inS r = Op.inS a ∧ Op.outS r = Op.outS a ∧
    ∀ x, A.mem (Op.inS a) x → A.den r x = A.smul k (A.den a x) := by
  obtain ⟨_, h2, h3, h4⟩ := A.pyMatmul_den _ a r (WFtop_mkHomothety k _) ha has
    (A.lazyInvertible_mkHomothety k _) hai h
  refine ⟨h2, ?_, fun x hx => ?_⟩
  · rw [h3]; exact (OpSem.mkHomothety_law k _).2.2.1
  · rw [h4 x hx]
    exact A.mkHomothety_den k _ _ (A.honest a x has hx)

/-- **`a / k`** (`k ≠ 0`) denotes the map divided by `k`. -/
theorem pyTruediv_den (k : Rat) (a r : Op) (ha : WFtop a) (has : StructOK a) (hai : A.LazyInvertible a)
    (h : pyTruediv a k = .ok r) :
    k ≠ 0 ∧ Op.inS r = Op.inS a ∧ Op.outS r = Op.outS a ∧
    ∀ x, A.mem (Op.inS a) x → A.den r x = A.smul (1 / k) (A.den a x) := by
  unfold pyTruediv at h
  split at h
  · simp at h
  · rename_i hk
    exact ⟨hk, A.pyRmul_den (1 / k) a r ha has hai h⟩

/-- **`-a`** for an operator that is not a sum denotes minus the map -/
theorem pyNeg_den (a r : Op) (ha : WFtop a) (has : StructOK a) (hai : A.LazyInvertible a)
    (hns : a.isAdd = false) (h : pyNeg a = .ok r) :
    Op.inS r = Op.inS a ∧ Op.outS r = Op.outS a ∧
    ∀ x, A.mem (Op.inS a) x → A.den r x = A.smul (-1) (A.den a x) := by
  have : pyNeg a = pyRmul (-1) a := by
    cases a with
    | cont u k td ops => cases k <;> simp_all [pyNeg, isAdd, isContCls]
    | _ => rfl
  rw [this] at h
  exact A.pyRmul_den (-1) a r ha has hai h

theorem foldr_add_append (l1 l2 : List V) :
    (l1 ++ l2).foldr A.add A.zero = A.add (l1.foldr A.add A.zero) (l2.foldr A.add A.zero) := by
  induction l1 with
  | nil => simp [A.zero_add]
  | cons x xs ih => simp [ih, A.add_assoc]

theorem summands_den (o : Op) (x : V) :
    ((summands o).map (fun s => A.den s x)).foldr A.add A.zero = A.den o x := by
  unfold summands
  split
  · rename_i h
    cases o with
    | cont u k td ops =>
      cases k <;> simp_all [isAdd, isContCls, addLeaves, A.add_law]
    | _ => simp [isAdd, isContCls] at h
  · simp [A.add_zero]

theorem summands_head_inS (o : Op) (ho : WFtop o) :
    inSHead (summands o) = Op.inS o ∧ outSHead (summands o) = Op.outS o := by
  unfold summands
  split
  · rename_i h
    cases o with
    | cont u k td ops =>
      cases k <;> simp_all [isAdd, isContCls, addLeaves, Op.inS, Op.outS]
    | _ => simp [isAdd, isContCls] at h
  · simp [inSHead, outSHead]

theorem summands_ne_nil (o : Op) (ho : WFtop o) : summands o ≠ [] := by
  unfold summands
  split
  · rename_i h
    cases o with
    | cont u k td ops =>
      cases k <;> simp_all [isAdd, isContCls, addLeaves]
      exact ho.2.2 u td ops rfl
    | _ => simp [isAdd, isContCls] at h
  · simp

/-- **`a + b` denotes the sum of the maps**, flattening sums on either side, and is rejected
(`ValueError`) exactly when input or output structures differ. -/
theorem pyAdd_den (a b r : Op) (ha : WFtop a) (hb : WFtop b) (h : pyAdd a b = .ok r) :
    Op.inS a = Op.inS b ∧ Op.outS a = Op.outS b ∧ Op.inS r = Op.inS a ∧ Op.outS r = Op.outS a ∧
    (∃ u td, r = .cont u .add td (summands a ++ summands b)) ∧
    ∀ x, A.den r x = A.add (A.den a x) (A.den b x) := by
  unfold pyAdd addCheck at h
  by_cases h1 : (Op.inS a != Op.inS b) = true
  · simp [h1, bind, Except.bind] at h
  by_cases h2 : (Op.outS a != Op.outS b) = true
  · simp [h1, h2, bind, Except.bind] at h
  have h1' : Op.inS a = Op.inS b := by simpa using h1
  have h2' : Op.outS a = Op.outS b := by simpa using h2
  simp only [h1, h2, Bool.false_eq_true, if_false, bind, Except.bind, pure, Except.pure] at h
  have key : ∃ u td, r = .cont u .add td (summands a ++ summands b) := by
    simp only [Except.ok.injEq] at h
    exact ⟨0, _, h.symm⟩
  obtain ⟨u, td, rfl⟩ := key
  have hsa := summands_head_inS a ha
  have hne := summands_ne_nil a ha
  refine ⟨h1', h2', ?_, ?_, ⟨u, td, rfl⟩, fun x => ?_⟩
  · simp only [Op.inS]
    cases hsm : summands a with
    | nil => exact absurd hsm hne
    | cons s ss => rw [← hsa.1, hsm]; rfl
  · simp only [Op.outS]
    cases hsm : summands a with
    | nil => exact absurd hsm hne
    | cons s ss => rw [← hsa.2, hsm]; rfl
  · rw [A.add_law, List.map_append, A.foldr_add_append, A.summands_den, A.summands_den]

/-- structurally incompatible operands of `@` are rejected (unless `a` is the lazy inverse of `b` itself,
in which case the structures are compatible by construction) -/
theorem pyMatmul_rejects (a b : Op) (hs : Op.inS a ≠ Op.outS b) (hl : lazyInverseOf a b = false) :
    pyMatmul a b = .error .valueError := by
  have hs' : (Op.inS a != Op.outS b) = true := by simpa using hs
  have hbase : baseMatmul a b = .error .valueError := by simp [baseMatmul, hs']
  unfold pyMatmul
  cases a with
  | comp u ops => simp [matmulOf, hs']
  | cont u k td os => simp [matmulOf, hbase]
  | wrap u k o => simp [matmulOf, hl, hbase]
  | leaf u c p =>
    by_cases hid : c = .identity
    · subst hid; simp [matmulOf, hs']
    · by_cases hh : c = .homothety
      · subst hh
        by_cases hbh : b.isHomothety = true <;> simp [matmulOf, hbh, hs', hbase]
      · have : matmulOf (Op.leaf u c p) b = baseMatmul (Op.leaf u c p) b := by
          cases c <;> simp_all [matmulOf]
        simp [this, hbase]

/-- structurally incompatible operands of `+` and `-` are rejected -/
theorem pyAdd_rejects (a b : Op) (hs : Op.inS a ≠ Op.inS b ∨ Op.outS a ≠ Op.outS b) :
    pyAdd a b = .error .valueError ∧ pySub a b = .error .valueError := by
  have hc : addCheck a b = .error .valueError := by
    unfold addCheck
    rcases hs with h | h
    · simp [h]
    · by_cases h1 : Op.inS a = Op.inS b <;> simp [h1, h]
  constructor <;> simp [pyAdd, pySub, hc, bind, Except.bind]

end ArithSem
end Furax
