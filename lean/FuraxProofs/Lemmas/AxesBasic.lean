/-
Basic facts about the shape arithmetic of FuraxModel/Axes.lean (core Lean only).
-/
import FuraxModel.Axes
namespace Furax
open Axes

theorem foldl_mul_init (l : List Nat) (a : Nat) : l.foldl (· * ·) a = a * l.foldl (· * ·) 1 := by
  induction l generalizing a with
  | nil => simp
  | cons x xs ih => simp only [List.foldl_cons, Nat.one_mul]; rw [ih (a * x), ih x, Nat.mul_assoc]

theorem prodNat_cons (x : Nat) (xs : List Nat) : prodNat (x :: xs) = x * prodNat xs := by
  unfold prodNat; simp only [List.foldl_cons, Nat.one_mul]; exact foldl_mul_init xs x

theorem prodNat_append (a b : List Nat) : prodNat (a ++ b) = prodNat a * prodNat b := by
  induction a with
  | nil => simp [prodNat]
  | cons x xs ih => simp only [List.cons_append, prodNat_cons, ih, Nat.mul_assoc]

theorem prodNat_singleton (m : Nat) : prodNat [m] = m := by simp [prodNat]

/-- the inferred dimension makes the sizes match -/
theorem inferDim_size (total : Nat) (others : List Nat) (m : Nat) (h : inferDim total others = .ok m) :
    prodNat others * m = total := by
  unfold inferDim at h
  simp only at h
  split at h
  · simp at h
  · split at h
    · simp at h
    · rename_i hp hmod
      simp only [Except.ok.injEq] at h
      subst h
      have : total % prodNat others = 0 := by simpa using hmod
      exact Nat.mul_div_cancel' (Nat.dvd_of_mod_eq_zero this)

end Furax
