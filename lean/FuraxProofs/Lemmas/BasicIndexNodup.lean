/-
Basic indexing never selects an element twice (property C12).

A. `sliceIndices` (the model of `range(*slice(start, stop, step).indices(len))`): the result is strictly monotone,
   hence duplicate-free, and in `[0, len)`, for all signs of start/stop/step and `None` defaults; `step = 0` is
   the only error; the list is exactly CPython's `range(*slice.indices(len))` (`pySliceIndices`, `sliceIndices_mem`:
   the fuel `len + 1` of the model is enough).
B. `toSels` on a tuple of integers, slices and one ellipsis: one selector per input dimension, every slice selector
   duplicate-free and in bounds (`toSels_basic`).
C. `indexPositions` on such a tuple: the positions are pairwise distinct, in `[0, prod shape)`, and there are
   `prod outShape` of them (`indexPositions_basic`).
-/
import FuraxProofs.Sem.IndexMultLaw
namespace Furax.Index
open Furax Furax.Axes Furax.ListSem

/-! ## A. slices -/

theorem pyRange_pos (fuel : Nat) (start stop step : Int) (hs : 0 < step) (h0 : 0 ≤ start) :
    (pyRange start stop step fuel).Pairwise (· < ·) ∧
      ∀ x ∈ pyRange start stop step fuel, start ≤ (x : Int) ∧ (x : Int) < stop := by
  induction fuel generalizing start with
  | zero => simp [pyRange]
  | succ fuel ih =>
    rw [pyRange, if_pos hs]
    split
    · rename_i hlt
      obtain ⟨ih1, ih2⟩ := ih (start + step) (by omega)
      refine ⟨List.pairwise_cons.mpr ⟨fun x hx => ?_, ih1⟩, fun x hx => ?_⟩
      · have := ih2 x hx; omega
      · rcases List.mem_cons.mp hx with rfl | hx
        · omega
        · have := ih2 x hx; omega
    · simp

theorem pyRange_neg (fuel : Nat) (start stop step : Int) (hs : step < 0) (h0 : -1 ≤ stop) :
    (pyRange start stop step fuel).Pairwise (· > ·) ∧
      ∀ x ∈ pyRange start stop step fuel, stop < (x : Int) ∧ (x : Int) ≤ start := by
  induction fuel generalizing start with
  | zero => simp [pyRange]
  | succ fuel ih =>
    rw [pyRange, if_neg (by omega), if_pos hs]
    split
    · rename_i hlt
      obtain ⟨ih1, ih2⟩ := ih (start + step)
      refine ⟨List.pairwise_cons.mpr ⟨fun x hx => ?_, ih1⟩, fun x hx => ?_⟩
      · have := ih2 x hx; omega
      · rcases List.mem_cons.mp hx with rfl | hx
        · omega
        · have := ih2 x hx; omega
    · simp

theorem sliceIndices_sorted (start stop step : Option Int) (len : Nat) (l : List Nat)
    (h : sliceIndices start stop step len = .ok l) :
    (∀ x ∈ l, x < len) ∧
      ((0 < step.getD 1 ∧ l.Pairwise (· < ·)) ∨ (step.getD 1 < 0 ∧ l.Pairwise (· > ·))) := by
  unfold sliceIndices at h
  simp only at h
  split at h
  · cases h
  · rename_i hne
    split at h
    · rename_i hpos
      injection h with h
      subst h
      constructor
      · intro x hx
        have := (pyRange_pos _ _ _ _ hpos (by cases start <;> simp only <;> (try split) <;> omega)).2 x hx
        revert this
        cases stop <;> simp only <;> (try split) <;> omega
      · left
        exact ⟨hpos, (pyRange_pos _ _ _ _ hpos (by cases start <;> simp only <;> (try split) <;> omega)).1⟩
    · rename_i hnpos
      have hneg : step.getD 1 < 0 := by omega
      injection h with h
      subst h
      have hstop : (-1 : Int) ≤ (match stop with
          | none => -1
          | some v => (if v < 0 then (if v + (len : Int) < -1 then -1 else v + len)
              else (if v > (len : Int) - 1 then (len : Int) - 1 else v))) := by
        cases stop <;> simp only <;> omega
      constructor
      · intro x hx
        have := (pyRange_neg _ _ _ _ hneg hstop).2 x hx
        revert this
        cases start <;> simp only <;> omega
      · right
        exact ⟨hneg, (pyRange_neg _ _ _ _ hneg hstop).1⟩
theorem sliceIndices_nodup (start stop step : Option Int) (len : Nat) (l : List Nat)
    (h : sliceIndices start stop step len = .ok l) : l.Nodup ∧ ∀ x ∈ l, x < len := by
  obtain ⟨h1, h2⟩ := sliceIndices_sorted start stop step len l h
  refine ⟨?_, h1⟩
  rcases h2 with ⟨_, h2⟩ | ⟨_, h2⟩
  · exact h2.imp (fun h => Nat.ne_of_lt h)
  · exact h2.imp (fun h => Nat.ne_of_gt h)


/-! ### `sliceIndices` is CPython's `range(*slice.indices(len))` -/

theorem pyRange_pos_mem (fuel : Nat) (start stop step : Int) (hs : 0 < step) (h0 : 0 ≤ start)
    (hf : stop - start < fuel) (x : Nat) :
    x ∈ pyRange start stop step fuel ↔ ∃ k : Nat, (x : Int) = start + k * step ∧ (x : Int) < stop := by
  induction fuel generalizing start with
  | zero =>
    simp only [pyRange, List.not_mem_nil, false_iff]
    rintro ⟨k, h1, h2⟩
    have : 0 ≤ (k : Int) * step := Int.mul_nonneg (by omega) (by omega)
    omega
  | succ fuel ih =>
    rw [pyRange, if_pos hs]
    split
    · rename_i hlt
      rw [List.mem_cons, ih (start + step) (by omega) (by push_cast at hf ⊢; omega)]
      constructor
      · rintro (h | ⟨k, h1, h2⟩)
        · exact ⟨0, by omega, by omega⟩
        · refine ⟨k + 1, ?_, h2⟩
          rw [h1]; push_cast; ring
      · rintro ⟨k, h1, h2⟩
        cases k with
        | zero => left; simp at h1; omega
        | succ k =>
          right
          refine ⟨k, ?_, h2⟩
          rw [h1]; push_cast; ring
    · simp only [List.not_mem_nil, false_iff]
      rintro ⟨k, h1, h2⟩
      have : 0 ≤ (k : Int) * step := Int.mul_nonneg (by omega) (by omega)
      omega

theorem pyRange_neg_mem (fuel : Nat) (start stop step : Int) (hs : step < 0) (h0 : -1 ≤ stop)
    (hf : start - stop < fuel) (x : Nat) :
    x ∈ pyRange start stop step fuel ↔ ∃ k : Nat, (x : Int) = start + k * step ∧ stop < (x : Int) := by
  induction fuel generalizing start with
  | zero =>
    simp only [pyRange, List.not_mem_nil, false_iff]
    rintro ⟨k, h1, h2⟩
    have : (k : Int) * step ≤ 0 := Int.mul_nonpos_of_nonneg_of_nonpos (by omega) (by omega)
    omega
  | succ fuel ih =>
    rw [pyRange, if_neg (by omega), if_pos hs]
    split
    · rename_i hlt
      rw [List.mem_cons, ih (start + step) (by push_cast at hf ⊢; omega)]
      constructor
      · rintro (h | ⟨k, h1, h2⟩)
        · exact ⟨0, by omega, by omega⟩
        · refine ⟨k + 1, ?_, h2⟩
          rw [h1]; push_cast; ring
      · rintro ⟨k, h1, h2⟩
        cases k with
        | zero => left; simp at h1; omega
        | succ k =>
          right
          refine ⟨k, ?_, h2⟩
          rw [h1]; push_cast; ring
    · simp only [List.not_mem_nil, false_iff]
      rintro ⟨k, h1, h2⟩
      have : (k : Int) * step ≤ 0 := Int.mul_nonpos_of_nonneg_of_nonpos (by omega) (by omega)
      omega

/-- CPython `PySlice_AdjustIndices` for one bound `v` (`start` or `stop`), length `n`, `neg` = (`step < 0`) -/
def pyAdjust (v n : Int) (neg : Bool) : Int :=
  if v < 0 then
    (if v + n < 0 then (if neg then -1 else 0) else v + n)
  else if v ≥ n then (if neg then n - 1 else n)
  else v

/-- CPython `slice(start, stop, step).indices(len)` for `step ≠ 0`: `None` defaults (`PySlice_Unpack`, where the
defaults are `±PY_SSIZE_T_MAX` and are then clamped) followed by `PySlice_AdjustIndices` -/
def pySliceIndices (start stop step : Option Int) (len : Nat) : Int × Int × Int :=
  let n : Int := len
  let st := step.getD 1
  let neg := decide (st < 0)
  let a := match start with
    | none => if neg then n - 1 else 0
    | some v => pyAdjust v n neg
  let b := match stop with
    | none => if neg then -1 else n
    | some v => pyAdjust v n neg
  (a, b, st)

theorem pyAdjust_pos (v : Int) (len : Nat) :
    (if (if v < 0 then v + (len : Int) else v) < 0 then (0 : Int)
      else if (if v < 0 then v + (len : Int) else v) > len then (len : Int)
      else (if v < 0 then v + (len : Int) else v)) = pyAdjust v len false := by
  unfold pyAdjust
  simp only [Bool.false_eq_true, if_false]
  split_ifs <;> omega

theorem pyAdjust_neg (v : Int) (len : Nat) :
    (if (if v < 0 then v + (len : Int) else v) < -1 then (-1 : Int)
      else if (if v < 0 then v + (len : Int) else v) > (len : Int) - 1 then (len : Int) - 1
      else (if v < 0 then v + (len : Int) else v)) = pyAdjust v len true := by
  unfold pyAdjust
  simp only [if_true]
  split_ifs <;> omega

theorem pyAdjust_neg' (v : Int) (len : Nat) :
    (if v < 0 then (if v + (len : Int) < -1 then (-1 : Int) else v + len)
      else (if v > (len : Int) - 1 then (len : Int) - 1 else v)) = pyAdjust v len true := by
  unfold pyAdjust
  simp only [if_true]
  split_ifs <;> omega

/-- the model's `sliceIndices` is `range(*slice(start, stop, step).indices(len))` cut after `len + 1` terms -/
theorem sliceIndices_eq (start stop step : Option Int) (len : Nat) (hne : step.getD 1 ≠ 0) :
    sliceIndices start stop step len = .ok (pyRange (pySliceIndices start stop step len).1
      (pySliceIndices start stop step len).2.1 (pySliceIndices start stop step len).2.2 (len + 1)) := by
  unfold sliceIndices pySliceIndices
  simp only
  rw [if_neg hne]
  split
  · rename_i hpos
    have hneg : decide (step.getD 1 < 0) = false := by simp; omega
    rw [hneg]
    cases start <;> cases stop <;> simp only [pyAdjust_pos] <;> rfl
  · rename_i hnpos
    have hneg : decide (step.getD 1 < 0) = true := by simp; omega
    rw [hneg]
    cases start <;> cases stop <;> simp only [pyAdjust_neg, pyAdjust_neg'] <;> rfl

theorem pyAdjust_false_bounds (v : Int) (len : Nat) :
    0 ≤ pyAdjust v len false ∧ pyAdjust v len false ≤ len := by
  unfold pyAdjust
  simp only [Bool.false_eq_true, if_false]
  split_ifs <;> omega

theorem pyAdjust_true_bounds (v : Int) (len : Nat) :
    -1 ≤ pyAdjust v len true ∧ pyAdjust v len true ≤ (len : Int) - 1 := by
  unfold pyAdjust
  simp only [if_true]
  split_ifs <;> omega

/-- the model's `sliceIndices` enumerates exactly Python's `range(*slice(start, stop, step).indices(len))`:
the fuel `len + 1` is enough -/
theorem sliceIndices_mem (start stop step : Option Int) (len : Nat) (l : List Nat)
    (h : sliceIndices start stop step len = .ok l) (x : Nat) :
    x ∈ l ↔ ∃ k : Nat,
      (x : Int) = (pySliceIndices start stop step len).1 + k * (pySliceIndices start stop step len).2.2 ∧
      (if 0 < (pySliceIndices start stop step len).2.2 then (x : Int) < (pySliceIndices start stop step len).2.1
       else (pySliceIndices start stop step len).2.1 < (x : Int)) := by
  by_cases hne : step.getD 1 = 0
  · unfold sliceIndices at h
    simp only at h
    rw [if_pos hne] at h
    cases h
  · rw [sliceIndices_eq start stop step len hne] at h
    injection h with h
    subst h
    have hst : (pySliceIndices start stop step len).2.2 = step.getD 1 := rfl
    by_cases hpos : 0 < step.getD 1
    · have hneg : decide (step.getD 1 < 0) = false := by simp; omega
      have ha : 0 ≤ (pySliceIndices start stop step len).1 ∧ (pySliceIndices start stop step len).1 ≤ len := by
        unfold pySliceIndices
        simp only [hneg]
        cases start
        · simp
        · exact pyAdjust_false_bounds _ _
      have hb : 0 ≤ (pySliceIndices start stop step len).2.1 ∧ (pySliceIndices start stop step len).2.1 ≤ len := by
        unfold pySliceIndices
        simp only [hneg]
        cases stop
        · simp
        · exact pyAdjust_false_bounds _ _
      rw [pyRange_pos_mem _ _ _ _ (by rw [hst]; exact hpos) ha.1 (by push_cast; omega), hst, if_pos hpos]
    · have hneg' : step.getD 1 < 0 := by omega
      have hneg : decide (step.getD 1 < 0) = true := by simp; omega
      have ha : -1 ≤ (pySliceIndices start stop step len).1 ∧
          (pySliceIndices start stop step len).1 ≤ (len : Int) - 1 := by
        unfold pySliceIndices
        simp only [hneg]
        cases start
        · simp
        · exact pyAdjust_true_bounds _ _
      have hb : -1 ≤ (pySliceIndices start stop step len).2.1 ∧
          (pySliceIndices start stop step len).2.1 ≤ (len : Int) - 1 := by
        unfold pySliceIndices
        simp only [hneg]
        cases stop
        · simp
        · exact pyAdjust_true_bounds _ _
      rw [pyRange_neg_mem _ _ _ _ (by rw [hst]; exact hneg') hb.1 (by push_cast; omega), hst, if_neg hpos]


/-! ## B. the selectors of a basic index expression -/

/-- a basic (non-array) entry of an index tuple: an integer, a slice or the ellipsis -/
def _root_.Furax.IdxEntry.isBasic : IdxEntry → Bool
  | .int _ | .slice .. | .ellipsis => true
  | _ => false

/-- a selector of a basic index expression over a dimension of size `d`: an integer, or a duplicate-free list
of in-bounds coordinates -/
def SelOK (s : Sel) (d : Nat) : Prop :=
  match s with
  | .int _ => True
  | .slice l => l.Nodup ∧ ∀ x ∈ l, x < d
  | .adv .. => False

/-- selector number `e` is a basic selector over dimension number `e` -/
def SelsOK (sels : List Sel) (shape : List Nat) : Prop :=
  ∀ e s, sels[e]? = some s → SelOK s (shape.getD e 0)

theorem SelsOK_append (l l2 : List Sel) (shape : List Nat) (h1 : SelsOK l shape)
    (h2 : ∀ k s, l2[k]? = some s → SelOK s (shape.getD (l.length + k) 0)) : SelsOK (l ++ l2) shape := by
  intro e s hs
  rw [List.getElem?_append] at hs
  split at hs
  · exact h1 e s hs
  · rename_i hge
    have := h2 (e - l.length) s hs
    rwa [show l.length + (e - l.length) = e by omega] at this

theorem SelsOK_snoc (l : List Sel) (s : Sel) (shape : List Nat) (h1 : SelsOK l shape)
    (h2 : SelOK s (shape.getD l.length 0)) : SelsOK (l ++ [s]) shape := by
  apply SelsOK_append l [s] shape h1
  intro k s' hs
  rw [List.getElem?_singleton] at hs
  split at hs
  · rename_i hk; subst hk
    injection hs with hs; subst hs; exact h2
  · cases hs

def nEllOf (es : List IdxEntry) : Nat := (es.filter (· == .ellipsis)).length

theorem go_basic (shape : List Nat) (fill : Nat) (es : List IdxEntry) (dim : Nat) (acc sels : List Sel)
    (hes : ∀ e ∈ es, IdxEntry.isBasic e = true) (hacc : acc.length = dim) (hok : SelsOK acc.reverse shape)
    (h : toSels.go shape fill es dim acc = .ok sels) :
    SelsOK sels shape ∧ sels.length = dim + (es.map consumed).sum + fill * nEllOf es := by
  induction es generalizing dim acc with
  | nil =>
    simp only [toSels.go] at h
    injection h with h; subst h
    exact ⟨hok, by simp [nEllOf, hacc]⟩
  | cons e es ih =>
    have hes' : ∀ e ∈ es, IdxEntry.isBasic e = true := fun e he => hes e (List.mem_cons_of_mem _ he)
    have he := hes e List.mem_cons_self
    cases e with
    | int i =>
      rw [toSels.go] at h
      obtain ⟨h1, h2⟩ := ih (dim + 1) (.int i :: acc) hes' (by simp [hacc]) (by
        rw [List.reverse_cons]
        exact SelsOK_snoc _ _ _ hok trivial) h
      refine ⟨h1, ?_⟩
      rw [h2]
      simp [nEllOf, consumed]
      omega
    | slice a b c =>
      rw [toSels.go] at h
      split at h
      · rename_i l hl
        obtain ⟨h1, h2⟩ := ih (dim + 1) (.slice l :: acc) hes' (by simp [hacc]) (by
          rw [List.reverse_cons]
          refine SelsOK_snoc _ _ _ hok ?_
          rw [List.length_reverse, hacc]
          exact sliceIndices_nodup a b c _ l hl) h
        refine ⟨h1, ?_⟩
        rw [h2]
        simp [nEllOf, consumed]
        omega
      · cases h
    | ellipsis =>
      rw [toSels.go] at h
      obtain ⟨h1, h2⟩ := ih (dim + fill) _ hes' (by simp [hacc]; omega) (by
        rw [List.reverse_append, List.reverse_reverse]
        refine SelsOK_append _ _ _ hok ?_
        intro k s hs
        rw [List.getElem?_map] at hs
        cases hk : (List.range fill)[k]? with
        | none => rw [hk] at hs; cases hs
        | some k' =>
          rw [hk] at hs
          have hk2 := List.getElem?_eq_some_iff.mp hk
          obtain ⟨hk3, hk4⟩ := hk2
          rw [List.getElem_range] at hk4
          subst hk4
          injection hs with hs; subst hs
          rw [List.length_reverse, hacc]
          exact ⟨List.nodup_range, fun x hx => List.mem_range.mp hx⟩) h
      refine ⟨h1, ?_⟩
      rw [h2]
      simp [nEllOf, consumed, Nat.mul_add]
      omega
    | iarr sh v => simp [IdxEntry.isBasic] at he
    | barr sh v => simp [IdxEntry.isBasic] at he

theorem toSels_basic (shape : List Nat) (idx : List IdxEntry) (sels : List Sel)
    (hb : ∀ e ∈ idx, IdxEntry.isBasic e = true) (h : toSels shape idx = .ok sels) :
    sels.length = shape.length ∧ SelsOK sels shape := by
  unfold toSels at h
  simp only at h
  split at h
  · cases h
  · rename_i hn
    split at h
    · cases h
    · rename_i hu
      by_cases h0 : (idx.filter (· == .ellipsis)).length = 0
      · simp only [h0, beq_self_eq_true, if_true] at h
        obtain ⟨h1, h2⟩ := go_basic shape _ (idx ++ [.ellipsis]) 0 [] sels (by
          intro e he
          rcases List.mem_append.mp he with he | he
          · exact hb e he
          · simp at he; subst he; rfl) rfl (by intro e s hs; simp at hs) h
        refine ⟨?_, h1⟩
        rw [h2]
        simp only [nEllOf, List.filter_append, List.length_append, h0, List.map_append, List.sum_append]
        simp [consumed]
        omega
      · have h1' : (idx.filter (· == .ellipsis)).length = 1 := by omega
        have hne : ((idx.filter (· == .ellipsis)).length == 0) = false := by simp [h0]
        simp only [hne] at h
        obtain ⟨h1, h2⟩ := go_basic shape _ idx 0 [] sels hb rfl (by intro e s hs; simp at hs) h
        refine ⟨?_, h1⟩
        rw [h2]
        simp only [nEllOf, h1']
        omega


/-! ## C. the position map of a basic index expression -/

theorem except_mapM_ok_inv {ε β γ : Type} (f : β → Except ε γ) (l : List β) (r : List γ)
    (h : l.mapM f = .ok r) : List.Forall₂ (fun b c => f b = .ok c) l r := by
  induction l generalizing r with
  | nil =>
    rw [List.mapM_nil] at h
    injection h with h; subst h; exact .nil
  | cons b bs ih =>
    rw [List.mapM_cons] at h
    cases hb : f b with
    | error e => rw [hb] at h; cases h
    | ok c =>
      cases hbs : bs.mapM f with
      | error e => rw [hb, hbs] at h; cases h
      | ok cs =>
        rw [hb, hbs] at h
        injection h with h; subst h
        exact .cons hb (ih cs hbs)

/-- no selector of a basic expression is an array -/
theorem hasArrOf_basic (sels : List Sel) (shape : List Nat) (h : SelsOK sels shape) : hasArrOf sels = false := by
  unfold hasArrOf
  rw [List.any_eq_false]
  intro s hs
  obtain ⟨e, he, rfl⟩ := List.getElem_of_mem hs
  have := h e sels[e] (List.getElem?_eq_getElem he)
  cases hse : sels[e] with
  | adv sh v => rw [hse] at this; exact this.elim
  | _ => simp

theorem advShapesOf_basic (sels : List Sel) (shape : List Nat) (h : SelsOK sels shape) :
    advShapesOf sels false = [] := by
  unfold advShapesOf
  apply filterMap_eq_nil_of
  intro s hs
  obtain ⟨e, he, rfl⟩ := List.getElem_of_mem hs
  have := h e sels[e] (List.getElem?_eq_getElem he)
  cases hse : sels[e] with
  | adv sh v => rw [hse] at this; exact this.elim
  | _ => simp

theorem sliceDescsOf_mem (sels : List Sel) (p : Nat × Nat) :
    p ∈ sliceDescsOf sels ↔
      p.1 < sels.length ∧ ∃ l, sels.getD p.1 (.int 0) = .slice l ∧ p.2 = l.length := by
  unfold sliceDescsOf
  rw [List.mem_filterMap]
  constructor
  · rintro ⟨k, hk, hm⟩
    split at hm
    · rename_i l hl
      injection hm with hm; subst hm
      exact ⟨List.mem_range.mp hk, l, hl, rfl⟩
    · cases hm
  · rintro ⟨h1, l, h2, h3⟩
    refine ⟨p.1, List.mem_range.mpr h1, ?_⟩
    rw [h2]
    simp only [← h3]

theorem sliceDescsOf_pairwise (sels : List Sel) :
    (sliceDescsOf sels).Pairwise (fun a b => a.1 < b.1) := by
  unfold sliceDescsOf
  refine List.Pairwise.filterMap _ ?_ List.pairwise_lt_range
  intro a a' haa b hb b' hb'
  split at hb
  · split at hb'
    · injection hb with hb; injection hb' with hb'; subst hb; subst hb'; exact haa
    · cases hb'
  · cases hb

/-- the output dimension descriptors of an expression without arrays: one per slice selector -/
def descsB (sels : List Sel) : List (Option Nat × Nat) :=
  (sliceDescsOf sels).map fun p => (some p.1, p.2)

theorem descsB_length (sels : List Sel) : (descsB sels).length = (sliceDescsOf sels).length := by
  simp [descsB]

theorem descsB_getD (sels : List Sel) (j : Nat) (hj : j < (sliceDescsOf sels).length) :
    (descsB sels).getD j (none, 0) = (some ((sliceDescsOf sels)[j]).1, ((sliceDescsOf sels)[j]).2) := by
  rw [List.getD_eq_getElem _ _ (by rw [descsB_length]; exact hj)]
  simp [descsB]

theorem find_desc (sels : List Sel) (j0 : Nat) (hj : j0 < (sliceDescsOf sels).length) :
    (List.range (descsB sels).length).find?
        (fun j => ((descsB sels).getD j (none, 0)).1 == some ((sliceDescsOf sels)[j0]).1) = some j0 := by
  apply find?_range_first
  · rw [descsB_length]; exact hj
  · rw [descsB_getD sels j0 hj]; simp
  · intro i hi
    rw [descsB_getD sels i (by omega)]
    have := List.pairwise_iff_getElem.mp (sliceDescsOf_pairwise sels) i j0 (by omega) hj hi
    simp only [beq_eq_false_iff_ne, ne_eq, Option.some.injEq]
    omega

theorem normE_lt (i : Int) (d v : Nat) (h : normE i d = .ok v) : v < d := by
  unfold normE at h
  simp only at h
  by_cases hc : (if i < 0 then i + (d : Int) else i) < 0 ∨ (if i < 0 then i + (d : Int) else i) ≥ d
  · rw [if_pos hc] at h; cases h
  · rw [if_neg hc] at h
    injection h with h; omega

theorem inIdxOf_basic (sels : List Sel) (shape : List Nat) (hlen : sels.length = shape.length)
    (hok : SelsOK sels shape) (oi bIdx inIdx : List Nat)
    (hoi : ∀ j (hj : j < (sliceDescsOf sels).length), oi.getD j 0 < ((sliceDescsOf sels)[j]).2)
    (h : inIdxOf sels shape (descsB sels) oi bIdx = .ok inIdx) :
    List.Forall₂ (· < ·) inIdx shape ∧
      ∀ j (hj : j < (sliceDescsOf sels).length), ∃ l,
        sels.getD ((sliceDescsOf sels)[j]).1 (.int 0) = .slice l ∧ l.length = ((sliceDescsOf sels)[j]).2 ∧
        inIdx.getD ((sliceDescsOf sels)[j]).1 0 = l.getD (oi.getD j 0) 0 := by
  unfold inIdxOf at h
  have hf := except_mapM_ok_inv _ _ _ h
  rw [List.forall₂_iff_get] at hf
  obtain ⟨hl, hf⟩ := hf
  rw [List.length_range] at hl
  have key : ∀ e (he : e < sels.length), ∀ l, sels.getD e (.int 0) = .slice l →
      ∃ j0, ∃ (hj0 : j0 < (sliceDescsOf sels).length), (sliceDescsOf sels)[j0] = (e, l.length) ∧
        inIdx.getD e 0 = l.getD (oi.getD j0 0) 0 := by
    intro e he l hsl
    have hmem : (e, l.length) ∈ sliceDescsOf sels := (sliceDescsOf_mem sels _).mpr ⟨he, l, hsl, rfl⟩
    obtain ⟨j0, hj0, hj0e⟩ := List.getElem_of_mem hmem
    refine ⟨j0, hj0, hj0e, ?_⟩
    have := hf e (by simpa using he) (by omega)
    simp only [List.get_eq_getElem, List.getElem_range] at this
    rw [hsl] at this
    simp only at this
    have hfd := find_desc sels j0 hj0
    rw [hj0e] at hfd
    rw [hfd] at this
    injection this with this
    rw [List.getD_eq_getElem _ _ (by omega), ← this]
    rfl
  constructor
  · rw [Furax.Diagonal.forall2_lt_iff]
    refine ⟨by omega, fun e he => ?_⟩
    have hes : e < sels.length := by omega
    have hsok := hok e sels[e] (List.getElem?_eq_getElem hes)
    have hgd : sels.getD e (.int 0) = sels[e] := List.getD_eq_getElem _ _ hes
    cases hse : sels[e] with
    | adv sh v => rw [hse] at hsok; exact hsok.elim
    | int i =>
      have := hf e (by simpa using hes) (by omega)
      simp only [List.get_eq_getElem, List.getElem_range] at this
      rw [hgd, hse] at this
      simp only at this
      rw [List.getD_eq_getElem _ _ (by omega)]
      exact normE_lt _ _ _ this
    | slice l =>
      rw [hse] at hsok hgd
      obtain ⟨j0, hj0, hj0e, hv⟩ := key e hes l hgd
      rw [hv]
      have := hoi j0 hj0
      rw [hj0e] at this
      simp only at this
      rw [List.getD_eq_getElem _ _ this]
      exact hsok.2 _ (List.getElem_mem _)
  · intro j hj
    have hmem := (sliceDescsOf_mem sels _).mp (List.getElem_mem hj)
    obtain ⟨he, l, hsl, h2⟩ := hmem
    refine ⟨l, hsl, h2.symm, ?_⟩
    obtain ⟨j0, hj0, hj0e, hv⟩ := key _ he l hsl
    have hjj : j0 = j := by
      have hp := List.pairwise_iff_getElem.mp (sliceDescsOf_pairwise sels)
      rcases Nat.lt_trichotomy j0 j with hlt | heq | hgt
      · have := hp j0 j hj0 hj hlt; rw [hj0e] at this; simp only at this; omega
      · exact heq
      · have := hp j j0 hj hj0 hgt; rw [hj0e] at this; simp only at this; omega
    rw [hv, hjj]

/-- the result shape of an expression without arrays: the lengths of the slice selectors -/
def outShapeB (sels : List Sel) : List Nat := (descsB sels).map (·.2)

/-- the flat input position selected by output element `k` (expression without arrays) -/
def pointB (sels : List Sel) (shape : List Nat) (k : Nat) : Except PyErr Nat := do
  let oi := unravel (outShapeB sels) k
  let inIdx ← inIdxOf sels shape (descsB sels) oi (bIdxOf (descsB sels) oi)
  pure (ravelIdx shape inIdx)

theorem point_basic (sels : List Sel) (shape : List Nat) (hlen : sels.length = shape.length)
    (hok : SelsOK sels shape) (k : Nat) (hk : k < prodNat (outShapeB sels)) (p : Nat)
    (h : pointB sels shape k = .ok p) :
    ∃ inIdx, List.Forall₂ (· < ·) inIdx shape ∧ p = ravelIdx shape inIdx ∧
      ∀ j (hj : j < (sliceDescsOf sels).length), ∃ l,
        sels.getD ((sliceDescsOf sels)[j]).1 (.int 0) = .slice l ∧ l.length = ((sliceDescsOf sels)[j]).2 ∧
        inIdx.getD ((sliceDescsOf sels)[j]).1 0 = l.getD ((unravel (outShapeB sels) k).getD j 0) 0 := by
  unfold pointB at h
  simp only [bind, Except.bind] at h
  split at h
  · cases h
  · rename_i inIdx hin
    injection h with h
    have hoi : ∀ j (hj : j < (sliceDescsOf sels).length),
        (unravel (outShapeB sels) k).getD j 0 < ((sliceDescsOf sels)[j]).2 := by
      intro j hj
      have := unravel_getD_lt (outShapeB sels) k j hk (by simpa [outShapeB, descsB] using hj)
      rwa [List.getD_eq_getElem (outShapeB sels) 0 (by simpa [outShapeB, descsB] using hj),
        show (outShapeB sels)[j]'(by simpa [outShapeB, descsB] using hj) = ((sliceDescsOf sels)[j]).2 by
          simp [outShapeB, descsB]] at this
    obtain ⟨h1, h2⟩ := inIdxOf_basic sels shape hlen hok _ _ inIdx hoi hin
    exact ⟨inIdx, h1, h.symm, h2⟩

theorem positions_basic (sels : List Sel) (shape : List Nat) (hlen : sels.length = shape.length)
    (hok : SelsOK sels shape) (pos : List Nat)
    (h : (List.range (prodNat (outShapeB sels))).mapM (pointB sels shape) = .ok pos) :
    pos.Nodup ∧ (∀ p ∈ pos, p < prodNat shape) ∧ pos.length = prodNat (outShapeB sels) := by
  have hf := except_mapM_ok_inv _ _ _ h
  rw [List.forall₂_iff_get] at hf
  obtain ⟨hl, hf⟩ := hf
  rw [List.length_range] at hl
  have hpt : ∀ k (hk : k < pos.length), pointB sels shape k = .ok pos[k] := by
    intro k hk
    have := hf k (by simpa using (by omega : k < prodNat (outShapeB sels))) hk
    simpa using this
  refine ⟨?_, ?_, hl.symm⟩
  · rw [List.Nodup, List.pairwise_iff_getElem]
    intro k1 k2 hk1 hk2 hlt heq
    obtain ⟨in1, v1, e1, s1⟩ := point_basic sels shape hlen hok k1 (by omega) _ (hpt k1 hk1)
    obtain ⟨in2, v2, e2, s2⟩ := point_basic sels shape hlen hok k2 (by omega) _ (hpt k2 hk2)
    have hin : in1 = in2 := by
      rw [← (ma_ravel_valid shape in1 v1).2, ← (ma_ravel_valid shape in2 v2).2, ← e1, ← e2, heq]
    subst hin
    have hoi : unravel (outShapeB sels) k1 = unravel (outShapeB sels) k2 := by
      apply List.ext_getElem
      · rw [ma_unravel_length, ma_unravel_length]
      · intro j hj1 hj2
        have hj : j < (sliceDescsOf sels).length := by
          rw [ma_unravel_length] at hj1; simpa [outShapeB, descsB] using hj1
        obtain ⟨l, a1, b1, c1⟩ := s1 j hj
        obtain ⟨l', a2, b2, c2⟩ := s2 j hj
        rw [a1] at a2
        injection a2 with a2
        subst a2
        have hnd : l.Nodup := by
          have hmem := (sliceDescsOf_mem sels _).mp (List.getElem_mem hj)
          have := hok _ _ (List.getElem?_eq_getElem hmem.1)
          rw [← List.getD_eq_getElem _ (.int 0) hmem.1, a1] at this
          exact this.1
        have hv1 := unravel_getD_lt (outShapeB sels) k1 j (by omega) (by simpa [outShapeB, descsB] using hj)
        have hv2 := unravel_getD_lt (outShapeB sels) k2 j (by omega) (by simpa [outShapeB, descsB] using hj)
        have hos : (outShapeB sels).getD j 0 = l.length := by
          rw [List.getD_eq_getElem _ _ (by simpa [outShapeB, descsB] using hj), b1]; simp [outShapeB, descsB]
        rw [hos] at hv1 hv2
        rw [c1] at c2
        rw [List.getD_eq_getElem l 0 hv1, List.getD_eq_getElem l 0 hv2] at c2
        have := (List.Nodup.getElem_inj_iff hnd).mp c2
        rwa [List.getD_eq_getElem _ _ hj1, List.getD_eq_getElem _ _ hj2] at this
    have r1 := (ma_unravel_valid (outShapeB sels) k1 (by omega)).2
    have r2 := (ma_unravel_valid (outShapeB sels) k2 (by omega)).2
    rw [hoi] at r1
    omega
  · intro p hp
    obtain ⟨k, hk, rfl⟩ := List.getElem_of_mem hp
    obtain ⟨in1, v1, e1, _⟩ := point_basic sels shape hlen hok k (by omega) _ (hpt k hk)
    rw [e1]
    exact (ma_ravel_valid shape in1 v1).1

theorem indexPositions'_basic (shape : List Nat) (idx : List IdxEntry) (sels : List Sel)
    (hs : toSels shape idx = .ok sels) (hok : SelsOK sels shape) :
    indexPositions' shape idx = (do
      let positions ← (List.range (prodNat (outShapeB sels))).mapM (pointB sels shape)
      pure (outShapeB sels, positions)) := by
  unfold indexPositions'
  rw [hs]
  simp only [bind, Except.bind, hasArrOf_basic sels shape hok, advShapesOf_basic sels shape hok]
  rw [show bshapeOf [] = .ok [] from rfl]
  rfl

theorem indexPositions_basic (shape : List Nat) (idx : List IdxEntry) (outShape pos : List Nat)
    (hb : ∀ e ∈ idx, IdxEntry.isBasic e = true) (h : indexPositions shape idx = .ok (outShape, pos)) :
    pos.Nodup ∧ (∀ p ∈ pos, p < prodNat shape) ∧ pos.length = prodNat outShape := by
  rw [indexPositions_eq'] at h
  cases hs : toSels shape idx with
  | error e =>
    unfold indexPositions' at h
    rw [hs] at h; cases h
  | ok sels =>
    obtain ⟨hlen, hok⟩ := toSels_basic shape idx sels hb hs
    rw [indexPositions'_basic shape idx sels hs hok] at h
    cases hp : (List.range (prodNat (outShapeB sels))).mapM (pointB sels shape) with
    | error e => rw [hp] at h; cases h
    | ok pos' =>
      rw [hp] at h
      injection h with h
      injection h with h1 h2
      subst h1; subst h2
      exact positions_basic sels shape hlen hok pos' hp


end Furax.Index
