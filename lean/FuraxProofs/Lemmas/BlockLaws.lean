import FuraxModel.BlockSem
import Mathlib.Data.List.Forall2
import Mathlib.Algebra.Ring.Defs
import Mathlib.Algebra.BigOperators.Group.List.Basic
import Mathlib.Tactic.Ring

/-!
Algebra of block operators (Level B, `FuraxModel/BlockSem.lean`).

The four rewrite rules "adjacent block operators with the same layout simplify to block-wise products":

* `diag_diag` : BlockDiagonal(A_i) @ BlockDiagonal(B_i) = BlockDiagonal(A_i @ B_i)
* `diag_col`  : BlockDiagonal(A_i) @ BlockColumn(B_i)   = BlockColumn(A_i @ B_i)
* `row_diag`  : BlockRow(A_i)      @ BlockDiagonal(B_i) = BlockRow(A_i @ B_i)
* `row_col`   : BlockRow(A_i)      @ BlockColumn(B_i)   = Σ_i A_i @ B_i

Hypotheses are phrased with
* `Composable ls rs` := `List.Forall₂ (fun l r => l.cin = r.cout) ls rs`
  (same number of blocks, and slot by slot the right block outputs what the left block consumes;
  `composable_iff` gives the index form), and
* `AllHonest bs` := `∀ b ∈ bs, b.Honest`.
-/

namespace Furax
namespace BlockSem
variable {W : Type}

/-! ## Vocabulary -/

/-- every block maps `cin` leaves to `cout` leaves -/
def AllHonest (bs : List (Block W)) : Prop := ∀ b ∈ bs, b.Honest

/-- same number of blocks, and `ls[i].cin = rs[i].cout` slot by slot -/
def Composable (ls rs : List (Block W)) : Prop :=
  List.Forall₂ (fun l r => l.cin = r.cout) ls rs

/-- index form of `Composable` -/
theorem composable_iff {ls rs : List (Block W)} :
    Composable ls rs ↔
      ls.length = rs.length ∧
        ∀ (i : Nat) (h₁ : i < ls.length) (h₂ : i < rs.length), ls[i].cin = rs[i].cout := by
  unfold Composable
  rw [List.forall₂_iff_get]
  simp

theorem Composable.length_eq {ls rs : List (Block W)} (h : Composable ls rs) :
    ls.length = rs.length := List.Forall₂.length_eq h

/-- total number of input leaves of a block diagonal / block row -/
abbrev cinSum (bs : List (Block W)) : Nat := (bs.map (·.cin)).sum

/-- total number of output leaves of a block diagonal / block column -/
abbrev coutSum (bs : List (Block W)) : Nat := (bs.map (·.cout)).sum

/-- the list of block outputs `[bs[0].f x₀, bs[1].f x₁, …]` where `xᵢ` is the `i`-th slice of `x` -/
def parts (bs : List (Block W)) (x : List W) : List (List W) :=
  List.zipWith (fun (b : Block W) xi => b.f xi) bs (splitBy (bs.map (·.cin)) x)

/-- leaf-wise sum of a list of pytrees, starting from the first one (the shape used by `denRow`) -/
def sumLeaves [Add W] : List (List W) → List W
  | [] => []
  | y :: ys => ys.foldl addLeaves y

theorem sumLeaves_eq_match [Add W] (L : List (List W)) :
    sumLeaves L = match L with
      | [] => []
      | y :: ys => ys.foldl addLeaves y := by
  cases L <;> rfl

theorem denDiag_eq_parts (bs : List (Block W)) (x : List W) :
    denDiag bs x = (parts bs x).flatten := rfl

theorem denRow_eq_parts [Add W] (bs : List (Block W)) (x : List W) :
    denRow bs x = sumLeaves (parts bs x) := by
  unfold denRow
  rw [sumLeaves_eq_match]
  rfl

/-! ## 1. `splitBy` -/

@[simp] theorem splitBy_nil (x : List W) : splitBy [] x = [] := rfl

@[simp] theorem splitBy_cons (n : Nat) (ns : List Nat) (x : List W) :
    splitBy (n :: ns) x = x.take n :: splitBy ns (x.drop n) := rfl

theorem length_splitBy (ns : List Nat) (x : List W) : (splitBy ns x).length = ns.length := by
  induction ns generalizing x with
  | nil => rfl
  | cons n ns ih => simp [ih]

/-- cutting a concatenation at the lengths of its pieces gives the pieces back -/
theorem splitBy_flatten (ys : List (List W)) (ns : List Nat) (h : ys.map List.length = ns) :
    splitBy ns ys.flatten = ys := by
  subst h
  induction ys with
  | nil => rfl
  | cons y ys ih => simp [ih]

/-- the slices, laid side by side, are the first `ns.sum` leaves -/
theorem flatten_splitBy (ns : List Nat) (x : List W) :
    (splitBy ns x).flatten = x.take ns.sum := by
  induction ns generalizing x with
  | nil => simp
  | cons n ns ih => simp [ih, List.take_add]

theorem flatten_splitBy_of_length (ns : List Nat) (x : List W) (h : x.length = ns.sum) :
    (splitBy ns x).flatten = x := by
  rw [flatten_splitBy, ← h, List.take_length]

/-- the slices have the prescribed lengths when there are enough leaves -/
theorem map_length_splitBy (ns : List Nat) (x : List W) (h : ns.sum ≤ x.length) :
    (splitBy ns x).map List.length = ns := by
  induction ns generalizing x with
  | nil => rfl
  | cons n ns ih =>
    simp only [List.sum_cons] at h
    have : ns.sum ≤ (x.drop n).length := by simp; omega
    simp [ih _ this]; omega

/-! ## Unfolding one block -/

@[simp] theorem parts_nil (x : List W) : parts [] x = [] := rfl

theorem parts_cons (b : Block W) (bs : List (Block W)) (x : List W) :
    parts (b :: bs) x = b.f (x.take b.cin) :: parts bs (x.drop b.cin) := rfl

theorem parts_cons_append (b : Block W) (bs : List (Block W)) (a x : List W)
    (h : a.length = b.cin) : parts (b :: bs) (a ++ x) = b.f a :: parts bs x := by
  rw [parts_cons, List.take_left' h, List.drop_left' h]

theorem length_parts (bs : List (Block W)) (x : List W) : (parts bs x).length = bs.length := by
  simp [parts, length_splitBy]

@[simp] theorem denCol_nil (x : List W) : denCol [] x = [] := rfl

theorem denCol_cons (b : Block W) (bs : List (Block W)) (x : List W) :
    denCol (b :: bs) x = b.f x ++ denCol bs x := rfl

@[simp] theorem denDiag_nil (x : List W) : denDiag [] x = [] := rfl

theorem denDiag_cons (b : Block W) (bs : List (Block W)) (x : List W) :
    denDiag (b :: bs) x = b.f (x.take b.cin) ++ denDiag bs (x.drop b.cin) := rfl

theorem denDiag_cons_append (b : Block W) (bs : List (Block W)) (a x : List W)
    (h : a.length = b.cin) : denDiag (b :: bs) (a ++ x) = b.f a ++ denDiag bs x := by
  rw [denDiag_cons, List.take_left' h, List.drop_left' h]

theorem AllHonest.head {b : Block W} {bs : List (Block W)} (h : AllHonest (b :: bs)) :
    b.Honest := h b (by simp)

theorem AllHonest.tail {b : Block W} {bs : List (Block W)} (h : AllHonest (b :: bs)) :
    AllHonest bs := fun c hc => h c (by simp [hc])

/-! ## 7. Honesty of the composites -/

/-- the `i`-th output of a block diagonal/row has `bs[i].cout` leaves -/
theorem map_length_parts (bs : List (Block W)) (hb : AllHonest bs) (x : List W)
    (hx : cinSum bs ≤ x.length) : (parts bs x).map List.length = bs.map (·.cout) := by
  induction bs generalizing x with
  | nil => rfl
  | cons b bs ih =>
    simp only [cinSum, List.map_cons, List.sum_cons] at hx
    have h1 : (x.take b.cin).length = b.cin := by simp; omega
    have h2 : cinSum bs ≤ (x.drop b.cin).length := by simp [cinSum]; omega
    rw [parts_cons, List.map_cons, List.map_cons, ih hb.tail _ h2, hb.head _ h1]

/-- `denDiag bs` produces `Σ cout` leaves as soon as it is given at least `Σ cin` leaves -/
theorem length_denDiag_of_le (bs : List (Block W)) (hb : AllHonest bs) (x : List W)
    (hx : cinSum bs ≤ x.length) : (denDiag bs x).length = coutSum bs := by
  rw [denDiag_eq_parts, List.length_flatten, map_length_parts bs hb x hx]

/-- `denDiag bs` maps `(bs.map cin).sum` leaves to `(bs.map cout).sum` leaves -/
theorem length_denDiag (bs : List (Block W)) (hb : AllHonest bs) (x : List W)
    (hx : x.length = (bs.map (·.cin)).sum) :
    (denDiag bs x).length = (bs.map (·.cout)).sum :=
  length_denDiag_of_le bs hb x (Nat.le_of_eq hx.symm)

/-- `denCol bs` maps `n` leaves to `(bs.map cout).sum` leaves when every block has `cin = n` -/
theorem length_denCol (bs : List (Block W)) (hb : AllHonest bs) (x : List W)
    (hx : ∀ b ∈ bs, b.cin = x.length) :
    (denCol bs x).length = (bs.map (·.cout)).sum := by
  induction bs with
  | nil => rfl
  | cons b bs ih =>
    rw [denCol_cons, List.length_append, ih hb.tail (fun c hc => hx c (by simp [hc])),
      hb.head x (hx b (by simp)).symm]
    simp

/-- the block-diagonal operator as a block -/
def diagBlock (bs : List (Block W)) : Block W := ⟨denDiag bs, cinSum bs, coutSum bs⟩

/-- the block-column operator on `n` input leaves as a block -/
def colBlock (n : Nat) (bs : List (Block W)) : Block W := ⟨denCol bs, n, coutSum bs⟩

theorem diagBlock_honest (bs : List (Block W)) (hb : AllHonest bs) : (diagBlock bs).Honest :=
  fun x hx => length_denDiag bs hb x hx

theorem colBlock_honest (n : Nat) (bs : List (Block W)) (hb : AllHonest bs)
    (hn : ∀ b ∈ bs, b.cin = n) : (colBlock n bs).Honest :=
  fun x hx => length_denCol bs hb x (fun b h => (hn b h).trans hx.symm)

/-- block-wise products of honest blocks are honest -/
theorem comp_honest {l r : Block W} (hl : l.Honest) (hr : r.Honest) (h : l.cin = r.cout) :
    (l.comp r).Honest := fun x hx => hl _ ((hr x hx).trans h.symm)

theorem allHonest_zipWith_comp {ls rs : List (Block W)} (h : Composable ls rs)
    (hl : AllHonest ls) (hr : AllHonest rs) : AllHonest (List.zipWith Block.comp ls rs) := by
  induction h with
  | nil => intro b hb; simp at hb
  | cons hlr _ ih =>
    intro b hb
    rw [List.zipWith_cons_cons, List.mem_cons] at hb
    rcases hb with rfl | hb
    · exact comp_honest hl.head hr.head hlr
    · exact ih hl.tail hr.tail b hb

/-! ## The two key facts: outputs of the left blocks on a block-structured input -/

/-- feeding a block-diagonal output to the left blocks, slice by slice, is applying the block-wise
products to the slices of the input -/
theorem parts_denDiag {ls rs : List (Block W)} (h : Composable ls rs) (hr : AllHonest rs)
    (x : List W) (hx : cinSum rs ≤ x.length) :
    parts ls (denDiag rs x) = parts (List.zipWith Block.comp ls rs) x := by
  induction h generalizing x with
  | nil => rfl
  | @cons l r ls rs hlr _ ih =>
    simp only [cinSum, List.map_cons, List.sum_cons] at hx
    have h1 : (x.take r.cin).length = r.cin := by simp; omega
    have h2 : cinSum rs ≤ (x.drop r.cin).length := by simp [cinSum]; omega
    have h3 : (r.f (x.take r.cin)).length = l.cin := (hr.head _ h1).trans hlr.symm
    rw [denDiag_cons, parts_cons_append _ _ _ _ h3, ih hr.tail _ h2, List.zipWith_cons_cons,
      parts_cons]
    rfl

/-- feeding a block-column output to the left blocks, slice by slice, is applying every block-wise
product to the whole input -/
theorem parts_denCol {ls rs : List (Block W)} (h : Composable ls rs) (hr : AllHonest rs)
    (x : List W) (hx : ∀ r ∈ rs, r.cin = x.length) :
    parts ls (denCol rs x) = (List.zipWith Block.comp ls rs).map (fun b => b.f x) := by
  induction h with
  | nil => rfl
  | @cons l r ls rs hlr _ ih =>
    have h3 : (r.f x).length = l.cin := (hr.head x (hx r (by simp)).symm).trans hlr.symm
    rw [denCol_cons, parts_cons_append _ _ _ _ h3, ih hr.tail (fun c hc => hx c (by simp [hc])),
      List.zipWith_cons_cons, List.map_cons]
    rfl

/-! ## 2–5. The four rewrite rules -/

/-- BlockDiagonal(A_i) @ BlockDiagonal(B_i) = BlockDiagonal(A_i @ B_i), on any input with at least
`Σ rs[i].cin` leaves -/
theorem diag_diag_of_le {ls rs : List (Block W)} (h : Composable ls rs) (hr : AllHonest rs)
    (x : List W) (hx : (rs.map (·.cin)).sum ≤ x.length) :
    denDiag ls (denDiag rs x) = denDiag (List.zipWith Block.comp ls rs) x := by
  rw [denDiag_eq_parts ls, parts_denDiag h hr x hx, ← denDiag_eq_parts]

/-- BlockDiagonal(A_i) @ BlockDiagonal(B_i) = BlockDiagonal(A_i @ B_i) -/
theorem diag_diag {ls rs : List (Block W)} (h : Composable ls rs) (hr : AllHonest rs)
    (x : List W) (hx : x.length = (rs.map (·.cin)).sum) :
    denDiag ls (denDiag rs x) = denDiag (List.zipWith Block.comp ls rs) x :=
  diag_diag_of_le h hr x (Nat.le_of_eq hx.symm)

/-- BlockDiagonal(A_i) @ BlockColumn(B_i) = BlockColumn(A_i @ B_i) -/
theorem diag_col {ls rs : List (Block W)} (h : Composable ls rs) (hr : AllHonest rs)
    (x : List W) (hx : ∀ r ∈ rs, r.cin = x.length) :
    denDiag ls (denCol rs x) = denCol (List.zipWith Block.comp ls rs) x := by
  rw [denDiag_eq_parts ls, parts_denCol h hr x hx]
  rfl

/-- BlockRow(A_i) @ BlockDiagonal(B_i) = BlockRow(A_i @ B_i), on any input with at least
`Σ rs[i].cin` leaves -/
theorem row_diag_of_le [Add W] {ls rs : List (Block W)} (h : Composable ls rs)
    (hr : AllHonest rs) (x : List W) (hx : (rs.map (·.cin)).sum ≤ x.length) :
    denRow ls (denDiag rs x) = denRow (List.zipWith Block.comp ls rs) x := by
  rw [denRow_eq_parts ls, parts_denDiag h hr x hx, ← denRow_eq_parts]

/-- BlockRow(A_i) @ BlockDiagonal(B_i) = BlockRow(A_i @ B_i) -/
theorem row_diag [Add W] {ls rs : List (Block W)} (h : Composable ls rs) (hr : AllHonest rs)
    (x : List W) (hx : x.length = (rs.map (·.cin)).sum) :
    denRow ls (denDiag rs x) = denRow (List.zipWith Block.comp ls rs) x :=
  row_diag_of_le h hr x (Nat.le_of_eq hx.symm)

/-- BlockRow(A_i) @ BlockColumn(B_i) = Σ_i A_i @ B_i (leaf-wise sum, starting from the first term) -/
theorem row_col [Add W] {ls rs : List (Block W)} (h : Composable ls rs) (hr : AllHonest rs)
    (x : List W) (hx : ∀ r ∈ rs, r.cin = x.length) :
    denRow ls (denCol rs x) =
      match (List.zipWith Block.comp ls rs).map (fun b => b.f x) with
      | [] => []
      | y :: ys => ys.foldl addLeaves y := by
  rw [denRow_eq_parts ls, parts_denCol h hr x hx, sumLeaves_eq_match]

/-- `row_col` with the sum written `sumLeaves` and the products written out -/
theorem row_col_sumLeaves [Add W] {ls rs : List (Block W)} (h : Composable ls rs)
    (hr : AllHonest rs) (x : List W) (hx : ∀ r ∈ rs, r.cin = x.length) :
    denRow ls (denCol rs x) = sumLeaves (List.zipWith (fun l r => l.f (r.f x)) ls rs) := by
  rw [denRow_eq_parts ls, parts_denCol h hr x hx, List.map_zipWith]
  rfl

/-! ## 6. A one-block operator is its block -/

theorem denDiag_single (b : Block W) (x : List W) : denDiag [b] x = b.f (x.take b.cin) := by
  simp [denDiag_cons]

theorem denRow_single [Add W] (b : Block W) (x : List W) : denRow [b] x = b.f (x.take b.cin) := by
  rw [denRow_eq_parts, parts_cons]
  rfl

theorem denCol_single (b : Block W) (x : List W) : denCol [b] x = b.f x := by
  simp [denCol_cons]

theorem denDiag_single_of_length (b : Block W) (x : List W) (hx : x.length = b.cin) :
    denDiag [b] x = b.f x := by
  rw [denDiag_single, ← hx, List.take_length]

theorem denRow_single_of_length [Add W] (b : Block W) (x : List W) (hx : x.length = b.cin) :
    denRow [b] x = b.f x := by
  rw [denRow_single, ← hx, List.take_length]

/-! ## 8. Adjointness (leaves are scalars of a commutative semiring) -/

private theorem exists_split (x : List W) (n m : Nat) (h : x.length = n + m) :
    ∃ a b, x = a ++ b ∧ a.length = n ∧ b.length = m :=
  ⟨x.take n, x.drop n, (List.take_append_drop n x).symm, by simp; omega, by simp; omega⟩

section Adjoint
variable [CommSemiring W]

/-- dot product of two flat leaf lists -/
def dotL (a b : List W) : W := ((a.zip b).map fun p => p.1 * p.2).sum

@[simp] theorem dotL_nil_left (b : List W) : dotL [] b = 0 := by simp [dotL]

@[simp] theorem dotL_nil_right (a : List W) : dotL a [] = 0 := by simp [dotL]

@[simp] theorem dotL_cons_cons (a b : W) (as bs : List W) :
    dotL (a :: as) (b :: bs) = a * b + dotL as bs := by simp [dotL]

theorem dotL_comm (a b : List W) : dotL a b = dotL b a := by
  induction a generalizing b with
  | nil => simp
  | cons a as ih => cases b with
    | nil => simp
    | cons b bs => simp [ih bs, mul_comm]

theorem dotL_append (a b c d : List W) (h : a.length = c.length) :
    dotL (a ++ b) (c ++ d) = dotL a c + dotL b d := by
  simp [dotL, List.zip_append h]

theorem length_addLeaves (a b : List W) : (addLeaves a b).length = min a.length b.length := by
  simp [addLeaves]

/-- `addLeaves` distributes over `dotL` when the summands have the same structure -/
theorem dotL_addLeaves (a b y : List W) (h : a.length = b.length) :
    dotL (addLeaves a b) y = dotL a y + dotL b y := by
  induction a generalizing b y with
  | nil =>
    cases b with
    | nil => simp [addLeaves]
    | cons _ _ => simp at h
  | cons a as ih =>
    cases b with
    | nil => simp at h
    | cons b bs =>
      cases y with
      | nil => simp
      | cons y ys =>
        have := ih bs ys (by simpa using h)
        simp only [addLeaves, List.zipWith_cons_cons, dotL_cons_cons] at this ⊢
        rw [this]; ring

theorem dotL_foldl_addLeaves (n : Nat) (ys : List (List W)) (a y : List W) (ha : a.length = n)
    (hys : ∀ z ∈ ys, z.length = n) :
    dotL (ys.foldl addLeaves a) y = dotL a y + (ys.map (fun z => dotL z y)).sum := by
  induction ys generalizing a with
  | nil => simp
  | cons z ys ih =>
    have hz : z.length = n := hys z (by simp)
    rw [List.foldl_cons, ih (addLeaves a z) (by rw [length_addLeaves, ha, hz, Nat.min_self])
      (fun w hw => hys w (by simp [hw])), dotL_addLeaves a z y (ha.trans hz.symm)]
    simp [add_assoc]

/-- the dot product with a sum of same-structure pytrees is the sum of the dot products -/
theorem dotL_sumLeaves (n : Nat) (L : List (List W)) (y : List W) (hL : ∀ z ∈ L, z.length = n) :
    dotL (sumLeaves L) y = (L.map (fun z => dotL z y)).sum := by
  cases L with
  | nil => simp [sumLeaves]
  | cons a ys =>
    simpa [sumLeaves] using
      dotL_foldl_addLeaves n ys a y (hL a (by simp)) (fun w hw => hL w (by simp [hw]))

/-- `t` is the adjoint of `l`: swapped leaf counts and `⟨l x, y⟩ = ⟨x, t y⟩` on inputs of the right
lengths -/
structure AdjointPair (l t : Block W) : Prop where
  cin_eq : t.cin = l.cout
  cout_eq : t.cout = l.cin
  adj : ∀ x y, x.length = l.cin → y.length = l.cout → dotL (l.f x) y = dotL x (t.f y)

theorem AdjointPair.symm {l t : Block W} (h : AdjointPair l t) : AdjointPair t l where
  cin_eq := h.cout_eq.symm
  cout_eq := h.cin_eq.symm
  adj := fun y x hy hx => by
    rw [dotL_comm, dotL_comm y, h.adj x y (hx.trans h.cout_eq) (hy.trans h.cin_eq)]

/-- slot by slot, `ts[i]` is the adjoint of `ls[i]` -/
def Adjoints (ls ts : List (Block W)) : Prop := List.Forall₂ AdjointPair ls ts

theorem Adjoints.symm {ls ts : List (Block W)} (h : Adjoints ls ts) : Adjoints ts ls :=
  List.Forall₂.flip (List.Forall₂.imp (fun _ _ h => AdjointPair.symm h) h)

/-- index form of `Adjoints` -/
theorem adjoints_iff {ls ts : List (Block W)} :
    Adjoints ls ts ↔
      ls.length = ts.length ∧
        ∀ (i : Nat) (h₁ : i < ls.length) (h₂ : i < ts.length), AdjointPair ls[i] ts[i] := by
  unfold Adjoints
  rw [List.forall₂_iff_get]
  simp

theorem Adjoints.cinSum_eq {ls ts : List (Block W)} (h : Adjoints ls ts) :
    cinSum ts = coutSum ls := by
  induction h with
  | nil => rfl
  | cons hlt _ ih => simp only [cinSum, coutSum, List.map_cons, List.sum_cons] at ih ⊢; rw [ih, hlt.cin_eq]

theorem Adjoints.coutSum_eq {ls ts : List (Block W)} (h : Adjoints ls ts) :
    coutSum ts = cinSum ls := by
  induction h with
  | nil => rfl
  | cons hlt _ ih => simp only [cinSum, coutSum, List.map_cons, List.sum_cons] at ih ⊢; rw [ih, hlt.cout_eq]

theorem Adjoints.cout_eq_of_cin_eq {ls ts : List (Block W)} (h : Adjoints ls ts) {n : Nat}
    (hn : ∀ l ∈ ls, l.cin = n) : ∀ t ∈ ts, t.cout = n := by
  induction h with
  | nil => intro t ht; simp at ht
  | cons hlt _ ih =>
    intro t ht
    rcases List.mem_cons.1 ht with rfl | ht
    · exact hlt.cout_eq.trans (hn _ (by simp))
    · exact ih (fun c hc => hn c (by simp [hc])) t ht

/-- BlockDiagonal(A_i)ᵀ = BlockDiagonal(A_iᵀ) -/
theorem denDiag_adjoint {ls ts : List (Block W)} (h : Adjoints ls ts) (hl : AllHonest ls)
    (ht : AllHonest ts) (x y : List W) (hx : x.length = (ls.map (·.cin)).sum)
    (hy : y.length = (ls.map (·.cout)).sum) :
    dotL (denDiag ls x) y = dotL x (denDiag ts y) := by
  induction h generalizing x y with
  | nil => simp
  | @cons l t ls ts hlt _ ih =>
    simp only [List.map_cons, List.sum_cons] at hx hy
    obtain ⟨x₁, x₂, rfl, hx₁, hx₂⟩ := exists_split x _ _ hx
    obtain ⟨y₁, y₂, rfl, hy₁, hy₂⟩ := exists_split y _ _ hy
    rw [denDiag_cons_append _ _ _ _ hx₁, denDiag_cons_append _ _ _ _ (hy₁.trans hlt.cin_eq.symm),
      dotL_append _ _ _ _ ((hl.head _ hx₁).trans hy₁.symm),
      dotL_append _ _ _ _
        (hx₁.trans ((ht.head _ (hy₁.trans hlt.cin_eq.symm)).trans hlt.cout_eq).symm),
      hlt.adj x₁ y₁ hx₁ hy₁, ih hl.tail ht.tail x₂ y₂ hx₂ hy₂]

/-- the sum over the blocks of `⟨A_i x_i, y⟩` is `⟨x, BlockColumn(A_iᵀ) y⟩` -/
theorem sum_dotL_parts {ls ts : List (Block W)} (h : Adjoints ls ts) (ht : AllHonest ts)
    (x y : List W) (hx : x.length = (ls.map (·.cin)).sum) (hy : ∀ l ∈ ls, l.cout = y.length) :
    ((parts ls x).map (fun z => dotL z y)).sum = dotL x (denCol ts y) := by
  induction h generalizing x with
  | nil => simp
  | @cons l t ls ts hlt _ ih =>
    simp only [List.map_cons, List.sum_cons] at hx
    obtain ⟨x₁, x₂, rfl, hx₁, hx₂⟩ := exists_split x _ _ hx
    have hyl : y.length = l.cout := (hy l (by simp)).symm
    rw [parts_cons_append _ _ _ _ hx₁, denCol_cons, List.map_cons, List.sum_cons,
      dotL_append _ _ _ _
        (hx₁.trans ((ht.head _ (hyl.trans hlt.cin_eq.symm)).trans hlt.cout_eq).symm),
      hlt.adj x₁ y hx₁ hyl, ih ht.tail x₂ hx₂ (fun c hc => hy c (by simp [hc]))]

/-- BlockRow(A_i)ᵀ = BlockColumn(A_iᵀ) -/
theorem denRow_adjoint {ls ts : List (Block W)} (h : Adjoints ls ts) (hl : AllHonest ls)
    (ht : AllHonest ts) (x y : List W) (hx : x.length = (ls.map (·.cin)).sum)
    (hy : ∀ l ∈ ls, l.cout = y.length) :
    dotL (denRow ls x) y = dotL x (denCol ts y) := by
  have hlen : ∀ z ∈ parts ls x, z.length = y.length := by
    intro z hz
    have hm := map_length_parts ls hl x (Nat.le_of_eq hx.symm)
    have : z.length ∈ (parts ls x).map List.length := List.mem_map.2 ⟨z, hz, rfl⟩
    rw [hm] at this
    obtain ⟨b, hb, hbz⟩ := List.mem_map.1 this
    rw [← hbz]; exact hy b hb
  rw [denRow_eq_parts, dotL_sumLeaves _ _ _ hlen, sum_dotL_parts h ht x y hx hy]

/-- BlockColumn(A_i)ᵀ = BlockRow(A_iᵀ) -/
theorem denCol_adjoint {ls ts : List (Block W)} (h : Adjoints ls ts) (hl : AllHonest ls)
    (ht : AllHonest ts) (x y : List W) (hx : ∀ l ∈ ls, l.cin = x.length)
    (hy : y.length = (ls.map (·.cout)).sum) :
    dotL (denCol ls x) y = dotL x (denRow ts y) := by
  have hts : ∀ t ∈ ts, t.cout = x.length := h.cout_eq_of_cin_eq hx
  rw [dotL_comm, dotL_comm x,
    denRow_adjoint h.symm ht hl y x (hy.trans h.cinSum_eq.symm) hts]

end Adjoint

end BlockSem
end Furax

open Furax.BlockSem in
section
end
