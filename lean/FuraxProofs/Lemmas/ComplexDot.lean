/-
Lemmas for the Hermitian dot product of pytrees over complex leaves (FuraxModel/ComplexDot.lean, property C20).

0.  `GRat` (Gaussian rationals) is a commutative ring, `conj` an involutive ring morphism, `ofRat` a ring morphism;
1.  unfolding of `vdot` / `treeDot` along `cons` (the `foldl … 0` of the model as a recursion);
2.  conjugate symmetry;  3. (conjugate-)linearity;  4. `⟨x, x⟩` is the sum of the squared moduli;
5.  real data: the real `StokesArith.dot`;  6. where the defective `vdotBad` differs from `vdot`.

The wrappers (the statements of the property) are in FuraxProofs/Props/C20Complex.lean.
-/
import FuraxModel.ComplexDot
import FuraxModel.StokesArith
import Mathlib.Algebra.Ring.Rat
import Mathlib.Algebra.Order.Ring.Rat
import Mathlib.Tactic.Ring
import Mathlib.Tactic.Linarith
namespace Furax
namespace ComplexDot

/-! ### 0. the ring of Gaussian rationals -/

namespace GRat

@[ext] theorem ext {a b : GRat} (hr : a.re = b.re) (hi : a.im = b.im) : a = b := by
  cases a; cases b; simp only [mk.injEq]; exact ⟨hr, hi⟩

@[simp] theorem zero_re : (0 : GRat).re = 0 := rfl
@[simp] theorem zero_im : (0 : GRat).im = 0 := rfl
@[simp] theorem add_re (a b : GRat) : (a + b).re = a.re + b.re := rfl
@[simp] theorem add_im (a b : GRat) : (a + b).im = a.im + b.im := rfl
@[simp] theorem neg_re (a : GRat) : (-a).re = -a.re := rfl
@[simp] theorem neg_im (a : GRat) : (-a).im = -a.im := rfl
@[simp] theorem mul_re (a b : GRat) : (a * b).re = a.re * b.re - a.im * b.im := rfl
@[simp] theorem mul_im (a b : GRat) : (a * b).im = a.re * b.im + a.im * b.re := rfl
@[simp] theorem conj_re (a : GRat) : (conj a).re = a.re := rfl
@[simp] theorem conj_im (a : GRat) : (conj a).im = -a.im := rfl
@[simp] theorem ofRat_re (q : Rat) : (ofRat q).re = q := rfl
@[simp] theorem ofRat_im (q : Rat) : (ofRat q).im = 0 := rfl

instance : One GRat := ⟨ofRat 1⟩
@[simp] theorem one_re : (1 : GRat).re = 1 := rfl
@[simp] theorem one_im : (1 : GRat).im = 0 := rfl

/-- the model's `add`, `mul`, `neg`, `0` (and `1 = ofRat 1`) make `GRat` a commutative ring -/
instance : CommRing GRat where
  add_assoc a b c := by ext <;> simp only [add_re, add_im] <;> ring
  zero_add a := by ext <;> simp only [add_re, add_im, zero_re, zero_im] <;> ring
  add_zero a := by ext <;> simp only [add_re, add_im, zero_re, zero_im] <;> ring
  add_comm a b := by ext <;> simp only [add_re, add_im] <;> ring
  neg_add_cancel a := by ext <;> simp only [add_re, add_im, neg_re, neg_im, zero_re, zero_im] <;> ring
  left_distrib a b c := by ext <;> simp only [add_re, add_im, mul_re, mul_im] <;> ring
  right_distrib a b c := by ext <;> simp only [add_re, add_im, mul_re, mul_im] <;> ring
  zero_mul a := by ext <;> simp only [mul_re, mul_im, zero_re, zero_im] <;> ring
  mul_zero a := by ext <;> simp only [mul_re, mul_im, zero_re, zero_im] <;> ring
  mul_assoc a b c := by ext <;> simp only [mul_re, mul_im] <;> ring
  one_mul a := by ext <;> simp only [mul_re, mul_im, one_re, one_im] <;> ring
  mul_one a := by ext <;> simp only [mul_re, mul_im, one_re, one_im] <;> ring
  mul_comm a b := by ext <;> simp only [mul_re, mul_im] <;> ring
  nsmul := nsmulRec
  zsmul := zsmulRec

theorem conj_zero : conj 0 = 0 := by ext <;> simp
theorem conj_add (a b : GRat) : conj (a + b) = conj a + conj b := by ext <;> simp; ring
theorem conj_mul (a b : GRat) : conj (a * b) = conj a * conj b := by ext <;> simp; ring
theorem conj_neg (a : GRat) : conj (-a) = -conj a := by ext <;> simp
theorem conj_conj (a : GRat) : conj (conj a) = a := by ext <;> simp
theorem conj_ofRat (q : Rat) : conj (ofRat q) = ofRat q := by ext <;> simp
theorem conj_injective {a b : GRat} (h : conj a = conj b) : a = b := by
  rw [← conj_conj a, h, conj_conj]

theorem ofRat_zero : ofRat 0 = 0 := rfl
theorem ofRat_add (p q : Rat) : ofRat (p + q) = ofRat p + ofRat q := by ext <;> simp
theorem ofRat_mul (p q : Rat) : ofRat (p * q) = ofRat p * ofRat q := by ext <;> simp
theorem ofRat_injective {p q : Rat} (h : ofRat p = ofRat q) : p = q := congrArg GRat.re h

/-- an entry with zero imaginary part is the image of its real part -/
theorem eq_ofRat_of_im_eq_zero {a : GRat} (h : a.im = 0) : a = ofRat a.re := by ext <;> simp [h]

theorem isReal_iff (a : GRat) : isReal a = true ↔ a.im = 0 := by simp [isReal]

/-- the squared modulus `re² + im²` -/
def normSq (a : GRat) : Rat := a.re * a.re + a.im * a.im

theorem normSq_nonneg (a : GRat) : 0 ≤ normSq a := add_nonneg (mul_self_nonneg _) (mul_self_nonneg _)

theorem normSq_eq_zero {a : GRat} : normSq a = 0 ↔ a = 0 := by
  constructor
  · intro h
    unfold normSq at h
    have h1 : a.re * a.re = 0 := by nlinarith [mul_self_nonneg a.re, mul_self_nonneg a.im]
    have h2 : a.im * a.im = 0 := by nlinarith [mul_self_nonneg a.re, mul_self_nonneg a.im]
    ext
    · exact mul_self_eq_zero.mp h1
    · exact mul_self_eq_zero.mp h2
  · rintro rfl; simp [normSq]

/-- `conj a · a = |a|²`, a real number -/
theorem conj_mul_self (a : GRat) : conj a * a = ofRat (normSq a) := by
  ext <;> simp [normSq]; ring

end GRat

open GRat

/-! ### 1. the folds of the model as recursions -/

theorem foldl_add_start {α} [AddCommMonoid α] (a : α) (l : List α) :
    l.foldl (· + ·) a = a + l.foldl (· + ·) 0 := by
  induction l generalizing a with
  | nil => simp
  | cons b l ih => rw [List.foldl_cons, ih, List.foldl_cons, ih (0 + b), zero_add, add_assoc]

theorem foldl_add_cons {α} [AddCommMonoid α] (b : α) (l : List α) :
    (b :: l).foldl (· + ·) 0 = b + l.foldl (· + ·) 0 := by
  rw [List.foldl_cons, foldl_add_start, zero_add]

@[simp] theorem vdot_nil_left (y : List GRat) : vdot [] y = 0 := by simp [vdot]
@[simp] theorem vdot_nil_right (x : List GRat) : vdot x [] = 0 := by simp [vdot]
theorem vdot_cons (a b : GRat) (x y : List GRat) : vdot (a :: x) (b :: y) = conj a * b + vdot x y := by
  simp only [vdot, List.zipWith_cons_cons, foldl_add_cons]

@[simp] theorem treeDot_nil_left (y : List (List GRat)) : treeDot [] y = 0 := by simp [treeDot]
@[simp] theorem treeDot_nil_right (x : List (List GRat)) : treeDot x [] = 0 := by simp [treeDot]
theorem treeDot_cons (a b : List GRat) (x y : List (List GRat)) :
    treeDot (a :: x) (b :: y) = vdot a b + treeDot x y := by
  simp only [treeDot, List.zipWith_cons_cons, foldl_add_cons]

/-- the real inner product of `StokesArith.dot`, named -/
def rinner (a b : List Rat) : Rat := (List.zipWith (· * ·) a b).foldl (· + ·) 0

@[simp] theorem rinner_nil_left (y : List Rat) : rinner [] y = 0 := by simp [rinner]
@[simp] theorem rinner_nil_right (x : List Rat) : rinner x [] = 0 := by simp [rinner]
theorem rinner_cons (a b : Rat) (x y : List Rat) : rinner (a :: x) (b :: y) = a * b + rinner x y := by
  simp only [rinner, List.zipWith_cons_cons, foldl_add_cons]

theorem dot_eq (x y : List (List Rat)) :
    StokesArith.dot x y = (List.zipWith rinner x y).foldl (· + ·) 0 := rfl
@[simp] theorem dot_nil_left (y : List (List Rat)) : StokesArith.dot [] y = 0 := by simp [dot_eq]
@[simp] theorem dot_nil_right (x : List (List Rat)) : StokesArith.dot x [] = 0 := by simp [dot_eq]
theorem dot_cons (a b : List Rat) (x y : List (List Rat)) :
    StokesArith.dot (a :: x) (b :: y) = rinner a b + StokesArith.dot x y := by
  simp only [dot_eq, List.zipWith_cons_cons, foldl_add_cons]

/-! ### 2. conjugate symmetry (no hypothesis on the shapes: both sides truncate to the same common prefix) -/

theorem vdot_conj_symm (x y : List GRat) : vdot y x = conj (vdot x y) := by
  induction x generalizing y with
  | nil => simp [conj_zero]
  | cons a x ih =>
    cases y with
    | nil => simp [conj_zero]
    | cons b y => rw [vdot_cons, vdot_cons, ih, conj_add, conj_mul, conj_conj, mul_comm]

theorem treeDot_conj_symm (x y : List (List GRat)) : treeDot y x = conj (treeDot x y) := by
  induction x generalizing y with
  | nil => simp [conj_zero]
  | cons a x ih =>
    cases y with
    | nil => simp [conj_zero]
    | cons b y => rw [treeDot_cons, treeDot_cons, ih, conj_add, vdot_conj_symm a b]

/-! ### 3. linearity in the second argument, conjugate-linearity in the first -/

/-- two pytrees with the same number of leaves and pairwise equally long leaves -/
def SameShape (x y : List (List GRat)) : Prop := List.Forall₂ (fun a b => a.length = b.length) x y

instance (x y : List (List GRat)) : Decidable (SameShape x y) := by unfold SameShape; infer_instance

theorem SameShape.refl (x : List (List GRat)) : SameShape x x := by
  unfold SameShape; induction x with
  | nil => exact .nil
  | cons a x ih => exact .cons rfl ih

theorem SameShape.smul_left (c : GRat) {x x' : List (List GRat)} (h : SameShape x x') :
    SameShape (treeSmul c x) x' := by
  induction h with
  | nil => exact .nil
  | cons hb _ ih => exact .cons (by simpa [leafSmul] using hb) ih

theorem vdot_add_right (x : List GRat) {y y' : List GRat} (h : y.length = y'.length) :
    vdot x (leafAdd y y') = vdot x y + vdot x y' := by
  induction x generalizing y y' with
  | nil => simp
  | cons a x ih =>
    cases y with
    | nil => cases y' with
      | nil => simp [leafAdd]
      | cons _ _ => simp at h
    | cons b y => cases y' with
      | nil => simp at h
      | cons b' y' =>
        have h' : y.length = y'.length := by simpa using h
        have := ih h'
        simp only [leafAdd, List.zipWith_cons_cons] at this ⊢
        rw [vdot_cons, vdot_cons, vdot_cons, this]; ring

theorem vdot_smul_right (c : GRat) (x y : List GRat) : vdot x (leafSmul c y) = c * vdot x y := by
  induction x generalizing y with
  | nil => simp
  | cons a x ih =>
    cases y with
    | nil => simp [leafSmul]
    | cons b y =>
      have := ih y
      simp only [leafSmul, List.map_cons] at this ⊢
      rw [vdot_cons, vdot_cons, this]; ring

theorem vdot_add_left {x x' : List GRat} (y : List GRat) (h : x.length = x'.length) :
    vdot (leafAdd x x') y = vdot x y + vdot x' y := by
  rw [vdot_conj_symm y, vdot_add_right y h, conj_add, ← vdot_conj_symm, ← vdot_conj_symm]

theorem vdot_smul_left (c : GRat) (x y : List GRat) : vdot (leafSmul c x) y = conj c * vdot x y := by
  rw [vdot_conj_symm y, vdot_smul_right, conj_mul, ← vdot_conj_symm]

theorem treeDot_add_right (x : List (List GRat)) {y y' : List (List GRat)} (h : SameShape y y') :
    treeDot x (treeAdd y y') = treeDot x y + treeDot x y' := by
  induction h generalizing x with
  | nil => simp [treeAdd]
  | @cons b b' y y' hb _ ih =>
    cases x with
    | nil => simp
    | cons a x =>
      have := ih x
      simp only [treeAdd, List.zipWith_cons_cons] at this ⊢
      rw [treeDot_cons, treeDot_cons, treeDot_cons, this, vdot_add_right a hb]; ring

theorem treeDot_smul_right (c : GRat) (x y : List (List GRat)) :
    treeDot x (treeSmul c y) = c * treeDot x y := by
  induction x generalizing y with
  | nil => simp
  | cons a x ih =>
    cases y with
    | nil => simp [treeSmul]
    | cons b y =>
      have := ih y
      simp only [treeSmul, List.map_cons] at this ⊢
      rw [treeDot_cons, treeDot_cons, this, vdot_smul_right]; ring

theorem treeDot_add_left {x x' : List (List GRat)} (y : List (List GRat)) (h : SameShape x x') :
    treeDot (treeAdd x x') y = treeDot x y + treeDot x' y := by
  rw [treeDot_conj_symm y, treeDot_add_right y h, conj_add, ← treeDot_conj_symm, ← treeDot_conj_symm]

theorem treeDot_smul_left (c : GRat) (x y : List (List GRat)) :
    treeDot (treeSmul c x) y = conj c * treeDot x y := by
  rw [treeDot_conj_symm y, treeDot_smul_right, conj_mul, ← treeDot_conj_symm]

/-! ### 4. `⟨x, x⟩ = Σ |x_i|²` -/

/-- the sum of the squared moduli of the entries of a leaf -/
def leafNormSq (x : List GRat) : Rat := (x.map normSq).sum
/-- … of all the entries of a pytree -/
def treeNormSq (x : List (List GRat)) : Rat := (x.map leafNormSq).sum

theorem vdot_self (x : List GRat) : vdot x x = ofRat (leafNormSq x) := by
  induction x with
  | nil => simp [leafNormSq, ofRat_zero]
  | cons a x ih =>
    rw [vdot_cons, ih, conj_mul_self, ← ofRat_add]; simp [leafNormSq]

theorem treeDot_self (x : List (List GRat)) : treeDot x x = ofRat (treeNormSq x) := by
  induction x with
  | nil => simp [treeNormSq, ofRat_zero]
  | cons a x ih =>
    rw [treeDot_cons, ih, vdot_self, ← ofRat_add]; simp [treeNormSq]

theorem leafNormSq_nonneg (x : List GRat) : 0 ≤ leafNormSq x := by
  induction x with
  | nil => simp [leafNormSq]
  | cons a x ih =>
    have : leafNormSq (a :: x) = normSq a + leafNormSq x := by simp [leafNormSq]
    rw [this]; exact add_nonneg (normSq_nonneg a) ih

theorem leafNormSq_eq_zero {x : List GRat} : leafNormSq x = 0 ↔ ∀ a ∈ x, a = 0 := by
  induction x with
  | nil => simp [leafNormSq]
  | cons a x ih =>
    have : leafNormSq (a :: x) = normSq a + leafNormSq x := by simp [leafNormSq]
    rw [this, List.forall_mem_cons, ← ih, ← normSq_eq_zero]
    have h1 := normSq_nonneg a
    have h2 := leafNormSq_nonneg x
    constructor
    · intro h; constructor <;> linarith
    · rintro ⟨h, h'⟩; rw [h, h', add_zero]

theorem treeNormSq_nonneg (x : List (List GRat)) : 0 ≤ treeNormSq x := by
  induction x with
  | nil => simp [treeNormSq]
  | cons a x ih =>
    have : treeNormSq (a :: x) = leafNormSq a + treeNormSq x := by simp [treeNormSq]
    rw [this]; exact add_nonneg (leafNormSq_nonneg a) ih

theorem treeNormSq_eq_zero {x : List (List GRat)} : treeNormSq x = 0 ↔ ∀ l ∈ x, ∀ a ∈ l, a = 0 := by
  induction x with
  | nil => simp [treeNormSq]
  | cons l x ih =>
    have : treeNormSq (l :: x) = leafNormSq l + treeNormSq x := by simp [treeNormSq]
    rw [this, List.forall_mem_cons, ← ih, ← leafNormSq_eq_zero]
    have h1 := leafNormSq_nonneg l
    have h2 := treeNormSq_nonneg x
    constructor
    · intro h; constructor <;> linarith
    · rintro ⟨h, h'⟩; rw [h, h', add_zero]

/-! ### 5. real data -/

theorem vdot_ofRat (x y : List Rat) : vdot (x.map ofRat) (y.map ofRat) = ofRat (rinner x y) := by
  induction x generalizing y with
  | nil => simp [ofRat_zero]
  | cons a x ih =>
    cases y with
    | nil => simp [ofRat_zero]
    | cons b y =>
      simp only [List.map_cons]
      rw [vdot_cons, rinner_cons, ih, conj_ofRat, ofRat_add, ofRat_mul]

theorem treeDot_ofRat (x y : List (List Rat)) :
    treeDot (x.map (·.map ofRat)) (y.map (·.map ofRat)) = ofRat (StokesArith.dot x y) := by
  induction x generalizing y with
  | nil => simp [ofRat_zero]
  | cons a x ih =>
    cases y with
    | nil => simp [ofRat_zero]
    | cons b y =>
      simp only [List.map_cons]
      rw [treeDot_cons, dot_cons, ih, vdot_ofRat, ofRat_add]

/-- a pytree all of whose entries have zero imaginary part -/
def IsRealTree (x : List (List GRat)) : Prop := ∀ l ∈ x, ∀ a ∈ l, a.im = 0

instance (x : List (List GRat)) : Decidable (IsRealTree x) := by unfold IsRealTree; infer_instance

theorem leaf_eq_map_ofRat {l : List GRat} (h : ∀ a ∈ l, a.im = 0) : l = (l.map GRat.re).map ofRat := by
  induction l with
  | nil => rfl
  | cons a l ih =>
    rw [List.forall_mem_cons] at h
    rw [List.map_cons, List.map_cons, ← ih h.2, ← eq_ofRat_of_im_eq_zero h.1]

theorem tree_eq_map_ofRat {x : List (List GRat)} (h : IsRealTree x) :
    x = (x.map (·.map GRat.re)).map (·.map ofRat) := by
  induction x with
  | nil => rfl
  | cons l x ih =>
    unfold IsRealTree at h
    rw [List.forall_mem_cons] at h
    rw [List.map_cons, List.map_cons, ← ih h.2, ← leaf_eq_map_ofRat h.1]

/-! ### 6. the defective leaf product -/

theorem vdotBad_of_second_not_real {x y : List GRat} (h : y.all GRat.isReal = false) : vdotBad x y = vdot x y := by
  simp [vdotBad, vdot, h]

theorem conj_eq_self_of_im {a : GRat} (h : a.im = 0) : conj a = a := by ext <;> simp [h]

theorem vdotBad_of_first_real {x : List GRat} (y : List GRat) (h : ∀ a ∈ x, a.im = 0) : vdotBad x y = vdot x y := by
  have : List.zipWith (fun a b => a * b) x y = List.zipWith (fun a b => conj a * b) x y := by
    induction x generalizing y with
    | nil => simp
    | cons a x ih =>
      cases y with
      | nil => simp
      | cons b y =>
        rw [List.forall_mem_cons] at h
        simp only [List.zipWith_cons_cons, ih y h.2, conj_eq_self_of_im h.1]
  unfold vdotBad vdot
  split
  · rw [this]
  · rfl

/-- against a real second operand the defective product is the complex CONJUGATE of the right value -/
theorem vdotBad_of_second_real (x : List GRat) {y : List GRat} (h : ∀ b ∈ y, b.im = 0) :
    vdotBad x y = conj (vdot x y) := by
  have hall : y.all GRat.isReal = true := by
    rw [List.all_eq_true]; intro b hb; exact (isReal_iff b).mpr (h b hb)
  have : (List.zipWith (fun a b => a * b) x y).foldl (· + ·) 0 = conj (vdot x y) := by
    induction x generalizing y with
    | nil => simp [conj_zero]
    | cons a x ih =>
      cases y with
      | nil => simp [conj_zero]
      | cons b y =>
        rw [List.forall_mem_cons] at h
        rw [List.zipWith_cons_cons, foldl_add_cons, vdot_cons, conj_add, conj_mul, conj_conj,
          conj_eq_self_of_im h.1, ih h.2 (by rw [List.all_eq_true]; intro b hb; exact (isReal_iff b).mpr (h.2 b hb))]
  unfold vdotBad
  rw [if_pos hall, this]

end ComplexDot
end Furax
