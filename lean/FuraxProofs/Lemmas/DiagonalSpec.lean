import FuraxModel.Diagonal
import FuraxProofs.Lemmas.MoveAxisPerm
import Mathlib.Data.List.Perm.Basic
import Mathlib.Data.List.Nodup
import Mathlib.Data.List.GetD
import Mathlib.Data.List.Forall2
import Mathlib.Algebra.Field.Rat
/-!
Specification of the diagonal operator model (FuraxModel/Diagonal.lean): `BroadcastDiagonalOperator`,
`DiagonalOperator` (`strict = true`), `DiagonalInverseOperator` (`pinvValues`).  All the tensor theorems
hold for any element type with `[Inhabited α] [Mul α]` (no algebraic law is needed).

P1  `normalizeSpec_nonneg`, `normalizeSpec_neg`, `apply_rejects_scalar_values`,
    `apply_rejects_duplicate_axes` (and `'` with `Nodup`), `apply_strict_shape`,
    `pinv_scalar`, `pinv_laws`, `pinv_zero`.
P2  `apply_inrange` (`getD` form), `apply_inrange_getElem` (`getElem` form, well-formed tensors):
    `r` pairwise distinct axes in `[0, rank x)`, `values.shape[k] = x.shape[axes[k]]`; any `r ≥ 1`, any
    order of the axes, strict or not:  `out[idx] = values[idx[axes[0]], …, idx[axes[r-1]]] * x[idx]`.
    Corollaries: `apply_inrange_signed` (axes in `[-n, n)`), `apply_scalar_nonneg` (scalar destination),
    `apply_vector` (rank-one values).
P3  `apply_inrange_bcast` (values dimensions equal to 1 allowed), `apply_general` (any pairwise distinct
    axes, also outside the leaf's rank on either side, NumPy-compatible dimensions in both directions,
    strict and non-strict), `apply_rejects_incompatible` (the converse: an incompatible dimension is refused),
    `apply_error_kind` (every failure is a `ValueError`).
The engine: `DiagSetup.data_getD` (the reshaped diagonal only depends on the coordinates along the
destination axes) and `DiagSetup.zip_spec` (its broadcast product with a tensor of the same rank).
Unit tests are at the end, labelled TEST.
-/
namespace Furax.Diagonal
open Furax.Axes

/-! ## P1 -/

theorem normalizeSpec_nonneg (r : Nat) (a : Int) (h : 0 ≤ a) :
    normalizeSpec r (.scalar a) = (List.range r).map (fun (k : Nat) => a + Int.ofNat k) := by
  simp [normalizeSpec, h]

theorem normalizeSpec_neg (r : Nat) (a : Int) (h : a < 0) :
    normalizeSpec r (.scalar a)
      = (List.range r).map (fun (k : Nat) => a - Int.ofNat r + 1 + Int.ofNat k) := by
  have : ¬ (0 ≤ a) := by omega
  simp [normalizeSpec, this]

theorem normalizeSpec_seq (r : Nat) (l : List Int) : normalizeSpec r (.seq l) = l := rfl

theorem apply_rejects_scalar_values {α} [Inhabited α] [Mul α] (strict : Bool) (values : Tensor α)
    (spec : AxisSpec) (x : Tensor α) (h : values.shape = []) :
    apply strict values spec x = .error .valueError := by
  simp [apply, h]

/-- the list of axes after `_normalize_axes`, before the duplicate check -/
def normalizedAxes (axes : List Int) (ndim : Nat) : List Int :=
  axes.map fun a => if a ≥ 0 then a else (ndim : Int) + a

theorem normalizeAxes_eq (axes : List Int) (ndim : Nat) :
    normalizeAxes axes ndim =
      if (normalizedAxes axes ndim).eraseDups.length != (normalizedAxes axes ndim).length
      then .error .valueError else .ok (normalizedAxes axes ndim) := rfl

theorem normalizeAxes_dup (axes : List Int) (ndim : Nat)
    (h : (normalizedAxes axes ndim).eraseDups.length ≠ (normalizedAxes axes ndim).length) :
    normalizeAxes axes ndim = .error .valueError := by
  unfold normalizeAxes
  unfold normalizedAxes at h
  simp only
  rw [if_pos (by simpa using h)]

theorem normalizeAxes_nodup (axes : List Int) (ndim : Nat)
    (h : (normalizedAxes axes ndim).eraseDups.length = (normalizedAxes axes ndim).length) :
    normalizeAxes axes ndim = .ok (normalizedAxes axes ndim) := by
  unfold normalizeAxes
  unfold normalizedAxes at h
  simp only
  rw [if_neg (by simpa using h)]
  rfl

theorem apply_rejects_duplicate_axes {α} [Inhabited α] [Mul α] (strict : Bool) (values : Tensor α)
    (spec : AxisSpec) (x : Tensor α) (hv : values.shape ≠ [])
    (h : (normalizedAxes (normalizeSpec values.shape.length spec) x.shape.length).eraseDups.length
        ≠ (normalizedAxes (normalizeSpec values.shape.length spec) x.shape.length).length) :
    apply strict values spec x = .error .valueError := by
  unfold apply
  have h0 : (values.shape.length == 0) = false := by simpa using hv
  simp only [h0, normalizeAxes_dup _ _ h]
  rfl

theorem apply_strict_shape {α} [Inhabited α] [Mul α] (values : Tensor α)
    (spec : AxisSpec) (x y : Tensor α) (h : apply true values spec x = .ok y) : y.shape = x.shape := by
  unfold apply at h
  split at h
  · simp at h
  · cases h1 : normalizeAxes (normalizeSpec values.shape.length spec) x.shape.length with
    | error e => simp [h1, bind, Except.bind] at h
    | ok axes =>
      cases h2 : reshapeDiagonal values axes x.shape.length with
      | error e => simp [h1, h2, bind, Except.bind] at h
      | ok d =>
        simp only [h1, h2, bind, Except.bind] at h
        split at h
        · simp at h
        · split at h
          · simp at h
          · rename_i hne
            simp only [Except.ok.injEq] at h
            subst h
            simpa using hne

theorem pinv_scalar (d : Rat) :
    d * (if d != 0 then 1 / d else 0) * d = d ∧
    (if d != 0 then 1 / d else 0) * d * (if d != 0 then 1 / d else 0) = (if d != 0 then 1 / d else 0) := by
  by_cases h : d = 0
  · subst h; simp
  · have : (d != 0) = true := by simpa using h
    simp only [this, if_true]
    constructor
    · rw [mul_one_div_cancel h, one_mul]
    · rw [one_div_mul_cancel h, one_mul]

theorem pinvValues_length (l : List Rat) : (pinvValues l).length = l.length := by
  simp [pinvValues]

theorem pinv_laws (l : List Rat) : ∀ k (h : k < l.length),
    l[k] * (pinvValues l)[k]'(by simpa [pinvValues] using h) * l[k] = l[k] ∧
    (pinvValues l)[k]'(by simpa [pinvValues] using h) * l[k] * (pinvValues l)[k]'(by simpa [pinvValues] using h)
      = (pinvValues l)[k]'(by simpa [pinvValues] using h) := by
  intro k h
  simp only [pinvValues, List.getElem_map]
  exact pinv_scalar l[k]

theorem pinv_zero : pinvValues [0] = [0] := by
  simp [pinvValues]

/-! ## helpers -/

theorem eraseDups_of_nodup {α} [BEq α] [LawfulBEq α] (l : List α) (h : l.Nodup) : l.eraseDups = l := by
  induction l with
  | nil => simp
  | cons a as ih =>
    rw [List.nodup_cons] at h
    rw [List.eraseDups_cons]
    have : as.filter (fun b => !b == a) = as := by
      apply List.filter_eq_self.mpr
      intro b hb
      have : b ≠ a := fun e => h.1 (e ▸ hb)
      simpa using this
    rw [this, ih h.2]

theorem foldl_min_le (l : List Int) (init : Int) : l.foldl min init ≤ init ∧ ∀ a ∈ l, l.foldl min init ≤ a := by
  induction l generalizing init with
  | nil => simp
  | cons b bs ih =>
    simp only [List.foldl_cons]
    obtain ⟨h1, h2⟩ := ih (min init b)
    refine ⟨by omega, ?_⟩
    intro a ha
    rcases List.mem_cons.mp ha with rfl | ha
    · omega
    · exact h2 a ha

theorem foldl_max_ge (l : List Int) (init : Int) : init ≤ l.foldl max init ∧ ∀ a ∈ l, a ≤ l.foldl max init := by
  induction l generalizing init with
  | nil => simp
  | cons b bs ih =>
    simp only [List.foldl_cons]
    obtain ⟨h1, h2⟩ := ih (max init b)
    refine ⟨by omega, ?_⟩
    intro a ha
    rcases List.mem_cons.mp ha with rfl | ha
    · omega
    · exact h2 a ha

theorem foldl_min_mem (l : List Int) (init : Int) : l.foldl min init = init ∨ l.foldl min init ∈ l := by
  induction l generalizing init with
  | nil => simp
  | cons b bs ih =>
    simp only [List.foldl_cons]
    rcases ih (min init b) with h | h
    · rw [h]
      rcases Int.le_total init b with h' | h'
      · left; omega
      · right; simp; left; omega
    · right; simp [h]

theorem foldl_max_mem (l : List Int) (init : Int) : l.foldl max init = init ∨ l.foldl max init ∈ l := by
  induction l generalizing init with
  | nil => simp
  | cons b bs ih =>
    simp only [List.foldl_cons]
    rcases ih (max init b) with h | h
    · rw [h]
      rcases Int.le_total init b with h' | h'
      · right; simp; left; omega
      · left; omega
    · right; simp [h]

theorem minInt_le (l : List Int) (a : Int) (h : a ∈ l) : minInt l ≤ a := (foldl_min_le l _).2 a h
theorem le_maxInt (l : List Int) (a : Int) (h : a ∈ l) : a ≤ maxInt l := (foldl_max_ge l _).2 a h

theorem minInt_mem (l : List Int) (h : l ≠ []) : minInt l ∈ l := by
  unfold minInt
  rcases foldl_min_mem l (l.headD 0) with h' | h'
  · rw [h']; cases l with
    | nil => exact absurd rfl h
    | cons a as => simp
  · exact h'

theorem maxInt_mem (l : List Int) (h : l ≠ []) : maxInt l ∈ l := by
  unfold maxInt
  rcases foldl_max_mem l (l.headD 0) with h' | h'
  · rw [h']; cases l with
    | nil => exact absurd rfl h
    | cons a as => simp
  · exact h'

theorem normAxis_nonneg (N : Nat) (a : Int) (h0 : 0 ≤ a) (h1 : a < N) : normAxis N a = .ok a.toNat := by
  unfold normAxis
  rw [if_neg (by omega), if_neg (by omega)]

theorem mapM_normAxis_nonneg (N : Nat) (axes : List Int) (h : ∀ a ∈ axes, 0 ≤ a ∧ a < N) :
    axes.mapM (normAxis N) = .ok (axes.map Int.toNat) := by
  induction axes with
  | nil => rfl
  | cons a as ih =>
    rw [List.mapM_cons, normAxis_nonneg N a (h a (by simp)).1 (h a (by simp)).2,
      ih (fun b hb => h b (by simp [hb]))]
    rfl

theorem toNat_nodup (axes : List Int) (h : ∀ a ∈ axes, 0 ≤ a) (hn : axes.Nodup) : (axes.map Int.toNat).Nodup := by
  rw [List.nodup_map_iff_inj_on hn]
  intro a ha b hb hab
  have := h a ha; have := h b hb
  omega

theorem normAxisTuple_nonneg (N : Nat) (axes : List Int) (h : ∀ a ∈ axes, 0 ≤ a ∧ a < N) (hn : axes.Nodup) :
    normAxisTuple N axes = .ok (axes.map Int.toNat) := by
  unfold normAxisTuple
  rw [mapM_normAxis_nonneg N axes h]
  simp only [bind, Except.bind]
  rw [eraseDups_of_nodup _ (toNat_nodup axes (fun a ha => (h a ha).1) hn)]
  simp
  rfl

theorem normAxisTuple_range (N r : Nat) (h : r ≤ N) :
    normAxisTuple N ((List.range r).map fun (k : Nat) => Int.ofNat k) = .ok (List.range r) := by
  have := normAxisTuple_nonneg N ((List.range r).map fun (k : Nat) => Int.ofNat k) (by
    intro a ha
    simp only [List.mem_map, List.mem_range] at ha
    obtain ⟨k, hk, rfl⟩ := ha
    simp; omega) (by
    rw [List.nodup_map_iff_inj_on List.nodup_range]
    intro a _ b _ hab
    exact Int.ofNat.inj hab)
  rw [this]
  congr 1
  simp [List.map_map, Function.comp_def]

/-- `moveaxisOrder` succeeds on `range r → axes` for distinct in-range non-negative axes -/
theorem moveaxisOrder_range_ok (N : Nat) (axes : List Int) (h : ∀ a ∈ axes, 0 ≤ a ∧ a < N) (hn : axes.Nodup)
    (hr : axes.length ≤ N) :
    ∃ order, moveaxisOrder N ((List.range axes.length).map fun (k : Nat) => Int.ofNat k) axes = .ok order ∧
      MAFacts N (List.range axes.length) (axes.map Int.toNat) order := by
  have hs := normAxisTuple_range N axes.length hr
  have hd := normAxisTuple_nonneg N axes h hn
  have : ∃ order, moveaxisOrder N ((List.range axes.length).map fun (k : Nat) => Int.ofNat k) axes = .ok order := by
    unfold moveaxisOrder
    simp only [hs, hd, bind, Except.bind]
    split
    · rename_i hne; simp at hne
    · exact ⟨_, rfl⟩
  obtain ⟨order, ho⟩ := this
  exact ⟨order, ho, moveaxisOrder_facts N _ _ _ _ order hs hd ho⟩

theorem nodup_length_le (N : Nat) (l : List Nat) (hn : l.Nodup) (h : ∀ a ∈ l, a < N) : l.length ≤ N := by
  have : l ⊆ List.range N := fun a ha => List.mem_range.mpr (h a ha)
  have := (List.subperm_of_subset hn this).length_le
  simpa using this

theorem forall2_lt_iff (idx shape : List Nat) :
    List.Forall₂ (· < ·) idx shape ↔
      idx.length = shape.length ∧ ∀ j, j < shape.length → idx.getD j 0 < shape.getD j 0 := by
  rw [List.forall₂_iff_get]
  constructor
  · rintro ⟨hl, h⟩
    refine ⟨hl, fun j hj => ?_⟩
    rw [List.getD_eq_getElem _ _ (by omega : j < idx.length), List.getD_eq_getElem _ _ hj]
    exact h j (by omega) hj
  · rintro ⟨hl, h⟩
    refine ⟨hl, fun j h1 h2 => ?_⟩
    have := h j h2
    rwa [List.getD_eq_getElem _ _ h1, List.getD_eq_getElem _ _ h2] at this

theorem padded_getD_lt (vs : List Nat) (m k : Nat) (hk : k < vs.length) :
    (vs ++ List.replicate m 1).getD k 0 = vs.getD k 0 := by
  rw [List.getD_append _ _ _ _ hk]

theorem padded_getD_ge (vs : List Nat) (m k : Nat) (hk : vs.length ≤ k) (hk' : k < vs.length + m) :
    (vs ++ List.replicate m 1).getD k 0 = 1 := by
  rw [List.getD_append_right _ _ _ _ hk, List.getD_eq_getElem _ _ (by simp; omega)]
  simp

theorem ravelIdx_pad (vs idx : List Nat) (m : Nat) (h : idx.length = vs.length) :
    ravelIdx (vs ++ List.replicate m 1) (idx ++ List.replicate m 0) = ravelIdx vs idx := by
  unfold ravelIdx
  rw [List.zip_append h.symm, List.foldl_append]
  generalize List.foldl (fun acc (p : Nat × Nat) => acc * p.1 + p.2) 0 (vs.zip idx) = acc
  have : (List.replicate m 1).zip (List.replicate m 0) = List.replicate m ((1, 0) : Nat × Nat) := by simp
  rw [this]
  induction m with
  | zero => simp
  | succ m ih => simp [List.replicate_succ, ih]

/-! ## the reshaped diagonal (`moveaxis` of the padded values) -/

section reshaped
variable {N : Nat} {vs d order : List Nat}

/-- hypotheses: `order` is the `moveaxis` order sending axis `k < r` to position `d[k]` -/
structure DiagSetup (N : Nat) (vs d order : List Nat) : Prop where
  facts : MAFacts N (List.range vs.length) d order
  rle : vs.length ≤ N

theorem DiagSetup.dlen (S : DiagSetup N vs d order) : d.length = vs.length := by
  have := S.facts.len; simpa using this.symm

theorem DiagSetup.order_dest (S : DiagSetup N vs d order) (k : Nat) (hk : k < vs.length) :
    order.getD (d.getD k 0) 0 = k := by
  have := S.facts.dest k (by simpa using hk)
  rw [List.getD_eq_getElem _ _ (by simpa using hk : k < (List.range vs.length).length)] at this
  rw [List.getD_eq_getElem?_getD (l := order), this]
  simp

theorem DiagSetup.d_lt (S : DiagSetup N vs d order) (k : Nat) (hk : k < vs.length) : d.getD k 0 < N := by
  have := S.dlen
  rw [List.getD_eq_getElem _ _ (by omega)]
  exact S.facts.dLt _ (List.getElem_mem _)

/-- the shape of the reshaped diagonal -/
def dshape (N : Nat) (vs order : List Nat) : List Nat :=
  transposeShape (vs ++ List.replicate (N - vs.length) 1) order

theorem DiagSetup.dshape_length (S : DiagSetup N vs d order) : (dshape N vs order).length = N := by
  unfold dshape; rw [ma_transposeShape_length]; exact S.facts.length

theorem DiagSetup.dshape_dest (S : DiagSetup N vs d order) (k : Nat) (hk : k < vs.length) :
    (dshape N vs order).getD (d.getD k 0) 0 = vs.getD k 0 := by
  unfold dshape
  have hl := S.facts.length
  rw [ma_transposeShape_getD _ _ _ (by have := S.d_lt k hk; omega), S.order_dest k hk,
    padded_getD_lt _ _ _ hk]

theorem DiagSetup.order_rest (S : DiagSetup N vs d order) (j : Nat) (hj : j < N) (hjd : j ∉ d) :
    vs.length ≤ order.getD j 0 ∧ order.getD j 0 < N := by
  refine ⟨?_, S.facts.getD_lt j hj⟩
  have := (S.facts.mem_iff j hj).not.mpr hjd
  simpa using this

theorem DiagSetup.dshape_rest (S : DiagSetup N vs d order) (j : Nat) (hj : j < N) (hjd : j ∉ d) :
    (dshape N vs order).getD j 0 = 1 := by
  unfold dshape
  have hl := S.facts.length
  obtain ⟨h1, h2⟩ := S.order_rest j hj hjd
  have := S.rle
  rw [ma_transposeShape_getD _ _ _ (by omega), padded_getD_ge _ _ _ h1 (by omega)]

theorem DiagSetup.idxOf_lt (S : DiagSetup N vs d order) (k : Nat) (hk : k < vs.length) :
    order.idxOf k = d.getD k 0 := by
  have hl := S.facts.length
  have h1 := S.d_lt k hk
  have h2 := S.order_dest k hk
  rw [List.getD_eq_getElem order 0 (by omega : d.getD k 0 < order.length)] at h2
  have := S.facts.nodup.idxOf_getElem (d.getD k 0) (by omega)
  rw [h2] at this
  exact this

theorem DiagSetup.idxOf_ge (S : DiagSetup N vs d order) (ax : Nat) (h1 : vs.length ≤ ax) (h2 : ax < N) :
    order.idxOf ax < N ∧ order.idxOf ax ∉ d := by
  have hl := S.facts.length
  have hmem : ax ∈ order := S.facts.perm.mem_iff.mpr (by simpa using h2)
  have hlt : order.idxOf ax < order.length := List.idxOf_lt_length_of_mem hmem
  refine ⟨by omega, ?_⟩
  intro hd
  have := (S.facts.mem_iff (order.idxOf ax) (by omega)).mpr hd
  rw [List.getD_eq_getElem _ _ hlt, List.getElem_idxOf hlt] at this
  simp at this
  omega

/-- reading the reshaped diagonal at a valid multi-index: only the coordinates along the
destination axes matter -/
theorem DiagSetup.data_getD {α} [Inhabited α] (S : DiagSetup N vs d order) (data : List α) (idx : List Nat)
    (h : List.Forall₂ (· < ·) idx (dshape N vs order)) :
    (transposeData (vs ++ List.replicate (N - vs.length) 1) order data).getD
        (ravelIdx (dshape N vs order) idx) default
      = data.getD (ravelIdx vs ((List.range vs.length).map fun k => idx.getD (d.getD k 0) 0)) default := by
  unfold dshape at h ⊢
  rw [ma_transposeData_getD _ _ _ _ h]
  have hr := S.rle
  have hpl : (vs ++ List.replicate (N - vs.length) 1).length = N := by simp; omega
  rw [hpl]
  have hsplit : (List.range N).map (fun ax => idx.getD (order.idxOf ax) 0)
      = ((List.range vs.length).map fun k => idx.getD (d.getD k 0) 0) ++ List.replicate (N - vs.length) 0 := by
    apply List.ext_getElem
    · simp; omega
    · intro i h1 h2
      simp only [List.length_map, List.length_range] at h1
      simp only [List.getElem_map, List.getElem_range]
      by_cases hi : i < vs.length
      · rw [List.getElem_append_left (by simpa using hi)]
        simp only [List.getElem_map, List.getElem_range]
        rw [S.idxOf_lt i hi]
      · rw [List.getElem_append_right (by simpa using hi)]
        simp only [List.getElem_replicate]
        obtain ⟨a1, a2⟩ := S.idxOf_ge i (by omega) h1
        have hv := (forall2_lt_iff _ _).mp h
        have := hv.2 (order.idxOf i) (by rw [ma_transposeShape_length, S.facts.length]; exact a1)
        have e := S.dshape_rest _ a1 a2
        unfold dshape at e
        rw [e] at this
        omega
  rw [hsplit, ravelIdx_pad _ _ _ (by simp)]

end reshaped

/-! ## broadcasting of two shapes of the same rank -/

/-- the broadcast of two compatible dimensions -/
def bdim (p q : Nat) : Nat := if p = 1 then q else p

/-- NumPy compatibility of two dimensions -/
def bcompat (p q : Nat) : Prop := p = q ∨ p = 1 ∨ q = 1

theorem option_mapM_eq_some {β γ} (f : β → Option γ) (g : β → γ) (l : List β) (h : ∀ b ∈ l, f b = some (g b)) :
    l.mapM f = some (l.map g) := by
  induction l with
  | nil => rfl
  | cons b bs ih =>
    rw [List.mapM_cons, h b (by simp), ih (fun c hc => h c (by simp [hc]))]
    rfl

theorem broadcastShapes_same_rank (a b : List Nat) (hl : a.length = b.length)
    (hc : ∀ j, j < a.length → bcompat (a.getD j 0) (b.getD j 0)) :
    broadcastShapes a b = some (List.zipWith bdim a b) := by
  unfold broadcastShapes
  simp only [hl, Nat.max_self, Nat.sub_self, List.replicate_zero, List.nil_append]
  rw [option_mapM_eq_some _ (fun p => bdim p.1 p.2)]
  · congr 1
    rw [List.map_zip_eq_zipWith]; rfl
  · intro p hp
    obtain ⟨j, hj, rfl⟩ := List.getElem_of_mem hp
    simp only [List.length_zip] at hj
    have := hc j (by omega)
    rw [List.getD_eq_getElem _ _ (by omega), List.getD_eq_getElem _ _ (by omega)] at this
    simp only [List.getElem_zip, bdim]
    unfold bcompat at this
    by_cases h1 : a[j] = b[j]
    · simp [h1]
    · by_cases h2 : a[j] = 1
      · simp [h2]
      · have h3 : b[j] = 1 := by omega
        simp [h2, h3]

theorem bcastIndex_length (s oi : List Nat) (h : oi.length = s.length) : (bcastIndex s oi).length = s.length := by
  simp [bcastIndex, h]

theorem bcastIndex_getD (s oi : List Nat) (h : oi.length = s.length) (j : Nat) (hj : j < s.length) :
    (bcastIndex s oi).getD j 0 = if s.getD j 0 = 1 then 0 else oi.getD j 0 := by
  rw [List.getD_eq_getElem _ _ (by rw [bcastIndex_length s oi h]; exact hj),
    List.getD_eq_getElem _ _ hj, List.getD_eq_getElem _ _ (by omega : j < oi.length)]
  simp [bcastIndex, h]

/-- a valid index of the broadcast shape is mapped to a valid index of either operand -/
theorem bcastIndex_valid_left (a b oi : List Nat) (hl : a.length = b.length)
    (h : List.Forall₂ (· < ·) oi (List.zipWith bdim a b)) :
    List.Forall₂ (· < ·) (bcastIndex a oi) a := by
  rw [forall2_lt_iff] at h ⊢
  obtain ⟨h1, h2⟩ := h
  simp only [List.length_zipWith, hl, Nat.min_self] at h1 h2
  refine ⟨bcastIndex_length a oi (by omega), fun j hj => ?_⟩
  rw [bcastIndex_getD a oi (by omega) j hj]
  have := h2 j (by omega)
  have hz : j < (List.zipWith bdim a b).length := by simp; omega
  rw [List.getD_eq_getElem _ _ hz, List.getElem_zipWith] at this
  rw [List.getD_eq_getElem a _ hj]
  unfold bdim at this
  split
  · omega
  · rename_i hne
    rwa [if_neg hne] at this

theorem bcastIndex_valid_right (a b oi : List Nat) (hl : a.length = b.length)
    (hc : ∀ j, j < a.length → bcompat (a.getD j 0) (b.getD j 0))
    (h : List.Forall₂ (· < ·) oi (List.zipWith bdim a b)) :
    List.Forall₂ (· < ·) (bcastIndex b oi) b := by
  rw [forall2_lt_iff] at h ⊢
  obtain ⟨h1, h2⟩ := h
  simp only [List.length_zipWith, hl, Nat.min_self] at h1 h2
  refine ⟨bcastIndex_length b oi (by omega), fun j hj => ?_⟩
  rw [bcastIndex_getD b oi (by omega) j hj]
  have := h2 j (by omega)
  have hz : j < (List.zipWith bdim a b).length := by simp; omega
  rw [List.getD_eq_getElem _ _ hz, List.getElem_zipWith] at this
  have hcj := hc j (by omega)
  rw [List.getD_eq_getElem _ _ (by omega), List.getD_eq_getElem _ _ hj] at hcj
  rw [List.getD_eq_getElem b _ hj]
  unfold bdim at this
  unfold bcompat at hcj
  split
  · omega
  · rename_i hne
    split at this <;> omega

/-- an in-range multi-index is not changed by `bcastIndex` of its own shape -/
theorem bcastIndex_self (s oi : List Nat) (h : List.Forall₂ (· < ·) oi s) : bcastIndex s oi = oi := by
  rw [forall2_lt_iff] at h
  apply List.ext_getElem
  · rw [bcastIndex_length s oi h.1]; exact h.1.symm
  · intro j h1 h2
    have hj : j < s.length := by omega
    have := bcastIndex_getD s oi h.1 j hj
    rw [List.getD_eq_getElem _ _ h1, List.getD_eq_getElem _ _ h2] at this
    rw [this]
    have hlt := h.2 j hj
    rw [List.getD_eq_getElem _ _ h2] at hlt
    split
    · omega
    · rfl

/-- pointwise description of `zipBroadcast` once the broadcast shape is known -/
theorem zipBroadcast_spec {α} [Inhabited α] (f : α → α → α) (a b : Tensor α) (S : List Nat)
    (h : broadcastShapes a.shape b.shape = some S) :
    ∃ y, Tensor.zipBroadcast f a b = some y ∧ y.shape = S ∧ y.data.length = prodNat S ∧
      ∀ p, p < prodNat S → y.data.getD p default =
        f (a.data.getD (ravelIdx a.shape (bcastIndex a.shape (unravel S p))) default)
          (b.data.getD (ravelIdx b.shape (bcastIndex b.shape (unravel S p))) default) := by
  refine ⟨_, by simp only [Tensor.zipBroadcast, h]; rfl, rfl, by simp [Tensor.broadcastTo], ?_⟩
  intro p hp
  rw [List.getD_eq_getElem _ _ (by simp [Tensor.broadcastTo]; exact hp)]
  simp [Tensor.broadcastTo]

/-! ## the core: reshaped diagonal times a tensor of the same rank -/

section core
variable {N : Nat} {vs d order : List Nat}

theorem DiagSetup.compat (S : DiagSetup N vs d order) (X : List Nat)
    (hc : ∀ k, k < vs.length → bcompat (vs.getD k 0) (X.getD (d.getD k 0) 0)) :
    ∀ j, j < (dshape N vs order).length → bcompat ((dshape N vs order).getD j 0) (X.getD j 0) := by
  intro j hj
  rw [S.dshape_length] at hj
  by_cases hjd : j ∈ d
  · obtain ⟨k, hk, rfl⟩ := List.getElem_of_mem hjd
    have hk' : k < vs.length := by rw [← S.dlen]; exact hk
    have := hc k hk'
    rw [List.getD_eq_getElem d 0 hk] at this
    have e := S.dshape_dest k hk'
    rw [List.getD_eq_getElem d 0 hk] at e
    rw [e]; exact this
  · rw [S.dshape_rest j hj hjd]; exact Or.inr (Or.inl rfl)

/-- **Core specification.**  The reshaped diagonal (values of shape `vs` laid along the pairwise
distinct axes `d` of an `N`-dimensional array, ones elsewhere) multiplied with broadcasting by a
tensor of shape `X` of rank `N`. -/
theorem DiagSetup.zip_spec {α} [Inhabited α] (S : DiagSetup N vs d order) (f : α → α → α)
    (vdata xdata : List α) (X : List Nat) (hX : X.length = N)
    (hc : ∀ k, k < vs.length → bcompat (vs.getD k 0) (X.getD (d.getD k 0) 0)) :
    ∃ y, Tensor.zipBroadcast f
          ⟨dshape N vs order, transposeData (vs ++ List.replicate (N - vs.length) 1) order vdata⟩ ⟨X, xdata⟩
          = some y ∧
      y.shape = List.zipWith bdim (dshape N vs order) X ∧
      y.data.length = prodNat y.shape ∧
      ∀ p, p < prodNat y.shape →
        y.data.getD p default =
          f (vdata.getD (ravelIdx vs ((List.range vs.length).map fun k =>
                if vs.getD k 0 = 1 then 0 else (unravel y.shape p).getD (d.getD k 0) 0)) default)
            (xdata.getD (ravelIdx X (bcastIndex X (unravel y.shape p))) default) := by
  have hl : (dshape N vs order).length = X.length := by rw [S.dshape_length, hX]
  have hcomp := S.compat X hc
  have hB := broadcastShapes_same_rank (dshape N vs order) X hl hcomp
  obtain ⟨y, hy, hys, hyl, hyd⟩ := zipBroadcast_spec f
    ⟨dshape N vs order, transposeData (vs ++ List.replicate (N - vs.length) 1) order vdata⟩ ⟨X, xdata⟩ _ hB
  refine ⟨y, hy, hys, by rw [hys]; exact hyl, ?_⟩
  intro p hp
  rw [hys] at hp ⊢
  rw [hyd p hp]
  simp only
  obtain ⟨v1, _⟩ := ma_unravel_valid _ p hp
  have hbv := bcastIndex_valid_left _ _ _ hl v1
  rw [S.data_getD vdata _ hbv]
  congr 3
  apply List.map_congr_left
  intro k hk
  have hk' : k < vs.length := by simpa using hk
  have hil := ((forall2_lt_iff _ _).mp v1).1
  simp only [List.length_zipWith, hl, Nat.min_self] at hil
  rw [bcastIndex_getD _ _ (by omega) _ (by rw [S.dshape_length]; exact S.d_lt k hk'), S.dshape_dest k hk']

/-- the broadcast shape: unchanged away from the destination axes -/
theorem DiagSetup.out_shape_rest (S : DiagSetup N vs d order) (X : List Nat) (hX : X.length = N)
    (j : Nat) (hj : j < N) (hjd : j ∉ d) :
    (List.zipWith bdim (dshape N vs order) X).getD j 0 = X.getD j 0 := by
  have hl := S.dshape_length
  have hz : j < (List.zipWith bdim (dshape N vs order) X).length := by simp; omega
  rw [List.getD_eq_getElem _ _ hz, List.getElem_zipWith]
  have := S.dshape_rest j hj hjd
  rw [List.getD_eq_getElem _ _ (by omega)] at this
  rw [this, List.getD_eq_getElem _ _ (by omega)]
  simp [bdim]

theorem DiagSetup.out_shape_dest (S : DiagSetup N vs d order) (X : List Nat) (hX : X.length = N)
    (k : Nat) (hk : k < vs.length) :
    (List.zipWith bdim (dshape N vs order) X).getD (d.getD k 0) 0
      = bdim (vs.getD k 0) (X.getD (d.getD k 0) 0) := by
  have hl := S.dshape_length
  have hd := S.d_lt k hk
  have hz : d.getD k 0 < (List.zipWith bdim (dshape N vs order) X).length := by
    simp only [List.length_zipWith]; omega
  rw [List.getD_eq_getElem _ _ hz, List.getElem_zipWith]
  have := S.dshape_dest k hk
  rw [List.getD_eq_getElem (dshape N vs order) 0 (hl.symm ▸ hd)] at this
  rw [this, List.getD_eq_getElem X 0 (hX.symm ▸ hd)]

/-- when every values dimension is 1 or the dimension of `X` along its axis, the result has shape `X` -/
theorem DiagSetup.out_shape_eq (S : DiagSetup N vs d order) (X : List Nat) (hX : X.length = N)
    (hc : ∀ k, k < vs.length → vs.getD k 0 = X.getD (d.getD k 0) 0 ∨ vs.getD k 0 = 1) :
    List.zipWith bdim (dshape N vs order) X = X := by
  have hl := S.dshape_length
  apply List.ext_getElem
  · simp; omega
  · intro j h1 h2
    have e1 := List.getD_eq_getElem (List.zipWith bdim (dshape N vs order) X) 0 h1
    have e2 := List.getD_eq_getElem X 0 h2
    rw [← e1, ← e2]
    by_cases hjd : j ∈ d
    · obtain ⟨k, hk, rfl⟩ := List.getElem_of_mem hjd
      have hk' : k < vs.length := by rw [← S.dlen]; exact hk
      have := S.out_shape_dest X hX k hk'
      rw [List.getD_eq_getElem d 0 hk] at this
      rw [this]
      have := hc k hk'
      rw [List.getD_eq_getElem d 0 hk] at this
      unfold bdim
      split
      · rfl
      · omega
    · exact S.out_shape_rest X hX j (by omega) hjd

end core

/-! ## P2: `apply` in the in-range case -/

theorem normalizedAxes_nonneg (axes : List Int) (n : Nat) (h : ∀ a ∈ axes, 0 ≤ a) :
    normalizedAxes axes n = axes := by
  unfold normalizedAxes
  conv => rhs; rw [← List.map_id axes]
  apply List.map_congr_left
  intro a ha
  simp [h a ha]

theorem normalizeAxes_inrange (axes : List Int) (n : Nat) (h : ∀ a ∈ axes, 0 ≤ a) (hn : axes.Nodup) :
    normalizeAxes axes n = .ok axes := by
  have e := normalizedAxes_nonneg axes n h
  have := normalizeAxes_nodup axes n (by rw [e, eraseDups_of_nodup _ hn])
  rwa [e] at this

theorem leftDims_nonneg (axes : List Int) (hne : axes ≠ []) (h : ∀ a ∈ axes, 0 ≤ a) : leftDims axes = 0 := by
  unfold leftDims
  have := h _ (minInt_mem axes hne)
  omega

theorem rightDims_inrange (axes : List Int) (n : Nat) (hne : axes ≠ []) (h : ∀ a ∈ axes, a < n) :
    rightDims axes n = 0 := by
  unfold rightDims
  have := h _ (maxInt_mem axes hne)
  omega

theorem reshapeDiagonal_inrange {α} [Inhabited α] (values : Tensor α) (axes : List Int) (n : Nat)
    (hne : axes ≠ []) (h : ∀ a ∈ axes, 0 ≤ a ∧ a < n) :
    reshapeDiagonal values axes n =
      Axes.moveaxis ⟨values.shape ++ List.replicate (n - values.shape.length) 1, values.data⟩
        ((List.range axes.length).map fun (k : Nat) => Int.ofNat k) axes := by
  unfold reshapeDiagonal
  simp only [leftDims_nonneg axes hne (fun a ha => (h a ha).1),
    rightDims_inrange axes n hne (fun a ha => (h a ha).2)]
  have e1 : ((((0 : Nat) : Int) + ((0 : Nat) : Int) + (n : Int) - (values.shape.length : Int)).toNat)
      = n - values.shape.length := by omega
  have e2 : axes.map (· + (((0 : Nat) : Int))) = axes := by simp
  rw [e1, e2]

theorem reshapeLeaf_inrange {α} (x : Tensor α) (axes : List Int)
    (hne : axes ≠ []) (h : ∀ a ∈ axes, a < x.shape.length) : reshapeLeaf x axes = x := by
  unfold reshapeLeaf
  rw [rightDims_inrange axes _ hne h]
  simp

theorem toNat_getD (axes : List Int) (k : Nat) (hk : k < axes.length) :
    (axes.map Int.toNat).getD k 0 = (axes.getD k 0).toNat := by
  rw [List.getD_eq_getElem _ _ (by simpa using hk), List.getD_eq_getElem _ _ hk]
  simp

/-- **P2/P3 (in-range axes, values dimensions equal to the leaf's or to 1).**
`out[idx] = values[idx restricted to the destination axes, 0 where the values have size 1] * x[idx]`. -/
theorem apply_inrange_bcast {α} [Inhabited α] [Mul α] (strict : Bool) (values x : Tensor α) (axes : List Int)
    (hv : values.shape ≠ [])
    (hlen : axes.length = values.shape.length) (hnd : axes.Nodup)
    (hrange : ∀ a ∈ axes, 0 ≤ a ∧ a < x.shape.length)
    (hshape : ∀ k, k < values.shape.length →
      values.shape.getD k 0 = x.shape.getD (axes.getD k 0).toNat 0 ∨ values.shape.getD k 0 = 1) :
    ∃ y, apply strict values (.seq axes) x = .ok y ∧ y.shape = x.shape ∧
      y.data.length = prodNat x.shape ∧
      ∀ p, p < prodNat x.shape →
        y.data.getD p default =
          values.data.getD (ravelIdx values.shape ((List.range values.shape.length).map fun k =>
              if values.shape.getD k 0 = 1 then 0
              else (unravel x.shape p).getD (axes.getD k 0).toNat 0)) default
            * x.data.getD p default := by
  have hr0 : values.shape.length ≠ 0 := by simpa using hv
  have hne : axes ≠ [] := by intro e; rw [e] at hlen; simp at hlen; omega
  have hd_nodup := toNat_nodup axes (fun a ha => (hrange a ha).1) hnd
  have hd_lt : ∀ j ∈ axes.map Int.toNat, j < x.shape.length := by
    intro j hj
    obtain ⟨a, ha, rfl⟩ := List.mem_map.mp hj
    have := hrange a ha; omega
  have hrle : axes.length ≤ x.shape.length := by
    have := nodup_length_le _ _ hd_nodup hd_lt; simpa using this
  obtain ⟨order, ho, F⟩ := moveaxisOrder_range_ok x.shape.length axes hrange hnd hrle
  rw [hlen] at F
  have S : DiagSetup x.shape.length values.shape (axes.map Int.toNat) order := ⟨F, by omega⟩
  have hc : ∀ k, k < values.shape.length →
      values.shape.getD k 0 = x.shape.getD ((axes.map Int.toNat).getD k 0) 0 ∨ values.shape.getD k 0 = 1 := by
    intro k hk
    rw [toNat_getD axes k (by omega)]; exact hshape k hk
  obtain ⟨y, hy, hys, hyl, hyd⟩ := S.zip_spec (· * ·) values.data x.data x.shape rfl (by
    intro k hk
    rcases hc k hk with h | h
    · exact Or.inl h
    · exact Or.inr (Or.inl h))
  rw [S.out_shape_eq x.shape rfl hc] at hys
  rw [hys] at hyl hyd
  refine ⟨y, ?_, hys, hyl, ?_⟩
  · unfold apply
    have h0 : (values.shape.length == 0) = false := by simpa using hr0
    simp only [h0, normalizeSpec_seq, normalizeAxes_inrange axes _ (fun a ha => (hrange a ha).1) hnd,
      reshapeDiagonal_inrange values axes _ hne hrange,
      reshapeLeaf_inrange x axes hne (fun a ha => (hrange a ha).2), bind, Except.bind]
    unfold Axes.moveaxis
    have hpl : (values.shape ++ List.replicate (x.shape.length - values.shape.length) 1).length
        = x.shape.length := by simp; omega
    simp only [hpl, ho, bind, Except.bind, pure, Except.pure]
    have hy' : Tensor.zipBroadcast (· * ·)
        ⟨transposeShape (values.shape ++ List.replicate (x.shape.length - values.shape.length) 1) order,
          transposeData (values.shape ++ List.replicate (x.shape.length - values.shape.length) 1) order
            values.data⟩ x = some y := hy
    rw [hy']
    simp [hys]
  · intro p hp
    rw [hyd p hp]
    obtain ⟨v1, v2⟩ := ma_unravel_valid x.shape p hp
    rw [bcastIndex_self _ _ v1, v2]
    congr 3
    apply List.map_congr_left
    intro k hk
    have hk' : k < values.shape.length := by simpa using hk
    rw [toNat_getD axes k (by omega)]

/-- the multi-index into the values read at output position `idx`: the coordinates of `idx` along
the destination axes -/
def valuesIndex (axes : List Int) (idx : List Nat) : List Nat :=
  (List.range axes.length).map fun k => idx.getD (axes.getD k 0).toNat 0

theorem valuesIndex_valid (vs xs : List Nat) (axes : List Int) (idx : List Nat)
    (hlen : axes.length = vs.length)
    (hrange : ∀ a ∈ axes, 0 ≤ a ∧ a < xs.length)
    (hshape : ∀ k, k < vs.length → vs.getD k 0 = xs.getD (axes.getD k 0).toNat 0)
    (hidx : List.Forall₂ (· < ·) idx xs) :
    List.Forall₂ (· < ·) (valuesIndex axes idx) vs := by
  rw [forall2_lt_iff] at hidx ⊢
  refine ⟨by simp [valuesIndex, hlen], fun k hk => ?_⟩
  unfold valuesIndex
  rw [List.getD_eq_getElem _ _ (by simp; omega)]
  simp only [List.getElem_map, List.getElem_range]
  rw [hshape k hk]
  apply hidx.2
  have : axes.getD k 0 ∈ axes := by
    rw [List.getD_eq_getElem _ _ (by omega)]; exact List.getElem_mem _
  have := hrange _ this
  omega

/-- **P2 (main specification, `getD` form).**  `values` of rank `r ≥ 1`, `axes` a list of `r` pairwise
distinct integers in `[0, rank x)`, `values.shape[k] = x.shape[axes[k]]`.  Then `apply` succeeds (strict
or not), the result has the shape of `x`, and
`out[idx] = values[idx[axes[0]], …, idx[axes[r-1]]] * x[idx]` at every flat position. -/
theorem apply_inrange {α} [Inhabited α] [Mul α] (strict : Bool) (values x : Tensor α) (axes : List Int)
    (hv : values.shape ≠ [])
    (hlen : axes.length = values.shape.length) (hnd : axes.Nodup)
    (hrange : ∀ a ∈ axes, 0 ≤ a ∧ a < x.shape.length)
    (hshape : ∀ k, k < values.shape.length →
      values.shape.getD k 0 = x.shape.getD (axes.getD k 0).toNat 0) :
    ∃ y, apply strict values (.seq axes) x = .ok y ∧ y.shape = x.shape ∧
      y.data.length = prodNat x.shape ∧
      ∀ p, p < prodNat x.shape →
        y.data.getD p default =
          values.data.getD (ravelIdx values.shape (valuesIndex axes (unravel x.shape p))) default
            * x.data.getD p default := by
  obtain ⟨y, hy, hys, hyl, hyd⟩ := apply_inrange_bcast strict values x axes hv hlen hnd hrange
    (fun k hk => Or.inl (hshape k hk))
  refine ⟨y, hy, hys, hyl, fun p hp => ?_⟩
  rw [hyd p hp]
  congr 3
  unfold valuesIndex
  rw [hlen]
  apply List.map_congr_left
  intro k hk
  have hk' : k < values.shape.length := by simpa using hk
  split
  · rename_i h1
    obtain ⟨v1, _⟩ := ma_unravel_valid x.shape p hp
    rw [forall2_lt_iff] at v1
    have hm : axes.getD k 0 ∈ axes := by
      rw [List.getD_eq_getElem _ _ (by omega)]; exact List.getElem_mem _
    have := hrange _ hm
    have := v1.2 (axes.getD k 0).toNat (by omega)
    rw [← hshape k hk', h1] at this
    omega
  · rfl

/-- **P2 (main specification, `getElem` form for well-formed tensors)**: all the reads are in range. -/
theorem apply_inrange_getElem {α} [Inhabited α] [Mul α] (strict : Bool) (values x : Tensor α) (axes : List Int)
    (hv : values.shape ≠ [])
    (hvw : values.data.length = prodNat values.shape) (hxw : x.data.length = prodNat x.shape)
    (hlen : axes.length = values.shape.length) (hnd : axes.Nodup)
    (hrange : ∀ a ∈ axes, 0 ≤ a ∧ a < x.shape.length)
    (hshape : ∀ k, k < values.shape.length →
      values.shape.getD k 0 = x.shape.getD (axes.getD k 0).toNat 0) :
    ∃ y, apply strict values (.seq axes) x = .ok y ∧ y.shape = x.shape ∧
      ∃ hyl : y.data.length = prodNat x.shape,
      ∀ p (hp : p < prodNat x.shape),
        ∃ hi : ravelIdx values.shape (valuesIndex axes (unravel x.shape p)) < values.data.length,
          y.data[p]'(hyl ▸ hp) =
            values.data[ravelIdx values.shape (valuesIndex axes (unravel x.shape p))]'hi
              * x.data[p]'(hxw ▸ hp) := by
  obtain ⟨y, hy, hys, hyl, hyd⟩ := apply_inrange strict values x axes hv hlen hnd hrange hshape
  refine ⟨y, hy, hys, hyl, fun p hp => ?_⟩
  obtain ⟨v1, _⟩ := ma_unravel_valid x.shape p hp
  have hval := valuesIndex_valid values.shape x.shape axes _ hlen hrange hshape v1
  have hi := (ma_ravel_valid _ _ hval).1
  rw [← hvw] at hi
  refine ⟨hi, ?_⟩
  have := hyd p hp
  rwa [List.getD_eq_getElem _ _ (hyl ▸ hp), List.getD_eq_getElem _ _ hi,
    List.getD_eq_getElem _ _ (hxw ▸ hp)] at this

/-! ## P3: the general case (axes outside the leaf's rank, broadcasting in both directions) -/

/-- positions (in the `leftDims + rank x + rightDims`-dimensional broadcast frame) of the values' axes -/
def destAxes (ax : List Int) : List Nat := (ax.map (· + (leftDims ax : Int))).map Int.toNat

/-- the leaf's shape in the broadcast frame -/
def padShape (L R : Nat) (xs : List Nat) : List Nat := List.replicate L 1 ++ (xs ++ List.replicate R 1)

theorem shifted_range (ax : List Int) (n : Nat) :
    ∀ a ∈ ax.map (· + (leftDims ax : Int)), 0 ≤ a ∧ a < ((leftDims ax + n + rightDims ax n : Nat) : Int) := by
  intro a' ha'
  obtain ⟨a, ha, rfl⟩ := List.mem_map.mp ha'
  have h1 := minInt_le ax a ha
  have h2 := le_maxInt ax a ha
  unfold leftDims rightDims
  constructor <;> omega

theorem shifted_nodup (ax : List Int) (c : Int) (h : ax.Nodup) : (ax.map (· + c)).Nodup := by
  rw [List.nodup_map_iff_inj_on h]
  intro a _ b _ hab
  omega

/-- `_reshape_diagonal` always succeeds on pairwise distinct axes, and yields the reshaped diagonal -/
theorem reshapeDiagonal_ok {α} [Inhabited α] (values : Tensor α) (ax : List Int) (n : Nat)
    (hlen : ax.length = values.shape.length) (hnd : ax.Nodup) :
    ∃ order,
      reshapeDiagonal values ax n = .ok
        ⟨dshape (leftDims ax + n + rightDims ax n) values.shape order,
          transposeData (values.shape ++
            List.replicate (leftDims ax + n + rightDims ax n - values.shape.length) 1) order values.data⟩ ∧
      DiagSetup (leftDims ax + n + rightDims ax n) values.shape (destAxes ax) order := by
  have hrange := shifted_range ax n
  have hnd' := shifted_nodup ax (leftDims ax : Int) hnd
  have hd_nodup := toNat_nodup _ (fun a ha => (hrange a ha).1) hnd'
  have hd_lt : ∀ j ∈ (ax.map (· + (leftDims ax : Int))).map Int.toNat, j < leftDims ax + n + rightDims ax n := by
    intro j hj
    obtain ⟨a, ha, rfl⟩ := List.mem_map.mp hj
    have := hrange a ha; omega
  have hrle : (ax.map (· + (leftDims ax : Int))).length ≤ leftDims ax + n + rightDims ax n := by
    have := nodup_length_le _ _ hd_nodup hd_lt; simpa using this
  obtain ⟨order, ho, F⟩ := moveaxisOrder_range_ok _ _ hrange hnd' hrle
  rw [List.length_map] at ho F hrle
  rw [hlen] at F
  refine ⟨order, ?_, ⟨F, by omega⟩⟩
  unfold reshapeDiagonal
  have e1 : (((leftDims ax : Nat) : Int) + ((rightDims ax n : Nat) : Int) + (n : Int)
      - (values.shape.length : Int)).toNat = leftDims ax + n + rightDims ax n - values.shape.length := by omega
  simp only [e1]
  unfold Axes.moveaxis
  have hpl : (values.shape ++ List.replicate (leftDims ax + n + rightDims ax n - values.shape.length) 1).length
      = leftDims ax + n + rightDims ax n := by simp; omega
  simp only [hpl, ho, bind, Except.bind, pure, Except.pure]
  rfl

theorem broadcastShapes_pad (a b : List Nat) (h : b.length ≤ a.length) :
    broadcastShapes a b = broadcastShapes a (List.replicate (a.length - b.length) 1 ++ b) := by
  unfold broadcastShapes
  have e1 : max a.length b.length = a.length := by omega
  have e2 : max a.length (List.replicate (a.length - b.length) 1 ++ b).length = a.length := by simp; omega
  have e3 : a.length - (List.replicate (a.length - b.length) 1 ++ b).length = 0 := by simp; omega
  simp only [e1, e2, e3, List.replicate_zero, List.nil_append]

theorem bcastIndex_drop (s oi : List Nat) (h : s.length ≤ oi.length) :
    bcastIndex s oi = bcastIndex s (oi.drop (oi.length - s.length)) := by
  unfold bcastIndex
  have : (oi.drop (oi.length - s.length)).length - s.length = 0 := by simp; omega
  simp only [this, List.drop_zero]

/-- the position read in the leaf: its own coordinates, 0 along the dimensions of size 1 -/
theorem leaf_index (xs : List Nat) (L R : Nat) (oi : List Nat) (h : oi.length = L + xs.length + R) :
    ravelIdx (xs ++ List.replicate R 1) (bcastIndex (xs ++ List.replicate R 1) oi)
      = ravelIdx xs ((List.range xs.length).map fun j =>
          if xs.getD j 0 = 1 then 0 else oi.getD (L + j) 0) := by
  have hsl : (xs ++ List.replicate R 1).length = xs.length + R := by simp
  rw [bcastIndex_drop _ _ (by omega), hsl]
  have hk : oi.length - (xs.length + R) = L := by omega
  rw [hk]
  have hdl : (oi.drop L).length = (xs ++ List.replicate R 1).length := by simp; omega
  have : bcastIndex (xs ++ List.replicate R 1) (oi.drop L)
      = ((List.range xs.length).map fun j => if xs.getD j 0 = 1 then 0 else oi.getD (L + j) 0)
        ++ List.replicate R 0 := by
    apply List.ext_getElem
    · rw [bcastIndex_length _ _ hdl]; simp
    · intro i h1 h2
      rw [bcastIndex_length _ _ hdl, hsl] at h1
      have e := bcastIndex_getD _ _ hdl i (by omega)
      rw [List.getD_eq_getElem _ _ (by rw [bcastIndex_length _ _ hdl]; omega)] at e
      rw [e]
      by_cases hi : i < xs.length
      · rw [List.getElem_append_left (by simpa using hi)]
        simp only [List.getElem_map, List.getElem_range]
        rw [padded_getD_lt _ _ _ hi]
        rw [List.getD_eq_getElem (oi.drop L) 0 (by omega), List.getElem_drop,
          List.getD_eq_getElem oi 0 (by omega)]
      · rw [List.getElem_append_right (by simpa using hi), padded_getD_ge _ _ _ (by omega) (by omega)]
        simp
  rw [this, ravelIdx_pad _ _ _ (by simp)]

theorem ravelIdx_leftpad (b v : List Nat) (m : Nat) :
    ravelIdx (List.replicate m 1 ++ b) (List.replicate m 0 ++ v) = ravelIdx b v := by
  unfold ravelIdx
  rw [List.zip_append (by simp), List.foldl_append]
  have : (List.replicate m 1).zip (List.replicate m 0) = List.replicate m ((1, 0) : Nat × Nat) := by simp
  rw [this]
  have : List.foldl (fun acc (p : Nat × Nat) => acc * p.1 + p.2) 0 (List.replicate m ((1, 0) : Nat × Nat)) = 0 := by
    induction m with
    | zero => simp
    | succ m ih => simp [List.replicate_succ, ih]
  rw [this]

/-- padding a shape with ones on the left does not change the position read under broadcasting -/
theorem ravel_bcast_leftpad (b oi : List Nat) (m : Nat) (h : oi.length = m + b.length) :
    ravelIdx (List.replicate m 1 ++ b) (bcastIndex (List.replicate m 1 ++ b) oi)
      = ravelIdx b (bcastIndex b oi) := by
  have hsl : (List.replicate m 1 ++ b).length = m + b.length := by simp
  have hol : oi.length = (List.replicate m 1 ++ b).length := by omega
  have hdl : (oi.drop m).length = b.length := by simp; omega
  have hbd : bcastIndex b oi = bcastIndex b (oi.drop m) := by
    rw [bcastIndex_drop _ _ (by omega)]
    congr 2; omega
  have : bcastIndex (List.replicate m 1 ++ b) oi = List.replicate m 0 ++ bcastIndex b oi := by
    apply List.ext_getElem
    · rw [bcastIndex_length _ _ hol, hbd]; simp [bcastIndex_length _ _ hdl]
    · intro i h1 h2
      rw [bcastIndex_length _ _ hol, hsl] at h1
      have e := bcastIndex_getD _ _ hol i (by omega)
      rw [List.getD_eq_getElem _ _ (by rw [bcastIndex_length _ _ hol]; omega)] at e
      rw [e]
      by_cases hi : i < m
      · rw [List.getElem_append_left (by simpa using hi),
          List.getD_append _ _ _ _ (by simpa using hi)]
        have e1 : (List.replicate m 1).getD i 0 = 1 := by
          rw [List.getD_eq_getElem _ _ (by simpa using hi)]; simp
        rw [e1]; simp
      · rw [List.getElem_append_right (by simpa using hi),
          List.getD_append_right _ _ _ _ (by simpa using hi)]
        simp only [List.length_replicate]
        have e2 := bcastIndex_getD _ _ hdl (i - m) (by omega)
        rw [List.getD_eq_getElem _ _ (by rw [bcastIndex_length _ _ hdl]; omega)] at e2
        have e3 : (bcastIndex b oi)[i - m]'(by rw [hbd, bcastIndex_length _ _ hdl]; omega)
            = (bcastIndex b (oi.drop m))[i - m]'(by rw [bcastIndex_length _ _ hdl]; omega) := by
          congr 1
        rw [e3, e2]
        rw [List.getD_eq_getElem (oi.drop m) 0 (by omega), List.getElem_drop,
          List.getD_eq_getElem oi 0 (by omega)]
        have : m + (i - m) = i := by omega
        simp only [this]
  rw [this, ravelIdx_leftpad]

theorem option_mapM_length {β γ} (f : β → Option γ) (l : List β) (l' : List γ) (h : l.mapM f = some l') :
    l'.length = l.length := by
  induction l generalizing l' with
  | nil => simp at h; subst h; rfl
  | cons b bs ih =>
    rw [List.mapM_cons] at h
    cases hb : f b with
    | none => simp [hb] at h
    | some c =>
      cases hbs : bs.mapM f with
      | none => simp [hb, hbs] at h
      | some cs =>
        simp [hb, hbs] at h
        subst h
        simp [ih cs hbs]

theorem broadcastShapes_length (a b S : List Nat) (h : broadcastShapes a b = some S) :
    S.length = max a.length b.length := by
  unfold broadcastShapes at h
  have := option_mapM_length _ _ _ h
  rw [this]
  simp

/-- a right operand of lower rank may be padded with ones on the left -/
theorem zipBroadcast_pad {α} [Inhabited α] (f : α → α → α) (a b : Tensor α)
    (h : b.shape.length ≤ a.shape.length) :
    Tensor.zipBroadcast f a b
      = Tensor.zipBroadcast f a ⟨List.replicate (a.shape.length - b.shape.length) 1 ++ b.shape, b.data⟩ := by
  unfold Tensor.zipBroadcast
  rw [← broadcastShapes_pad _ _ h]
  cases hB : broadcastShapes a.shape b.shape with
  | none => rfl
  | some S =>
    have hS := broadcastShapes_length _ _ _ hB
    simp only [Option.bind_eq_bind, Option.bind_some, Tensor.broadcastTo]
    congr 3
    apply List.map_congr_left
    intro i _
    rw [ravel_bcast_leftpad _ _ _ (by rw [ma_unravel_length, hS]; omega)]

/-- explicit broadcast shape: along the destination axis of the `k`-th values dimension the
broadcast of both dimensions, elsewhere the (padded) leaf's dimension -/
def outShape (vs d X : List Nat) : List Nat :=
  (List.range X.length).map fun j =>
    if j ∈ d then bdim (vs.getD (d.idxOf j) 0) (X.getD j 0) else X.getD j 0

theorem DiagSetup.out_shape_explicit {N : Nat} {vs d order : List Nat} (S : DiagSetup N vs d order)
    (X : List Nat) (hX : X.length = N) :
    List.zipWith bdim (dshape N vs order) X = outShape vs d X := by
  have hl := S.dshape_length
  apply List.ext_getElem
  · simp [outShape]; omega
  · intro j h1 h2
    have e1 := List.getD_eq_getElem (List.zipWith bdim (dshape N vs order) X) 0 h1
    rw [← e1]
    simp only [outShape, List.getElem_map, List.getElem_range]
    simp only [outShape, List.length_map, List.length_range] at h2
    by_cases hjd : j ∈ d
    · rw [if_pos hjd]
      obtain ⟨k, hk, rfl⟩ := List.getElem_of_mem hjd
      have hk' : k < vs.length := by rw [← S.dlen]; exact hk
      have := S.out_shape_dest X hX k hk'
      rw [List.getD_eq_getElem d 0 hk] at this
      rw [this, S.facts.dNodup.idxOf_getElem k hk]
    · rw [if_neg hjd]
      exact S.out_shape_rest X hX j (by omega) hjd

/-- **P3 (general specification of `apply`).**  `ax` are the axes after constructor normalisation and
`_normalize_axes` (pairwise distinct, otherwise see `apply_rejects_duplicate_axes`), `L`/`R` the
numbers of dimensions added on the left/right, `d = destAxes ax` the positions of the values' axes in the
`L + rank x + R`-dimensional frame, `X` the leaf's shape padded with ones.  If every values dimension is
NumPy-compatible with the leaf's dimension at its destination, the non-strict operator returns `y` of shape
`outShape …` with `y[idx] = values[idx along d, 0 where values has size 1] * x[idx[L …], 0 where x has size 1]`,
and the strict operator returns the same `y` when that shape is the leaf's, `ValueError` otherwise. -/
theorem apply_general {α} [Inhabited α] [Mul α] (strict : Bool) (values x : Tensor α) (spec : AxisSpec)
    (ax : List Int) (hax : ax = normalizedAxes (normalizeSpec values.shape.length spec) x.shape.length)
    (hv : values.shape ≠ [])
    (hlen : ax.length = values.shape.length) (hnd : ax.Nodup)
    (hc : ∀ k, k < values.shape.length →
      bcompat (values.shape.getD k 0)
        ((padShape (leftDims ax) (rightDims ax x.shape.length) x.shape).getD ((destAxes ax).getD k 0) 0)) :
    ∃ y, apply strict values spec x
          = (if strict && y.shape != x.shape then .error .valueError else .ok y) ∧
      y.shape = outShape values.shape (destAxes ax)
        (padShape (leftDims ax) (rightDims ax x.shape.length) x.shape) ∧
      y.data.length = prodNat y.shape ∧
      ∀ p, p < prodNat y.shape →
        y.data.getD p default =
          values.data.getD (ravelIdx values.shape ((List.range values.shape.length).map fun k =>
              if values.shape.getD k 0 = 1 then 0
              else (unravel y.shape p).getD ((destAxes ax).getD k 0) 0)) default
          * x.data.getD (ravelIdx x.shape ((List.range x.shape.length).map fun j =>
              if x.shape.getD j 0 = 1 then 0
              else (unravel y.shape p).getD (leftDims ax + j) 0)) default := by
  have hr0 : values.shape.length ≠ 0 := by simpa using hv
  obtain ⟨order, hrd, S⟩ := reshapeDiagonal_ok values ax x.shape.length hlen hnd
  have hXl : (padShape (leftDims ax) (rightDims ax x.shape.length) x.shape).length
      = leftDims ax + x.shape.length + rightDims ax x.shape.length := by
    simp [padShape]; omega
  obtain ⟨y, hy, hys, hyl, hyd⟩ := S.zip_spec (· * ·) values.data x.data _ hXl hc
  refine ⟨y, ?_, ?_, hyl, ?_⟩
  · unfold apply
    have h0 : (values.shape.length == 0) = false := by simpa using hr0
    have hna : normalizeAxes (normalizeSpec values.shape.length spec) x.shape.length = .ok ax := by
      rw [hax]
      apply normalizeAxes_nodup
      rw [← hax, eraseDups_of_nodup _ hnd]
    simp only [h0, hna, hrd, bind, Except.bind]
    have hzb : Tensor.zipBroadcast (· * ·)
        ⟨dshape (leftDims ax + x.shape.length + rightDims ax x.shape.length) values.shape order,
          transposeData (values.shape ++ List.replicate
            (leftDims ax + x.shape.length + rightDims ax x.shape.length - values.shape.length) 1)
            order values.data⟩ (reshapeLeaf x ax) = some y := by
      rw [← hy, zipBroadcast_pad _ _ _ (by simp only [S.dshape_length]; simp [reshapeLeaf])]
      simp only [S.dshape_length]
      congr 2
      simp only [reshapeLeaf, padShape, List.length_append, List.length_replicate]
      congr 2
      omega
    rw [hzb]
    simp
  · rw [hys, S.out_shape_explicit _ hXl]
  · intro p hp
    rw [hyd p hp]
    congr 2
    have hul : (unravel y.shape p).length
        = leftDims ax + x.shape.length + rightDims ax x.shape.length := by
      rw [ma_unravel_length, hys, List.length_zipWith, S.dshape_length, hXl]; simp
    unfold padShape
    rw [ravel_bcast_leftpad _ _ _ (by rw [hul]; simp; omega), leaf_index _ _ _ _ hul]

/-! ## corollaries -/

/-- only the normalised constructor argument matters -/
theorem apply_spec_seq {α} [Inhabited α] [Mul α] (strict : Bool) (values x : Tensor α) (spec : AxisSpec) :
    apply strict values spec x = apply strict values (.seq (normalizeSpec values.shape.length spec)) x := rfl

/-- negative axes in `[-rank x, 0)` are counted from the end of the leaf -/
theorem apply_seq_normalized {α} [Inhabited α] [Mul α] (strict : Bool) (values x : Tensor α) (axes : List Int)
    (h : ∀ a ∈ axes, -(x.shape.length : Int) ≤ a) :
    apply strict values (.seq axes) x
      = apply strict values (.seq (normalizedAxes axes x.shape.length)) x := by
  have hnn : ∀ a ∈ normalizedAxes axes x.shape.length, 0 ≤ a := by
    intro a' ha'
    obtain ⟨a, ha, rfl⟩ := List.mem_map.mp ha'
    have := h a ha
    show 0 ≤ (if a ≥ 0 then a else (x.shape.length : Int) + a)
    split <;> omega
  have e : normalizeAxes axes x.shape.length
      = normalizeAxes (normalizedAxes axes x.shape.length) x.shape.length := by
    have e2 := normalizedAxes_nonneg _ x.shape.length hnn
    rw [normalizeAxes_eq, normalizeAxes_eq, e2]
  unfold apply
  simp only [normalizeSpec_seq, e]

/-- **P2 with signed in-range axes**: `axes[k] ∈ [-n, n)`, pairwise distinct after normalisation. -/
theorem apply_inrange_signed {α} [Inhabited α] [Mul α] (strict : Bool) (values x : Tensor α) (axes : List Int)
    (hv : values.shape ≠ [])
    (hlen : axes.length = values.shape.length)
    (hnd : (normalizedAxes axes x.shape.length).Nodup)
    (hrange : ∀ a ∈ axes, -(x.shape.length : Int) ≤ a ∧ a < x.shape.length)
    (hshape : ∀ k, k < values.shape.length →
      values.shape.getD k 0
        = x.shape.getD ((normalizedAxes axes x.shape.length).getD k 0).toNat 0) :
    ∃ y, apply strict values (.seq axes) x = .ok y ∧ y.shape = x.shape ∧
      y.data.length = prodNat x.shape ∧
      ∀ p, p < prodNat x.shape →
        y.data.getD p default =
          values.data.getD (ravelIdx values.shape
              (valuesIndex (normalizedAxes axes x.shape.length) (unravel x.shape p))) default
            * x.data.getD p default := by
  rw [apply_seq_normalized strict values x axes (fun a ha => (hrange a ha).1)]
  apply apply_inrange strict values x _ hv (by simp [normalizedAxes, hlen]) hnd ?_ hshape
  intro a' ha'
  obtain ⟨a, ha, rfl⟩ := List.mem_map.mp ha'
  have := hrange a ha
  show 0 ≤ (if a ≥ 0 then a else (x.shape.length : Int) + a)
    ∧ (if a ≥ 0 then a else (x.shape.length : Int) + a) < x.shape.length
  split <;> omega

/-- **P2 for a non-negative scalar `axis_destination = a`** (`a + r ≤ rank x`): the values are laid along
the axes `a, …, a+r-1`. -/
theorem apply_scalar_nonneg {α} [Inhabited α] [Mul α] (strict : Bool) (values x : Tensor α) (a : Nat)
    (hv : values.shape ≠ [])
    (hfit : a + values.shape.length ≤ x.shape.length)
    (hshape : ∀ k, k < values.shape.length → values.shape.getD k 0 = x.shape.getD (a + k) 0) :
    ∃ y, apply strict values (.scalar (a : Int)) x = .ok y ∧ y.shape = x.shape ∧
      y.data.length = prodNat x.shape ∧
      ∀ p, p < prodNat x.shape →
        y.data.getD p default =
          values.data.getD (ravelIdx values.shape
              ((List.range values.shape.length).map fun k => (unravel x.shape p).getD (a + k) 0)) default
            * x.data.getD p default := by
  rw [apply_spec_seq, normalizeSpec_nonneg _ _ (by omega)]
  have hget : ∀ k, k < values.shape.length →
      (((List.range values.shape.length).map fun (k : Nat) => (a : Int) + Int.ofNat k).getD k 0).toNat
        = a + k := by
    intro k hk
    rw [List.getD_eq_getElem _ _ (by simpa using hk)]
    simp only [List.getElem_map, List.getElem_range, Int.ofNat_eq_natCast]
    omega
  obtain ⟨y, hy, hys, hyl, hyd⟩ := apply_inrange strict values x
    ((List.range values.shape.length).map fun (k : Nat) => (a : Int) + Int.ofNat k) hv (by simp)
    (by
      rw [List.nodup_map_iff_inj_on List.nodup_range]
      intro i _ j _ hij
      simp only [Int.ofNat_eq_natCast] at hij
      omega)
    (by
      intro a' ha'
      obtain ⟨k, hk, rfl⟩ := List.mem_map.mp ha'
      have := List.mem_range.mp hk
      simp only [Int.ofNat_eq_natCast]
      omega)
    (by
      intro k hk
      rw [hget k hk]; exact hshape k hk)
  refine ⟨y, hy, hys, hyl, fun p hp => ?_⟩
  rw [hyd p hp]
  congr 3
  unfold valuesIndex
  rw [List.length_map, List.length_range]
  apply List.map_congr_left
  intro k hk
  rw [hget k (by simpa using hk)]

/-- **P2, rank-one values**: a vector of values along the single axis `a` of a leaf of any rank:
`out[idx] = values[idx[a]] * x[idx]`. -/
theorem apply_vector {α} [Inhabited α] [Mul α] (strict : Bool) (m : Nat) (vdata : List α) (x : Tensor α) (a : Nat)
    (ha : a < x.shape.length) (hm : x.shape.getD a 0 = m) :
    ∃ y, apply strict ⟨[m], vdata⟩ (.scalar (a : Int)) x = .ok y ∧ y.shape = x.shape ∧
      y.data.length = prodNat x.shape ∧
      ∀ p, p < prodNat x.shape →
        y.data.getD p default = vdata.getD ((unravel x.shape p).getD a 0) default * x.data.getD p default := by
  obtain ⟨y, hy, hys, hyl, hyd⟩ := apply_scalar_nonneg strict ⟨[m], vdata⟩ x a (by simp)
    (by simp; omega) (by
      intro k hk
      have : k = 0 := by simpa using hk
      subst this
      simpa using hm.symm)
  refine ⟨y, hy, hys, hyl, fun p hp => ?_⟩
  rw [hyd p hp]
  simp [ravelIdx]

/-! ## rejections -/

theorem nodup_of_eraseDups_length {α} [BEq α] [LawfulBEq α] (l : List α)
    (h : l.eraseDups.length = l.length) : l.Nodup := by
  have hle : ∀ (n : Nat) (l : List α), l.length ≤ n → l.eraseDups.length ≤ l.length := by
    intro n
    induction n with
    | zero => intro l hl; cases l with
      | nil => simp
      | cons a as => simp at hl
    | succ n ih =>
      intro l hl
      cases l with
      | nil => simp
      | cons a as =>
        rw [List.eraseDups_cons]
        have h1 := List.length_filter_le (fun b => !b == a) as
        have := ih (as.filter fun b => !b == a) (by simp at hl; omega)
        simp only [List.length_cons]
        omega
  induction l with
  | nil => simp
  | cons a as ih =>
    rw [List.eraseDups_cons] at h
    have h1 := List.length_filter_le (fun b => !b == a) as
    have h2 := hle _ (as.filter fun b => !b == a) (Nat.le_refl _)
    simp only [List.length_cons] at h
    have h3 : (as.filter fun b => !b == a).length = as.length := by omega
    have h4 := List.length_filter_eq_length_iff.mp h3
    have h5 : as.filter (fun b => !b == a) = as := List.filter_eq_self.mpr h4
    rw [h5] at h
    refine List.nodup_cons.mpr ⟨?_, ih (by omega)⟩
    intro hmem
    have := h4 a hmem
    simp at this

/-- P1c with `Nodup`: repeated axes (after normalisation) are refused -/
theorem apply_rejects_duplicate_axes' {α} [Inhabited α] [Mul α] (strict : Bool) (values : Tensor α)
    (spec : AxisSpec) (x : Tensor α) (hv : values.shape ≠ [])
    (h : ¬ (normalizedAxes (normalizeSpec values.shape.length spec) x.shape.length).Nodup) :
    apply strict values spec x = .error .valueError :=
  apply_rejects_duplicate_axes strict values spec x hv (fun e => h (nodup_of_eraseDups_length _ e))

theorem option_mapM_none {β γ} (f : β → Option γ) (l : List β) (b : β) (hb : b ∈ l) (h : f b = none) :
    l.mapM f = none := by
  induction l with
  | nil => simp at hb
  | cons a as ih =>
    rw [List.mapM_cons]
    rcases List.mem_cons.mp hb with rfl | hb
    · rw [h]; rfl
    · rw [ih hb]
      cases f a <;> rfl

theorem broadcastShapes_incompat (a b : List Nat) (hl : a.length = b.length) (j : Nat) (hj : j < a.length)
    (h : ¬ bcompat (a.getD j 0) (b.getD j 0)) : broadcastShapes a b = none := by
  unfold broadcastShapes
  simp only [hl, Nat.max_self, Nat.sub_self, List.replicate_zero, List.nil_append]
  rw [List.getD_eq_getElem _ _ hj, List.getD_eq_getElem _ _ (by omega)] at h
  apply option_mapM_none _ _ (a[j], b[j]'(by omega))
  · have : (a.zip b)[j]'(by simp; omega) = (a[j], b[j]'(by omega)) := by simp
    rw [← this]; exact List.getElem_mem _
  · unfold bcompat at h
    have h1 : ¬ a[j] = b[j]'(by omega) := fun e => h (Or.inl e)
    have h2 : ¬ a[j] = 1 := fun e => h (Or.inr (Or.inl e))
    have h3 : ¬ b[j]'(by omega) = 1 := fun e => h (Or.inr (Or.inr e))
    simp [h1, h2, h3]

/-- **P3, failure side**: with pairwise distinct axes, a values dimension that is not NumPy-compatible
with the (padded) leaf's dimension at its destination is refused.  Together with `apply_general`:
for pairwise distinct axes `apply false` succeeds iff all the dimensions are compatible. -/
theorem apply_rejects_incompatible {α} [Inhabited α] [Mul α] (strict : Bool) (values x : Tensor α)
    (spec : AxisSpec)
    (ax : List Int) (hax : ax = normalizedAxes (normalizeSpec values.shape.length spec) x.shape.length)
    (hv : values.shape ≠ [])
    (hlen : ax.length = values.shape.length) (hnd : ax.Nodup)
    (k : Nat) (hk : k < values.shape.length)
    (hc : ¬ bcompat (values.shape.getD k 0)
        ((padShape (leftDims ax) (rightDims ax x.shape.length) x.shape).getD ((destAxes ax).getD k 0) 0)) :
    apply strict values spec x = .error .valueError := by
  have hr0 : values.shape.length ≠ 0 := by simpa using hv
  obtain ⟨order, hrd, S⟩ := reshapeDiagonal_ok values ax x.shape.length hlen hnd
  have hXl : (padShape (leftDims ax) (rightDims ax x.shape.length) x.shape).length
      = leftDims ax + x.shape.length + rightDims ax x.shape.length := by
    simp [padShape]; omega
  unfold apply
  have h0 : (values.shape.length == 0) = false := by simpa using hr0
  have hna : normalizeAxes (normalizeSpec values.shape.length spec) x.shape.length = .ok ax := by
    rw [hax]
    apply normalizeAxes_nodup
    rw [← hax, eraseDups_of_nodup _ hnd]
  simp only [h0, hna, hrd, bind, Except.bind]
  have hzb : Tensor.zipBroadcast (· * ·)
      ⟨dshape (leftDims ax + x.shape.length + rightDims ax x.shape.length) values.shape order,
        transposeData (values.shape ++ List.replicate
          (leftDims ax + x.shape.length + rightDims ax x.shape.length - values.shape.length) 1)
          order values.data⟩ (reshapeLeaf x ax) = none := by
    rw [zipBroadcast_pad _ _ _ (by simp only [S.dshape_length]; simp [reshapeLeaf])]
    simp only [S.dshape_length]
    have hpad : List.replicate (leftDims ax + x.shape.length + rightDims ax x.shape.length
          - (reshapeLeaf x ax).shape.length) 1 ++ (reshapeLeaf x ax).shape
        = padShape (leftDims ax) (rightDims ax x.shape.length) x.shape := by
      simp only [reshapeLeaf, padShape, List.length_append, List.length_replicate]
      congr 2
      omega
    rw [hpad]
    unfold Tensor.zipBroadcast
    have := broadcastShapes_incompat
      (dshape (leftDims ax + x.shape.length + rightDims ax x.shape.length) values.shape order)
      (padShape (leftDims ax) (rightDims ax x.shape.length) x.shape)
      (by rw [S.dshape_length, hXl]) ((destAxes ax).getD k 0)
      (by rw [S.dshape_length]; exact S.d_lt k hk)
      (by rw [S.dshape_dest k hk]; exact hc)
    simp only [this]
    rfl
  rw [hzb]
  simp

/-! ## bookkeeping: lengths, error kinds -/

theorem normalizeSpec_scalar_length (r : Nat) (a : Int) : (normalizeSpec r (.scalar a)).length = r := by
  by_cases h : 0 ≤ a
  · rw [normalizeSpec_nonneg r a h]; simp
  · rw [normalizeSpec_neg r a (by omega)]; simp

theorem normalizedAxes_length (axes : List Int) (n : Nat) : (normalizedAxes axes n).length = axes.length := by
  simp [normalizedAxes]

theorem mapM_normAxis_error (n : Nat) (axes : List Int) (e : PyErr)
    (h : axes.mapM (normAxis n) = .error e) : e = .valueError := by
  induction axes with
  | nil => simp [pure, Except.pure] at h
  | cons a as ih =>
    rw [List.mapM_cons] at h
    cases ha : normAxis n a with
    | error e' =>
      simp only [ha, bind, Except.bind, Except.error.injEq] at h
      subst h
      unfold normAxis at ha
      split at ha
      · simpa using ha.symm
      · simp at ha
    | ok m =>
      cases has : as.mapM (normAxis n) with
      | error e' =>
        simp only [ha, has, bind, Except.bind, Except.error.injEq] at h
        subst h
        exact ih has
      | ok l' => simp [ha, has, bind, Except.bind, pure, Except.pure] at h

theorem moveaxisOrder_error (n : Nat) (src dst : List Int) (e : PyErr)
    (h : moveaxisOrder n src dst = .error e) : e = .valueError := by
  have hT : ∀ (l : List Int) (e : PyErr), normAxisTuple n l = .error e → e = .valueError := by
    intro l e h
    unfold normAxisTuple at h
    cases hm : l.mapM (normAxis n) with
    | error e' =>
      simp only [hm, bind, Except.bind, Except.error.injEq] at h
      subst h
      exact mapM_normAxis_error n l _ hm
    | ok l' =>
      simp only [hm, bind, Except.bind] at h
      split at h
      · simpa using h.symm
      · simp [pure, Except.pure] at h
  unfold moveaxisOrder at h
  cases hs : normAxisTuple n src with
  | error e' =>
    simp only [hs, bind, Except.bind, Except.error.injEq] at h
    subst h
    exact hT _ _ hs
  | ok s =>
    cases hd : normAxisTuple n dst with
    | error e' =>
      simp only [hs, hd, bind, Except.bind, Except.error.injEq] at h
      subst h
      exact hT _ _ hd
    | ok d =>
      simp only [hs, hd, bind, Except.bind] at h
      split at h
      · simpa using h.symm
      · simp [pure, Except.pure] at h

/-- every failure of the diagonal operator on a leaf is a `ValueError` -/
theorem apply_error_kind {α} [Inhabited α] [Mul α] (strict : Bool) (values : Tensor α) (spec : AxisSpec)
    (x : Tensor α) (e : PyErr) (h : apply strict values spec x = .error e) : e = .valueError := by
  unfold apply at h
  split at h
  · simpa using h.symm
  · cases h1 : normalizeAxes (normalizeSpec values.shape.length spec) x.shape.length with
    | error e' =>
      simp only [h1, bind, Except.bind, Except.error.injEq] at h
      subst h
      rw [normalizeAxes_eq] at h1
      split at h1
      · simpa using h1.symm
      · simp at h1
    | ok axes =>
      cases h2 : reshapeDiagonal values axes x.shape.length with
      | error e' =>
        simp only [h1, h2, bind, Except.bind, Except.error.injEq] at h
        subst h
        unfold reshapeDiagonal Axes.moveaxis at h2
        simp only at h2
        generalize hmo : moveaxisOrder _ _ _ = mo at h2
        cases mo with
        | error e'' =>
          simp only [bind, Except.bind, Except.error.injEq] at h2
          subst h2
          exact moveaxisOrder_error _ _ _ _ hmo
        | ok o => simp [bind, Except.bind, pure, Except.pure] at h2
      | ok d =>
        simp only [h1, h2, bind, Except.bind] at h
        split at h
        · simpa using h.symm
        · split at h
          · simpa using h.symm
          · simp at h

/-! ## TESTS (unit tests on small concrete instances, `Int` data; not part of the specification) -/

section tests

/-- TEST: values `[10,20]` along axis 0 of a `2×3` leaf -/
example : apply true (⟨[2], [10, 20]⟩ : Tensor Int) (.scalar 0) ⟨[2, 3], [1, 2, 3, 4, 5, 6]⟩
    = .ok ⟨[2, 3], [10, 20, 30, 80, 100, 120]⟩ := by rfl

/-- TEST: values `[10,20,30]` along the last axis -/
example : apply true (⟨[3], [10, 20, 30]⟩ : Tensor Int) (.scalar (-1)) ⟨[2, 3], [1, 2, 3, 4, 5, 6]⟩
    = .ok ⟨[2, 3], [10, 40, 90, 40, 100, 180]⟩ := by rfl

/-- TEST: a `3×2` matrix of values laid along the axes `(1, 0)`: `out[i,j] = values[j,i] * x[i,j]` -/
example : apply true (⟨[3, 2], [1, 2, 3, 4, 5, 6]⟩ : Tensor Int) (.seq [1, 0]) ⟨[2, 3], [1, 1, 1, 1, 1, 1]⟩
    = .ok ⟨[2, 3], [1, 3, 5, 2, 4, 6]⟩ := by rfl

/-- TEST: axis beyond the leaf's rank, non-strict: a new trailing dimension appears -/
example : apply false (⟨[2], [10, 20]⟩ : Tensor Int) (.scalar 2) ⟨[2, 3], [1, 2, 3, 4, 5, 6]⟩
    = .ok ⟨[2, 3, 2], [10, 20, 20, 40, 30, 60, 40, 80, 50, 100, 60, 120]⟩ := by rfl

/-- TEST: the same is refused by the strict variant -/
example : apply true (⟨[2], [10, 20]⟩ : Tensor Int) (.scalar 2) ⟨[2, 3], [1, 2, 3, 4, 5, 6]⟩
    = .error .valueError := by rfl

/-- TEST: axis before the leaf's first one (`-3` on a rank-2 leaf), non-strict: a new leading dimension -/
example : apply false (⟨[2], [10, 20]⟩ : Tensor Int) (.seq [-3]) ⟨[2, 3], [1, 2, 3, 4, 5, 6]⟩
    = .ok ⟨[2, 2, 3], [10, 20, 30, 40, 50, 60, 20, 40, 60, 80, 100, 120]⟩ := by rfl

/-- TEST: repeated axes and scalar values are refused -/
example : apply false (⟨[2, 2], [1, 2, 3, 4]⟩ : Tensor Int) (.seq [0, -2]) ⟨[2, 2], [1, 1, 1, 1]⟩
    = .error .valueError := by rfl
example : apply false (⟨[], [7]⟩ : Tensor Int) (.scalar 0) ⟨[2], [1, 1]⟩ = .error .valueError := by rfl

/-- TEST: incompatible dimensions are refused -/
example : apply false (⟨[2], [10, 20]⟩ : Tensor Int) (.scalar 1) ⟨[2, 3], [1, 2, 3, 4, 5, 6]⟩
    = .error .valueError := by rfl

/-- TEST: the hypotheses of `apply_inrange` are satisfiable on a concrete instance -/
example : ∃ y, apply true (⟨[3, 2], [1, 2, 3, 4, 5, 6]⟩ : Tensor Int) (.seq [1, 0])
      ⟨[2, 3], [1, 1, 1, 1, 1, 1]⟩ = .ok y ∧ y.shape = [2, 3] := by
  obtain ⟨y, h1, h2, _⟩ := apply_inrange true (⟨[3, 2], [1, 2, 3, 4, 5, 6]⟩ : Tensor Int)
    ⟨[2, 3], [1, 1, 1, 1, 1, 1]⟩ [1, 0] (by simp) (by simp) (by decide) (by decide)
    (by intro k hk
        have : k = 0 ∨ k = 1 := by simp at hk; omega
        rcases this with rfl | rfl <;> rfl)
  exact ⟨y, h1, h2⟩

/-- TEST: the hypotheses of `apply_general` are satisfiable beyond the leaf's rank -/
example : ∃ y, apply false (⟨[2], [10, 20]⟩ : Tensor Int) (.scalar 2) ⟨[2, 3], [1, 2, 3, 4, 5, 6]⟩ = .ok y
    ∧ y.shape = [2, 3, 2] := by
  obtain ⟨y, h1, h2, _⟩ := apply_general false (⟨[2], [10, 20]⟩ : Tensor Int) ⟨[2, 3], [1, 2, 3, 4, 5, 6]⟩
    (.scalar 2) [2] (by rfl) (by simp) (by rfl) (by decide)
    (by intro k hk
        have : k = 0 := by simp at hk; omega
        subst this
        exact Or.inr (Or.inr (by rfl)))
  refine ⟨y, by simpa using h1, ?_⟩
  rw [h2]; rfl

/-- TEST: pseudo-inverse of the values -/
example : pinvValues [2, 0, 4] = [1 / 2, 0, 1 / 4] := by simp [pinvValues]

end tests


end Furax.Diagonal
