/-
C14: `DenseBlockDiagonalOperator` transposed subscripts (`_get_transposed_subscripts`).

1. String level: whenever `transposeCore` succeeds it returns `swapAll s t lefts` for the unique
   contracted letter `s` and the unique free block letter `t`, and swapping `s` and `t` exchanges
   `rights` and `results`.
2. Semantic level: the bilinear form `Phi` of a two-operand einsum is invariant under renaming of the
   letters; hence an involutive renaming that exchanges `rights` and `results` yields the adjoint.
3. Combination: the rewritten subscripts denote the transposed operator, `⟨A x, y⟩ = ⟨x, Aᵀ y⟩`.
4. Rejection facts.
5. Kernel-checked concrete instances (tests).
-/
import FuraxModel.Einsum
import Mathlib.Algebra.BigOperators.Group.Finset.Basic
import Mathlib.Algebra.BigOperators.Ring.Finset
import Mathlib.Data.Fintype.Pi
import Mathlib.Logic.Equiv.Basic
import Mathlib.Tactic.Ring

namespace Furax
namespace Einsum

/-! ## 1. String level -/

section Strings
variable {ι : Type} [DecidableEq ι]

theorem mem_letterSet (isDot : ι → Bool) (l : List ι) (a : ι) :
    a ∈ letterSet isDot l ↔ a ∈ l ∧ isDot a = false := by
  simp [letterSet, List.mem_eraseDups, List.mem_filter]

/-- the contracted letters: in `lefts` and `rights`, not in `results` (first scrutinee of
`transposeCore`) -/
def contracted (isDot : ι → Bool) (L R O : List ι) : List ι :=
  (letterSet isDot L).filter fun c =>
    (letterSet isDot R).contains c && !(letterSet isDot O).contains c

/-- the free block letters: in `lefts` and `results`, not in `rights` (second scrutinee of
`transposeCore`) -/
def freeBlock (isDot : ι → Bool) (L R O : List ι) : List ι :=
  (letterSet isDot L).filter fun c =>
    (letterSet isDot O).contains c && !(letterSet isDot R).contains c

theorem mem_contracted (isDot : ι → Bool) (L R O : List ι) (a : ι) :
    a ∈ contracted isDot L R O ↔ isDot a = false ∧ a ∈ L ∧ a ∈ R ∧ a ∉ O := by
  simp only [contracted, List.mem_filter, mem_letterSet, Bool.and_eq_true,
    decide_eq_false_iff_not, Bool.not_eq_eq_eq_not, Bool.not_true,
    List.contains_eq_mem, decide_eq_true_eq]
  constructor
  · rintro ⟨⟨h1, h2⟩, ⟨h3, _⟩, h4⟩
    exact ⟨h2, h1, h3, fun h => h4 ⟨h, h2⟩⟩
  · rintro ⟨h1, h2, h3, h4⟩
    exact ⟨⟨h2, h1⟩, ⟨h3, h1⟩, fun h => h4 h.1⟩

theorem mem_freeBlock (isDot : ι → Bool) (L R O : List ι) (a : ι) :
    a ∈ freeBlock isDot L R O ↔ isDot a = false ∧ a ∈ L ∧ a ∈ O ∧ a ∉ R :=
  mem_contracted isDot L O R a

/-- `transposeCore` in terms of the two scrutinees -/
theorem transposeCore_eq (isDot : ι → Bool) (L R O : List ι) :
    transposeCore isDot L R O =
      match contracted isDot L R O with
      | [s] =>
        match freeBlock isDot L R O with
        | [t] => if replaceFirst t s O != R then .error .valueError else .ok (swapAll s t L)
        | _ => .error .valueError
      | _ => .error .valueError := rfl

/-- exact characterisation of success -/
theorem transposeCore_ok_iff (isDot : ι → Bool) (L R O L' : List ι) :
    transposeCore isDot L R O = .ok L' ↔
      ∃ s t, contracted isDot L R O = [s] ∧ freeBlock isDot L R O = [t] ∧
        replaceFirst t s O = R ∧ L' = swapAll s t L := by
  rw [transposeCore_eq]
  constructor
  · intro h
    split at h
    · rename_i s hs
      split at h
      · rename_i t ht
        split at h
        · cases h
        · rename_i hne
          refine ⟨s, t, hs, ht, ?_, ?_⟩
          · simpa using hne
          · cases h; rfl
      · cases h
    · cases h
  · rintro ⟨s, t, hs, ht, hr, rfl⟩
    rw [hs, ht]
    simp [hr]

theorem swapAll_eq_map_swap (s t : ι) (l : List ι) : swapAll s t l = l.map (Equiv.swap s t) := by
  unfold swapAll
  apply List.map_congr_left
  intro c _
  rw [Equiv.swap_apply_def]

theorem swapAll_swapAll (s t : ι) (l : List ι) : swapAll s t (swapAll s t l) = l := by
  rw [swapAll_eq_map_swap, swapAll_eq_map_swap, List.map_map]
  conv_rhs => rw [← List.map_id l]
  apply List.map_congr_left
  intro c _
  simp

theorem swapAll_eq_self (s t : ι) (l : List ι) (hs : s ∉ l) (ht : t ∉ l) : swapAll s t l = l := by
  unfold swapAll
  conv_rhs => rw [← List.map_id l]
  apply List.map_congr_left
  intro c hc
  have h1 : c ≠ s := fun h => hs (h ▸ hc)
  have h2 : c ≠ t := fun h => ht (h ▸ hc)
  simp [h1, h2]

/-- if `s` does not occur and the result of replacing the first `t` by `s` has no `t` left, then `t`
occurred at most once and the replacement is the full swap -/
theorem replaceFirst_eq_swapAll (s t : ι) (O : List ι) (hs : s ∉ O)
    (ht : t ∉ replaceFirst t s O) : replaceFirst t s O = swapAll s t O := by
  induction O with
  | nil => rfl
  | cons c cs ih =>
    by_cases hc : c = t
    · subst hc
      have hst : c ≠ s := fun h => hs (by simp [h])
      simp only [replaceFirst, if_true] at ht ⊢
      have hcs : c ∉ cs := fun h => ht (List.mem_cons_of_mem _ h)
      have hscs : s ∉ cs := fun h => hs (List.mem_cons_of_mem _ h)
      have := swapAll_eq_self s c cs hscs hcs
      simp only [swapAll] at this ⊢
      simp [hst, this]
    · have hcs' : c ≠ s := fun h => hs (by simp [h])
      have hscs : s ∉ cs := fun h => hs (List.mem_cons_of_mem _ h)
      simp only [replaceFirst, if_neg hc] at ht ⊢
      have ih' := ih hscs (fun h => ht (List.mem_cons_of_mem _ h))
      rw [ih']
      simp [swapAll, hc, hcs']

/-- **String-level link.** -/
theorem transposeCore_spec (isDot : ι → Bool) (L R O L' : List ι)
    (h : transposeCore isDot L R O = .ok L') :
    ∃ s t : ι, s ≠ t ∧ isDot s = false ∧ isDot t = false ∧ s ∈ L ∧ s ∈ R ∧ s ∉ O ∧
      t ∈ L ∧ t ∈ O ∧ t ∉ R ∧ L' = swapAll s t L ∧ swapAll s t O = R ∧ swapAll s t R = O := by
  obtain ⟨s, t, hs, ht, hr, hL'⟩ := (transposeCore_ok_iff isDot L R O L').1 h
  have hs' : s ∈ contracted isDot L R O := by rw [hs]; simp
  have ht' : t ∈ freeBlock isDot L R O := by rw [ht]; simp
  obtain ⟨hsd, hsL, hsR, hsO⟩ := (mem_contracted isDot L R O s).1 hs'
  obtain ⟨htd, htL, htO, htR⟩ := (mem_freeBlock isDot L R O t).1 ht'
  have hne : s ≠ t := fun h => htR (h ▸ hsR)
  have hsw : swapAll s t O = R := by
    rw [← replaceFirst_eq_swapAll s t O hsO (by rw [hr]; exact htR), hr]
  refine ⟨s, t, hne, hsd, htd, hsL, hsR, hsO, htL, htO, htR, hL', hsw, ?_⟩
  rw [← hsw, swapAll_swapAll]

/-! ### 4. Rejection facts -/

/-- the only error ever raised is `ValueError` -/
theorem transposeCore_error (isDot : ι → Bool) (L R O : List ι) (e : PyErr)
    (h : transposeCore isDot L R O = .error e) : e = .valueError := by
  rw [transposeCore_eq] at h
  repeat' split at h
  all_goals cases h
  all_goals rfl

/-- the number of contracted letters is not exactly one: rejected -/
theorem transposeCore_reject_contracted (isDot : ι → Bool) (L R O : List ι)
    (h : (contracted isDot L R O).length ≠ 1) :
    transposeCore isDot L R O = .error .valueError := by
  rw [transposeCore_eq]
  split
  · rename_i s hs; rw [hs] at h; exact absurd rfl h
  · rfl

/-- no contracted letter: rejected -/
theorem transposeCore_reject_no_contracted (isDot : ι → Bool) (L R O : List ι)
    (h : (contracted isDot L R O).length = 0) :
    transposeCore isDot L R O = .error .valueError :=
  transposeCore_reject_contracted isDot L R O (by omega)

/-- more than one contracted letter: rejected -/
theorem transposeCore_reject_many_contracted (isDot : ι → Bool) (L R O : List ι)
    (h : 2 ≤ (contracted isDot L R O).length) :
    transposeCore isDot L R O = .error .valueError :=
  transposeCore_reject_contracted isDot L R O (by omega)

/-- the number of free block letters is not exactly one: rejected -/
theorem transposeCore_reject_freeBlock (isDot : ι → Bool) (L R O : List ι)
    (h : (freeBlock isDot L R O).length ≠ 1) :
    transposeCore isDot L R O = .error .valueError := by
  rw [transposeCore_eq]
  split
  · split
    · rename_i t ht; rw [ht] at h; exact absurd rfl h
    · rfl
  · rfl

/-- no free block letter: rejected -/
theorem transposeCore_reject_no_freeBlock (isDot : ι → Bool) (L R O : List ι)
    (h : (freeBlock isDot L R O).length = 0) :
    transposeCore isDot L R O = .error .valueError :=
  transposeCore_reject_freeBlock isDot L R O (by omega)

/-- more than one free block letter: rejected -/
theorem transposeCore_reject_many_freeBlock (isDot : ι → Bool) (L R O : List ι)
    (h : 2 ≤ (freeBlock isDot L R O).length) :
    transposeCore isDot L R O = .error .valueError :=
  transposeCore_reject_freeBlock isDot L R O (by omega)

/-- replacing the first free block letter of `results` by the contracted letter does not give
`rights`: rejected -/
theorem transposeCore_reject_mismatch (isDot : ι → Bool) (L R O : List ι) (s t : ι)
    (hs : contracted isDot L R O = [s]) (ht : freeBlock isDot L R O = [t])
    (h : replaceFirst t s O ≠ R) :
    transposeCore isDot L R O = .error .valueError := by
  rw [transposeCore_eq, hs, ht]
  simp [h]

/-- the rejection facts are exhaustive: a rejection has one of the three causes -/
theorem transposeCore_error_iff (isDot : ι → Bool) (L R O : List ι) :
    transposeCore isDot L R O = .error .valueError ↔
      (contracted isDot L R O).length ≠ 1 ∨ (freeBlock isDot L R O).length ≠ 1 ∨
      ∃ s t, contracted isDot L R O = [s] ∧ freeBlock isDot L R O = [t] ∧
        replaceFirst t s O ≠ R := by
  constructor
  · intro h
    by_cases h1 : (contracted isDot L R O).length = 1
    · by_cases h2 : (freeBlock isDot L R O).length = 1
      · obtain ⟨s, hs⟩ := List.length_eq_one_iff.1 h1
        obtain ⟨t, ht⟩ := List.length_eq_one_iff.1 h2
        refine Or.inr (Or.inr ⟨s, t, hs, ht, fun hr => ?_⟩)
        have := (transposeCore_ok_iff isDot L R O (swapAll s t L)).2 ⟨s, t, hs, ht, hr, rfl⟩
        rw [h] at this; cases this
      · exact Or.inr (Or.inl h2)
    · exact Or.inl h1
  · rintro (h | h | ⟨s, t, hs, ht, h⟩)
    · exact transposeCore_reject_contracted isDot L R O h
    · exact transposeCore_reject_freeBlock isDot L R O h
    · exact transposeCore_reject_mismatch isDot L R O s t hs ht h

end Strings

/-! ## 2. Semantic half -/

section Semantics
open Finset
variable {α : Type} [CommRing α] {ι : Type} [Fintype ι] [DecidableEq ι]

/-- `⟨einsum("L,P->Q", B, u), v⟩`: the sum over all assignments `σ` of an index below `d ℓ` to every
letter `ℓ` of `B[σ L] · u[σ P] · v[σ Q]`; tensors are functions on multi-indices -/
def Phi (d : ι → ℕ) (B u v : List ℕ → α) (L P Q : List ι) : α :=
  ∑ σ ∈ Fintype.piFinset (fun ℓ => Finset.range (d ℓ)),
    B (L.map σ) * u (P.map σ) * v (Q.map σ)

/-- renaming invariance: relabel the letters by `π⁻¹` and the sizes by `d ∘ π` -/
theorem Phi_rename (π : Equiv.Perm ι) (d : ι → ℕ) (B u v : List ℕ → α) (L P Q : List ι) :
    Phi d B u v L P Q = Phi (d ∘ π) B u v (L.map π.symm) (P.map π.symm) (Q.map π.symm) := by
  unfold Phi
  refine sum_nbij' (fun σ => σ ∘ π) (fun τ => τ ∘ π.symm) ?_ ?_ ?_ ?_ ?_
  · intro σ hσ
    simp only [Fintype.mem_piFinset, mem_range, Function.comp] at hσ ⊢
    intro a; exact hσ (π a)
  · intro τ hτ
    simp only [Fintype.mem_piFinset, mem_range, Function.comp] at hτ ⊢
    intro a; simpa using hτ (π.symm a)
  · intro σ _; funext a; simp
  · intro τ _; funext a; simp
  · intro σ _; simp [List.map_map, Function.comp_def]

/-- the two operands may be exchanged together with their subscripts -/
theorem Phi_comm (d : ι → ℕ) (B u v : List ℕ → α) (L P Q : List ι) :
    Phi d B u v L P Q = Phi d B v u L Q P := by
  unfold Phi
  apply sum_congr rfl; intro σ _; ring

/-- If `π` is an involution of the letters with `π·rights = results` and `π·results = rights`, the
einsum with block subscripts `π·lefts` — same block data, sizes relabelled — is the adjoint. -/
theorem einsum_transpose_adjoint (π : Equiv.Perm ι) (hπ : π.symm = π)
    (d : ι → ℕ) (B x y : List ℕ → α) (L Rt R : List ι)
    (h1 : Rt.map π = R) (h2 : R.map π = Rt) :
    Phi d B x y L Rt R = Phi (d ∘ π) B y x (L.map π) Rt R := by
  rw [Phi_rename π, hπ, h1, h2]
  exact Phi_comm _ _ _ _ _ _ _

/-! ## 3. The property -/

/-- **The transposed subscripts denote the adjoint.**  Whenever the rewriting succeeds, the einsum
with the rewritten block subscripts `L'`, the same block data `B` and the sizes of the two swapped
letters exchanged satisfies `⟨A x, y⟩ = ⟨Aᵀ y, x⟩`. -/
theorem transposed_is_adjoint (isDot : ι → Bool) (L R O L' : List ι)
    (h : transposeCore isDot L R O = .ok L') (d : ι → ℕ) (B x y : List ℕ → α) :
    ∃ s t : ι, Phi d B x y L R O = Phi (d ∘ Equiv.swap s t) B y x L' R O := by
  obtain ⟨s, t, -, -, -, -, -, -, -, -, -, hL', hOR, hRO⟩ := transposeCore_spec isDot L R O L' h
  refine ⟨s, t, ?_⟩
  rw [swapAll_eq_map_swap] at hL' hOR hRO
  rw [hL']
  exact einsum_transpose_adjoint (Equiv.swap s t) (Equiv.symm_swap s t) d B x y L R O hRO hOR

/-- the same, naming the two letters: `s` is the contracted letter, `t` the free block letter -/
theorem transposed_is_adjoint' (isDot : ι → Bool) (L R O L' : List ι)
    (h : transposeCore isDot L R O = .ok L') (d : ι → ℕ) (B x y : List ℕ → α) :
    ∃ s t : ι, contracted isDot L R O = [s] ∧ freeBlock isDot L R O = [t] ∧
      L' = L.map (Equiv.swap s t) ∧
      Phi d B x y L R O = Phi (d ∘ Equiv.swap s t) B y x L' R O := by
  obtain ⟨s, t, hs, ht, hr, hL'⟩ := (transposeCore_ok_iff isDot L R O L').1 h
  have hs' : s ∈ contracted isDot L R O := by rw [hs]; simp
  have ht' : t ∈ freeBlock isDot L R O := by rw [ht]; simp
  obtain ⟨-, -, -, hsO⟩ := (mem_contracted isDot L R O s).1 hs'
  obtain ⟨-, -, -, htR⟩ := (mem_freeBlock isDot L R O t).1 ht'
  have hOR : swapAll s t O = R := by
    rw [← replaceFirst_eq_swapAll s t O hsO (by rw [hr]; exact htR), hr]
  have hRO : swapAll s t R = O := by rw [← hOR, swapAll_swapAll]
  rw [swapAll_eq_map_swap] at hL' hOR hRO
  refine ⟨s, t, hs, ht, hL', ?_⟩
  rw [hL']
  exact einsum_transpose_adjoint (Equiv.swap s t) (Equiv.symm_swap s t) d B x y L R O hRO hOR

end Semantics

/-! ## 5. Tests: concrete kernel-checked instances -/

section Tests

/-- test: `"ikj,kj->ki"` ↦ `"jki,kj->ki"` (the default subscripts of `DenseBlockDiagonalOperator`) -/
example : transposeCore (· == '.') ['i', 'k', 'j'] ['k', 'j'] ['k', 'i'] = .ok ['j', 'k', 'i'] := by
  decide

/-- test: with an ellipsis, `"ij...,j...->i..."` ↦ `"ji...,j...->i..."` -/
example : transposeCore (· == '.') ['i', 'j', '.', '.', '.'] ['j', '.', '.', '.']
    ['i', '.', '.', '.'] = .ok ['j', 'i', '.', '.', '.'] := by
  decide

/-- test: repeated letter in the block subscripts, `"iij,j->i"` ↦ `"jji,j->i"` -/
example : transposeCore (· == '.') ['i', 'i', 'j'] ['j'] ['i'] = .ok ['j', 'j', 'i'] := by
  decide

/-- test (rejected): `"ij,j->ii"`, the free block letter occurs twice in the results -/
example : transposeCore (· == '.') ['i', 'j'] ['j'] ['i', 'i'] = .error .valueError := by
  decide

/-- test (rejected): `"ijk,jk->i"`, two contracted letters -/
example : transposeCore (· == '.') ['i', 'j', 'k'] ['j', 'k'] ['i'] = .error .valueError := by
  decide

/-- test (rejected): `"ij,ij->ij"`, no contracted letter -/
example : transposeCore (· == '.') ['i', 'j'] ['i', 'j'] ['i', 'j'] = .error .valueError := by
  decide

/-- test (rejected): `"ikj,kj->ik"`, positions do not match -/
example : transposeCore (· == '.') ['i', 'k', 'j'] ['k', 'j'] ['i', 'k'] = .error .valueError := by
  decide

/-- test over `Fin 5` with no dots: `[0,2,1],[2,1]->[2,0]` ↦ `[1,2,0]` -/
example : transposeCore (fun _ : Fin 5 => false) [0, 2, 1] [2, 1] [2, 0] = .ok [1, 2, 0] := by
  decide

end Tests

end Einsum
end Furax

