/-
C14, executable level, subscripts WITH an ellipsis: the adjoint theorem for `einsumTerms` when no size-1
stretching takes place (the input carries the whole broadcast ellipsis shape `es`, the blocks a suffix of it).

A. the term parser commutes with a renaming of the letters; the letters of a parsed term;
B. the labelling (`plan`) of three parsed terms, the labelled shapes;
C. from `Lbl` to the finite alphabet `Char ⊕ Fin (nb+1)`;
D. the theorem.
-/
import FuraxProofs.Lemmas.EinsumEvalSpec
import Mathlib.Data.Fintype.Sum
namespace Furax
namespace Einsum
open scoped CharAlphabet

/-! ## A. parsing and renaming -/

/-- rename the letters of a term -/
def Term.map (π : Char → Char) (t : Term) : Term := ⟨t.pre.map π, t.ell, t.post.map π⟩

theorem Term.map_push (π : Char → Char) (t : Term) (c : Char) : (t.push c).map π = (t.map π).push (π c) := by
  unfold Term.push Term.map
  cases h : t.ell <;> simp

/-- a renaming that sends letters to letters and moves nothing else -/
structure LetterPerm (π : Char → Char) : Prop where
  letter : ∀ c, isLetter (π c) = isLetter c
  fix : ∀ c, isLetter c = false → π c = c

theorem LetterPerm.beq {π : Char → Char} (h : LetterPerm π) (c a : Char) (ha : isLetter a = false) :
    (π c == a) = (c == a) := by
  cases hc : isLetter c with
  | false => rw [h.fix c hc]
  | true =>
    have h1 : π c ≠ a := fun e => by have := h.letter c; rw [e, ha, hc] at this; cases this
    have h2 : c ≠ a := fun e => by rw [e, ha] at hc; cases hc
    simp [h1, h2]

theorem parseTermAux_map (π : Char → Char) (h : LetterPerm π) (cs : List Char) (t0 : Term) :
    parseTermAux (cs.map π) (t0.map π) = (parseTermAux cs t0).map (Term.map π) := by
  fun_induction parseTermAux cs t0 with
  | case1 t => simp [parseTermAux, Except.map]
  | case2 c cs t hc ih =>
    rw [List.map_cons, parseTermAux_cons_letter _ _ _ (by rw [h.letter, hc]), ← Term.map_push, ih]
  | case3 c cs t hc hsp ih =>
    rw [List.map_cons]
    conv_lhs => unfold parseTermAux
    have h1 : isLetter (π c) = false := by rw [h.letter]; simpa using hc
    have h2 : (π c == ' ') = true := by rw [h.beq c ' ' (by decide)]; exact hsp
    simp only [h1, h2, if_true, Bool.false_eq_true, if_false]
    exact ih
  | case4 c t hc hsp hdot c1 c2 cs' hcond ih =>
    rw [List.map_cons, List.map_cons, List.map_cons]
    conv_lhs => unfold parseTermAux
    have h1 : isLetter (π c) = false := by rw [h.letter]; simpa using hc
    have h2 : (π c == ' ') = false := by rw [h.beq c ' ' (by decide)]; simpa using hsp
    have h3 : (π c == '.') = true := by rw [h.beq c '.' (by decide)]; exact hdot
    have h4 : (π c1 == '.') = (c1 == '.') := h.beq c1 '.' (by decide)
    have h5 : (π c2 == '.') = (c2 == '.') := h.beq c2 '.' (by decide)
    have h6 : (Term.map π t).ell = t.ell := rfl
    simp only [h1, h2, h3, h4, h5, h6, hcond, if_true, Bool.false_eq_true, if_false]
    exact ih
  | case5 c t hc hsp hdot c1 c2 cs' hcond =>
    rw [List.map_cons, List.map_cons, List.map_cons]
    conv_lhs => unfold parseTermAux
    have h1 : isLetter (π c) = false := by rw [h.letter]; simpa using hc
    have h2 : (π c == ' ') = false := by rw [h.beq c ' ' (by decide)]; simpa using hsp
    have h3 : (π c == '.') = true := by rw [h.beq c '.' (by decide)]; exact hdot
    have h4 : (π c1 == '.') = (c1 == '.') := h.beq c1 '.' (by decide)
    have h5 : (π c2 == '.') = (c2 == '.') := h.beq c2 '.' (by decide)
    have h6 : (Term.map π t).ell = t.ell := rfl
    simp only [h1, h2, h3, h4, h5, h6, hcond, if_true, Bool.false_eq_true, if_false]
    rfl
  | case6 c cs t hc hsp hdot hcs =>
    rw [List.map_cons]
    conv_lhs => unfold parseTermAux
    have h1 : isLetter (π c) = false := by rw [h.letter]; simpa using hc
    have h2 : (π c == ' ') = false := by rw [h.beq c ' ' (by decide)]; simpa using hsp
    have h3 : (π c == '.') = true := by rw [h.beq c '.' (by decide)]; exact hdot
    simp only [h1, h2, h3, if_true, Bool.false_eq_true, if_false]
    match cs, hcs with
    | [], _ => rfl
    | [_], _ => rfl
    | c1 :: c2 :: cs', hcs => exact absurd rfl (fun e => hcs c1 c2 cs' e)
  | case7 c cs t hc hsp hdot =>
    rw [List.map_cons]
    conv_lhs => unfold parseTermAux
    have h1 : isLetter (π c) = false := by rw [h.letter]; simpa using hc
    have h2 : (π c == ' ') = false := by rw [h.beq c ' ' (by decide)]; simpa using hsp
    have h3 : (π c == '.') = false := by rw [h.beq c '.' (by decide)]; simpa using hdot
    simp only [h1, h2, h3, Bool.false_eq_true, if_false]
    rfl

theorem parseTerm_map (π : Char → Char) (h : LetterPerm π) (cs : List Char) (t : Term)
    (hp : parseTerm cs = .ok t) : parseTerm (cs.map π) = .ok (t.map π) := by
  unfold parseTerm at hp ⊢
  have := parseTermAux_map π h cs ⟨[], false, []⟩
  rw [hp] at this
  exact this

/-- the letters of a term -/
def Term.letters (t : Term) : List Char := t.pre ++ t.post

theorem Term.mem_letters_push (t : Term) (a c : Char) :
    c ∈ (t.push a).letters ↔ c ∈ t.letters ∨ c = a := by
  unfold Term.push Term.letters
  cases t.ell <;> simp <;> tauto

theorem parseTermAux_mem_letters (cs : List Char) (t0 : Term) :
    ∀ t1, parseTermAux cs t0 = .ok t1 → ∀ c, c ∈ t1.letters ↔ c ∈ t0.letters ∨ (c ∈ cs ∧ isLetter c = true) := by
  fun_induction parseTermAux cs t0 with
  | case1 t => intro t1 h c; cases h; simp
  | case2 a cs t ha ih =>
    intro t1 h c
    rw [ih t1 h c, Term.mem_letters_push]
    constructor
    · rintro ((h1 | rfl) | ⟨h1, h2⟩)
      · exact Or.inl h1
      · exact Or.inr ⟨by simp, ha⟩
      · exact Or.inr ⟨by simp [h1], h2⟩
    · rintro (h1 | ⟨h1, h2⟩)
      · exact Or.inl (Or.inl h1)
      · rcases List.mem_cons.1 h1 with rfl | h1
        · exact Or.inl (Or.inr rfl)
        · exact Or.inr ⟨h1, h2⟩
  | case3 a cs t ha hsp ih =>
    intro t1 h c
    rw [ih t1 h c]
    have : ∀ c, c = a → isLetter c = true → False := by
      intro c e hl; subst e; exact ha hl
    constructor
    · rintro (h1 | ⟨h1, h2⟩)
      · exact Or.inl h1
      · exact Or.inr ⟨by simp [h1], h2⟩
    · rintro (h1 | ⟨h1, h2⟩)
      · exact Or.inl h1
      · rcases List.mem_cons.1 h1 with e | h1
        · exact (this c e h2).elim
        · exact Or.inr ⟨h1, h2⟩
  | case4 a t ha hsp hdot c1 c2 cs' hcond ih =>
    intro t1 h c
    rw [ih t1 h c]
    simp only [Bool.and_eq_true, beq_iff_eq] at hcond hdot
    have e1 : a = '.' := hdot
    have e2 : c1 = '.' := hcond.1.1
    have e3 : c2 = '.' := hcond.1.2
    subst e1 e2 e3
    have hd : ∀ c, c = '.' → isLetter c = true → False := by
      intro c e hl; subst e; exact ha hl
    have hl : ({ pre := t.pre, ell := true, post := t.post } : Term).letters = t.letters := rfl
    rw [hl]
    constructor
    · rintro (h1 | ⟨h1, h2⟩)
      · exact Or.inl h1
      · exact Or.inr ⟨by simp [h1], h2⟩
    · rintro (h1 | ⟨h1, h2⟩)
      · exact Or.inl h1
      · simp only [List.mem_cons] at h1
        rcases h1 with e | e | e | h1
        · exact (hd c e h2).elim
        · exact (hd c e h2).elim
        · exact (hd c e h2).elim
        · exact Or.inr ⟨h1, h2⟩
  | case5 => intro t1 h; cases h
  | case6 => intro t1 h; cases h
  | case7 => intro t1 h; cases h

/-- the letters of a parsed term are the letters among its characters -/
theorem parseTerm_mem_letters (cs : List Char) (t : Term) (hp : parseTerm cs = .ok t) (c : Char) :
    c ∈ t.letters ↔ c ∈ cs ∧ isLetter c = true := by
  have := parseTermAux_mem_letters cs ⟨[], false, []⟩ t hp c
  simpa [Term.letters] using this

/-! ## B. the labelling of three parsed terms -/

theorem plan_eq (dia : Dialect) (l r o : List Char) (tl tr tO : Term) (hpl : parseTerm l = .ok tl)
    (hpr : parseTerm r = .ok tr) (hpo : parseTerm o = .ok tO) (brank xrank nl nr : ℕ)
    (hnl : tl.ellRank brank = .ok nl) (hnr : tr.ellRank xrank = .ok nr)
    (hell : tO.ell = true ∨ max nl nr = 0) :
    plan dia l r o brank xrank
      = .ok ⟨tl.labels (max nl nr) nl, tr.labels (max nl nr) nr, tO.labels (max nl nr) (max nl nr)⟩ := by
  unfold plan
  simp only [hpl, hpr, hpo, hnl, hnr, bind, Except.bind]
  rcases hell with h | h
  · simp [h, pure, Except.pure]
  · cases hto : tO.ell <;> simp [h, pure, Except.pure]

/-- the sizes of the labels: `d` for the letters, the broadcast ellipsis shape `es` for the ellipsis -/
def dL (d : Char → ℕ) (es : List ℕ) : Lbl → ℕ
  | .ch c => d c
  | .ell k => es.getD k 1

theorem labels_map_dL (t : Term) (d : Char → ℕ) (es : List ℕ) (ne : ℕ) (hne : ne ≤ es.length) :
    (t.labels es.length ne).map (dL d es) = t.pre.map d ++ es.drop (es.length - ne) ++ t.post.map d := by
  unfold Term.labels
  simp only [List.map_append, List.map_map]
  congr 1
  · congr 1
    apply List.ext_getElem
    · simp; omega
    · intro i h1 h2
      simp only [List.length_map, List.length_range] at h1
      simp only [List.getElem_map, List.getElem_range, Function.comp, dL, List.getElem_drop]
      rw [List.getD_eq_getElem?_getD, List.getElem?_eq_getElem (by omega)]
      rfl

/-! ## C. from `Lbl` to a finite alphabet -/

def toFin (nb : ℕ) : Lbl → Char ⊕ Fin (nb + 1)
  | .ch c => .inl c
  | .ell k => .inr (Fin.ofNat (nb + 1) k)

def ofFin (nb : ℕ) : Char ⊕ Fin (nb + 1) → Lbl
  | .inl c => .ch c
  | .inr k => .ell k.val

def Lbl.bnd (nb : ℕ) : Lbl → Prop
  | .ch _ => True
  | .ell k => k < nb + 1

theorem ofFin_injective (nb : ℕ) : Function.Injective (ofFin nb) := by
  intro a b h
  cases a <;> cases b <;> simp [ofFin] at h
  · rw [h]
  · rw [Fin.ext h]

theorem ofFin_toFin (nb : ℕ) (ℓ : Lbl) (h : ℓ.bnd nb) : ofFin nb (toFin nb ℓ) = ℓ := by
  cases ℓ with
  | ch c => rfl
  | ell k =>
    simp only [Lbl.bnd] at h
    simp [toFin, ofFin, Fin.ofNat, Nat.mod_eq_of_lt h]

theorem labels_bnd (t : Term) (nb ne : ℕ) (hne : ne ≤ nb) : ∀ ℓ ∈ t.labels nb ne, ℓ.bnd nb := by
  intro ℓ hℓ
  unfold Term.labels at hℓ
  simp only [List.mem_append, List.mem_map, List.mem_range] at hℓ
  rcases hℓ with (⟨c, _, rfl⟩ | ⟨j, hj, rfl⟩) | ⟨c, _, rfl⟩
  · trivial
  · simp only [Lbl.bnd]; omega
  · trivial

theorem map_ofFin_toFin (nb : ℕ) (L : List Lbl) (h : ∀ ℓ ∈ L, ℓ.bnd nb) :
    (L.map (toFin nb)).map (ofFin nb) = L := by
  rw [List.map_map]
  conv_rhs => rw [← List.map_id L]
  apply List.map_congr_left
  intro ℓ hℓ
  exact ofFin_toFin nb ℓ (h ℓ hℓ)

/-- the kernel on bounded labels is the kernel on the finite alphabet -/
theorem einsumCore_toFin {α : Type} [Zero α] [Add α] [Mul α] (nb : ℕ) (Lb Rb Ob : List Lbl)
    (hL : ∀ ℓ ∈ Lb, ℓ.bnd nb) (hR : ∀ ℓ ∈ Rb, ℓ.bnd nb) (hO : ∀ ℓ ∈ Ob, ℓ.bnd nb) (B x : Tensor α) :
    einsumCore Lb Rb Ob B x = einsumCore (Lb.map (toFin nb)) (Rb.map (toFin nb)) (Ob.map (toFin nb)) B x := by
  rw [← einsumCore_map (ofFin nb) (ofFin_injective nb), map_ofFin_toFin nb Lb hL, map_ofFin_toFin nb Rb hR,
    map_ofFin_toFin nb Ob hO]

theorem labels_nodup (t : Term) (nb ne : ℕ) (h : t.letters.Nodup) : (t.labels nb ne).Nodup := by
  unfold Term.labels
  unfold Term.letters at h
  rw [List.nodup_append] at h
  obtain ⟨h1, h2, h3⟩ := h
  have hch : Function.Injective Lbl.ch := fun _ _ e => Lbl.ch.inj e
  rw [List.nodup_append]
  refine ⟨?_, h2.map hch, ?_⟩
  · rw [List.nodup_append]
    refine ⟨h1.map hch, ?_, ?_⟩
    · apply List.Nodup.map _ List.nodup_range
      intro a b e
      have := Lbl.ell.inj e
      omega
    · intro a ha b hb e
      simp only [List.mem_map] at ha hb
      obtain ⟨c, _, rfl⟩ := ha
      obtain ⟨j, _, rfl⟩ := hb
      cases e
  · intro a ha b hb e
    simp only [List.mem_append, List.mem_map] at ha hb
    obtain ⟨c', hc', rfl⟩ := hb
    rcases ha with ⟨c, hc, rfl⟩ | ⟨j, _, rfl⟩
    · have := Lbl.ch.inj e
      subst this
      exact h3 c hc c hc' rfl
    · cases e

theorem nodup_map_toFin (nb : ℕ) (L : List Lbl) (hb : ∀ ℓ ∈ L, ℓ.bnd nb) (h : L.Nodup) :
    (L.map (toFin nb)).Nodup := by
  apply List.Nodup.map_on _ h
  intro a ha b hb' e
  rw [← ofFin_toFin nb a (hb a ha), ← ofFin_toFin nb b (hb b hb'), e]

theorem mem_labels_toFin (t : Term) (nb ne : ℕ) (c : Char) :
    Sum.inl c ∈ (t.labels nb ne).map (toFin nb) ↔ c ∈ t.letters := by
  unfold Term.labels Term.letters
  simp only [List.map_append, List.map_map, List.mem_append, List.mem_map, Function.comp, toFin,
    Sum.inl.injEq, reduceCtorEq, and_false, exists_false, or_false, exists_eq_right, List.mem_range]

/-- the labels of a term whose letters `s`, `t` have been swapped -/
theorem labels_map_swap (t : Term) (nb ne : ℕ) (s u : Char) :
    ((t.map (Equiv.swap s u)).labels nb ne).map (toFin nb)
      = ((t.labels nb ne).map (toFin nb)).map (Equiv.swap (Sum.inl s) (Sum.inl u)) := by
  have h1 : ∀ c : Char, Equiv.swap (Sum.inl s : Char ⊕ Fin (nb + 1)) (Sum.inl u) (Sum.inl c)
      = Sum.inl (Equiv.swap s u c) := by
    intro c
    simp only [Equiv.swap_apply_def, Sum.inl.injEq]
    split_ifs <;> rfl
  have h2 : ∀ k : Fin (nb + 1), Equiv.swap (Sum.inl s : Char ⊕ Fin (nb + 1)) (Sum.inl u) (Sum.inr k)
      = Sum.inr k := by
    intro k
    exact Equiv.swap_apply_of_ne_of_ne (by simp) (by simp)
  unfold Term.labels Term.map
  simp only [List.map_append, List.map_map]
  refine congrArg₂ (· ++ ·) (congrArg₂ (· ++ ·) ?_ ?_) ?_
  · apply List.map_congr_left; intro c _; simp [toFin, h1]
  · apply List.map_congr_left; intro j _; simp [toFin, h2]
  · apply List.map_congr_left; intro c _; simp [toFin, h1]

/-! ## D. the adjoint theorem with an ellipsis -/

theorem swap_letterPerm (s t : Char) (hs : isLetter s = true) (ht : isLetter t = true) :
    LetterPerm (Equiv.swap s t) := by
  constructor
  · intro c
    by_cases h1 : c = s
    · subst h1; simp [hs, ht]
    · by_cases h2 : c = t
      · subst h2; simp [hs, ht]
      · rw [Equiv.swap_apply_of_ne_of_ne h1 h2]
  · intro c hc
    have h1 : c ≠ s := fun e => by rw [e, hs] at hc; cases hc
    have h2 : c ≠ t := fun e => by rw [e, ht] at hc; cases hc
    exact Equiv.swap_apply_of_ne_of_ne h1 h2

theorem map_dL_labels {nb : ℕ} (t : Term) (d : Char → ℕ) (es : List ℕ) (hnb : nb = es.length) (ne : ℕ)
    (hne : ne ≤ nb) :
    ((t.labels nb ne).map (toFin nb)).map (dL d es ∘ ofFin nb)
      = t.pre.map d ++ es.drop (nb - ne) ++ t.post.map d := by
  subst hnb
  rw [← List.map_map, map_ofFin_toFin _ _ (labels_bnd t _ ne hne), labels_map_dL t d es ne hne]

/-- **(3b) the executable-level adjoint theorem with an ellipsis.**  The three terms parse (`tl`, `tr`, `tO`:
letters before / after an optional `...`); `_get_transposed_subscripts` rewrites `l,r->o` into `l',r->o`.
Shapes: the letters have the sizes `d`; the input `x` and the cotangent `y` carry the whole ellipsis shape `es`
between their letters; the blocks carry a suffix `eB` of it (all of it, part of it, or nothing) — so no size-1
dimension is stretched and the blocks' ellipsis is right-aligned with the input's as NumPy broadcasting wants.
`es` must be empty if the output has no ellipsis, `eB` if the blocks have none.  Then both evaluations succeed and
`⟨einsum(l,r->o)(B,x), y⟩ = ⟨x, einsum(l',r->o)(B,y)⟩`. -/
theorem einsumTerms_adjoint_ellipsis {α : Type} [CommRing α] (dia : Dialect) (l r o l' : List Char)
    (tl tr tO : Term) (hpl : parseTerm l = .ok tl) (hpr : parseTerm r = .ok tr) (hpo : parseTerm o = .ok tO)
    (hchars : ∀ c ∈ l, isLetter c = true ∨ c = '.')
    (ht : transposeCore (· == '.') l r o = .ok l') (hO : tO.letters.Nodup)
    (d : Char → ℕ) (es eB : List ℕ) (hBs : eB <:+ es) (hBell : tl.ell = false → eB = [])
    (hoell : tO.ell = true ∨ es = []) (B x y : Tensor α)
    (hB : B.shape = tl.pre.map d ++ eB ++ tl.post.map d)
    (hx : x.shape = tr.pre.map d ++ es ++ tr.post.map d)
    (hy : y.shape = tO.pre.map d ++ es ++ tO.post.map d)
    (hxw : x.data.length = prodNat x.shape) (hyw : y.data.length = prodNat y.shape) :
    ∃ out1 out2, einsumTerms dia l r o B x = .ok out1 ∧ einsumTerms dia l' r o B y = .ok out2 ∧
      out1.shape = y.shape ∧ out2.shape = x.shape ∧ tdot out1 y = tdot x out2 := by
  obtain ⟨s, t, -, hsd, htd, hsl, -, -, htl, -, htr, hl', hOR, hRO⟩ :=
    transposeCore_spec (· == '.') l r o l' ht
  rw [swapAll_eq_map_swap] at hl' hOR hRO
  have hsL : isLetter s = true := (hchars s hsl).resolve_right (by simpa using hsd)
  have htL : isLetter t = true := (hchars t htl).resolve_right (by simpa using htd)
  have hπ : LetterPerm (Equiv.swap s t) := swap_letterPerm s t hsL htL
  have hpl' : parseTerm l' = .ok (tl.map (Equiv.swap s t)) := by
    rw [hl']; exact parseTerm_map _ hπ l tl hpl
  have htO : tO = tr.map (Equiv.swap s t) := by
    have := parseTerm_map _ hπ r tr hpr
    rw [hRO, hpo] at this
    exact Except.ok.inj this
  -- ranks
  have hle : eB.length ≤ es.length := hBs.length_le
  have heB : eB = es.drop (es.length - eB.length) := by
    obtain ⟨p, rfl⟩ := hBs
    simp
  have hmax : max eB.length es.length = es.length := by omega
  have hrB : tl.ellRank B.rank = .ok eB.length := by
    unfold Term.ellRank Term.nLetters Tensor.rank
    rw [hB]
    cases h : tl.ell
    · simp [hBell h]
    · simp; omega
  have hrB' : (tl.map (Equiv.swap s t)).ellRank B.rank = .ok eB.length := by
    have : (tl.map (Equiv.swap s t)).ellRank B.rank = tl.ellRank B.rank := by
      unfold Term.ellRank Term.nLetters Term.map
      simp only [List.length_map]
      try rfl
    rw [this, hrB]
  have hes : tr.ell = false → es = [] := by
    intro h
    rcases hoell with h' | h'
    · rw [htO] at h'; simp [Term.map, h] at h'
    · exact h'
  have hrx : tr.ellRank x.rank = .ok es.length := by
    unfold Term.ellRank Term.nLetters Tensor.rank
    rw [hx]
    cases h : tr.ell
    · simp [hes h]
    · simp; omega
  have hry : tr.ellRank y.rank = .ok es.length := by
    unfold Term.ellRank Term.nLetters Tensor.rank
    rw [hy, htO]
    cases h : tr.ell
    · simp [hes h, Term.map]
    · simp [Term.map]; omega
  have hell : tO.ell = true ∨ max eB.length es.length = 0 := by
    rcases hoell with h | h
    · exact Or.inl h
    · right; rw [hmax, h]; rfl
  -- the two evaluations on labelled dimensions
  have e1 : einsumTerms dia l r o B x
      = einsumCore (tl.labels es.length eB.length) (tr.labels es.length es.length)
          (tO.labels es.length es.length) B x := by
    unfold einsumTerms
    rw [plan_eq dia l r o tl tr tO hpl hpr hpo B.rank x.rank eB.length es.length hrB hrx hell, hmax]
    rfl
  have e2 : einsumTerms dia l' r o B y
      = einsumCore ((tl.map (Equiv.swap s t)).labels es.length eB.length) (tr.labels es.length es.length)
          (tO.labels es.length es.length) B y := by
    unfold einsumTerms
    rw [plan_eq dia l' r o _ tr tO hpl' hpr hpo B.rank y.rank eB.length es.length hrB' hry hell, hmax]
    rfl
  have bL := labels_bnd tl es.length eB.length hle
  have bL' := labels_bnd (tl.map (Equiv.swap s t)) es.length eB.length hle
  have bR := labels_bnd tr es.length es.length (le_refl _)
  have bO := labels_bnd tO es.length es.length (le_refl _)
  rw [e1, e2, einsumCore_toFin es.length _ _ _ bL bR bO, einsumCore_toFin es.length _ _ _ bL' bR bO,
    labels_map_swap]
  have hROf : ((tr.labels es.length es.length).map (toFin es.length)).map
        (Equiv.swap (Sum.inl s) (Sum.inl t))
      = (tO.labels es.length es.length).map (toFin es.length) := by
    rw [htO, labels_map_swap]
  have hORf : ((tO.labels es.length es.length).map (toFin es.length)).map
        (Equiv.swap (Sum.inl s) (Sum.inl t))
      = (tr.labels es.length es.length).map (toFin es.length) := by
    rw [← hROf, List.map_map]
    conv_rhs => rw [← List.map_id (List.map (toFin es.length) (tr.labels es.length es.length))]
    apply List.map_congr_left
    intro c _
    simp
  refine einsumCore_adjoint _ _ _ (Sum.inl s) (Sum.inl t) ?_ ?_ ?_ hROf hORf ?_
    (dL d es ∘ ofFin es.length) B x y ?_ ?_ ?_ hxw hyw
  · exact (mem_labels_toFin tl _ _ s).2 ((parseTerm_mem_letters l tl hpl s).2 ⟨hsl, hsL⟩)
  · exact (mem_labels_toFin tl _ _ t).2 ((parseTerm_mem_letters l tl hpl t).2 ⟨htl, htL⟩)
  · intro h
    exact htr ((parseTerm_mem_letters r tr hpr t).1 ((mem_labels_toFin tr _ _ t).1 h)).1
  · exact nodup_map_toFin _ _ bO (labels_nodup tO _ _ hO)
  · rw [map_dL_labels tl d es rfl eB.length hle, ← heB, hB]
  · rw [map_dL_labels tr d es rfl es.length (le_refl _), hx]; simp
  · rw [map_dL_labels tO d es rfl es.length (le_refl _), hy]; simp

end Einsum
end Furax
