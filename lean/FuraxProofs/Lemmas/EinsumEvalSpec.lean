/-
C14, executable level: the einsum kernel of FuraxModel/EinsumEval.lean (`einsumCore`, `einsum2`) computes the
bilinear form `Phi` of FuraxProofs/Lemmas/EinsumAdjoint.lean, hence the rewritten subscripts give the adjoint of
the EXECUTABLE kernel.

1. sums over `multiIndices` (row-major enumeration), and their link with `ravelIdx`;
2. the sum over all bounded assignments `ι → ℕ` (the index set of `Phi`) as a sum over `multiIndices`;
3. the kernel on labelled dimensions whose shapes fit a size assignment `d` exactly: it succeeds, its output has
   shape `Ob.map d`, its pairing with `y` is `Phi d B x y Lb Rb Ob`;
4. injective relabelling does not change the kernel (from `Lbl` to the letters);
5. strings without ellipsis: `einsumTerms` / `einsum2`, the adjoint theorem;
6. linearity in the second operand.
-/
import FuraxModel.EinsumEval
import FuraxProofs.Lemmas.EinsumAdjoint
import FuraxProofs.Lemmas.MoveAxisPerm
import Mathlib.Algebra.BigOperators.Group.List.Basic
import Mathlib.Algebra.BigOperators.Ring.List
import Mathlib.Algebra.BigOperators.Group.Finset.Sigma
import Mathlib.Data.Fintype.EquivFin

namespace Furax
namespace Einsum
open Finset

/-! ## 1. sums over `multiIndices` -/

section MultiIndices
variable {α : Type}

/-- `Σ_{a ∈ multiIndices sh} f a` -/
def sumMI [Zero α] [Add α] (sh : List ℕ) (f : List ℕ → α) : α := ((multiIndices sh).map f).sum

theorem sumMI_nil [AddCommMonoid α] (f : List ℕ → α) : sumMI [] f = f [] := by
  simp [sumMI, multiIndices]

theorem sum_map_range [AddCommMonoid α] (g : ℕ → α) (n : ℕ) :
    ((List.range n).map g).sum = ∑ i ∈ range n, g i := by
  induction n with
  | zero => simp
  | succ n ih => rw [List.range_succ, List.map_append, List.sum_append, ih, Finset.sum_range_succ]; simp

theorem sum_flatMap_range [AddCommMonoid α] (g : ℕ → List α) (n : ℕ) :
    ((List.range n).flatMap g).sum = ∑ i ∈ range n, (g i).sum := by
  induction n with
  | zero => simp
  | succ n ih =>
    rw [List.range_succ, List.flatMap_append, List.sum_append, ih, Finset.sum_range_succ]; simp

theorem sumMI_cons [AddCommMonoid α] (d : ℕ) (ds : List ℕ) (f : List ℕ → α) :
    sumMI (d :: ds) f = ∑ i ∈ range d, sumMI ds (fun a => f (i :: a)) := by
  unfold sumMI
  rw [multiIndices, List.map_flatMap, sum_flatMap_range]
  apply Finset.sum_congr rfl
  intro i _
  rw [List.map_map]; rfl

theorem sumMI_congr [Zero α] [Add α] (sh : List ℕ) (f g : List ℕ → α)
    (h : ∀ a ∈ multiIndices sh, f a = g a) : sumMI sh f = sumMI sh g := by
  unfold sumMI; rw [List.map_congr_left h]

theorem mem_multiIndices_length (sh a : List ℕ) (h : a ∈ multiIndices sh) : a.length = sh.length := by
  induction sh generalizing a with
  | nil => simp [multiIndices] at h; simp [h]
  | cons d ds ih =>
    simp only [multiIndices, List.mem_flatMap, List.mem_range, List.mem_map] at h
    obtain ⟨i, _, b, hb, rfl⟩ := h
    simp [ih b hb]

theorem sumMI_append [AddCommMonoid α] (s1 s2 : List ℕ) (f : List ℕ → α) :
    sumMI (s1 ++ s2) f = sumMI s1 (fun a => sumMI s2 (fun b => f (a ++ b))) := by
  induction s1 generalizing f with
  | nil => simp [sumMI_nil]
  | cons d ds ih =>
    rw [List.cons_append, sumMI_cons, sumMI_cons]
    apply Finset.sum_congr rfl
    intro i _
    rw [ih]; rfl

theorem sumMI_mul_right [NonUnitalNonAssocSemiring α] (sh : List ℕ) (f : List ℕ → α) (c : α) :
    sumMI sh (fun a => f a * c) = sumMI sh f * c := by
  unfold sumMI; exact List.sum_map_mul_right _ _ _

/-- the row-major enumeration is the enumeration by flat position -/
theorem multiIndices_map_ravel (sh : List ℕ) :
    (multiIndices sh).map (ravelIdx sh) = List.range (prodNat sh) := by
  induction sh with
  | nil => simp [multiIndices, Axes.ma_ravelIdx_nil, Axes.ma_prodNat_nil]
  | cons d ds ih =>
    rw [multiIndices, List.map_flatMap, Axes.ma_prodNat_cons]
    have h1 : ∀ i, List.map (ravelIdx (d :: ds)) (List.map (fun x => i :: x) (multiIndices ds))
        = (List.range (prodNat ds)).map (fun k => i * prodNat ds + k) := by
      intro i
      rw [List.map_map, ← ih, List.map_map]
      apply List.map_congr_left
      intro a ha
      simp only [Function.comp]
      rw [Axes.ma_ravelIdx_cons d ds i a (mem_multiIndices_length ds a ha)]
    simp only [h1]
    generalize prodNat ds = P
    clear h1 ih
    induction d with
    | zero => simp
    | succ n ih =>
      rw [List.range_succ, List.flatMap_append, ih, Nat.succ_mul, List.range_add]
      simp

theorem multiIndices_length (sh : List ℕ) : (multiIndices sh).length = prodNat sh := by
  have := congrArg List.length (multiIndices_map_ravel sh)
  simpa using this

end MultiIndices

/-! ## 2. bounded assignments of all labels, enumerated along a list of labels -/

section Assignments
variable {α : Type} [AddCommMonoid α] {ι : Type} [Fintype ι] [DecidableEq ι]

omit [Fintype ι] in
theorem envOf_nil (vals : List ℕ) : envOf ([] : List ι) vals = fun _ => 0 := by
  funext ℓ; simp [envOf]

omit [Fintype ι] in
theorem envOf_cons (k : ι) (keys : List ι) (v : ℕ) (vals : List ℕ) :
    envOf (k :: keys) (v :: vals) = Function.update (envOf keys vals) k v := by
  funext ℓ
  simp only [envOf, List.zip_cons_cons, List.lookup_cons, Function.update_apply]
  by_cases h : ℓ = k
  · simp [h]
  · have : (ℓ == k) = false := by simpa using h
    simp [this, h]

/-- peel one label off the index set of `Phi` -/
theorem sum_piFinset_peel (d : ι → ℕ) (ℓ : ι) (F : (ι → ℕ) → α) :
    ∑ σ ∈ Fintype.piFinset (fun c => range (d c)), F σ
      = ∑ i ∈ range (d ℓ), ∑ σ ∈ Fintype.piFinset (fun c => range (Function.update d ℓ 1 c)),
          F (Function.update σ ℓ i) := by
  rw [← Finset.sum_product']
  refine Finset.sum_nbij' (fun σ => (σ ℓ, Function.update σ ℓ 0)) (fun p => Function.update p.2 ℓ p.1)
    ?_ ?_ ?_ ?_ ?_
  · intro σ hσ
    simp only [Fintype.mem_piFinset, mem_range, mem_product] at hσ ⊢
    refine ⟨hσ ℓ, fun c => ?_⟩
    by_cases h : c = ℓ
    · subst h; simp
    · simp [Function.update_of_ne h, hσ c]
  · intro p hp
    simp only [Fintype.mem_piFinset, mem_range, mem_product] at hp ⊢
    intro c
    by_cases h : c = ℓ
    · subst h; simpa using hp.1
    · have := hp.2 c
      simpa [Function.update_of_ne h] using this
  · intro σ _
    simp
  · intro p hp
    simp only [Fintype.mem_piFinset, mem_range, mem_product] at hp
    have h0 : p.2 ℓ = 0 := by
      have := hp.2 ℓ
      simp at this; exact this
    ext
    · simp
    · simp only [Function.update_idem]
      rw [← h0, Function.update_eq_self]
  · intro σ _
    simp

/-- **the index set of `Phi` along a list of labels**: if `ls` has no repetition and every label outside `ls`
has size 1, the sum over all bounded assignments is the row-major sum over the values of `ls` -/
theorem sum_piFinset_eq_sumMI (ls : List ι) (hnd : ls.Nodup) (d : ι → ℕ) (hd : ∀ c, c ∉ ls → d c = 1)
    (F : (ι → ℕ) → α) :
    ∑ σ ∈ Fintype.piFinset (fun c => range (d c)), F σ = sumMI (ls.map d) (fun a => F (envOf ls a)) := by
  induction ls generalizing d F with
  | nil =>
    have hd' : d = fun _ => 1 := by funext c; exact hd c (by simp)
    subst hd'
    have : Fintype.piFinset (fun _ : ι => range 1) = {fun _ => 0} := by
      ext σ
      simp only [Fintype.mem_piFinset, mem_range, Nat.lt_one_iff, mem_singleton]
      constructor
      · intro h; funext c; exact h c
      · intro h c; rw [h]
    rw [this, Finset.sum_singleton, List.map_nil, sumMI_nil, envOf_nil]
  | cons ℓ ls ih =>
    have hℓ : ℓ ∉ ls := (List.nodup_cons.1 hnd).1
    have hnd' : ls.Nodup := (List.nodup_cons.1 hnd).2
    rw [sum_piFinset_peel d ℓ F, List.map_cons, sumMI_cons]
    apply Finset.sum_congr rfl
    intro i _
    have hmap : ls.map d = ls.map (Function.update d ℓ 1) := by
      apply List.map_congr_left
      intro c hc
      rw [Function.update_of_ne (fun h : c = ℓ => hℓ (h ▸ hc))]
    rw [ih hnd' (Function.update d ℓ 1) ?_ (fun σ => F (Function.update σ ℓ i)), hmap]
    · apply sumMI_congr
      intro a _
      rw [envOf_cons]
    · intro c hc
      by_cases h : c = ℓ
      · subst h; simp
      · rw [Function.update_of_ne h]; exact hd c (by simp [h, hc])

end Assignments

/-! ## 3. the kernel on shapes that fit a size assignment exactly -/

section Fit
variable {ι : Type} [DecidableEq ι]

omit [DecidableEq ι] in
theorem zip_map_self (M : List ι) (d : ι → ℕ) : M.zip (M.map d) = M.map (fun ℓ => (ℓ, d ℓ)) := by
  induction M with
  | nil => rfl
  | cons m M ih => simp [ih]

omit [DecidableEq ι] in
theorem dimsOf_fit (Lb Rb : List ι) (d : ι → ℕ) :
    dimsOf Lb Rb (Lb.map d) (Rb.map d) = (Lb ++ Rb).map (fun ℓ => (ℓ, d ℓ)) := by
  simp [dimsOf, zip_map_self]

theorem dimOf_nil (ℓ : ι) : dimOf ([] : List (ι × ℕ)) ℓ = 1 := rfl

theorem dimOf_cons (p : ι × ℕ) (ps : List (ι × ℕ)) (ℓ : ι) :
    dimOf (p :: ps) ℓ = if (p.1 == ℓ && p.2 != 1) = true then p.2 else dimOf ps ℓ := by
  unfold dimOf
  rw [List.find?_cons]
  cases h : (p.1 == ℓ && p.2 != 1) <;> simp

theorem dimOf_graph (M : List ι) (d : ι → ℕ) (ℓ : ι) :
    dimOf (M.map fun c => (c, d c)) ℓ = if ℓ ∈ M then d ℓ else 1 := by
  induction M with
  | nil => simp [dimOf_nil]
  | cons m M ih =>
    rw [List.map_cons, dimOf_cons, ih]
    by_cases hm : m = ℓ
    · subst hm
      by_cases h1 : d m = 1
      · simp [h1]
      · simp [h1]
    · have : ℓ ≠ m := fun h => hm h.symm
      simp [hm, this]

theorem dimOf_fit (Lb Rb : List ι) (d : ι → ℕ) (hd : ∀ c, c ∉ Lb ++ Rb → d c = 1) (ℓ : ι) :
    dimOf (dimsOf Lb Rb (Lb.map d) (Rb.map d)) ℓ = d ℓ := by
  rw [dimsOf_fit, dimOf_graph]
  split
  · rfl
  · rename_i h; exact (hd ℓ h).symm

theorem nodupB_iff (l : List ι) : nodupB l = true ↔ l.Nodup := by
  induction l with
  | nil => simp [nodupB]
  | cons a as ih => simp [nodupB, ih]

theorem compatible_graph (M : List ι) (d : ι → ℕ) : compatible (M.map fun c => (c, d c)) = true := by
  unfold compatible
  rw [List.all_eq_true]
  intro p hp
  obtain ⟨c, hc, rfl⟩ := List.mem_map.1 hp
  simp only [dimOf_graph, hc, if_true]
  simp

theorem diagOK_graph (M : List ι) (d : ι → ℕ) : diagOK (M.map fun c => (c, d c)) = true := by
  unfold diagOK
  simp only [List.all_eq_true]
  intro p hp q hq
  obtain ⟨c, _, rfl⟩ := List.mem_map.1 hp
  obtain ⟨c', _, rfl⟩ := List.mem_map.1 hq
  by_cases h : c = c'
  · subst h; simp
  · simp [h]

theorem coreOK_fit (Lb Rb Ob : List ι) (d : ι → ℕ) (hO : Ob.Nodup) (hsub : ∀ c ∈ Ob, c ∈ Lb ++ Rb) :
    coreOK Lb Rb Ob (Lb.map d) (Rb.map d) = true := by
  unfold coreOK
  rw [dimsOf_fit, compatible_graph, zip_map_self, zip_map_self, diagOK_graph, diagOK_graph,
    (nodupB_iff Ob).2 hO]
  simp only [List.length_map, beq_self_eq_true, Bool.and_true, Bool.true_and, List.all_eq_true,
    List.contains_eq_mem, decide_eq_true_eq]
  exact hsub

omit [DecidableEq ι] in
theorem opIndex_fit (Lb : List ι) (d : ι → ℕ) (env : ι → ℕ) (h : ∀ c ∈ Lb, env c < d c) :
    opIndex Lb (Lb.map d) env = Lb.map env := by
  unfold opIndex
  rw [zip_map_self, List.map_map]
  apply List.map_congr_left
  intro c hc
  simp only [Function.comp]
  split
  · rename_i h1
    have := h c hc
    simp only [beq_iff_eq] at h1
    omega
  · rfl

theorem nodup_eraseDups (l : List ι) : l.eraseDups.Nodup := by
  generalize hn : l.length = n
  induction n using Nat.strong_induction_on generalizing l with
  | _ n ih =>
    cases l with
    | nil => simp
    | cons a as =>
      rw [List.eraseDups_cons, List.nodup_cons]
      constructor
      · rw [List.mem_eraseDups]; simp
      · have hlen : (as.filter fun b => !b == a).length < n := by
          have := List.length_filter_le (fun b => !b == a) as
          simp at hn; omega
        exact ih _ hlen _ rfl

theorem mem_sumLabels (Lb Rb Ob : List ι) (c : ι) :
    c ∈ sumLabels Lb Rb Ob ↔ c ∈ Lb ++ Rb ∧ c ∉ Ob := by
  simp only [sumLabels, List.mem_eraseDups, List.mem_filter, List.contains_eq_mem, Bool.not_eq_eq_eq_not,
    Bool.not_true, decide_eq_false_iff_not]

theorem keys_nodup (Lb Rb Ob : List ι) (hO : Ob.Nodup) : (Ob ++ sumLabels Lb Rb Ob).Nodup := by
  rw [List.nodup_append]
  refine ⟨hO, nodup_eraseDups _, ?_⟩
  intro a ha b hb hab
  subst hab
  exact ((mem_sumLabels Lb Rb Ob a).1 hb).2 ha

theorem keys_cover (Lb Rb Ob : List ι) (c : ι) (h : c ∉ Ob ++ sumLabels Lb Rb Ob) : c ∉ Lb ++ Rb := by
  intro hc
  apply h
  rw [List.mem_append, mem_sumLabels]
  by_cases h' : c ∈ Ob
  · exact Or.inl h'
  · exact Or.inr ⟨hc, h'⟩

/-- the environment recovers the values of its (repetition-free) keys -/
theorem map_envOf (keys : List ι) (vals : List ℕ) (hnd : keys.Nodup) (hlen : vals.length = keys.length) :
    keys.map (envOf keys vals) = vals := by
  induction keys generalizing vals with
  | nil => cases vals with
    | nil => rfl
    | cons _ _ => simp at hlen
  | cons k keys ih =>
    cases vals with
    | nil => simp at hlen
    | cons v vals =>
      have hk : k ∉ keys := (List.nodup_cons.1 hnd).1
      rw [envOf_cons, List.map_cons, Function.update_self]
      congr 1
      rw [← ih vals (List.nodup_cons.1 hnd).2 (by simpa using hlen)]
      apply List.map_congr_left
      intro c hc
      rw [Function.update_of_ne (fun h : c = k => hk (h ▸ hc))]
      rw [ih vals (List.nodup_cons.1 hnd).2 (by simpa using hlen)]

end Fit

/-! ### the kernel computes `Phi` -/

section CorePhi
variable {α : Type} [CommRing α] {ι : Type} [DecidableEq ι]

/-- the pairing `Σ_k a[k] · b[k]` of two tensors (by their row-major data) -/
def tdot (a b : Tensor α) : α := (List.zipWith (· * ·) a.data b.data).sum

theorem map_getD_range (l : List α) : (List.range l.length).map (fun k => l.getD k 0) = l := by
  apply List.ext_getElem
  · simp
  · intro i h1 h2
    simp [List.getD_eq_getElem?_getD, List.getElem?_eq_getElem h2]

/-- a well-formed tensor is the row-major list of its entries -/
theorem data_eq_map_entryAt (y : Tensor α) (hy : y.data.length = prodNat y.shape) :
    y.data = (multiIndices y.shape).map (entryAt y) := by
  have h : (multiIndices y.shape).map (entryAt y)
      = ((multiIndices y.shape).map (ravelIdx y.shape)).map (fun k => y.data.getD k 0) := by
    rw [List.map_map]; rfl
  rw [h, multiIndices_map_ravel, ← hy, map_getD_range]

theorem tdot_map (sh : List ℕ) (g : List ℕ → α) (y : Tensor α) (hsh : y.shape = sh)
    (hy : y.data.length = prodNat y.shape) :
    tdot ⟨sh, (multiIndices sh).map g⟩ y = sumMI sh (fun oi => g oi * entryAt y oi) := by
  unfold tdot sumMI
  conv_lhs => rw [data_eq_map_entryAt y hy, hsh]
  simp only
  rw [List.zipWith_map, List.zipWith_self]

theorem tdot_comm (a b : Tensor α) : tdot a b = tdot b a := by
  unfold tdot
  rw [List.zipWith_comm]
  simp only [mul_comm]

/-- the kernel succeeds on shapes that fit `d` exactly, with output shape `Ob.map d` -/
theorem einsumCore_fit (Lb Rb Ob : List ι) (d : ι → ℕ) (B x : Tensor α)
    (hB : B.shape = Lb.map d) (hx : x.shape = Rb.map d) (hO : Ob.Nodup)
    (hsub : ∀ c ∈ Ob, c ∈ Lb ++ Rb) (hd : ∀ c, c ∉ Lb ++ Rb → d c = 1) :
    einsumCore Lb Rb Ob B x = .ok ⟨Ob.map d, (multiIndices (Ob.map d)).map
      (coreEntry Lb Rb Ob (sumLabels Lb Rb Ob) ((sumLabels Lb Rb Ob).map d) B x)⟩ := by
  unfold einsumCore
  rw [hB, hx, coreOK_fit Lb Rb Ob d hO hsub]
  have : dimOf (dimsOf Lb Rb (Lb.map d) (Rb.map d)) = d := funext (dimOf_fit Lb Rb d hd)
  simp only [if_true, this]

variable [Fintype ι]

/-- **the kernel computes the bilinear form `Phi`**: on shapes that fit the size assignment `d` exactly (labels
that occur nowhere have size 1), `⟨einsumCore Lb Rb Ob B x, y⟩ = Phi d B x y Lb Rb Ob`, tensors being read as
functions of the multi-index by `entryAt` -/
theorem einsumCore_pairing (Lb Rb Ob : List ι) (d : ι → ℕ) (B x y : Tensor α)
    (hB : B.shape = Lb.map d) (hx : x.shape = Rb.map d) (hO : Ob.Nodup)
    (hsub : ∀ c ∈ Ob, c ∈ Lb ++ Rb) (hd : ∀ c, c ∉ Lb ++ Rb → d c = 1)
    (hy : y.shape = Ob.map d) (hyw : y.data.length = prodNat y.shape) :
    ∃ out, einsumCore Lb Rb Ob B x = .ok out ∧ out.shape = Ob.map d ∧
      out.data.length = prodNat out.shape ∧
      tdot out y = Phi d (entryAt B) (entryAt x) (entryAt y) Lb Rb Ob := by
  refine ⟨_, einsumCore_fit Lb Rb Ob d B x hB hx hO hsub hd, rfl, ?_, ?_⟩
  · simp [multiIndices_length]
  set S := sumLabels Lb Rb Ob with hS
  have hnd : (Ob ++ S).Nodup := keys_nodup Lb Rb Ob hO
  have hcov : ∀ c, c ∉ Ob ++ S → d c = 1 := fun c hc => hd c (keys_cover Lb Rb Ob c hc)
  rw [tdot_map (Ob.map d) _ y hy hyw]
  -- the summand as a function of the assignment
  let G : (ι → ℕ) → α := fun σ =>
    entryAt B (opIndex Lb B.shape σ) * entryAt x (opIndex Rb x.shape σ) * entryAt y (Ob.map σ)
  have h1 : sumMI (Ob.map d) (fun oi => coreEntry Lb Rb Ob S (S.map d) B x oi * entryAt y oi)
      = sumMI (Ob.map d ++ S.map d) (fun a => G (envOf (Ob ++ S) a)) := by
    rw [sumMI_append]
    apply sumMI_congr
    intro oi hoi
    change sumMI (S.map d) _ * _ = _
    rw [← sumMI_mul_right]
    apply sumMI_congr
    intro si hsi
    have hl1 := mem_multiIndices_length _ _ hoi
    have hl2 := mem_multiIndices_length _ _ hsi
    have hm := map_envOf (Ob ++ S) (oi ++ si) hnd (by simp [hl1, hl2])
    rw [List.map_append] at hm
    have := (List.append_inj hm (by simp [hl1])).1
    simp only [G, this]
  rw [h1, ← List.map_append, ← sum_piFinset_eq_sumMI (Ob ++ S) hnd d hcov G]
  unfold Phi
  apply Finset.sum_congr rfl
  intro σ hσ
  simp only [Fintype.mem_piFinset, mem_range] at hσ
  simp only [G]
  rw [hB, hx, opIndex_fit Lb d σ (fun c _ => hσ c), opIndex_fit Rb d σ (fun c _ => hσ c)]

/-- a size assignment with the labels that occur in no operand set to size 1 (they index nothing) -/
def dNorm (l r : List ι) (d : ι → ℕ) : ι → ℕ := fun c => if c ∈ l ++ r then d c else 1

omit [Fintype ι] in
theorem map_dNorm (l r s : List ι) (d : ι → ℕ) (h : ∀ c ∈ s, c ∈ l ++ r) :
    s.map (dNorm l r d) = s.map d := by
  apply List.map_congr_left
  intro c hc
  simp [dNorm, h c hc]

/-- the pairing theorem for an arbitrary size assignment (normalised inside `Phi`) -/
theorem einsumCore_pairing' (Lb Rb Ob : List ι) (d : ι → ℕ) (B x y : Tensor α)
    (hB : B.shape = Lb.map d) (hx : x.shape = Rb.map d) (hO : Ob.Nodup)
    (hsub : ∀ c ∈ Ob, c ∈ Lb ++ Rb) (hy : y.shape = Ob.map d) (hyw : y.data.length = prodNat y.shape) :
    ∃ out, einsumCore Lb Rb Ob B x = .ok out ∧ out.shape = Ob.map d ∧
      out.data.length = prodNat out.shape ∧
      tdot out y = Phi (dNorm Lb Rb d) (entryAt B) (entryAt x) (entryAt y) Lb Rb Ob := by
  have hl0 : Lb.map (dNorm Lb Rb d) = Lb.map d := map_dNorm Lb Rb Lb d (fun c hc => by simp [hc])
  have hr0 : Rb.map (dNorm Lb Rb d) = Rb.map d := map_dNorm Lb Rb Rb d (fun c hc => by simp [hc])
  have ho0 : Ob.map (dNorm Lb Rb d) = Ob.map d := map_dNorm Lb Rb Ob d hsub
  obtain ⟨out, h1, h2, h3, h4⟩ := einsumCore_pairing Lb Rb Ob (dNorm Lb Rb d) B x y (by rw [hl0, hB])
    (by rw [hr0, hx]) hO hsub (fun c hc => by simp [dNorm, hc]) (by rw [ho0, hy]) hyw
  exact ⟨out, h1, by rw [h2, ho0], h3, h4⟩

/-- **the adjoint theorem for the kernel on labelled dimensions.**  `s`, `t` are two labels of the blocks, `t` is
not a label of the input, and the swap of `s` and `t` exchanges the labels of the input and of the output.  Then
the kernel with the two labels swapped in the block labels, on the same block data, is the adjoint. -/
theorem einsumCore_adjoint (Lb Rb Ob : List ι) (s t : ι) (hsl : s ∈ Lb) (htl : t ∈ Lb) (htr : t ∉ Rb)
    (hRO : Rb.map (Equiv.swap s t) = Ob) (hOR : Ob.map (Equiv.swap s t) = Rb) (hO : Ob.Nodup)
    (d : ι → ℕ) (B x y : Tensor α) (hB : B.shape = Lb.map d) (hx : x.shape = Rb.map d)
    (hy : y.shape = Ob.map d) (hxw : x.data.length = prodNat x.shape)
    (hyw : y.data.length = prodNat y.shape) :
    ∃ out1 out2, einsumCore Lb Rb Ob B x = .ok out1 ∧
      einsumCore (Lb.map (Equiv.swap s t)) Rb Ob B y = .ok out2 ∧
      out1.shape = y.shape ∧ out2.shape = x.shape ∧ tdot out1 y = tdot x out2 := by
  set π := Equiv.swap s t with hπ
  have hππ : ∀ c, π (π c) = c := fun c => by simp [hπ]
  -- the labels of the output occur in the inputs
  have hoR : ∀ c ∈ Ob, c = t ∨ c ∈ Rb := by
    intro c hc
    rw [← hRO] at hc
    obtain ⟨c0, hc0, rfl⟩ := List.mem_map.1 hc
    by_cases h1 : c0 = s
    · left; rw [h1, hπ]; simp
    · have h2 : c0 ≠ t := fun h => htr (h ▸ hc0)
      right; rw [hπ, Equiv.swap_apply_of_ne_of_ne h1 h2]; exact hc0
  have hsub : ∀ c ∈ Ob, c ∈ Lb ++ Rb := by
    intro c hc
    rcases hoR c hc with rfl | h
    · simp [htl]
    · simp [h]
  have htl' : t ∈ Lb.map π := List.mem_map.2 ⟨s, hsl, by simp [hπ]⟩
  have hsub' : ∀ c ∈ Ob, c ∈ Lb.map π ++ Rb := by
    intro c hc
    rcases hoR c hc with rfl | h
    · simp only [List.mem_append]; exact Or.inl htl'
    · simp [h]
  obtain ⟨out1, h11, h12, -, h14⟩ := einsumCore_pairing' Lb Rb Ob d B x y hB hx hO hsub hy hyw
  let d0 := dNorm Lb Rb d
  have hl0 : Lb.map d0 = Lb.map d := map_dNorm Lb Rb Lb d (fun c hc => by simp [hc])
  have hr0 : Rb.map d0 = Rb.map d := map_dNorm Lb Rb Rb d (fun c hc => by simp [hc])
  have ho0 : Ob.map d0 = Ob.map d := map_dNorm Lb Rb Ob d hsub
  have hB1 : B.shape = (Lb.map π).map (d0 ∘ π) := by
    rw [List.map_map, hB, ← hl0]
    apply List.map_congr_left
    intro c _; simp [hππ]
  have hy1 : y.shape = Rb.map (d0 ∘ π) := by
    rw [← List.map_map, hRO, ho0, hy]
  have hx1 : x.shape = Ob.map (d0 ∘ π) := by
    rw [← List.map_map, hOR, hr0, hx]
  have hd1 : dNorm (Lb.map π) Rb (d0 ∘ π) = d0 ∘ π := by
    funext c
    unfold dNorm
    split
    · rfl
    · rename_i hc
      have h1 : π c ∉ Lb := fun h => hc (by
        rw [List.mem_append]; left; exact List.mem_map.2 ⟨π c, h, hππ c⟩)
      have h2 : π c ∉ Rb := by
        intro h
        have hco : c ∈ Ob := by rw [← hRO]; exact List.mem_map.2 ⟨π c, h, hππ c⟩
        rcases hoR c hco with rfl | h'
        · exact hc (by simp only [List.mem_append]; exact Or.inl htl')
        · exact hc (by simp [h'])
      simp [d0, dNorm, h1, h2]
  obtain ⟨out2, h21, h22, -, h24⟩ := einsumCore_pairing' (Lb.map π) Rb Ob (d0 ∘ π) B y x hB1 hy1 hO
    hsub' hx1 hxw
  refine ⟨out1, out2, h11, h21, by rw [h12, hy], by rw [h22, hx1], ?_⟩
  rw [h14, tdot_comm x out2, h24, hd1]
  exact einsum_transpose_adjoint π (Equiv.symm_swap s t) d0 (entryAt B) (entryAt x) (entryAt y) Lb Rb Ob hRO hOR

end CorePhi

/-! ### the entries of the output -/

section Entry
variable {α : Type} [CommRing α] {ι : Type} [DecidableEq ι]

theorem mem_multiIndices_cons (n : ℕ) (sh : List ℕ) (i : ℕ) (a : List ℕ) :
    (i :: a) ∈ multiIndices (n :: sh) ↔ i < n ∧ a ∈ multiIndices sh := by
  simp only [multiIndices, List.mem_flatMap, List.mem_range, List.mem_map, List.cons.injEq]
  constructor
  · rintro ⟨j, hj, b, hb, rfl, rfl⟩; exact ⟨hj, hb⟩
  · rintro ⟨h1, h2⟩; exact ⟨i, h1, a, h2, rfl, rfl⟩

/-- the entry of a row-major table at a multi-index of its enumeration -/
theorem getD_map_multiIndices (sh : List ℕ) (g : List ℕ → α) (oi : List ℕ) (h : oi ∈ multiIndices sh) :
    ((multiIndices sh).map g).getD (ravelIdx sh oi) 0 = g oi := by
  obtain ⟨k, hk, rfl⟩ := List.getElem_of_mem h
  have h1 := multiIndices_map_ravel sh
  have hk' : k < ((multiIndices sh).map (ravelIdx sh)).length := by simpa using hk
  have h2 : ((multiIndices sh).map (ravelIdx sh))[k] = k := by
    simp only [h1]; simp
  rw [List.getElem_map] at h2
  rw [h2, List.getD_eq_getElem?_getD, List.getElem?_map, List.getElem?_eq_getElem hk]
  rfl

/-- the values of a multi-index are below the sizes of their labels -/
theorem envOf_lt (Ob : List ι) (d : ι → ℕ) (oi : List ℕ) (h : oi ∈ multiIndices (Ob.map d)) (c : ι)
    (hc : c ∈ Ob) : envOf Ob oi c < d c := by
  induction Ob generalizing oi with
  | nil => simp at hc
  | cons k ks ih =>
    cases oi with
    | nil => have := mem_multiIndices_length _ _ h; simp at this
    | cons v vs =>
      rw [List.map_cons, mem_multiIndices_cons] at h
      rw [envOf_cons]
      by_cases hck : c = k
      · subst hck; simpa using h.1
      · rw [Function.update_of_ne hck]
        exact ih vs h.2 (by simpa [hck] using hc)

theorem envOf_append (Ob S : List ι) (oi si : List ℕ) (hlen : oi.length = Ob.length) (c : ι) :
    envOf (Ob ++ S) (oi ++ si) c = if c ∈ Ob then envOf Ob oi c else envOf S si c := by
  induction Ob generalizing oi with
  | nil =>
    cases oi with
    | nil => simp
    | cons _ _ => simp at hlen
  | cons k ks ih =>
    cases oi with
    | nil => simp at hlen
    | cons v vs =>
      rw [List.cons_append, List.cons_append, envOf_cons, envOf_cons]
      by_cases hck : c = k
      · subst hck; simp
      · rw [Function.update_of_ne hck, Function.update_of_ne hck, ih vs (by simpa using hlen)]
        simp [hck]

/-- the assignment that reads the output labels in the output multi-index `oi` and the others in `τ` -/
def mixEnv (Ob : List ι) (oi : List ℕ) (τ : ι → ℕ) : ι → ℕ := fun c => if c ∈ Ob then envOf Ob oi c else τ c

variable [Fintype ι]

/-- **the entries of the output**: on shapes that fit `d` exactly, the entry at a valid output multi-index `oi` is
the sum, over all assignments `τ` of an index below `d c` to every summed label `c` (the other labels are pinned
to 0 in `τ` and read in `oi`), of `B[σ Lb] · x[σ Rb]` with `σ = mixEnv Ob oi τ` -/
theorem einsumCore_entry (Lb Rb Ob : List ι) (d : ι → ℕ) (B x : Tensor α)
    (hB : B.shape = Lb.map d) (hx : x.shape = Rb.map d) (hO : Ob.Nodup)
    (hsub : ∀ c ∈ Ob, c ∈ Lb ++ Rb) (hd : ∀ c, c ∉ Lb ++ Rb → d c = 1)
    (oi : List ℕ) (hoi : oi ∈ multiIndices (Ob.map d)) :
    ∃ out, einsumCore Lb Rb Ob B x = .ok out ∧
      entryAt out oi = ∑ τ ∈ Fintype.piFinset (fun c => range (if c ∈ sumLabels Lb Rb Ob then d c else 1)),
        entryAt B (Lb.map (mixEnv Ob oi τ)) * entryAt x (Rb.map (mixEnv Ob oi τ)) := by
  refine ⟨_, einsumCore_fit Lb Rb Ob d B x hB hx hO hsub hd, ?_⟩
  set S := sumLabels Lb Rb Ob with hS
  have he : ∀ g : List ℕ → α, entryAt (⟨Ob.map d, (multiIndices (Ob.map d)).map g⟩ : Tensor α) oi = g oi :=
    fun g => getD_map_multiIndices _ g oi hoi
  rw [he]
  change sumMI (S.map d) _ = _
  have hlen := mem_multiIndices_length _ _ hoi
  rw [List.length_map] at hlen
  let dS : ι → ℕ := fun c => if c ∈ S then d c else 1
  have hmap : S.map dS = S.map d := by
    apply List.map_congr_left
    intro c hc; simp [dS, hc]
  refine Eq.trans ?_ (sum_piFinset_eq_sumMI S (nodup_eraseDups _) dS (fun c hc => by simp [dS, hc])
    (fun τ => entryAt B (Lb.map (mixEnv Ob oi τ)) * entryAt x (Rb.map (mixEnv Ob oi τ)))).symm
  rw [hmap]
  apply sumMI_congr
  intro si hsi
  have henv : envOf (Ob ++ S) (oi ++ si) = mixEnv Ob oi (envOf S si) := by
    funext c; exact envOf_append Ob S oi si hlen c
  have hbound : ∀ c ∈ Lb ++ Rb, mixEnv Ob oi (envOf S si) c < d c := by
    intro c hc
    unfold mixEnv
    split
    · rename_i h; exact envOf_lt Ob d oi hoi c h
    · rename_i h; exact envOf_lt S d si hsi c ((mem_sumLabels Lb Rb Ob c).2 ⟨hc, h⟩)
  simp only [henv]
  rw [hB, hx, opIndex_fit Lb d _ (fun c hc => hbound c (by simp [hc])),
    opIndex_fit Rb d _ (fun c hc => hbound c (by simp [hc]))]

end Entry

/-! ## 4. an injective relabelling does not change the kernel -/

section Relabel
variable {ι κ : Type} [DecidableEq ι] [DecidableEq κ] (f : ι → κ) (hf : Function.Injective f)
include hf

theorem beq_map (a b : ι) : (f a == f b) = (a == b) := by
  by_cases h : a = b
  · subst h; simp
  · have : f a ≠ f b := fun h' => h (hf h')
    simp [h, this]

theorem contains_map (l : List ι) (a : ι) : (l.map f).contains (f a) = l.contains a := by
  induction l with
  | nil => rfl
  | cons b bs ih =>
    simp only [List.map_cons, List.contains_cons, ih, beq_map f hf]

theorem dimOf_map (dims : List (ι × ℕ)) (ℓ : ι) :
    dimOf (dims.map (Prod.map f id)) (f ℓ) = dimOf dims ℓ := by
  induction dims with
  | nil => rfl
  | cons p ps ih =>
    rw [List.map_cons, dimOf_cons, dimOf_cons, ih]
    simp only [Prod.map_fst, Prod.map_snd, id, beq_map f hf]

theorem compatible_map (dims : List (ι × ℕ)) :
    compatible (dims.map (Prod.map f id)) = compatible dims := by
  unfold compatible
  rw [List.all_map]
  apply List.all_congr rfl
  intro p
  simp only [Function.comp, Prod.map_fst, Prod.map_snd, id, dimOf_map f hf]

theorem diagOK_map (dims : List (ι × ℕ)) : diagOK (dims.map (Prod.map f id)) = diagOK dims := by
  unfold diagOK
  rw [List.all_map]
  apply List.all_congr rfl
  intro p
  simp only [Function.comp]
  rw [List.all_map]
  apply List.all_congr rfl
  intro q
  simp only [Function.comp, Prod.map_fst, Prod.map_snd, id, bne, beq_map f hf]

theorem nodupB_map (l : List ι) : nodupB (l.map f) = nodupB l := by
  induction l with
  | nil => rfl
  | cons a as ih => simp only [List.map_cons, nodupB, contains_map f hf, ih]

omit hf [DecidableEq ι] [DecidableEq κ] in
theorem dimsOf_map (Lb Rb : List ι) (bs xs : List ℕ) :
    dimsOf (Lb.map f) (Rb.map f) bs xs = (dimsOf Lb Rb bs xs).map (Prod.map f id) := by
  simp [dimsOf, List.zip_map_left]

theorem coreOK_map (Lb Rb Ob : List ι) (bs xs : List ℕ) :
    coreOK (Lb.map f) (Rb.map f) (Ob.map f) bs xs = coreOK Lb Rb Ob bs xs := by
  unfold coreOK
  rw [dimsOf_map, compatible_map f hf, nodupB_map f hf, List.zip_map_left, List.zip_map_left,
    diagOK_map f hf, diagOK_map f hf, List.all_map, ← List.map_append]
  simp only [List.length_map, Function.comp_def, contains_map f hf]

theorem filter_ne_map (l : List ι) (a : ι) :
    (l.map f).filter (fun b => !b == f a) = (l.filter fun b => !b == a).map f := by
  rw [List.filter_map]
  congr 1
  apply List.filter_congr
  intro b _
  simp only [Function.comp, beq_map f hf]

theorem eraseDups_map (l : List ι) : (l.map f).eraseDups = l.eraseDups.map f := by
  generalize hn : l.length = n
  induction n using Nat.strong_induction_on generalizing l with
  | _ n ih =>
    cases l with
    | nil => simp
    | cons a as =>
      rw [List.map_cons, List.eraseDups_cons, List.eraseDups_cons, List.map_cons, filter_ne_map f hf]
      congr 1
      have hlen : (as.filter fun b => !b == a).length < n := by
        have := List.length_filter_le (fun b => !b == a) as
        simp at hn; omega
      exact ih _ hlen _ rfl

theorem sumLabels_map (Lb Rb Ob : List ι) :
    sumLabels (Lb.map f) (Rb.map f) (Ob.map f) = (sumLabels Lb Rb Ob).map f := by
  unfold sumLabels
  rw [← List.map_append, List.filter_map, eraseDups_map f hf]
  congr 2
  apply List.filter_congr
  intro b _
  simp only [Function.comp, contains_map f hf]

theorem envOf_map (keys : List ι) (vals : List ℕ) (ℓ : ι) :
    envOf (keys.map f) vals (f ℓ) = envOf keys vals ℓ := by
  induction keys generalizing vals with
  | nil => simp [envOf]
  | cons k ks ih =>
    cases vals with
    | nil => simp [envOf]
    | cons v vs =>
      rw [List.map_cons, envOf_cons, envOf_cons]
      by_cases h : ℓ = k
      · subst h; simp
      · have : f ℓ ≠ f k := fun h' => h (hf h')
        rw [Function.update_of_ne this, Function.update_of_ne h, ih]

omit hf [DecidableEq ι] [DecidableEq κ] in
theorem opIndex_map (Lb : List ι) (sh : List ℕ) (env : κ → ℕ) :
    opIndex (Lb.map f) sh env = opIndex Lb sh (env ∘ f) := by
  unfold opIndex
  rw [List.zip_map_left, List.map_map]
  rfl

variable {α : Type} [Zero α] [Add α] [Mul α]

theorem coreEntry_map (Lb Rb Ob S : List ι) (ss : List ℕ) (B x : Tensor α) (oi : List ℕ) :
    coreEntry (Lb.map f) (Rb.map f) (Ob.map f) (S.map f) ss B x oi = coreEntry Lb Rb Ob S ss B x oi := by
  unfold coreEntry
  congr 1
  apply List.map_congr_left
  intro si _
  simp only [opIndex_map, ← List.map_append]
  have : (envOf (List.map f (Ob ++ S)) (oi ++ si)) ∘ f = envOf (Ob ++ S) (oi ++ si) := by
    funext ℓ; exact envOf_map f hf _ _ ℓ
  rw [this]

/-- **relabelling**: the kernel depends on the labels only through their equalities -/
theorem einsumCore_map (Lb Rb Ob : List ι) (B x : Tensor α) :
    einsumCore (Lb.map f) (Rb.map f) (Ob.map f) B x = einsumCore Lb Rb Ob B x := by
  unfold einsumCore
  rw [coreOK_map f hf]
  split
  · simp only [sumLabels_map f hf, dimsOf_map, List.map_map]
    have h1 : dimOf (List.map (Prod.map f id) (dimsOf Lb Rb B.shape x.shape)) ∘ f
        = dimOf (dimsOf Lb Rb B.shape x.shape) := by
      funext ℓ; exact dimOf_map f hf _ ℓ
    rw [h1]
    congr 2
    apply List.map_congr_left
    intro oi _
    exact coreEntry_map f hf _ _ _ _ _ _ _ _
  · rfl

end Relabel

/-! ## 5. subscripts without ellipsis -/

section Letters

theorem char_toFin_injective :
    Function.Injective (fun c : Char => (⟨c.toNat, c.val.toNat_lt⟩ : Fin (2 ^ 32))) := by
  intro a b h
  have h' : a.toNat = b.toNat := by simpa using congrArg Fin.val h
  rw [← Char.ofNat_toNat (c := a), ← Char.ofNat_toNat (c := b), h']

/-- the characters form a finite alphabet (needed to speak of `Phi` over `Char`).  Scoped: as a global instance
it would be picked by `decide` for `∀ c ∈ l, …` and get stuck. -/
noncomputable scoped instance CharAlphabet.instFintypeChar : Fintype Char :=
  Fintype.ofInjective _ char_toFin_injective

/-- the letters-only hypothesis in Boolean form (for `decide`) -/
theorem allLetters_iff (l : List Char) : (∀ c ∈ l, isLetter c = true) ↔ l.all isLetter = true := by
  simp

theorem parseTermAux_cons_letter (c : Char) (cs : List Char) (t : Term) (h : isLetter c = true) :
    parseTermAux (c :: cs) t = parseTermAux cs (t.push c) := by
  conv_lhs => unfold parseTermAux
  simp only [h, if_true]

theorem parseTermAux_letters (cs : List Char) (hcs : ∀ c ∈ cs, isLetter c = true) (p : List Char) :
    parseTermAux cs ⟨p, false, []⟩ = .ok ⟨p ++ cs, false, []⟩ := by
  induction cs generalizing p with
  | nil => simp [parseTermAux]
  | cons c cs ih =>
    rw [parseTermAux_cons_letter c cs _ (hcs c (by simp))]
    have : Term.push ⟨p, false, []⟩ c = ⟨p ++ [c], false, []⟩ := by simp [Term.push]
    rw [this, ih (fun c' h => hcs c' (by simp [h]))]
    simp

/-- a term made of letters only parses to itself -/
theorem parseTerm_letters (s : List Char) (hs : ∀ c ∈ s, isLetter c = true) :
    parseTerm s = .ok ⟨s, false, []⟩ := by
  unfold parseTerm
  rw [parseTermAux_letters s hs []]; rfl

theorem labels_letters (s : List Char) (nb : ℕ) : Term.labels ⟨s, false, []⟩ nb 0 = s.map Lbl.ch := by
  simp [Term.labels]

theorem ch_injective : Function.Injective Lbl.ch := fun _ _ h => Lbl.ch.inj h

/-- the labelling of three letters-only terms -/
theorem plan_letters (dia : Dialect) (l r o : List Char) (hl : ∀ c ∈ l, isLetter c = true)
    (hr : ∀ c ∈ r, isLetter c = true) (ho : ∀ c ∈ o, isLetter c = true) (brank xrank : ℕ)
    (h1 : l.length = brank) (h2 : r.length = xrank) :
    plan dia l r o brank xrank = .ok ⟨l.map .ch, r.map .ch, o.map .ch⟩ := by
  unfold plan
  rw [parseTerm_letters l hl, parseTerm_letters r hr, parseTerm_letters o ho]
  simp [Term.ellRank, Term.nLetters, h1, h2, labels_letters, bind, Except.bind, pure, Except.pure]

variable {α : Type} [Zero α] [Add α] [Mul α]

/-- **letters only: `einsumTerms` is the kernel on the letters themselves** -/
theorem einsumTerms_letters (dia : Dialect) (l r o : List Char) (hl : ∀ c ∈ l, isLetter c = true)
    (hr : ∀ c ∈ r, isLetter c = true) (ho : ∀ c ∈ o, isLetter c = true) (B x : Tensor α)
    (h1 : l.length = B.shape.length) (h2 : r.length = x.shape.length) :
    einsumTerms dia l r o B x = einsumCore l r o B x := by
  unfold einsumTerms
  rw [plan_letters dia l r o hl hr ho B.rank x.rank h1 h2]
  simp only [bind, Except.bind]
  exact einsumCore_map Lbl.ch ch_injective l r o B x

end Letters

section LettersPhi
open scoped CharAlphabet
variable {α : Type} [CommRing α]

/-- **(3a) the executable kernel computes `Phi`.**  Letters-only terms `l,r->o`, operands whose shapes are the
sizes `d` of their letters, an output term without repetition whose letters occur in the inputs: `einsumTerms`
succeeds, its output has the shape `o.map d`, and its pairing with any `y` of that shape is the bilinear form
`Phi` of `EinsumAdjoint.lean` for the sizes `d` (letters occurring nowhere: size 1). -/
theorem einsumTerms_pairing (dia : Dialect) (l r o : List Char) (hl : ∀ c ∈ l, isLetter c = true)
    (hr : ∀ c ∈ r, isLetter c = true) (ho : ∀ c ∈ o, isLetter c = true) (d : Char → ℕ)
    (B x y : Tensor α) (hB : B.shape = l.map d) (hx : x.shape = r.map d) (hO : o.Nodup)
    (hsub : ∀ c ∈ o, c ∈ l ++ r) (hy : y.shape = o.map d) (hyw : y.data.length = prodNat y.shape) :
    ∃ out, einsumTerms dia l r o B x = .ok out ∧ out.shape = o.map d ∧
      out.data.length = prodNat out.shape ∧
      tdot out y = Phi (dNorm l r d) (entryAt B) (entryAt x) (entryAt y) l r o := by
  rw [einsumTerms_letters dia l r o hl hr ho B x (by rw [hB]; simp) (by rw [hx]; simp)]
  have hl0 : l.map (dNorm l r d) = l.map d := map_dNorm l r l d (fun c hc => by simp [hc])
  have hr0 : r.map (dNorm l r d) = r.map d := map_dNorm l r r d (fun c hc => by simp [hc])
  have ho0 : o.map (dNorm l r d) = o.map d := map_dNorm l r o d hsub
  obtain ⟨out, h1, h2, h3, h4⟩ := einsumCore_pairing l r o (dNorm l r d) B x y (by rw [hl0, hB])
    (by rw [hr0, hx]) hO hsub (fun c hc => by simp [dNorm, hc]) (by rw [ho0, hy]) hyw
  exact ⟨out, h1, by rw [h2, ho0], h3, h4⟩

/-- **(3a) the entries of the executable kernel.**  Same hypotheses: the entry of `einsumTerms dia l r o B x` at a
valid output multi-index `oi` is the sum over the assignments `τ` of the summed letters (those of `l`, `r` that are
not in `o`) of `B[σ l] · x[σ r]`, where `σ` reads the output letters in `oi` and the summed letters in `τ`. -/
theorem einsumTerms_entry (dia : Dialect) (l r o : List Char) (hl : ∀ c ∈ l, isLetter c = true)
    (hr : ∀ c ∈ r, isLetter c = true) (ho : ∀ c ∈ o, isLetter c = true) (d : Char → ℕ)
    (B x : Tensor α) (hB : B.shape = l.map d) (hx : x.shape = r.map d) (hO : o.Nodup)
    (hsub : ∀ c ∈ o, c ∈ l ++ r) :
    ∃ out, einsumTerms dia l r o B x = .ok out ∧ ∀ oi ∈ multiIndices (o.map d),
      entryAt out oi = ∑ τ ∈ Fintype.piFinset (fun c => range (if c ∈ sumLabels l r o then d c else 1)),
        entryAt B (l.map (mixEnv o oi τ)) * entryAt x (r.map (mixEnv o oi τ)) := by
  rw [einsumTerms_letters dia l r o hl hr ho B x (by rw [hB]; simp) (by rw [hx]; simp)]
  have hl0 : l.map (dNorm l r d) = l.map d := map_dNorm l r l d (fun c hc => by simp [hc])
  have hr0 : r.map (dNorm l r d) = r.map d := map_dNorm l r r d (fun c hc => by simp [hc])
  have ho0 : o.map (dNorm l r d) = o.map d := map_dNorm l r o d hsub
  have hfit := einsumCore_fit l r o (dNorm l r d) B x (by rw [hl0, hB]) (by rw [hr0, hx]) hO hsub
    (fun c hc => by simp [dNorm, hc])
  refine ⟨_, hfit, ?_⟩
  intro oi hoi
  obtain ⟨out, h1, h2⟩ := einsumCore_entry l r o (dNorm l r d) B x (by rw [hl0, hB]) (by rw [hr0, hx]) hO
    hsub (fun c hc => by simp [dNorm, hc]) oi (by rw [ho0]; exact hoi)
  rw [hfit] at h1
  cases h1
  rw [h2]
  have : (fun c => range (if c ∈ sumLabels l r o then dNorm l r d c else 1))
      = (fun c => range (if c ∈ sumLabels l r o then d c else 1)) := by
    funext c
    by_cases hc : c ∈ sumLabels l r o
    · have := ((mem_sumLabels l r o c).1 hc).1
      simp [hc, dNorm, this]
    · simp [hc]
  rw [this]

/-- **the executable-level adjoint theorem** (letters only).  If `_get_transposed_subscripts` rewrites `l,r->o`
into `l',r->o`, then for all block data `B`, inputs `x` and `y` whose shapes are the sizes of their letters,
both kernels succeed and `⟨einsum(l,r->o)(B, x), y⟩ = ⟨x, einsum(l',r->o)(B, y)⟩`.
The hypothesis `o.Nodup` is what `numpy.einsum` itself demands of the output (it is not implied by the success
of the rewriting, see `transposeCore_accepts_repeated_output`). -/
theorem einsumTerms_adjoint (dia : Dialect) (l r o l' : List Char) (hl : ∀ c ∈ l, isLetter c = true)
    (hr : ∀ c ∈ r, isLetter c = true) (ho : ∀ c ∈ o, isLetter c = true)
    (ht : transposeCore (· == '.') l r o = .ok l') (hO : o.Nodup) (d : Char → ℕ) (B x y : Tensor α)
    (hB : B.shape = l.map d) (hx : x.shape = r.map d) (hy : y.shape = o.map d)
    (hxw : x.data.length = prodNat x.shape) (hyw : y.data.length = prodNat y.shape) :
    ∃ out1 out2, einsumTerms dia l r o B x = .ok out1 ∧ einsumTerms dia l' r o B y = .ok out2 ∧
      out1.shape = y.shape ∧ out2.shape = x.shape ∧ tdot out1 y = tdot x out2 := by
  obtain ⟨s, t, -, -, -, hsl, -, -, htl, -, htr, hl', hOR, hRO⟩ :=
    transposeCore_spec (· == '.') l r o l' ht
  rw [swapAll_eq_map_swap] at hl' hOR hRO
  have hl'let : ∀ c ∈ l', isLetter c = true := by
    intro c hc
    rw [hl'] at hc
    obtain ⟨c0, hc0, rfl⟩ := List.mem_map.1 hc
    by_cases h1 : c0 = s
    · rw [h1]; simp; exact hl t htl
    · by_cases h2 : c0 = t
      · rw [h2]; simp; exact hl s hsl
      · rw [Equiv.swap_apply_of_ne_of_ne h1 h2]; exact hl c0 hc0
  rw [einsumTerms_letters dia l r o hl hr ho B x (by rw [hB]; simp) (by rw [hx]; simp),
    einsumTerms_letters dia l' r o hl'let hr ho B y (by rw [hl', hB]; simp)
      (by rw [hy, ← hRO]; simp), hl']
  exact einsumCore_adjoint l r o s t hsl htl htr hRO hOR hO d B x y hB hx hy hxw hyw

end LettersPhi

/-! ## 6. linearity in the second operand -/

section Linear
variable {α : Type} [CommRing α]

/-- entrywise sum of two tensors of the same shape -/
def tadd (a b : Tensor α) : Tensor α := ⟨a.shape, List.zipWith (· + ·) a.data b.data⟩

/-- multiple of a tensor -/
def tsmul (c : α) (a : Tensor α) : Tensor α := ⟨a.shape, a.data.map (c * ·)⟩

theorem getD_zipWith_add (l l' : List α) (h : l'.length = l.length) (k : ℕ) :
    (List.zipWith (· + ·) l l').getD k 0 = l.getD k 0 + l'.getD k 0 := by
  simp only [List.getD_eq_getElem?_getD, List.getElem?_zipWith]
  by_cases hk : k < l.length
  · have hk' : k < l'.length := by omega
    simp [List.getElem?_eq_getElem hk, List.getElem?_eq_getElem hk']
  · have h1 : l[k]? = none := List.getElem?_eq_none (by omega)
    have h2 : l'[k]? = none := List.getElem?_eq_none (by omega)
    simp [h1, h2]

theorem getD_map_mul (c : α) (l : List α) (k : ℕ) : (l.map (c * ·)).getD k 0 = c * l.getD k 0 := by
  simp only [List.getD_eq_getElem?_getD, List.getElem?_map]
  cases l[k]? <;> simp

theorem entryAt_tadd (x x' : Tensor α) (h : x'.data.length = x.data.length) (idx : List ℕ) :
    entryAt (tadd x x') idx = entryAt x idx + entryAt ⟨x.shape, x'.data⟩ idx := by
  simp only [entryAt, tadd, getD_zipWith_add _ _ h]

theorem entryAt_tsmul (c : α) (x : Tensor α) (idx : List ℕ) :
    entryAt (tsmul c x) idx = c * entryAt x idx := by
  simp only [entryAt, tsmul, getD_map_mul]

variable {ι : Type} [DecidableEq ι]

theorem coreEntry_tadd (Lb Rb Ob S : List ι) (ss : List ℕ) (B x x' : Tensor α)
    (h : x'.data.length = x.data.length) (oi : List ℕ) :
    coreEntry Lb Rb Ob S ss B (tadd x x') oi
      = coreEntry Lb Rb Ob S ss B x oi + coreEntry Lb Rb Ob S ss B ⟨x.shape, x'.data⟩ oi := by
  unfold coreEntry
  rw [← List.sum_map_add]
  congr 1
  apply List.map_congr_left
  intro si _
  simp only [entryAt_tadd x x' h, mul_add]
  rfl

theorem coreEntry_tsmul (Lb Rb Ob S : List ι) (ss : List ℕ) (B x : Tensor α) (c : α) (oi : List ℕ) :
    coreEntry Lb Rb Ob S ss B (tsmul c x) oi = c * coreEntry Lb Rb Ob S ss B x oi := by
  unfold coreEntry
  rw [← List.sum_map_mul_left]
  congr 1
  apply List.map_congr_left
  intro si _
  simp only [entryAt_tsmul, mul_left_comm]
  rfl

/-- the kernel is additive in its second operand -/
theorem einsumCore_add (Lb Rb Ob : List ι) (B x x' o1 o2 : Tensor α) (hs : x'.shape = x.shape)
    (hl : x'.data.length = x.data.length) (h1 : einsumCore Lb Rb Ob B x = .ok o1)
    (h2 : einsumCore Lb Rb Ob B x' = .ok o2) :
    einsumCore Lb Rb Ob B (tadd x x') = .ok (tadd o1 o2) := by
  obtain ⟨sh', dat'⟩ := x'
  simp only at hs hl
  subst hs
  unfold einsumCore at h1 h2 ⊢
  simp only [tadd] at h1 h2 ⊢
  split at h1
  · rename_i hok
    simp only [hok, if_true] at h2 ⊢
    cases h1; cases h2
    simp only [Except.ok.injEq, Tensor.mk.injEq, true_and]
    rw [List.zipWith_map, List.zipWith_self]
    apply List.map_congr_left
    intro oi _
    exact coreEntry_tadd Lb Rb Ob _ _ B x ⟨x.shape, dat'⟩ hl oi
  · cases h1

/-- the kernel is homogeneous in its second operand -/
theorem einsumCore_smul (Lb Rb Ob : List ι) (B x o1 : Tensor α) (c : α)
    (h1 : einsumCore Lb Rb Ob B x = .ok o1) :
    einsumCore Lb Rb Ob B (tsmul c x) = .ok (tsmul c o1) := by
  unfold einsumCore at h1 ⊢
  simp only [tsmul] at h1 ⊢
  split at h1
  · rename_i hok
    simp only [hok, if_true] at ⊢
    cases h1
    simp only [Except.ok.injEq, Tensor.mk.injEq, true_and, List.map_map]
    apply List.map_congr_left
    intro oi _
    exact coreEntry_tsmul Lb Rb Ob _ _ B x c oi
  · cases h1

/-- **(3c)** `einsum2With dia subs B ·` is additive, for every subscripts string (ellipsis and broadcasting
included): the two summands have the same shape and as many values -/
theorem einsum2With_add (dia : Dialect) (subs : String) (B x x' o1 o2 : Tensor α) (hs : x'.shape = x.shape)
    (hl : x'.data.length = x.data.length) (h1 : einsum2With dia subs B x = .ok o1)
    (h2 : einsum2With dia subs B x' = .ok o2) :
    einsum2With dia subs B (tadd x x') = .ok (tadd o1 o2) := by
  unfold einsum2With at h1 h2 ⊢
  cases hp : parseSubscripts subs with
  | error e => simp [hp, bind, Except.bind] at h1
  | ok p =>
    obtain ⟨l, r, o⟩ := p
    simp only [hp, bind, Except.bind, einsumTerms] at h1 h2 ⊢
    have hr : x'.rank = x.rank := by simp [Tensor.rank, hs]
    have hr' : (tadd x x').rank = x.rank := rfl
    rw [hr] at h2
    rw [hr']
    cases hq : plan dia l.toList r.toList o.toList B.rank x.rank with
    | error e => simp [hq] at h1
    | ok q =>
      simp only [hq] at h1 h2 ⊢
      exact einsumCore_add _ _ _ B x x' o1 o2 hs hl h1 h2

/-- **(3c)** `einsum2With dia subs B ·` is homogeneous -/
theorem einsum2With_smul (dia : Dialect) (subs : String) (B x o1 : Tensor α) (c : α)
    (h1 : einsum2With dia subs B x = .ok o1) :
    einsum2With dia subs B (tsmul c x) = .ok (tsmul c o1) := by
  unfold einsum2With at h1 ⊢
  cases hp : parseSubscripts subs with
  | error e => simp [hp, bind, Except.bind] at h1
  | ok p =>
    obtain ⟨l, r, o⟩ := p
    simp only [hp, bind, Except.bind, einsumTerms] at h1 ⊢
    have hr' : (tsmul c x).rank = x.rank := rfl
    rw [hr']
    cases hq : plan dia l.toList r.toList o.toList B.rank x.rank with
    | error e => simp [hq] at h1
    | ok q =>
      simp only [hq] at h1 ⊢
      exact einsumCore_smul _ _ _ B x o1 c h1

/-- success depends on the shapes only: the kernel accepts `x` iff it accepts any tensor of the same shape -/
theorem einsumCore_isOk_shape (Lb Rb Ob : List ι) (B x x' : Tensor α) (hs : x'.shape = x.shape) :
    (einsumCore Lb Rb Ob B x').isOk = (einsumCore Lb Rb Ob B x).isOk := by
  unfold einsumCore
  rw [hs]
  split <;> rfl

end Linear

/-! ## 7. output shape, rejections -/

section Shape
variable {α : Type} [Zero α] [Add α] [Mul α]

/-- `coreShape` is the shape of the kernel's output, and fails exactly when the kernel fails -/
theorem einsumCore_shape {ι : Type} [DecidableEq ι] (Lb Rb Ob : List ι) (B x : Tensor α) :
    (einsumCore Lb Rb Ob B x).map Tensor.shape = coreShape Lb Rb Ob B.shape x.shape := by
  unfold einsumCore coreShape
  split <;> rfl

/-- **`outShape` is the shape of `einsum2`**, and fails exactly when `einsum2` fails -/
theorem einsum2_shape (subs : String) (B x : Tensor α) :
    (einsum2 subs B x).map Tensor.shape = outShape subs B.shape x.shape := by
  unfold einsum2 einsum2With outShape
  cases hp : parseSubscripts subs with
  | error e => rfl
  | ok p =>
    obtain ⟨l, r, o⟩ := p
    simp only [bind, Except.bind, einsumTerms, outShapeTerms, Tensor.rank]
    cases hq : plan .numpy l.toList r.toList o.toList B.shape.length x.shape.length with
    | error e => rfl
    | ok q => exact einsumCore_shape _ _ _ B x

theorem parseSubscripts_error (s : String) (e : PyErr) (h : parseSubscripts s = .error e) :
    e = .valueError := by
  unfold parseSubscripts at h
  repeat' split at h
  all_goals cases h
  all_goals rfl

theorem parseTermAux_error (cs : List Char) (t : Term) (e : PyErr) (h : parseTermAux cs t = .error e) :
    e = .valueError := by
  fun_induction parseTermAux cs t with
  | case1 => cases h
  | case2 _ _ _ _ ih => exact ih h
  | case3 _ _ _ _ _ ih => exact ih h
  | case4 _ _ _ _ _ _ _ _ _ ih => exact ih h
  | case5 => cases h; rfl
  | case6 => cases h; rfl
  | case7 => cases h; rfl

theorem ellRank_error (t : Term) (n : ℕ) (e : PyErr) (h : t.ellRank n = .error e) : e = .valueError := by
  unfold Term.ellRank at h
  repeat' split at h
  all_goals cases h
  all_goals rfl

theorem plan_error (dia : Dialect) (l r o : List Char) (m n : ℕ) (e : PyErr)
    (h : plan dia l r o m n = .error e) : e = .valueError := by
  unfold plan at h
  simp only [bind, Except.bind] at h
  cases h1 : parseTerm l with
  | error e1 => rw [h1] at h; cases h; exact parseTermAux_error _ _ _ h1
  | ok tl =>
    cases h2 : parseTerm r with
    | error e2 => rw [h1, h2] at h; cases h; exact parseTermAux_error _ _ _ h2
    | ok tr =>
      cases h3 : parseTerm o with
      | error e3 => rw [h1, h2, h3] at h; cases h; exact parseTermAux_error _ _ _ h3
      | ok tO =>
        cases h4 : tl.ellRank m with
        | error e4 => rw [h1, h2, h3] at h; simp only [h4] at h; cases h; exact ellRank_error _ _ _ h4
        | ok nl =>
          cases h5 : tr.ellRank n with
          | error e5 =>
            rw [h1, h2, h3] at h; simp only [h4, h5] at h; cases h; exact ellRank_error _ _ _ h5
          | ok nr =>
            rw [h1, h2, h3] at h
            simp only [h4, h5] at h
            split at h
            · cases h; rfl
            · cases h

/-- **every rejection of the kernel is a `ValueError`** (both dialects) -/
theorem einsum2With_error (dia : Dialect) (subs : String) (B x : Tensor α) (e : PyErr)
    (h : einsum2With dia subs B x = .error e) : e = .valueError := by
  unfold einsum2With at h
  cases hp : parseSubscripts subs with
  | error e1 => rw [hp] at h; cases h; exact parseSubscripts_error _ _ hp
  | ok p =>
    obtain ⟨l, r, o⟩ := p
    rw [hp] at h
    simp only [bind, Except.bind, einsumTerms] at h
    cases hq : plan dia l.toList r.toList o.toList B.rank x.rank with
    | error e2 => rw [hq] at h; cases h; exact plan_error _ _ _ _ _ _ _ hq
    | ok q =>
      rw [hq] at h
      simp only [einsumCore] at h
      split at h
      · cases h
      · cases h; rfl

/-- an output with a repeated label is refused -/
theorem einsumCore_reject_repeated_output {ι : Type} [DecidableEq ι] (Lb Rb Ob : List ι) (B x : Tensor α)
    (h : ¬ Ob.Nodup) : einsumCore Lb Rb Ob B x = .error .valueError := by
  unfold einsumCore coreOK
  have : nodupB Ob = false := by
    cases hn : nodupB Ob
    · rfl
    · exact absurd ((nodupB_iff Ob).1 hn) h
  simp [this]

/-- an output label that occurs in no input is refused -/
theorem einsumCore_reject_unknown_output {ι : Type} [DecidableEq ι] (Lb Rb Ob : List ι) (B x : Tensor α)
    (c : ι) (hc : c ∈ Ob) (h : c ∉ Lb ++ Rb) : einsumCore Lb Rb Ob B x = .error .valueError := by
  unfold einsumCore coreOK
  have : (Ob.all fun ℓ => (Lb ++ Rb).contains ℓ) = false := by
    rw [List.all_eq_false]
    exact ⟨c, hc, by simpa using h⟩
  simp only [this, Bool.and_false, Bool.false_and, Bool.false_eq_true, if_false]

end Shape

end Einsum
end Furax
