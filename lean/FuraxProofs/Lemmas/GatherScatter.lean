/-
Lemmas for `IndexOperator` (FuraxModel/Index.lean, FuraxModel/IndexRule.lean):

A. the coverage computed by `TransposeIndexRule` (`ruleCoverage`) is the vector of selection
   multiplicities (`mult`) for every in-bounds integer index array; the computation without the
   normalisation step is wrong (kernel-checked counterexample).
B. `scatterAdd` is the exact adjoint of `gather`; `P Pᵀ = I` when no input element is selected
   twice; `Pᵀ P` is the diagonal of the selection multiplicities.
-/
import FuraxModel.Index
import FuraxProofs.Lemmas.Pixel
import Mathlib.Algebra.Ring.Defs
import Mathlib.Data.Nat.Cast.Basic
import Mathlib.Tactic.Ring
namespace Furax.Index
open Furax Furax.Landscape

/-! ## A. the coverage rule -/

theorem normIdx_range (n : Nat) (i : Int) (h : -(n : Int) ≤ i ∧ i < n) :
    0 ≤ normIdx n i ∧ normIdx n i < n := by
  unfold normIdx; split <;> omega

theorem normIdx_of_nonneg (n : Nat) (i : Int) (h : 0 ≤ i) : normIdx n i = i := by
  unfold normIdx; split <;> omega

theorem normIdx_idem (n : Nat) (i : Int) (h : -(n : Int) ≤ i ∧ i < n) :
    normIdx n (normIdx n i) = normIdx n i :=
  normIdx_of_nonneg n _ (normIdx_range n i h).1

/-- first components of `insertCount v l` are `v` or first components of `l` -/
theorem fst_mem_insertCount (v : Int) (l : List (Int × Nat)) (u : Int × Nat)
    (hu : u ∈ insertCount v l) : u.1 = v ∨ ∃ u' ∈ l, u'.1 = u.1 := by
  induction l with
  | nil => simp [insertCount] at hu; simp [hu]
  | cons w l ih =>
    obtain ⟨w, c⟩ := w
    simp only [insertCount] at hu
    split at hu
    · rcases List.mem_cons.mp hu with h | h
      · left; rw [h]
      · right; exact ⟨u, h, rfl⟩
    · split at hu
      · rename_i h; subst h
        rcases List.mem_cons.mp hu with h | h
        · left; rw [h]
        · right; exact ⟨u, List.mem_cons_of_mem _ h, rfl⟩
      · rcases List.mem_cons.mp hu with h | h
        · right; exact ⟨(w, c), List.mem_cons_self, by rw [h]⟩
        · rcases ih h with h' | ⟨u', hu', e⟩
          · left; exact h'
          · right; exact ⟨u', List.mem_cons_of_mem _ hu', e⟩

theorem fst_mem_uniqueCounts (xs : List Int) (u : Int × Nat) (hu : u ∈ uniqueCounts xs) :
    u.1 ∈ xs := by
  induction xs generalizing u with
  | nil => simp [uniqueCounts] at hu
  | cons x xs ih =>
    have e : uniqueCounts (x :: xs) = insertCount x (uniqueCounts xs) := rfl
    rw [e] at hu
    rcases fst_mem_insertCount _ _ _ hu with h | ⟨u', hu', e'⟩
    · rw [h]; exact List.mem_cons_self
    · rw [← e']; exact List.mem_cons_of_mem _ (ih u' hu')

/-- `insertCount` keeps the first components strictly increasing -/
theorem pairwise_insertCount (v : Int) (l : List (Int × Nat))
    (hl : l.Pairwise fun a b => a.1 < b.1) :
    (insertCount v l).Pairwise fun a b => a.1 < b.1 := by
  induction l with
  | nil => simp [insertCount]
  | cons w l ih =>
    obtain ⟨w, c⟩ := w
    obtain ⟨hw, hl'⟩ := List.pairwise_cons.mp hl
    simp only [insertCount]
    split
    · rename_i hvw
      refine List.pairwise_cons.mpr ⟨?_, hl⟩
      intro b hb
      rcases List.mem_cons.mp hb with h | h
      · rw [h]; exact hvw
      · have := hw b h; simp only at this ⊢; omega
    · split
      · exact List.pairwise_cons.mpr ⟨hw, hl'⟩
      · rename_i h1 h2
        refine List.pairwise_cons.mpr ⟨?_, ih hl'⟩
        intro b hb
        rcases fst_mem_insertCount _ _ _ hb with h | ⟨u', hu', e⟩
        · simp only; omega
        · rw [← e]; exact hw u' hu'

theorem pairwise_uniqueCounts (xs : List Int) :
    (uniqueCounts xs).Pairwise fun a b => a.1 < b.1 := by
  induction xs with
  | nil => simp [uniqueCounts]
  | cons x xs ih => exact pairwise_insertCount x _ ih

/-- a strictly increasing list of integers in `[lo, hi)` has at most `hi - lo` entries -/
theorem pairwise_length_le (l : List (Int × Nat)) (hi : Int)
    (hp : l.Pairwise fun a b => a.1 < b.1) :
    ∀ lo : Int, lo ≤ hi → (∀ u ∈ l, lo ≤ u.1 ∧ u.1 < hi) → lo + l.length ≤ hi := by
  induction l with
  | nil => intro lo h _; simpa using h
  | cons w l ih =>
    intro lo hlo hb
    obtain ⟨hw, hl'⟩ := List.pairwise_cons.mp hp
    have hwb := hb w List.mem_cons_self
    have := ih hl' (w.1 + 1) (by omega) (fun u hu => by
      have h1 := hw u hu
      have h2 := hb u (List.mem_cons_of_mem _ hu)
      omega)
    simp only [List.length_cons, Int.natCast_add, Int.natCast_one]
    omega

theorem uniqueCounts_length_le (n : Nat) (xs : List Int) (h : ∀ i ∈ xs, 0 ≤ i ∧ i < (n : Int)) :
    (uniqueCounts xs).length ≤ n := by
  have := pairwise_length_le (uniqueCounts xs) n (pairwise_uniqueCounts xs) 0 (by omega)
    (fun u hu => h u.1 (fst_mem_uniqueCounts xs u hu))
  omega

theorem sumCounts_append (a b : List (Int × Nat)) :
    sumCounts (a ++ b) = sumCounts a + sumCounts b := by
  simp [sumCounts]

theorem sumCounts_zero (l : List (Int × Nat)) (h : ∀ u ∈ l, u.2 = 0) : sumCounts l = 0 := by
  induction l with
  | nil => simp [sumCounts]
  | cons u l ih =>
    have h1 := h u List.mem_cons_self
    have h2 := ih fun v hv => h v (List.mem_cons_of_mem _ hv)
    simp only [sumCounts, List.map_cons, List.sum_cons] at h2 ⊢
    omega

/-- the `fill_value` entries `(-1, 0)` of `unique(size=n)` carry count zero and change nothing -/
theorem scatterAddCounts_append_pad (n : Nat) (u : List (Int × Nat)) (k : Nat) (f : Int) :
    scatterAddCounts n (u ++ List.replicate k (f, 0)) = scatterAddCounts n u := by
  unfold scatterAddCounts
  apply List.map_congr_left
  intro p _
  rw [foldl_counts, foldl_counts, List.filter_append, sumCounts_append]
  have : sumCounts ((List.replicate k (f, 0)).filter
      fun (u : Int × Nat) => decide (normIdx n u.1 = Int.ofNat p)) = 0 := by
    apply sumCounts_zero
    intro v hv
    have := (List.mem_filter.mp hv).1
    rw [List.eq_of_mem_replicate this]
  omega

/-- `unique(size=n, fill_value=-1)` neither truncates nor changes the scatter-add when all values are in
`[0, n)` -/
theorem scatterAddCounts_uniqueSized (n : Nat) (xs : List Int) (h : ∀ i ∈ xs, 0 ≤ i ∧ i < (n : Int)) :
    scatterAddCounts n (uniqueSized xs n) = scatterAddCounts n (uniqueCounts xs) := by
  unfold uniqueSized
  simp only
  rw [List.take_of_length_le (uniqueCounts_length_le n xs h), scatterAddCounts_append_pad]

theorem scatterAddCounts_uniqueCounts (n : Nat) (xs : List Int) :
    scatterAddCounts n (uniqueCounts xs) = mult n xs :=
  coverage_eq n xs

theorem mult_map_normIdx (n : Nat) (index : List Int) (h : ∀ i ∈ index, -(n : Int) ≤ i ∧ i < n) :
    mult n (index.map (normIdx n)) = mult n index := by
  unfold mult
  apply List.map_congr_left
  intro p _
  rw [List.filter_map, List.length_map]
  congr 1
  apply List.filter_congr
  intro i hi
  simp only [Function.comp_apply, normIdx_idem n i (h i hi)]

/-- **Coverage rule.** For every in-bounds integer index array (negative and repeated entries
allowed) the diagonal computed by `TransposeIndexRule` is the vector of selection multiplicities. -/
theorem ruleCoverage_eq_mult (n : Nat) (index : List Int)
    (h : ∀ i ∈ index, -(n : Int) ≤ i ∧ i < n) : ruleCoverage n index = mult n index := by
  unfold ruleCoverage
  rw [scatterAddCounts_uniqueSized, scatterAddCounts_uniqueCounts, mult_map_normIdx n index h]
  intro i hi
  obtain ⟨j, hj, e⟩ := List.mem_map.mp hi
  rw [← e]
  exact normIdx_range n j (h j hj)

/-- the code before the repair of finding F2 (no normalisation before `unique`) is wrong -/
theorem unnormalised_rule_wrong :
    ruleCoverageUnnormalised 3 [0, 1, 2, -1, -2, -3] ≠ mult 3 [0, 1, 2, -1, -2, -3] := by
  decide

/-! ## B. gather / scatter-add -/

section AddMonoid
variable {α : Type} [AddMonoid α]

/-- the value accumulated at position `p` -/
def bucket (pos : List Nat) (y : List α) (p : Nat) : α :=
  (((pos.zip y).filter fun (q : Nat × α) => q.1 == p).map (·.2)).sum

theorem foldl_add_snd (l : List (Nat × α)) (a : α) :
    l.foldl (fun acc (q : Nat × α) => acc + q.2) a = a + (l.map (·.2)).sum := by
  induction l generalizing a with
  | nil => simp
  | cons q l ih => simp only [List.foldl_cons, ih, List.map_cons, List.sum_cons, add_assoc]

theorem scatterAdd_eq (n : Nat) (pos : List Nat) (y : List α) :
    scatterAdd n pos y = (List.range n).map (bucket pos y) := by
  unfold scatterAdd
  apply List.map_congr_left
  intro p _
  rw [foldl_add_snd, zero_add]
  rfl

theorem bucket_nil (y : List α) (p : Nat) : bucket [] y p = 0 := by
  simp [bucket]

theorem bucket_cons (a : Nat) (pos : List Nat) (b : α) (y : List α) (p : Nat) :
    bucket (a :: pos) (b :: y) p = (if a = p then b else 0) + bucket pos y p := by
  unfold bucket
  rw [List.zip_cons_cons, List.filter_cons]
  by_cases h : a = p <;> simp [h]

theorem bucket_not_mem (pos : List Nat) (y : List α) (p : Nat) (h : p ∉ pos) : bucket pos y p = 0 := by
  induction pos generalizing y with
  | nil => exact bucket_nil y p
  | cons a pos ih =>
    cases y with
    | nil => simp [bucket]
    | cons b y =>
      rw [bucket_cons, ih y (fun hp => h (List.mem_cons_of_mem _ hp))]
      have : a ≠ p := fun e => h (by rw [e]; exact List.mem_cons_self)
      simp [this]

theorem getD_of_lt {β : Type} (l : List β) (p : Nat) (h : p < l.length) (d : β) :
    l.getD p d = l[p] := by
  simp [List.getD_eq_getElem?_getD, List.getElem?_eq_getElem h]

theorem getD_range_map {β : Type} (n : Nat) (f : Nat → β) (p : Nat) (hp : p < n) (d : β) :
    ((List.range n).map f).getD p d = f p := by
  rw [getD_of_lt _ _ (by simpa using hp)]
  simp

omit [AddMonoid α] in
theorem gather_length [Inhabited α] (pos : List Nat) (x : List α) :
    (gather pos x).length = pos.length := by
  simp [gather]

theorem scatterAdd_length (n : Nat) (pos : List Nat) (y : List α) :
    (scatterAdd n pos y).length = n := by
  simp [scatterAdd]

theorem gather_scatterAdd [Inhabited α] (n : Nat) (pos : List Nat) (y : List α)
    (hpos : ∀ p ∈ pos, p < n) :
    gather pos (scatterAdd n pos y) = pos.map (bucket pos y) := by
  unfold gather
  apply List.map_congr_left
  intro p hp
  rw [scatterAdd_eq, getD_range_map n _ p (hpos p hp)]

theorem map_bucket_nodup (pos : List Nat) (y : List α) (hnd : pos.Nodup)
    (hy : y.length = pos.length) : pos.map (bucket pos y) = y := by
  induction pos generalizing y with
  | nil =>
    cases y with
    | nil => rfl
    | cons b y => simp at hy
  | cons a pos ih =>
    cases y with
    | nil => simp at hy
    | cons b y =>
      obtain ⟨ha, hnd'⟩ := List.nodup_cons.mp hnd
      simp only [List.length_cons, Nat.add_right_cancel_iff] at hy
      rw [List.map_cons, bucket_cons, bucket_not_mem pos y a ha]
      simp only [if_true, add_zero]
      congr 1
      rw [← ih y hnd' hy]
      apply List.map_congr_left
      intro p hp
      rw [bucket_cons, ih y hnd' hy]
      have : a ≠ p := fun e => ha (by rw [e]; exact hp)
      simp [this]

/-- **`P Pᵀ = I`** when no input element is selected twice. -/
theorem gather_scatter_id [Inhabited α] (n : Nat) (pos : List Nat) (y : List α)
    (hnd : pos.Nodup) (hpos : ∀ p ∈ pos, p < n) (hy : y.length = pos.length) :
    gather pos (scatterAdd n pos y) = y := by
  rw [gather_scatterAdd n pos y hpos, map_bucket_nodup pos y hnd hy]

end AddMonoid

section Semiring
variable {α : Type} [CommSemiring α]

theorem eq_range_map_getD (n : Nat) (x : List α) (hx : x.length = n) :
    x = (List.range n).map fun p => x.getD p 0 := by
  apply List.ext_getElem
  · simp [hx]
  · intro i h1 h2
    simp [List.getElem?_eq_getElem h1]

theorem sum_map_add_list (l : List Nat) (f g : Nat → α) :
    (l.map fun p => f p + g p).sum = (l.map f).sum + (l.map g).sum := by
  induction l with
  | nil => simp
  | cons a l ih =>
    simp only [List.map_cons, List.sum_cons, ih]
    ring

theorem sum_map_zero_list (l : List Nat) : (l.map fun _ => (0 : α)).sum = 0 := by
  induction l with
  | nil => simp
  | cons a l ih => simp only [List.map_cons, List.sum_cons, ih, add_zero]

theorem sum_indicator (n : Nat) (a : Nat) (f : Nat → α) :
    ((List.range n).map fun p => if a = p then f p else 0).sum = if a < n then f a else 0 := by
  induction n with
  | zero => simp
  | succ n ih =>
    rw [List.range_succ, List.map_append, List.sum_append, ih]
    simp only [List.map_cons, List.map_nil, List.sum_cons, List.sum_nil, add_zero]
    by_cases h1 : a < n
    · have h2 : a ≠ n := by omega
      have h3 : a < n + 1 := by omega
      simp [h1, h2, h3]
    · by_cases h2 : a = n
      · subst h2; simp
      · have h3 : ¬ a < n + 1 := by omega
        simp [h1, h2, h3]

/-- the inner product `⟨Pᵀ y, x⟩` written pointwise -/
theorem inner_scatterAdd (n : Nat) (pos : List Nat) (y x : List α) (hx : x.length = n) :
    (((scatterAdd n pos y).zip x).map fun p => p.1 * p.2).sum
      = ((List.range n).map fun p => bucket pos y p * x.getD p 0).sum := by
  rw [scatterAdd_eq]
  conv => lhs; rw [eq_range_map_getD n x hx]
  rw [List.zip_map', List.map_map]
  rfl

/-- **Adjointness** `⟨P x, y⟩ = ⟨x, Pᵀ y⟩`: the scatter-add is the exact transpose of the gather. -/
theorem scatter_adjoint [Inhabited α] (n : Nat) (pos : List Nat) (y x : List α)
    (hpos : ∀ p ∈ pos, p < n) (hy : y.length = pos.length) (hx : x.length = n) :
    (((gather pos x).zip y).map fun p => p.1 * p.2).sum
      = (((scatterAdd n pos y).zip x).map fun p => p.1 * p.2).sum := by
  rw [inner_scatterAdd n pos y x hx]
  induction pos generalizing y with
  | nil => simp [gather, bucket_nil, sum_map_zero_list]
  | cons a pos ih =>
    cases y with
    | nil => simp at hy
    | cons b y =>
      simp only [List.length_cons, Nat.add_right_cancel_iff] at hy
      have ha : a < n := hpos a List.mem_cons_self
      have ih' := ih y (fun p hp => hpos p (List.mem_cons_of_mem _ hp)) hy
      have e : (fun p => bucket (a :: pos) (b :: y) p * x.getD p 0)
          = fun p => (if a = p then b * x.getD p 0 else 0) + bucket pos y p * x.getD p 0 := by
        funext p
        rw [bucket_cons]
        by_cases h : a = p <;> simp [h, add_mul]
      rw [e, sum_map_add_list, sum_indicator, ← ih']
      have hax : a < x.length := by omega
      simp only [gather, List.map_cons, List.zip_cons_cons, List.sum_cons, if_pos ha,
        getD_of_lt _ _ hax]
      ring

theorem bucket_gather [Inhabited α] (pos : List Nat) (x : List α) (hpos : ∀ p ∈ pos, p < x.length)
    (p : Nat) : bucket pos (gather pos x) p = (pos.count p : α) * x.getD p 0 := by
  induction pos with
  | nil => simp [bucket_nil]
  | cons a pos ih =>
    have ha : a < x.length := hpos a List.mem_cons_self
    have ih' := ih fun q hq => hpos q (List.mem_cons_of_mem _ hq)
    have e : gather (a :: pos) x = x.getD a default :: gather pos x := rfl
    rw [e, bucket_cons, ih', List.count_cons]
    by_cases h : a = p
    · subst h
      simp only [if_true, beq_self_eq_true, Nat.cast_add, Nat.cast_one,
        getD_of_lt _ _ ha]
      ring
    · have : (a == p) = false := by simpa using h
      simp [h, this]

/-- **`Pᵀ P` is the diagonal of the selection multiplicities.** -/
theorem scatter_gather_mult [Inhabited α] (n : Nat) (pos : List Nat) (x : List α)
    (hpos : ∀ p ∈ pos, p < n) (hx : x.length = n) :
    scatterAdd n pos (gather pos x)
      = (List.range n).map fun p => (pos.count p : α) * x.getD p 0 := by
  rw [scatterAdd_eq]
  apply List.map_congr_left
  intro p _
  exact bucket_gather pos x (fun q hq => hx ▸ hpos q hq) p

end Semiring

/-- the `Nodup` hypothesis of `gather_scatter_id` is necessary -/
theorem gather_scatter_dup : gather [0, 0] (scatterAdd 1 [0, 0] [(1 : Int), 2]) ≠ [1, 2] := by
  decide


end Furax.Index
